(* C10 presence model runner.  Input: scenario lines of tools/props/c10.py; output: the
   same canonical blocks as harness/overlay/server/zz_verif_c10_test.go.  After every
   client operation the network is drained in global FIFO order (quiescence). *)
open Conv
open Pres
open PresStuckC10

(* state of Sys/Pres.v + the stuck sessions (Sys/PresStuckC10.v); without clog ops xstep_c10x = Pres.step
   (theorem c10_stuck_conservative) *)
let st : state ref = ref init
let stuck_c10x_ids : BinNums.coq_N list ref = ref []
let su : (int * int) list ref = ref []
let opi = ref 0
let fuel = nat_of_int 100000

let tok (t : tname) : string = match t with
  | TMe u -> "u" ^ string_of_n u
  | TGrp g -> "g" ^ string_of_n g
  | TP2P (a, b) -> "p" ^ string_of_n a ^ "." ^ string_of_n b
let abs_tok (t : tname) : string = match t with TMe u -> "m" ^ string_of_n u | _ -> tok t
let what_str = function
  | WOn -> "on" | WOff -> "off" | WUnkn -> "?unkn" | WNone -> "?none" | WGone -> "gone" | WMsg -> "msg"
  | WAcs -> "acs" | WUpd -> "upd" | WOther -> "other" | WDel -> "del" | WRead -> "read" | WRecv -> "recv"
  | WIRead -> "i:read" | WIRecv -> "i:recv" | WIKp -> "i:kp"
let b2s b = if b then "1" else "0"

let out_str (o : out) : string option = match o with
  | Frame (sid, user, top, src, w) ->
    let seen = match top with
      | TMe _ -> "me"
      | TP2P (a, b) -> if int_of_n user = int_of_n a then "u" ^ string_of_n b else "u" ^ string_of_n a
      | TGrp _ -> tok top in
    Some (Printf.sprintf "F %d %s %s %s" (int_of_n sid) seen (tok src) (what_str w))
  | Ctrl (sid, code) -> Some (Printf.sprintf "C %d %d" (int_of_n sid) (int_of_z code))
  | Skipped -> Some "skipped"
  | Unmodelled -> Some "unmodelled"

let parse_ref (r : string) : tref =
  if r = "me" then RMe
  else if r.[0] = 'p' then RP2P (n_of_string (String.sub r 1 (String.length r - 1)))
  else RGrp (n_of_string (String.sub r 1 (String.length r - 1)))

let parse_abs (r : string) : tname =
  let rest = String.sub r 1 (String.length r - 1) in
  match r.[0] with
  | 'm' -> TMe (n_of_string rest)
  | 'g' -> TGrp (n_of_string rest)
  | _ -> (match String.split_on_char '.' rest with
          | [a; b] -> TP2P (n_of_string a, n_of_string b)
          | _ -> failwith "bad p2p token")

let user_of sid = try List.assoc sid !su with Not_found -> 0

let sess_bkg_str (s : state) (sid : BinNums.coq_N) : string = b2s (sess_bkg s sid)

let dump (s : state) : string list =
  let lines = ref [] in
  let add l = lines := l :: !lines in
  List.iter (fun (u, m) ->
    let tk = "m" ^ string_of_n u in
    let sl = List.sort compare (List.map (fun sid ->
      Printf.sprintf "%d:%d:%s" (int_of_n sid) (int_of_n u) (sess_bkg_str s sid)) m.me_sess) in
    add (Printf.sprintf "T %s marked=%s online=%s sess=%s" tk (b2s m.me_marked) (string_of_z m.me_online)
           (if sl = [] then "-" else String.concat "," sl));
    List.iter (fun (c, p) -> add (Printf.sprintf "PS %s %s on=%s en=%s" tk (tok c) (b2s p.ps_on) (b2s p.ps_en))) m.me_subs)
    s.s_me;
  List.iter (fun (t, x) ->
    let tk = tok t in
    if x.t_loaded then begin
      let sl = List.sort compare (List.map (fun (sid, uid) ->
        Printf.sprintf "%d:%d:%s" (int_of_n sid) (int_of_n uid) (sess_bkg_str s sid)) x.t_sess) in
      add (Printf.sprintf "T %s marked=%s sess=%s" tk (b2s x.t_marked) (if sl = [] then "-" else String.concat "," sl));
      (* perUser: a p2p entry stays (deleted=1) after an unsubscribe, a group entry is dropped *)
      let isp2p = (match t with TP2P _ -> true | _ -> false) in
      List.iter (fun (u, p) ->
        if isp2p || not p.p_deleted then
          add (Printf.sprintf "U %s %d want=%d given=%d online=%s deleted=%s" tk (int_of_n u) (int_of_n p.p_want) (int_of_n p.p_given)
                 (string_of_z p.p_online) (b2s p.p_deleted))) x.t_users
    end;
    List.iter (fun (u, p) ->
      add (Printf.sprintf "R %s %d want=%d given=%d deleted=%s" tk (int_of_n u) (int_of_n p.p_want) (int_of_n p.p_given) (b2s p.p_deleted)))
      x.t_users) s.s_top;
  List.sort compare !lines

let key_of (t : tname) = match t with
  | TMe u -> (0, int_of_n u, 0) | TP2P (a, b) -> (1, int_of_n a, int_of_n b) | TGrp g -> (2, int_of_n g, 0)

let handle (w : string list) : string =
  match w with
  | "scn" :: id :: _ -> st := init; stuck_c10x_ids := []; su := []; opi := 0; "scn " ^ id
  | ["sess"; sid; u] -> su := (int_of_string sid, int_of_string u) :: !su; ""
  | "end" :: _ -> "end"
  | "op" :: kind :: a ->
    incr opi;
    let outs = ref [] in
    let do_xop (o : xop_c10x) =
      let (s1, o1) = xstep_c10x (!st, !stuck_c10x_ids) o in
      let ((s2, k2), o2) = xdrain_c10x fuel s1 in
      st := s2; stuck_c10x_ids := k2; outs := !outs @ o1 @ o2 in
    let do_op (o : op) = do_xop (XOp o) in
    let n i = n_of_string (List.nth a i) in
    let sid_user i = n_of_int (user_of (int_of_string (List.nth a i))) in
    let flag i = List.length a > i && List.nth a i = "1" in
    (match kind with
     | "new" -> do_op (New (n 0, sid_user 0, n 1, flag 2))
     | "att" -> do_op (Att (n 0, sid_user 0, parse_ref (List.nth a 1), flag 2))
     | "det" -> do_op (Det (n 0, parse_ref (List.nth a 1)))
     | "unsub" -> do_op (Unsub (n 0, parse_ref (List.nth a 1)))
     | "disc" -> do_op (Disc (n 0))
     | "fg" -> do_op (Fg (n 0))
     | "want" -> do_op (Want (n 0, parse_ref (List.nth a 1), n 2))
     | "given" -> do_op (Given (n 0, parse_ref (List.nth a 1), n 2, n 3))
     | "evict" -> do_op (Evict (n 0, parse_ref (List.nth a 1), n 2))
     | "pub" -> do_op (Pub (n 0, parse_ref (List.nth a 1)))
     | "note" ->
       let w = (match List.nth a 2 with "kp" -> WIKp | "read" -> WIRead | "recv" -> WIRecv | _ -> WOther) in
       do_op (Note (n 0, sid_user 0, parse_ref (List.nth a 1), w, z_of_string (List.nth a 3)))
     | "delmsg" -> do_op (DelMsg (n 0, parse_ref (List.nth a 1), flag 2))
     | "clog" -> do_xop (XClog (n 0))
     | "unclog" -> do_xop (XUnclog (n 0))
     | "unload" -> do_op (Unload (parse_abs (List.nth a 0)))
     | "unload1" -> do_op (UnloadHub (parse_abs (List.nth a 0)))
     | "unload2" -> do_op (UnloadOff (parse_abs (List.nth a 0)))
     | "unloadall" ->
       let ts = List.sort (fun x y -> compare (key_of x) (key_of y)) (idle_topics !st) in
       List.iter (fun t -> if idle !st t then do_op (Unload t)) ts;
       outs := List.filter (fun o -> o <> Skipped) !outs
     | _ -> outs := [Skipped]);
    let fl = List.sort compare (List.filter_map out_str !outs) in
    let hang = if (!st).s_net <> [] then ["HANG model network not drained"] else [] in
    String.concat "\n" (("op " ^ string_of_int !opi) :: fl @ hang @ dump !st)
  | _ -> ""
