(* C14 model runner: SEQUENTIAL schedules.  Input: "scn id" / "sess si user" / "topic k owner [ischan]" /
   "op kind si rid k arg [grp|chn]" / "op unload k" / "end" (ischan: the topic has channel functionality;
   grp|chn: the name form the client wrote); each client request is one client step of
   Lifecycle.exec followed by Lifecycle.settle (internal steps in a fixed order until none is
   enabled).  Output per op: new outbox entries per session and the attachment state, in the
   vocabulary of the Go driver's output (tools/props/c14.py compares them). *)
open Conv
open Lifecycle

let users : (int * int) list ref = ref []
let owners : (int * int) list ref = ref []
let chans : int list ref = ref []
let cfg : config option ref = ref None
let seen : (int * int) list ref = ref []      (* session -> outbox entries already printed *)
let ridmap : (int * string) list ref = ref [] (* model rid -> scenario rid *)
let buf = Buffer.create 256

let n = nat_of_int
let i = int_of_nat
let code_num = function
  | COk -> 200 | CAlready -> 304 | CNotJoined -> 304 | CAttachFirst -> 409 | CLocked -> 503
  | CNotFound -> 404 | CDenied -> 403 | CNoAction -> 304 | CEvicted -> 205 | CUseOther -> 303 | CInternal -> 500

let sids () = List.sort compare (List.map fst !users)
let tids () = List.sort compare (List.map fst !owners)

let start () =
  let user s = n (try List.assoc (i s) !users with Not_found -> 0) in
  let owner t = n (try List.assoc (i t) !owners with Not_found -> 0) in
  let stored t = List.mem_assoc (i t) !owners in
  let ischan t = List.mem (i t) !chans in
  cfg := Some (init_config stored owner user ischan)

let get () = (match !cfg with None -> start () | Some _ -> ()); (match !cfg with Some c -> c | None -> assert false)

let rec drop k l = if k <= 0 then l else match l with [] -> [] | _ :: r -> drop (k - 1) r

let emit (c : config) =
  List.iter (fun s ->
    let x = c.c_sess (n s) in
    let k = try List.assoc s !seen with Not_found -> 0 in
    List.iter (fun p ->
      (match p.p_rid with
       | Some r -> Buffer.add_string buf (Printf.sprintf "f %d %s %d\n" s (try List.assoc (i r) !ridmap with Not_found -> "?") (code_num p.p_code))
       | None -> Buffer.add_string buf (Printf.sprintf "f %d - %d %d\n" s (code_num p.p_code) (i p.p_topic))))
      (drop k x.s_out);
    seen := (s, List.length x.s_out) :: List.remove_assoc s !seen) (sids ());
  List.iter (fun s ->
    let x = c.c_sess (n s) in
    List.iter (fun (t, _) -> Buffer.add_string buf (Printf.sprintf "sub %d %d\n" s (i t))) x.s_subs;
    if x.s_term then Buffer.add_string buf (Printf.sprintf "term %d\n" s)) (sids ());
  List.iter (fun t ->
    let loaded = match c.c_table (n t) with
      | Some j ->
        let y = c.c_inst j in
        (match y.i_phase with
         | PRun ->
           List.iter (fun s -> Buffer.add_string buf (Printf.sprintf "att %d %d\n" t (i s))) y.i_sessions;
           List.iter (fun s -> if mem s y.i_sessions then Buffer.add_string buf (Printf.sprintf "catt %d %d\n" t (i s))) y.i_chansub
         | _ -> ());
        (* round s14d: (paused, deleted) of the status word of the registered instance *)
        let (p, d) = TopicStatusC14d.status_flags (LifecycleFailDelC14d.abs_status y) in
        Buffer.add_string buf (Printf.sprintf "flags %d %d %d\n" t (if p then 1 else 0) (if d then 1 else 0));
        1
      | None -> 0 in
    Buffer.add_string buf (Printf.sprintf "topic %d %d %d\n" t loaded (if c.c_store (n t) then 1 else 0))) (tids ())

let settle_all c = settle (n 400) (List.map n (sids ())) c

let client (l : label) (rid : string) =
  let c = get () in
  ridmap := (i c.c_nextrid, rid) :: !ridmap;
  match exec l c with
  | Some c' -> cfg := Some (settle_all c')
  | None -> Buffer.add_string buf "disabled\n"

let flush_out () = let s = Buffer.contents buf in Buffer.clear buf;
  if String.length s > 0 && s.[String.length s - 1] = '\n' then String.sub s 0 (String.length s - 1) else s

let handle (w : string list) : string =
  match w with
  | ["scn"; id] -> users := []; owners := []; chans := []; cfg := None; seen := []; ridmap := []; "scn " ^ id
  | ["sess"; s; u] -> users := (int_of_string s, int_of_string u) :: !users; "ok"
  | ["topic"; k; o] -> owners := (int_of_string k, int_of_string o) :: !owners; "ok"
  | ["topic"; k; o; ch] ->
    owners := (int_of_string k, int_of_string o) :: !owners;
    if ch = "1" then chans := int_of_string k :: !chans; "ok"
  | ["op"; "unload"; k] ->
    let c = get () in
    Buffer.add_string buf "op\n";
    (match c.c_table (n (int_of_string k)) with
     | Some j -> (match exec (IdleTimeout j) c with Some c' -> cfg := Some (settle_all c') | None -> ())
     | None -> ());
    emit (get ()); flush_out ()
  | ["op"; kind; s; rid; k; arg] | ["op"; kind; s; rid; k; arg; _] ->
    let ch = (match w with [_; _; _; _; _; _; f] -> f = "chn" | _ -> false) in
    let s = n (int_of_string s) and k = n (int_of_string k) in
    Buffer.add_string buf "op\n";
    (match kind with
     | "sub" -> client (ClientSub (s, k, ch)) rid
     | "leave" -> client (ClientLeave (s, k, arg = "1", ch)) rid
     | "deltopic" -> client (ClientDel (s, k)) rid
     | "deltopicfail" ->
       (* round s14d: the owner's {del topic} whose store.Topics.Delete call fails: the client step, then the hub takes
          the request with [HubUnregFail] when that step is enabled (= the store call is reached), else as usual.
          "fdstatus k p d": (paused, deleted) of TopicStatusC14d.unreg_del_status true applied to the status word the
          registered instance had BEFORE the step (what the code's own status operations leave) *)
       let c = get () in
       ridmap := (i c.c_nextrid, rid) :: !ridmap;
       (match exec (ClientDel (s, k)) c with
        | Some c1 ->
          (match exec HubUnregFail c1 with
           | Some c2 ->
             (match c1.c_table k with
              | Some j ->
                let (p, d) = TopicStatusC14d.status_flags (TopicStatusC14d.unreg_del_status true (LifecycleFailDelC14d.abs_status (c1.c_inst j))) in
                Buffer.add_string buf (Printf.sprintf "fdstatus %d %d %d\n" (i k) (if p then 1 else 0) (if d then 1 else 0))
              | None -> ());
             Buffer.add_string buf (Printf.sprintf "fired %s\n" rid);
             cfg := Some (settle_all c2)
           | None -> cfg := Some (settle_all c1))
        | None -> Buffer.add_string buf "disabled\n")
     | "disc" ->
       let c = get () in
       (match exec (DiscBegin s) c with
        | Some c1 -> let c1 = settle_all c1 in
          (match exec (DiscEnd s) c1 with Some c2 -> cfg := Some (settle_all c2) | None -> cfg := Some c1)
        | None -> ())
     | _ -> Buffer.add_string buf "unknown\n");
    emit (get ()); flush_out ()
  | ["end"] -> "end"
  | _ -> "?"
