(* C05 model runner: one request per line, one answer per line. *)
open Conv
let b2s b = if b then "1" else "0"
let handle (w : string list) : string =
  match w with
  | ["M"; m] -> (match Acs.marshal (n_of_string m) with Some s -> "M ok " ^ hex_of_bytes s | None -> "M err")
  | ["P"; h] -> (match Acs.parse_acs (bytes_of_hex h) with Some m -> "P " ^ string_of_n m | None -> "P err")
  | ["U"; c; h] -> let (m, ok) = Acs.unmarshal_text (n_of_string c) (bytes_of_hex h) in "U " ^ string_of_n m ^ " " ^ b2s ok
  | ["D"; o; n] -> "D " ^ hex_of_bytes (Acs.delta (n_of_string o) (n_of_string n))
  | ["A"; c; h] -> let (m, ok) = Acs.apply_delta (n_of_string c) (bytes_of_hex h) in "A " ^ string_of_n m ^ " " ^ b2s ok
  | ["X"; c; h] -> let (m, ok) = Acs.apply_mutation (n_of_string c) (bytes_of_hex h) in "X " ^ string_of_n m ^ " " ^ b2s ok
  | ["RT"; m; c] ->
    (match Acs.marshal (n_of_string m) with
     | None -> "RT err"
     | Some s -> let (r, ok) = Acs.unmarshal_text (n_of_string c) s in
       "RT " ^ hex_of_bytes s ^ " " ^ string_of_n r ^ " " ^ b2s ok)
  | ["DA"; o; n] ->
    let d = Acs.delta (n_of_string o) (n_of_string n) in
    let (r, ok) = Acs.apply_delta (n_of_string o) d in
    "DA " ^ hex_of_bytes d ^ " " ^ string_of_n r ^ " " ^ b2s ok
  | ["PR"; m; x] ->
    let m = n_of_string m and x = n_of_string x in
    let e = Acs.effective m x in
    "PR " ^ String.concat "" (List.map b2s
      [Topic.is_joiner m; Topic.is_reader m; Topic.is_writer m; Topic.is_presencer m; AcsSitesC05.is_approver m;
       Topic.is_sharer m; Topic.is_deleter m; Topic.is_owner m; Topic.is_admin m;
       AcsPredTie.is_zero m; AcsPredTie.is_invalid m; Acs.is_defined m; Acs.better_than m x; Acs.better_equal m x;
       Topic.is_writer e; Topic.is_reader e; Topic.is_owner e])
  | _ -> "?"
