(* C05 layer 3 model runner (Sys/AcsSitesC05.v): one request per line, one answer per line.
   A text token is "_" (JSON key absent) or "-" (empty string) - the same Go value "" - or hex bytes.
   The defacs token is A (no desc), E (desc without defacs) or P (defacs object present).
     SD <me|grp> <att> <auth> <anon> <A|E|P> <tok> <tok> -> SD <code> <auth> <anon> <hex text auth> <hex text anon>
     NG <chan> <A|E|P> <tok> <tok>                       -> NG <auth> <anon> <hex> <hex>
     AC <A|E|P> <tok> <tok> [basic]                      -> AC <auth> <anon> <hex> <hex>
     PP <u1auth> <A|E|P> <tok> <tok>                     -> PP <given>
     SS <grp|p2p> <set|sub|other|off> <af> <want> <given> <tok>
                                                         -> SS err <code> | SS ownerchange | SS done <code> <want> <given>
        (U is not the owner of the topic; the host of "other" is the group's owner with JRWPASDO / the p2p peer with JRWPA) *)
open Conv
let text t = if t = "_" || t = "-" then [] else bytes_of_hex t
let mode d a n = if d = "P" then Some { AcsSitesC05.da_auth = text a; AcsSitesC05.da_anon = text n } else None
let pair (a, n) = string_of_n a ^ " " ^ string_of_n n ^ " " ^ hex_of_bytes (Acs.mode_string a) ^ " " ^ hex_of_bytes (Acs.mode_string n)
let handle (w : string list) : string =
  match w with
  | ["SD"; cat; att; ca; cn; d; a; n] ->
    let c = if cat = "me" then AcsSitesC05.CatMe else AcsSitesC05.CatGrp in
    let (code, r) =
      if att = "1" then AcsSitesC05.set_desc_defacs c (n_of_string ca) (n_of_string cn) (mode d a n)
      else AcsSitesC05.offline_set_desc_defacs (n_of_string ca) (n_of_string cn) (mode d a n) in
    "SD " ^ string_of_n code ^ " " ^ pair r
  | ["NG"; ch; d; a; n] -> "NG " ^ pair (AcsSitesC05.new_grp_defacs (ch = "1") (mode d a n))
  | ["AC"; d; a; n] | ["AC"; d; a; n; _] -> "AC " ^ pair (AcsSitesC05.acc_defacs (mode d a n))
  | ["PP"; u; d; a; n] -> "PP " ^ string_of_n (AcsSitesC05.p2p_new_given (n_of_string u) (mode d a n))
  | ["SS"; cat; route; af; wa; gi; t] ->
    let p2p = (cat = "p2p") in
    let c = if p2p then AcsSitesC05.SP2P else AcsSitesC05.SGrp in
    (* Topic.accessAuth of a p2p topic loaded from the store is never assigned: accessFor(LevelAuth) = 0 *)
    let af = if p2p then n_of_int 0 else n_of_string af in
    let ow = n_of_string wa and og = n_of_string gi in
    let r = (match route with
      | "set" | "sub" -> AcsSitesC05.this_user_sub_existing c false af ow og (text t)
      | "other" -> AcsSitesC05.another_user_sub_existing c (if p2p then AcsSitesC05.coq_ModeCP2P else n_of_int 255) (not p2p) false ow og (text t)
      | _ -> AcsSitesC05.offline_set_sub c ow og (text t)) in
    (match r with
     | AcsSitesC05.SsErr code -> "SS err " ^ string_of_n code
     | AcsSitesC05.SsOwnerChange -> "SS ownerchange"
     | AcsSitesC05.SsDone (code, wa', gi') -> "SS done " ^ string_of_n code ^ " " ^ string_of_n wa' ^ " " ^ string_of_n gi')
  | _ -> "?"
