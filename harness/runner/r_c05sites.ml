(* C05 layer 3 model runner (Sys/AcsSitesC05.v): one request per line, one answer per line.
   A text token is "_" (JSON key absent) or "-" (empty string) - the same Go value "" - or hex bytes.
   The defacs token is A (no desc), E (desc without defacs) or P (defacs object present).
     SD <me|grp> <att> <auth> <anon> <A|E|P> <tok> <tok> -> SD <code> <auth> <anon> <hex text auth> <hex text anon>
     NG <chan> <A|E|P> <tok> <tok>                       -> NG <auth> <anon> <hex> <hex>
     AC <A|E|P> <tok> <tok>                              -> AC <auth> <anon> <hex> <hex>
     PP <u1auth> <A|E|P> <tok> <tok>                     -> PP <given> *)
open Conv
let text t = if t = "_" || t = "-" then [] else bytes_of_hex t
let mode d a n = if d = "P" then Some { AcsSitesC05.da_auth = text a; AcsSitesC05.da_anon = text n } else None
let pair (a, n) = string_of_n a ^ " " ^ string_of_n n ^ " " ^ hex_of_bytes (Acs.mode_string a) ^ " " ^ hex_of_bytes (Acs.mode_string n)
let handle (w : string list) : string =
  match w with
  | ["SD"; cat; att; ca; cn; d; a; n] ->
    let c = if cat = "me" then AcsSitesC05.CatMe else AcsSitesC05.CatGrp in
    let (code, r) =
      if att = "1" then AcsSitesC05.set_desc_defacs c (n_of_string ca) (n_of_string cn) (mode d a n)
      else AcsSitesC05.offline_set_desc_defacs (n_of_string ca) (n_of_string cn) (mode d a n) in
    "SD " ^ string_of_n code ^ " " ^ pair r
  | ["NG"; ch; d; a; n] -> "NG " ^ pair (AcsSitesC05.new_grp_defacs (ch = "1") (mode d a n))
  | ["AC"; d; a; n] -> "AC " ^ pair (AcsSitesC05.acc_defacs (mode d a n))
  | ["PP"; u; d; a; n] -> "PP " ^ string_of_n (AcsSitesC05.p2p_new_given (n_of_string u) (mode d a n))
  | _ -> "?"
