(* C01 "several requests in flight" model runner (coq/Sys/TopicBurstC01.v): the scenario head
   lines are those of the topic-history runner (delegated to R_topic); ops:
     op <N|Fk> sub|leave|pub|getdata|getdesc|unload|restart ...   one request (RReq)
     op N timeout | hubunreg | zpub <i> <sid> <content> <noecho> | zexit <i>
     op N hubunregmid <sid> <content> <noecho> | zfinish <i>
     op N burst <held sids a,b|-> <sid> <content> <noecho> ...     k publishes back to back
   Every request goes through the extracted write-loop model [wstep]: WDo for the request,
   WDrain steps for the sessions - held sessions are drained only after the whole burst.
   Same canonical block format as harness/overlay/server/zz_verif_c01b_test.go. *)
open Conv
open Topic
open TopicBurstC01

let rs : rstate option ref = ref None
let opi = ref 0
let burst_calls = ref 0

let dr = TopicInst.del_ranges_i
let nr = TopicInst.norm_ranges_i

let cur () : rstate =
  match !rs with
  | Some r -> r
  | None ->
    let r = { r_x = !R_topic.st; r_pend = Datatypes.O; r_zomb = []; r_issued = [] } in
    rs := Some r; r

let sids () = List.map fst !R_topic.sm

(* drain everything queued for the listed sessions, one frame at a time *)
let rec drain_all (w : wstate) (l : BinNums.coq_N list) : wstate =
  match l with
  | [] -> w
  | sid :: rest ->
    if List.exists (fun (s, _) -> s = sid) w.w_queue then
      (match wstep dr nr !R_topic.sm true w (WDrain sid) with
       | Some w1 -> drain_all w1 l
       | None -> failwith "drain")
    else drain_all w rest

let b2s b = if b then "1" else "0"

let block (invalid : bool) (w : wstate) (issued0 : int) (calls : int) : string =
  let r = w.w_r in
  let x = r.r_x in
  let pushes = List.filter (fun (s, _) -> int_of_n s = 0) w.w_queue in
  let by_sess = List.concat (List.map (fun sid ->
      List.map (fun fr -> "S" ^ string_of_n sid ^ " " ^ R_topic.frame_str fr) (for_sid sid w.w_wire))
      (List.sort compare (sids ()))) in
  let rec drop n l = if n <= 0 then l else match l with [] -> [] | _ :: t -> drop (n - 1) t in
  let issued = drop issued0 r.r_issued in
  String.concat "\n" (("op " ^ string_of_int !opi)
    :: (if invalid then ["invalid"] else [])
    @ List.map (fun (_, fr) -> "S0 " ^ R_topic.frame_str fr) pushes
    @ by_sess
    @ ["issued" ^ String.concat "" (List.map (fun (n, ok) -> " " ^ string_of_z n ^ ":" ^ b2s ok) issued);
       "calls " ^ string_of_int calls;
       "loaded " ^ (match x.ca with Some _ -> "1" | None -> "0")]
    @ List.map (fun l -> "store " ^ l) (R_topic.store_str x.st)
    @ (match x.ca with
       | None -> []
       | Some c ->
         ("cache lastid=" ^ string_of_z c.c_lastid ^ " delid=" ^ string_of_z c.c_delid ^ " owner=" ^ string_of_n c.c_owner)
         :: List.sort compare (List.map (fun (u, p) ->
              Printf.sprintf "cache user %d %s/%s read=%s recv=%s del=%s online=%s" (int_of_n u) (R_topic.mode_str p.p_want)
                (R_topic.mode_str p.p_given) (string_of_z p.p_read) (string_of_z p.p_recv) (string_of_z p.p_delid) (string_of_z p.p_online)) c.c_users)
         @ List.sort compare (List.map (fun (sid, (u, bkg)) ->
              Printf.sprintf "cache sess %s user=%d bkg=%s" (string_of_n sid) (int_of_n u) (b2s bkg)) c.c_sess))
    @ List.mapi (fun i z ->
        Printf.sprintf "zombie %d lastid=%s deleted=%s busy=%s sess=%s" i (string_of_z z.z_ca.c_lastid) (b2s z.z_deleted)
          (match z.z_inflight with Some _ -> "1" | None -> "0")
          (String.concat "," (List.sort compare (List.map (fun (sid, _) -> string_of_n sid) z.z_ca.c_sess)))) r.r_zomb)

let parse_held (w : string) : BinNums.coq_N list =
  if w = "-" then [] else List.map n_of_string (String.split_on_char ',' w)

let rec triples = function
  | a :: b :: c :: rest -> (a, b, c) :: triples rest
  | [] -> []
  | _ -> failwith "burst args"

let handle (w : string list) : string =
  match w with
  | "scn" :: _ -> rs := None; opi := 0; R_topic.handle w
  | "user" :: _ | "subrow" :: _ | "sess" :: _ -> R_topic.handle w
  | "op" :: flt :: kind :: args ->
    incr opi;
    let n = n_of_string and z = z_of_string in
    let r0 = cur () in
    let issued0 = List.length r0.r_issued in
    let f = R_topic.parse_fault flt in
    let w0 = { w_r = r0; w_queue = []; w_wire = [] } in
    let all = List.sort compare (sids ()) in
    (* one request, then every write loop runs *)
    let one (a : rop) : wstate option =
      match wstep dr nr !R_topic.sm true w0 (WDo a) with
      | Some w1 -> Some (drain_all w1 all)
      | None -> None in
    let res =
      match kind, args with
      | "sub", [sid; want; bkg] -> one (RReq (f, OSub (n sid, bytes_of_hex want, bkg = "1")))
      | "leave", [sid; unsub] -> one (RReq (f, OLeave (n sid, unsub = "1")))
      | "pub", [sid; content; noecho] -> one (RReq (f, OPub (n sid, n content, noecho = "1")))
      | "getdata", [sid; a; b; c] -> one (RReq (f, OGetData (n sid, z a, z b, z c)))
      | "getdesc", [sid] -> one (RReq (f, OGetDesc (n sid)))
      | "unload", [] -> one (RReq (f, OUnload))
      | "restart", [] -> one (RReq (f, ORestart))
      | "timeout", [] -> one RTimeout
      | "hubunreg", [] -> one RHubUnreg
      | "zpub", [i; sid; content; noecho] -> one (RZPub (nat_of_int (int_of_string i), n sid, n content, noecho = "1"))
      | "zexit", [i] -> one (RZExit (nat_of_int (int_of_string i)))
      | "hubunregmid", [sid; content; noecho] -> one (RHubUnregMid (n sid, n content, noecho = "1"))
      | "zfinish", [i] -> one (RZFinish (nat_of_int (int_of_string i)))
      | "burst", held :: rest ->
        let held = parse_held held in
        burst_calls := 0;
        let free = List.filter (fun s -> not (List.mem s held)) all in
        let rec go (w : wstate) = function
          | [] -> Some (drain_all w all)
          | (sid, content, noecho) :: more ->
            (match wstep dr nr !R_topic.sm true w (WDo (RReq (NoFault, OPub (n sid, n content, noecho = "1")))) with
             | Some w1 -> burst_calls := !burst_calls + int_of_nat w1.w_r.r_x.ncalls; go (drain_all w1 free) more
             | None -> None) in
        go w0 (triples rest)
      | _ -> failwith ("bad op " ^ kind) in
    (* adapter calls made by this op: those of the request(s) handled by the registered instance;
       an unregistered instance that refuses makes none *)
    let zombie_sid sid = (match zfind (n sid) Datatypes.O r0.r_zomb with Some _ -> true | None -> false) in
    let ncalls (w1 : wstate) = int_of_nat w1.w_r.r_x.ncalls in
    (match res with
     | Some w1 ->
       rs := Some w1.w_r;
       let calls = match kind, args with
         | ("timeout" | "hubunreg" | "zexit" | "hubunregmid"), _ -> 0
         | "zfinish", _ -> ncalls w1
         | "zpub", _ -> if w1.w_r.r_issued == r0.r_issued || List.length w1.w_r.r_issued = issued0 then 0 else ncalls w1
         | "burst", _ -> !burst_calls
         | ("unload" | "restart"), _ -> ncalls w1
         | _, sid :: _ -> if zombie_sid sid then 0 else ncalls w1
         | _, _ -> ncalls w1 in
       block false w1 issued0 calls
     | None -> block true w0 issued0 0)
  | ["end"] -> "end"
  | [] -> ""
  | _ -> "?"
