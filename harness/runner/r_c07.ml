(* C07 kinds model runner.  Input: the scenario lines of tools/props/c07.py (kscn / user /
   sess / op / end); output: the same canonical text as harness/overlay/server/zz_verif_c07_test.go. *)
open Conv
open TopicKindsC07

let w : world ref = ref { w_acc = []; w_topics = [] }
let accs : (int * int) list ref = ref []       (* user index -> default auth access *)
let roots : (int, bool) Hashtbl.t = Hashtbl.create 8
let sess : (int * int) list ref = ref []       (* sid -> user *)
let started = ref false
let opi = ref 0

let mode_str (m : BinNums.coq_N) : string =
  let i = int_of_n m in
  if i = 1048576 then "-" else
  if i land 255 = 0 && i land 256 <> 0 then "_" else
  let s = Acs.mode_string (n_of_int (i land 255)) in
  String.concat "" (List.map (fun b -> String.make 1 (Char.chr (int_of_n b))) s)

let kv (x : string) : string * string =
  match String.index_opt x '=' with
  | Some i -> (String.sub x 0 i, String.sub x (i + 1) (String.length x - i - 1))
  | None -> (x, "")

let start () =
  if not !started then begin
    started := true;
    w := init_world (List.map (fun (i, a) -> (n_of_int i, n_of_int a)) (List.sort compare !accs))
  end

let parse_ref (r : string) : oname =
  let num s = n_of_int (int_of_string s) in
  if r = "me" then OMe else if r = "fnd" then OFnd else if r = "sys" then OSys
  else match r.[0] with
    | 'u' -> OUsr (num (String.sub r 1 (String.length r - 1)))
    | 'F' -> ORawFnd (num (String.sub r 1 (String.length r - 1)))
    | 'P' -> (match String.split_on_char '.' (String.sub r 1 (String.length r - 1)) with
        | [a; b] -> ORawP2P (num a, num b) | _ -> failwith "ref")
    | _ -> failwith ("ref " ^ r)

let b2s b = if b then "1" else "0"
let rows_str (l : (BinNums.coq_N * krow) list) : string =
  String.concat " " (List.sort compare (List.map (fun (u, r) ->
    Printf.sprintf "%d:%s/%s:%s" (int_of_n u) (mode_str r.kr_want) (mode_str r.kr_given) (b2s r.kr_del)) l))

let dump () : string list =
  let us = List.sort compare (List.map fst !accs) in
  let keys =
    List.map (fun i -> ("m" ^ string_of_int i, KMe (n_of_int i))) us
    @ List.map (fun i -> ("f" ^ string_of_int i, KFnd (n_of_int i))) us
    @ [("sys", KSys)]
    @ List.concat (List.map (fun i -> List.concat (List.map (fun j ->
        if i < j then [(Printf.sprintf "p%d.%d" i j, KP2P (n_of_int i, n_of_int j))] else []) us)) us) in
  List.concat (List.map (fun (tok, k) ->
    let t = tget k !w.w_topics in
    (if t.kt_rows <> [] then ["T " ^ tok ^ " store " ^ rows_str t.kt_rows] else [])
    @ (match t.kt_cache with
       | None -> []
       | Some c ->
         ["T " ^ tok ^ " cache " ^ rows_str c.kc_users ^ " | " ^
          String.concat " " (List.sort compare (List.map (fun (s, u) ->
            Printf.sprintf "%d:%d" (int_of_n s) (int_of_n u)) c.kc_sess))])) keys)

let frame_str (fr : kframe) : string =
  match fr with
  | KCtrl code -> "ctrl " ^ string_of_z code
  | KAcs (code, user, wt, g) ->
    "ctrl " ^ string_of_z code ^ " acs=" ^ mode_str wt ^ "/" ^ mode_str g ^
    (if int_of_n user = 0 then "" else " user=" ^ string_of_n user)
  | KEvicted unsub -> "ctrl 205 unsub=" ^ b2s unsub
  | KPanic -> "PANIC"
  | KUnmodelled -> "UNMODELLED"

let handle (ws : string list) : string =
  match ws with
  | "kscn" :: id :: _ ->
    accs := []; Hashtbl.reset roots; sess := []; started := false; opi := 0;
    "kscn " ^ id
  | "user" :: i :: rest ->
    let m = List.map kv rest in
    accs := (int_of_string i, int_of_string (List.assoc "acc" m)) :: !accs;
    Hashtbl.replace roots (int_of_string i) (try List.assoc "root" m = "1" with Not_found -> false);
    ""
  | ["sess"; sid; u] -> sess := (int_of_string sid, int_of_string u) :: !sess; ""
  | "op" :: sid :: kind :: args ->
    start ();
    incr opi;
    let si = int_of_string sid in
    let ui = try List.assoc si !sess with Not_found -> 0 in
    let root = try Hashtbl.find roots ui with Not_found -> false in
    let n = n_of_int in
    let o = match kind, args with
      | "sub", r :: mode :: rest ->
        KSub (n si, n ui, root, parse_ref r, bytes_of_hex mode, (match rest with d :: _ -> bytes_of_hex d | [] -> []))
      | "setsub", [r; target; mode] -> KSetSub (n si, n ui, root, parse_ref r, n (int_of_string target), bytes_of_hex mode)
      | "leave", [r; unsub] -> KLeave (n si, n ui, parse_ref r, unsub = "1")
      | "unload", [tok] ->
        let num s = n (int_of_string s) in
        let body = String.sub tok 1 (String.length tok - 1) in
        KUnload (if tok = "sys" then KSys else match tok.[0] with
          | 'm' -> KMe (num body) | 'f' -> KFnd (num body)
          | 'p' -> (match String.split_on_char '.' body with [a; b] -> KP2P (num a, num b) | _ -> failwith "tok")
          | _ -> failwith "tok")
      | _ -> failwith ("bad op " ^ kind) in
    let (w1, outs) = kstep !w o in
    w := w1;
    (* the driver prints the frames grouped by session *)
    let outs = List.stable_sort (fun (a, _) (b, _) -> compare (int_of_n a) (int_of_n b)) outs in
    String.concat "\n" (("op " ^ string_of_int !opi)
      :: List.map (fun (s, fr) -> "S" ^ string_of_n s ^ " " ^ frame_str fr) outs @ dump ())
  | ["end"] -> "end"
  | [] -> ""
  | _ -> "?"
