(* C14 round s14f model runner.
   Registry (RegistryC14f part A), same lines as TestVerifC14Registry: "scn id life" / "new ws|lp uid" /
   "get i" / "disc i" / "evict uid skip|-" / "age i secs" / "end".  The model's clock: every call happens at
   time 0 (the real calls of one scenario are milliseconds apart, ages are tens of seconds).
   Online counters (part B): "on reset k m1,m2,.." / "on att k sid asuid" / "on leave k sid sessuid" -> the
   perUser map and the attachment records of topic k. *)
open Conv
open RegistryC14f

let st : rstore_c14f ref = ref (init_c14f Z0)
let tops : (string * otopic_c14f) list ref = ref []

let ns l = String.concat "," (List.map string_of_n l)
let sorted l = List.sort compare (List.map (fun x -> int_of_string (string_of_n x)) l)
let is l = String.concat "," (List.map string_of_int l)

let dump () =
  Printf.sprintf "cache=%s lru=%s term=%s" (is (sorted !st.r_cache)) (ns !st.r_lru)
    (is (List.sort_uniq compare (sorted !st.r_term)))

let odump t =
  let per = List.sort compare (List.map (fun (u, v) -> (int_of_string (string_of_n u), string_of_z v)) t.o_per) in
  let ss = List.sort compare (List.map (fun (s, u) -> (int_of_string (string_of_n s), string_of_n u)) t.o_sess) in
  Printf.sprintf "per=%s sess=%s" (String.concat "," (List.map (fun (u, v) -> Printf.sprintf "%d:%s" u v) per))
    (String.concat "," (List.map (fun (s, u) -> Printf.sprintf "%d:%s" s u) ss))

let handle (w : string list) : string =
  match w with
  | ["scn"; id; life] -> st := init_c14f (z_of_string life); "scn " ^ id
  | ["end"] -> "end"
  | ["new"; proto; uid] ->
    let (s', (sid, _)) = new_session_c14f !st (proto = "lp") (n_of_string uid) Z0 in
    st := s'; Printf.sprintf "r new ret=%s %s" (string_of_n sid) (dump ())
  | ["get"; i] ->
    let (s', b) = get_c14f !st (n_of_string i) Z0 in
    st := s'; Printf.sprintf "r get ret=%s %s" (if b then "1" else "0") (dump ())
  | ["disc"; i] -> st := disconnect_c14f !st (n_of_string i); Printf.sprintf "r disc ret= %s" (dump ())
  | ["evict"; uid; skip] ->
    (* "-" = no session is skipped: the empty sid never names a session; the model's sids are numbers, take one never allocated *)
    let sk = if skip = "-" then n_of_string "1000000" else n_of_string skip in
    let (s', _) = evict_c14f !st (n_of_string uid) sk in
    st := s'; Printf.sprintf "r evict ret= %s" (dump ())
  | ["age"; i; d] -> st := age_c14f !st (n_of_string i) (z_of_string d); Printf.sprintf "r age ret= %s" (dump ())
  | ["on"; "reset"; k; ms] ->
    let m = if ms = "-" then [] else List.map n_of_string (String.split_on_char ',' ms) in
    let t = oinit_c14f m in
    tops := (k, t) :: List.remove_assoc k !tops; "on " ^ k ^ " " ^ odump t
  | ["on"; "att"; k; sid; a] ->
    let t = oattach_c14f (List.assoc k !tops) (n_of_string sid) (n_of_string a) in
    tops := (k, t) :: List.remove_assoc k !tops; "on " ^ k ^ " " ^ odump t
  | ["on"; "leave"; k; sid; su] ->
    let t = oleave_c14f (List.assoc k !tops) (n_of_string sid) (n_of_string su) in
    tops := (k, t) :: List.remove_assoc k !tops; "on " ^ k ^ " " ^ odump t
  | _ -> "EXC bad request: " ^ String.concat " " w
