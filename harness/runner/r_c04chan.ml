(* C04 model runner on fan-out topics (coq/Sys/FanoutHistC04.v over Sys/FanoutQueryC01.v / Sys/Fanout.v).  Same
   scenario lines and canonical blocks as the C01 query runner (R_c01q: its state - R_c02.st + R_c01q.msgs - and its
   printing are reused as they are), plus the two requests of harness/overlay/server/zz_verif_c04x_test.go
   (TestVerifC04Chan):
     qdel   <s> <as> <spelling> <since> <before> <limit>     {get what=del}
     sqdata <s> <as> <spelling> <since> <before> <limit>     {sub get={what=data data={..}}} *)
open BinNums
open Conv
open Fanout
open FanoutQueryC01
open FanoutHistC04

let frame_c04chan (k, fr) =
  "S" ^ string_of_n k ^ " " ^
  (match fr with
   | HF (QData (t, f, q, c)) ->
     Printf.sprintf "data seq=%s from=%d topic=%s content=%s head=-" (string_of_z q) (int_of_n f) (R_c02.tname_s t) (string_of_n c)
   | HF (QDesc (full, _, q)) -> Printf.sprintf "desc seq=%s full=%s" (string_of_z q) (R_c02.b2s full)
   | HF (QCtrl code) -> Printf.sprintf "ctrl %s mine=1" (string_of_z code)
   | HMetaDel (d, rows) ->
     Printf.sprintf "metadel delid=%s ranges=%s" (string_of_z d)
       (String.concat "," (List.map (fun (l, h) -> string_of_z l ^ ":" ^ string_of_z h) rows)))

let handle (w : string list) : string =
  let ni = n_of_int in
  let i = int_of_string in
  let peer u = if u = 1 then 2 else 1 in
  let name_of sp au = match sp with "g" -> TGrp | "c" -> TChn | "u" -> TUsr (ni (peer au)) | _ -> TP2P in
  match w with
  | "op" :: kind :: args when kind = "qdel" || kind = "sqdata" ->
    incr R_c02.opi;
    let hdr = "op " ^ string_of_int !R_c02.opi in
    let s = i (List.hd args) in
    if not (List.mem_assoc s !R_c02.sess_user) then String.concat "\n" (hdr :: "skipped" :: R_c02.state_lines !R_c02.st) else
    let real = List.assoc s !R_c02.sess_user in
    let acting a = if i a = 0 then real else i a in
    let x = { q_st = !R_c02.st; q_msgs = !R_c01q.msgs } in
    let o = match args with
      | [_; a; sp; since; before; limit] ->
        let au = acting a in
        if kind = "qdel" then HGetDel (ni s, ni au, name_of sp au, z_of_string since, z_of_string before, z_of_string limit)
        else HSubGetData (ni s, ni au, name_of sp au, z_of_string since, z_of_string before, z_of_string limit)
      | _ -> failwith ("bad op " ^ kind) in
    let (ox, out) = hstep_c04 x o in
    let oos = match ox with
      | Some x1 -> R_c02.st := x1.q_st; R_c01q.msgs := x1.q_msgs; []
      | None -> [ "oos" ] in
    String.concat "\n" ((hdr :: List.map frame_c04chan out) @ oos @ R_c02.state_lines !R_c02.st)
  | _ -> R_c01q.handle w
