(* C15 model runner for the world of Sys/CallCat.v (p2p topic + group topic / channel, 'me',
   'fnd', 'sys').  Input: the scenario lines of tools/props/c15.py; output: the same canonical
   blocks as the Go driver harness/overlay/server/zz_verif_c15x_test.go.  Every op - also the ones
   addressed to the p2p topic - is executed by the extracted CallCat.wstep; the p2p part of the
   world lives in R_c15.st so that R_c15's rendering is reused unchanged. *)
open Conv
open Call
open CallCat

let others : (BinNums.coq_N * otopic) list ref = ref []
let ext = ref false
let xn : (int * int) list ref = ref []     (* rows already printed, per other topic *)

(* keys of the other topics, in the order of the driver's xt lines *)
let keys () = [ (1, "G"); (2, "sys"); (11, "me1"); (12, "me2"); (13, "me3"); (21, "fnd1"); (22, "fnd2"); (23, "fnd3") ]

let user_of_sess (s : BinNums.coq_N) : int = int_of_n (user_of !R_c15.cfg s)

let key_of (tref : string) (s : BinNums.coq_N) : int =
  match tref with
  | "grp" | "chn" -> 1
  | "sys" -> 2
  | "me" -> 10 + user_of_sess s
  | "fnd" -> 20 + user_of_sess s
  | _ -> failwith ("bad topic ref " ^ tref)

let set_topic (k : int) (t : otopic) =
  others := List.map (fun (k0, t0) -> if int_of_n k0 = k then (k0, t) else (k0, t0)) !others

let world () : world = { w_p2p = !R_c15.st; w_others = !others }

let att_of (w : world) (t : otopic) : int list =
  let l = match t.o_cat with
    | CatMe -> List.filter (fun s -> int_of_n (user_of !R_c15.cfg s) = int_of_n t.o_owner) w.w_p2p.on_me
    | _ -> t.o_st.attached in
  List.sort_uniq compare (List.map int_of_n l)

let extra_lines (w : world) : string list =
  if not !ext then [] else
  List.concat_map (fun (k, name) ->
    match List.find_opt (fun (k0, _) -> int_of_n k0 = k) w.w_others with
    | None -> []
    | Some (_, t) ->
      let s = t.o_st in
      let head =
        Printf.sprintf "xt %s call=%s timer=%s seqid=%s att=%s" name
          (match s.current with None -> "none" | Some c -> string_of_z c.c_seq) (R_c15.b2s s.timer) (string_of_z s.lastid)
          (String.concat "," (List.map string_of_int (att_of w t))) in
      let msgs = List.rev s.store in
      let seen = try List.assoc k !xn with Not_found -> 0 in
      let fresh = List.filteri (fun i _ -> i >= seen) msgs in
      xn := (k, List.length msgs) :: List.remove_assoc k !xn;
      head :: List.map (fun (m : msg) ->
        Printf.sprintf "xmsg %s %05d from=%d %s content=%s" name (int_of_z m.m_seq) (int_of_n m.m_from) (R_c15.head_str m)
          (string_of_n m.m_content)) fresh) (keys ())

let opt_w = function "-" -> None | wt -> Some (n_of_int (R_c15.wtok_of wt))
let opt_repl = function
  | "-" -> None
  | r -> Some (z_of_string (if String.length r > 0 && r.[0] = ':' then String.sub r 1 (String.length r - 1) else r))

let handle (w : string list) : string =
  match w with
  | "scn" :: id :: rest ->
    ext := List.mem "x=1" rest; xn := [];
    let gw2 = not (List.mem "gw2=0" rest) in
    let n = n_of_int in
    others :=
      if not !ext then [] else
        [ (n 1, init_other CatGrp (n 1) [ (n 1, true); (n 2, gw2) ] [] false);
          (n 2, init_other CatSys (n 0) [] [] true) ]
        @ List.map (fun i -> (n (10 + i), init_other CatMe (n i) [] [] false)) [ 1; 2; 3 ]
        @ List.map (fun i -> (n (20 + i), init_other CatFnd (n i) [] [] false)) [ 1; 2; 3 ];
    R_c15.handle ("scn" :: id :: rest)
  | "sess" :: si :: ui :: _ -> R_c15.handle [ "sess"; si; ui ]
  | [ "xatt"; si; tref ] ->
    let s = n_of_string si in
    let k = key_of tref s in
    (match List.find_opt (fun (k0, _) -> int_of_n k0 = k) !others with
     | Some (_, t) ->
       let st = t.o_st in
       if not (List.exists (fun x -> int_of_n x = int_of_n s) st.attached) then
         set_topic k { t with o_st = set_loaded true (set_attached (s :: st.attached) st) }
     | None -> ());
    ""
  | "op" :: kind :: args ->
    R_c15.opi := !R_c15.opi + 1;
    let n = n_of_string and z = z_of_string in
    let x = match kind, args with
      | "attach", [ s ] -> XOld (OAttach (n s))
      | "attachme", [ s ] -> XOld (OAttachMe (n s))
      | "leave", [ s ] -> XOld (OLeave (n s))
      | "unsub", [ s ] -> XOld (OUnsub (n s))
      | "disc", [ s ] -> XOld (ODisc (n s))
      | "invite", [ s; c; wt ] -> XOld (OInvite (n s, n c, n_of_int (R_c15.wtok_of wt)))
      | "pub", [ s; c ] -> XOld (OPub (n s, n c))
      | "event", [ s; e; q; p ] -> XOld (OEvent (n s, R_c15.ev_of e, z q, n p))
      | "timeout", [] -> XOld OTimeout
      | "setw", [ s; t; b ] -> XOld (OSetW (n s, n t, b = "1"))
      | "xpub", [ s; tref; c; wt; r ] -> XPub (n s, n_of_int (key_of tref (n s)), n c, opt_w wt, opt_repl r)
      | "xnote", [ s; tref; e; q; p ] -> XNote (n s, n_of_int (key_of tref (n s)), R_c15.ev_of e, z q, n p)
      | _ -> failwith ("bad op " ^ kind) in
    let fired = if kind = "timeout" then [ "fired " ^ R_c15.b2s !R_c15.st.timer ] else [] in
    let (w1, outs) = wstep !R_c15.cfg (world ()) x in
    R_c15.st := w1.w_p2p;
    others := w1.w_others;
    let lines = List.map (fun (sid, fr) -> "S" ^ string_of_n sid ^ " " ^ R_c15.frame_str fr) outs in
    String.concat "\n" ((("op " ^ string_of_int !R_c15.opi) :: fired) @ lines @ R_c15.state_lines w1.w_p2p @ extra_lines w1)
  | [ "end" ] -> "end"
  | [] -> ""
  | _ -> "?"
