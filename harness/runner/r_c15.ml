(* C15 call model runner.  Input: the scenario lines of tools/props/c15.py; output: the same
   canonical blocks as the Go driver harness/overlay/server/zz_verif_c15_test.go. *)
open Conv
open Call

let st : state ref = ref (init2 (n_of_int 1) (n_of_int 2))
let cfg : config ref = ref { configured = true; sess_user = [] }
let opi = ref 0
let nmsgs = ref 0

let ev_of = function
  | "ringing" -> EvRinging | "accept" -> EvAccept | "offer" -> EvOffer | "answer" -> EvAnswer
  | "ice-candidate" -> EvIce | "hang-up" -> EvHangup | _ -> EvUnknown
let ev_str = function
  | EvRinging -> "ringing" | EvAccept -> "accept" | EvOffer -> "offer" | EvAnswer -> "answer"
  | EvIce -> "ice-candidate" | EvHangup -> "hang-up" | EvUnknown -> "bogus"
let wtok_of = function "started" -> 0 | "finished" -> 1 | "accepted" -> 2 | _ -> 3
let wtok_str = function 0 -> "started" | 1 -> "finished" | 2 -> "accepted" | _ -> "bogus"
let w_str = function
  | None -> "-"
  | Some (WClient t) -> wtok_str (int_of_n t)
  | Some WAccepted -> "accepted" | Some WFinished -> "finished" | Some WDeclined -> "declined"
  | Some WMissed -> "missed" | Some WDisconnected -> "disconnected"
let b2s b = if b then "1" else "0"
let head_str (m : msg) =
  Printf.sprintf "replace=%s webrtc=%s sender=%d"
    (match m.m_replace with None -> "-" | Some q -> ":" ^ string_of_z q) (w_str m.m_webrtc) (int_of_n m.m_sender)
let pl_str = function None -> "-" | Some p -> string_of_n p

let frame_str (fr : frame) : string =
  match fr with
  | FCtrl (code, seq) -> "ctrl " ^ string_of_z code ^ (match seq with Some q -> " seq=" ^ string_of_z q | None -> "")
  | FData (m, topic) ->
    Printf.sprintf "data seq=%s from=%d topic=u%d %s content=%s" (string_of_z m.m_seq) (int_of_n m.m_from) (int_of_n topic)
      (head_str m) (string_of_n m.m_content)
  | FInfo (ev, seq, from, topic, pl) ->
    Printf.sprintf "info what=call event=%s seq=%s from=%d topic=u%d src=- payload=%s" (ev_str ev) (string_of_z seq)
      (int_of_n from) (int_of_n topic) (pl_str pl)
  | FInfoMe (ev, seq, from, src, pl) ->
    Printf.sprintf "info what=call event=%s seq=%s from=%d topic=me src=u%d payload=%s" (ev_str ev) (string_of_z seq)
      (int_of_n from) (int_of_n src) (pl_str pl)

let state_lines (s : state) : string list =
  let ld = if s.loaded then
    [ "loaded 1";
      (match s.current with
       | None -> "call none"
       | Some c ->
         Printf.sprintf "call seq=%s orig=%d ouser=%d callee=%d content=%s accepted=%s parties=%d" (string_of_z c.c_seq)
           (int_of_n c.c_osid) (int_of_n c.c_ouid) (match c.c_callee with Some (k, _) -> int_of_n k | None -> 0)
           (string_of_n c.c_content) (b2s (accepted c)) (if accepted c then 2 else 1));
      "timer " ^ b2s s.timer;
      "lastid " ^ string_of_z s.lastid ]
    @ List.sort compare (List.map (fun (u, p) ->
        Printf.sprintf "user %d w=%s r=1 p=1 deleted=%s" (int_of_n u) (b2s (is_writer p)) (b2s p.p_deleted)) s.users)
    @ [ "att " ^ String.concat "," (List.map string_of_int (List.sort compare (List.map int_of_n s.attached))) ]
  else [ "loaded 0" ] in
  let msgs = List.rev s.store in
  let n = List.length msgs in
  let fresh = List.filteri (fun i _ -> i >= !nmsgs) msgs in
  nmsgs := n;
  ld @ (if s.loaded then [ "store seqid=" ^ string_of_z s.lastid ] else [ "store absent" ])
  @ List.map (fun (m : msg) ->
      Printf.sprintf "msg %05d from=%d %s content=%s" (int_of_z m.m_seq) (int_of_n m.m_from) (head_str m) (string_of_n m.m_content)) fresh

let handle (w : string list) : string =
  match w with
  | "scn" :: id :: rest ->
    opi := 0; nmsgs := 0;
    st := init2 (n_of_int 1) (n_of_int 2);
    cfg := { configured = List.mem "cfg=1" rest; sess_user = [] };
    "scn " ^ id
  | ["sess"; si; ui] ->
    cfg := { !cfg with sess_user = !cfg.sess_user @ [(n_of_string si, n_of_string ui)] }; ""
  | "op" :: kind :: args ->
    incr opi;
    let n = n_of_string and z = z_of_string in
    let o = match kind, args with
      | "attach", [s] -> OAttach (n s)
      | "attachme", [s] -> OAttachMe (n s)
      | "leave", [s] -> OLeave (n s)
      | "unsub", [s] -> OUnsub (n s)
      | "disc", [s] -> ODisc (n s)
      | "invite", [s; c; wt] -> OInvite (n s, n c, n_of_int (wtok_of wt))
      | "pub", [s; c] -> OPub (n s, n c)
      | "event", [s; e; q; p] -> OEvent (n s, ev_of e, z q, n p)
      | "timeout", [] -> OTimeout
      | "setw", [s; t; b] -> OSetW (n s, n t, b = "1")
      | _ -> failwith ("bad op " ^ kind) in
    let fired = if kind = "timeout" then [ "fired " ^ b2s !st.timer ] else [] in
    let (s1, outs) = step !cfg !st o in
    st := s1;
    let lines = List.map (fun (sid, fr) -> "S" ^ string_of_n sid ^ " " ^ frame_str fr) outs in
    String.concat "\n" (("op " ^ string_of_int !opi) :: fired @ lines @ state_lines s1)
  | ["end"] -> "end"
  | [] -> ""
  | _ -> "?"
