(* C16 model runner: one request per line, one answer per line (same lines as
   harness/overlay/server/zz_verif_c16_test.go).  The store-slice state of
   Sys/Files.v is threaded through the lines.  Glue only: text -> constructors. *)
open Conv

let serve_url = "/v0/file/s/"
let bytes_of_string (s : string) = List.init (String.length s) (fun i -> n_of_int (Char.code s.[i]))
let b64 = "ABCDEFGHIJKLMNOPQRSTUVWXYZabcdefghijklmnopqrstuvwxyz0123456789-_"
(* the name the model uses for upload number k (the real name is chosen by the server) *)
let fake_name k =
  "Vf" ^ String.make 1 b64.[(k / 4096) mod 64] ^ String.make 1 b64.[(k / 64) mod 64]
  ^ String.make 1 b64.[k mod 64] ^ "AAAAAA"
let id_tbl = Hashtbl.create 1024
let id_of_index k =
  match Hashtbl.find_opt id_tbl k with
  | Some i -> i
  | None -> let i = Url.parse_uid (bytes_of_string (fake_name k)) in Hashtbl.add id_tbl k i; i

let st = ref Files.init
(* model time in nanoseconds (time.Duration): AGE h / AGES sec make every upload record h hours / sec seconds older
   = the clock moves on by that much *)
let hour_ns = 3600 * 1000000000
let clock = ref 0
(* (topic, user) -> (want, given) as set up by TOPIC (the owner: full access) and MEMBER lines *)
let members : ((string * string) * (int * int)) list ref = ref []
let mode_of_string (m : string) : int =
  let bit c = match c with
    | 'J' -> 1 | 'R' -> 2 | 'W' -> 4 | 'P' -> 8 | 'A' -> 16 | 'S' -> 32 | 'D' -> 64 | 'O' -> 128 | _ -> 0 in
  let r = ref 0 in String.iter (fun c -> r := !r lor bit c) m; !r
let call_letter = function
  | FilesSaveC16b.CTopicUpdateOnMessage -> "T" | FilesSaveC16b.CMessageSave -> "M"
  | FilesSaveC16b.CSubsUpdate -> "S" | FilesSaveC16b.CFileLinkAttachments -> "L"
let desc_call_letter = function
  | FilesDescC16c.DUserUpdateC16c -> "U" | FilesDescC16c.DTopicUpdateC16c -> "T"
  | FilesDescC16c.DSubsUpdateC16c -> "S" | FilesDescC16c.DFileLinkC16c -> "L"
let desc_token = ref 100
let uploaded : int list ref = ref []
let pubs : (int * int) list ref = ref []      (* publish index -> topic index *)
let owners : (string * string) list ref = ref []   (* topic -> the user that created it *)
let index_of_id id =
  match List.find_opt (fun k -> id_of_index k = id) !uploaded with
  | Some k -> string_of_int k
  | None -> "?"

let kv (ws : string list) : (string * string) list =
  List.filter_map (fun w -> match String.index_opt w '=' with
    | Some i -> Some (String.sub w 0 i, String.sub w (i + 1) (String.length w - i - 1))
    | None -> None) ws
let get m k = try List.assoc k m with Not_found -> "-"

let meth = function
  | "GET" -> Files.MGet | "HEAD" -> Files.MHead | "POST" -> Files.MPost | "PUT" -> Files.MPut
  | "OPTIONS" -> Files.MOptions | "DELETE" -> Files.MDelete | "PATCH" -> Files.MPatch | _ -> Files.MOther
let key = function
  | "-" -> None | "valid" -> Some Files.KValid | _ -> Some Files.KInvalid
let starts p s = String.length s >= String.length p && String.sub s 0 (String.length p) = p
let cred (c : string) =
  if c = "-" then None
  else if starts "good" c then Some (Files.CGood (n_of_int (int_of_string (String.sub c 4 (String.length c - 4)))))
  else match c with
    | "zero" -> Some (Files.CGood (n_of_int 0))
    | "badsig" | "serial" | "expired" -> Some (Files.CErr (z_of_int 401))
    | "trunc" | "notb64" -> Some (Files.CErr (z_of_int 400))
    | "unknown" -> Some Files.CUnknownScheme
    | _ -> failwith ("cred " ^ c)
(* the uid the session store yields for the sid that is present: 0 = no such session or not logged in *)
let sid = function
  | "live" -> Some (n_of_int 1) | "anon" | "dead" -> Some (n_of_int 0) | _ -> None
let topic = function
  | "-" -> None | "newacc" -> Some true | _ -> Some false
let handler mh = mh <> "none"
let hdr mh =
  if starts "stubs" mh then Files.HdrStatus (z_of_int (int_of_string (String.sub mh 5 (String.length mh - 5))))
  else if mh = "stube" then Files.HdrErr (z_of_int 403)
  else Files.HdrStatus (z_of_int 0)
let body b =
  match String.split_on_char ':' b with
  | ["form"; tot; hasfile; flen] ->
    Files.BForm (z_of_int (int_of_string tot), hasfile = "1", z_of_int (if flen = "0" then 0 else 1))
  | _ -> Files.BNone
let fault = function
  | "create" -> Files.FCreate | "start" -> Files.FStart | "finish" -> Files.FFinish | _ -> Files.FNone
let effect = function
  | Files.ENone -> "none" | Files.EStored -> "stored" | Files.EResidue -> "residue"
  | Files.EResidueNoBytes -> "residue-nobytes" | Files.EServed -> "served"
let status = function
  | Files.Reply (c, _) -> string_of_z c
  | Files.Crash _ -> "CRASH"

let expand (tpl : string) : string =
  if tpl = "-" then "" else
  String.concat "" (List.map (fun tok ->
    let rest = String.sub tok 1 (String.length tok - 1) in
    match tok.[0] with
    | 'h' -> String.concat "" (List.map (fun b -> String.make 1 (Char.chr (int_of_n b))) (bytes_of_hex rest))
    | 'f' -> let k = int_of_string rest in if List.mem k !uploaded then fake_name k else "zzzzzzzzzzz"
    | 'F' -> let k = int_of_string rest in
      if List.mem k !uploaded then serve_url ^ fake_name k ^ ".bin" else "zzzzzzzzzzz"
    | 'x' -> "zzzzzzzzzzz"
    | _ -> failwith ("template " ^ tpl)) (String.split_on_char '+' tpl))
let expand_list (tpls : string) : string list =
  if tpls = "-" then [] else List.map expand (String.split_on_char ',' tpls)
let resolve (tpls : string) =
  Files.resolve (bytes_of_string serve_url) (List.map bytes_of_string (expand_list tpls))

let parse_bool = function
  | "1" | "t" | "T" | "TRUE" | "true" | "True" -> true
  | _ -> false

let join l = if l = [] then "-" else String.concat "," (List.sort compare l)

let dump () =
  let s = !st in
  let fl = List.map (fun f -> index_of_id f.Files.f_id ^ ":" ^ (if f.Files.f_done then "1" else "0")) s.Files.files in
  let ids = List.map (fun f -> f.Files.f_id) s.Files.files in
  let dl = List.map (fun d -> if List.mem d ids then index_of_id d else "orphan") s.Files.disk in
  let missing = List.filter (fun i -> not (List.mem i s.Files.disk)) ids in
  ignore missing;
  let ll = List.map (fun (f, t) ->
    index_of_id f ^ ">" ^ (match t with
      | Files.TMsg m -> "m" ^ string_of_n m
      | Files.TTopic t -> "t" ^ string_of_n t
      | Files.TUser u -> "u" ^ string_of_n u)) s.Files.links in
  "DUMP files=" ^ join fl ^ " links=" ^ join ll ^ " disk=" ^ join dl

let handle (w : string list) : string =
  match w with
  | ["CL"; h] -> "CL " ^ hex_of_bytes (Url.path_clean (bytes_of_hex h))
  | ["ID"; s; h] -> "ID " ^ string_of_n (Url.get_id_from_url (bytes_of_hex s) (bytes_of_hex h))
  | ["FA"; asatt; h] ->
    "FA " ^ (if Files.force_attachment (asatt <> "-" && parse_bool asatt) (bytes_of_hex h) then "1" else "0")
  | "UP" :: rest ->
    let m = kv rest in
    let g = get m in
    let r = { Files.u_meth = meth (g "m");
              u_key_hdr = key (g "kh"); u_key_query = key (g "kq"); u_key_form = key (g "kf"); u_key_cookie = key (g "kc");
              u_cred_xauth = cred (g "cx"); u_cred_authz = cred (g "ca"); u_cred_query = cred (g "cq");
              u_cred_form = cred (g "cf"); u_cred_cookie = cred (g "cc");
              u_sid_query = sid (g "sq"); u_sid_form = sid (g "sf");
              u_topic_query = topic (g "tq"); u_topic_form = topic (g "tf");
              u_handler = handler (g "mh"); u_hdr = hdr (g "mh");
              u_limit = z_of_int (int_of_string (g "lim"));
              u_body = body (g "body"); u_fault = fault (g "fault") } in
    let k = int_of_string (g "fid") in
    let (s', o) = Files.apply_upload !st r (id_of_index k) (z_of_int !clock) [] in
    st := s';
    (match Files.effect_of o with
     | Files.EStored | Files.EResidue | Files.EResidueNoBytes -> uploaded := k :: !uploaded
     | _ -> ());
    "UP " ^ status o ^ " " ^ effect (Files.effect_of o)
  | ["INFLIGHT"; ks; _; _] ->
    (* an upload between StartUpload and FinishUpload: record in status 'started', bytes written *)
    let k = int_of_string ks in
    st := Files.step !st (Files.OStart (id_of_index k, z_of_int !clock, []));
    uploaded := k :: !uploaded;
    "INFLIGHT ok"
  | "SV" :: rest ->
    let m = kv rest in
    let g = get m in
    let has_query = g "kq" <> "-" || g "cq" <> "-" || g "sq" <> "-" || g "asatt" <> "-" in
    let url = expand (g "url") ^ (if has_query then "?q" else "") in
    let r = { Files.s_meth = meth (g "m");
              s_keys = [key (g "kh"); key (g "kq"); None; key (g "kc")];
              s_creds = [cred (g "cx"); cred (g "ca"); cred (g "cq"); None; cred (g "cc")];
              s_sid = sid (g "sq"); s_handler = handler (g "mh"); s_hdr = hdr (g "mh");
              s_found = false (* computed by serve_request from the store slice *) } in
    let (o, sent) = Files.serve_request !st r (bytes_of_string serve_url) (bytes_of_string url) in
    "SV " ^ status o ^ " " ^
    (match sent with
     | Some f -> "served:" ^ index_of_id f.Files.f_id
     | None -> effect (Files.effect_of o))
  | ["USER"; u] -> st := Files.step !st (Files.OAddUser (n_of_string u)); "USER ok"
  | ["NEWACC"; u; tpls] ->
    (* replyCreateUser: Users.Create, then Files.LinkAttachments("usrX", 0, attachments) *)
    st := Files.step !st (Files.OAddUser (n_of_string u));
    st := Files.step !st (Files.OUserAvatar (n_of_string u, resolve tpls));
    "NEWACC 201"
  | ["TOPIC"; t; o; tpls] ->
    owners := (t, o) :: !owners;
    members := ((t, o), (255, 255)) :: !members;
    st := Files.step !st (Files.OAddTopic (n_of_string t));
    st := Files.step !st (Files.OTopicAvatar (n_of_string t, resolve tpls));
    "TOPIC 200"
  | ["PUB"; _; t; tpls] ->
    let before = !st.Files.next_mid in
    st := Files.step !st (Files.OPublish (n_of_string t, resolve tpls));
    if !st.Files.next_mid <> before then begin
      pubs := !pubs @ [(List.length !pubs + 1, int_of_string t)]; "PUB saved=1" end
    else "PUB saved=0"
  | ["TAV"; _; t; tpls] -> st := Files.step !st (Files.OTopicAvatar (n_of_string t, resolve tpls)); "TAV 200"
  | ["UAV"; u; tpls] -> st := Files.step !st (Files.OUserAvatar (n_of_string u, resolve tpls)); "UAV 200"
  | ["DELMSG"; _; t; ks] ->
    let ks = List.filter (fun k -> List.mem (k, int_of_string t) !pubs)
        (List.map int_of_string (String.split_on_char ',' ks)) in
    if ks = [] then "DELMSG skip"
    else begin st := Files.step !st (Files.ODelMsgs (List.map n_of_int ks)); "DELMSG 200" end
  | ["DELTOPIC"; _; t] -> st := Files.step !st (Files.ODelTopic (n_of_string t)); "DELTOPIC 200"
  | ["DELUSER"; u] ->
    (* hard deletion of an account deletes the topics it owns (UserDelete, adapter.go:1131-1156):
       one ODelTopic per owned topic, then ODelUser *)
    List.iter (fun (t, o) -> if o = u then st := Files.step !st (Files.ODelTopic (n_of_string t))) !owners;
    st := Files.step !st (Files.ODelUser (n_of_string u)); "DELUSER 200"
  | ["GC"; kind; lim] ->
    let older = match kind with
      | "future" -> Some (z_of_int (!clock + hour_ns)) | "past" -> Some (z_of_int (!clock - hour_ns)) | _ -> None in
    st := Files.step !st (Files.OGC (older, z_of_int (int_of_string lim))); "GC true"
  | ["DUMP"] -> dump ()
  | ["SYSLOAD"] ->
    (* 'sys' is topic 0 of the model; it exists from the start and is never deleted *)
    st := Files.step !st (Files.OAddTopic (n_of_int 0)); "SYSLOAD ok"
  | ["AGE"; h] -> clock := !clock + hour_ns * int_of_string h; "AGE ok"
  | ["AGES"; sec] -> clock := !clock + 1000000000 * int_of_string sec; "AGES ok"
  | ["GCRUN"; ms; block] ->
    (* one tick of largeFileRunGarbageCollection (Sys/FilesTypeC16f.v); further ticks a few ms later remove nothing more *)
    st := FilesTypeC16f.gc_tick_c16f !st (z_of_int !clock) (z_of_int (1000000 * int_of_string ms)) (z_of_int (int_of_string block));
    "GCRUN ok"
  | ["P2P"; t; u1; u2; w1; w2] ->
    (* a p2p topic and its two subscriptions; each party is given what the other grants by default (R and W included) *)
    st := Files.step !st (Files.OAddTopic (n_of_string t));
    members := ((t, u1), (mode_of_string w1, mode_of_string "JRWPA")) :: ((t, u2), (mode_of_string w2, mode_of_string "JRWPA")) :: !members;
    "P2P ok"
  | ["MEMBER"; t; _; u; want; given] ->
    (* given: the topic's default for authenticated users (JRWPS) unless the owner sets it *)
    let g = if given = "-" then mode_of_string "JRWPS" else mode_of_string given in
    members := ((t, u), (mode_of_string want, g)) :: List.remove_assoc (t, u) !members;
    "MEMBER ok"
  | ["PUBX"; _; a; t; k; _; tpls] ->
    (* Topic.saveAndBroadcastMessage + messagesMapper.Save (Sys/FilesSaveC16b.v) for the acting user a:
       modes from the subscription (none: 0, 0), the k-th adapter call fails *)
    let is_sys = (t = "sys") in
    let tn = if is_sys then n_of_int 0 else n_of_string t in
    let (want, given) = try List.assoc (t, a) !members with Not_found -> (0, 0) in
    let rbs = FilesSaveC16b.is_reader_c16b (n_of_int (want land given)) in
    let uid = n_of_string a in
    let ft =
      if k = "-" then FilesSaveC16b.no_faults_c16b else
      (* position of the failing call: TopicUpdateOnMessage, MessageSave, [SubsUpdate], FileLinkAttachments *)
      let k = int_of_string k in
      let has_subs = rbs && uid <> n_of_int 0 in
      { FilesSaveC16b.ff_topic = (k = 1); ff_msg = (k = 2); ff_subs = (has_subs && k = 3);
        ff_link = (if has_subs then k = 4 else k = 3) } in
    let s0 = { FilesSaveC16b.sv_fs = !st; sv_seq = [(tn, n_of_int 0)];
               sv_subs = (if List.mem_assoc (t, a) !members
                          then [{ FilesSaveC16b.sb_topic = tn; sb_user = uid; sb_recv = n_of_int 0; sb_read = n_of_int 0 }]
                          else []);
               sv_calls = [] } in
    let before = !st.Files.next_mid in
    let (s1, o) = FilesSaveC16b.pub_save_c16b ft true (bytes_of_string serve_url) s0 is_sys
        (n_of_int want) (n_of_int given) (n_of_int 0) tn uid (List.map bytes_of_string (expand_list tpls)) in
    st := s1.FilesSaveC16b.sv_fs;
    let saved = !st.Files.next_mid <> before in
    if saved then pubs := !pubs @ [(List.length !pubs + 1, if is_sys then 0 else int_of_string t)];
    let marked = List.exists (fun r -> r.FilesSaveC16b.sb_read = n_of_int 1) s1.FilesSaveC16b.sv_subs in
    let calls = List.map (fun (c, failed) -> call_letter c ^ (if failed then "!" else "")) s1.FilesSaveC16b.sv_calls in
    "PUBX saved=" ^ (if saved then "1" else "0") ^ " res=" ^
    (match o with
     | FilesSaveC16b.PubDenied -> "denied" | FilesSaveC16b.PubFailed -> "failed" | FilesSaveC16b.PubAccepted _ -> "accepted")
    ^ " marked=" ^ (if marked && saved then "1" else "0")
    ^ " calls=" ^ (if calls = [] then "-" else String.concat "," calls)
  | "SVX" :: rest ->
    (* largeFileServe with every request field (Sys/FilesServeC16c.v) *)
    let m = kv rest in
    let g = get m in
    let has_query = g "kq" <> "-" || g "cq" <> "-" || g "sq" <> "-" || g "tq" <> "-" || g "asatt" <> "-" in
    let url = expand (g "url") ^ (if has_query then "?q" else "") in
    let r = { FilesServeC16c.dq_meth = meth (g "m");
              dq_key_hdr = key (g "kh"); dq_key_query = key (g "kq"); dq_key_form = key (g "kf"); dq_key_cookie = key (g "kc");
              dq_cred_xauth = cred (g "cx"); dq_cred_authz = cred (g "ca"); dq_cred_query = cred (g "cq");
              dq_cred_form = cred (g "cf"); dq_cred_cookie = cred (g "cc");
              dq_sid_query = sid (g "sq"); dq_sid_form = sid (g "sf");
              dq_topic_query = topic (g "tq"); dq_topic_form = topic (g "tf");
              dq_body_form = (g "body" = "form");
              dq_handler = handler (g "mh"); dq_hdr = hdr (g "mh");
              dq_found = false (* computed by serve_request_c16c from the store slice *) } in
    let (o, sent) = FilesServeC16c.serve_request_c16c !st r (bytes_of_string serve_url) (bytes_of_string url) in
    "SVX " ^ status o ^ " " ^
    (match sent with
     | Some f -> "served:" ^ index_of_id f.Files.f_id
     | None -> effect (Files.effect_of o))
  | ["SETX"; u; t; k; what; tpls] ->
    (* Topic.replySetDesc (Sys/FilesDescC16c.v): the request environment from the line - a group topic is
       changed by its owner only, desc.public / desc.private always differ from the stored values - and the
       fault plan from the position k of the failing adapter call *)
    let is_me = (t = "me") in
    let cat = if is_me then FilesDescC16c.CatMeC16c else FilesDescC16c.CatGrpC16c in
    let tname = if is_me then n_of_int 0 else n_of_string t in
    let uid = n_of_string u in
    let owner = is_me || (try List.assoc t !owners = u with Not_found -> false) in
    let wants_core = (what = "pub" || what = "both") in
    let wants_sub = (what = "priv" || what = "both") in
    incr desc_token;
    let tok = n_of_int !desc_token in
    let rq = { FilesDescC16c.sq_pre = (if wants_core && not owner then FilesDescC16c.PreDeniedC16c else FilesDescC16c.PreOkC16c);
               sq_core = (if wants_core then Some tok else None);
               sq_sub = (if wants_sub then Some tok else None);
               sq_urls = List.map bytes_of_string (expand_list tpls) } in
    let s0 = { FilesDescC16c.dd_fs = !st; dd_public = []; dd_private = []; dd_calls = [] } in
    let run ft = FilesDescC16c.set_desc_c16c ft true (bytes_of_string serve_url) s0 cat tname uid rq in
    let nf = FilesDescC16c.no_desc_faults_c16c in
    let ft =
      if k = "-" then nf else
      let (sn, _) = run nf in
      match List.nth_opt (List.rev sn.FilesDescC16c.dd_calls) (int_of_string k - 1) with
      | Some ((FilesDescC16c.DUserUpdateC16c | FilesDescC16c.DTopicUpdateC16c), _) -> { nf with FilesDescC16c.df_core = true }
      | Some (FilesDescC16c.DSubsUpdateC16c, _) -> { nf with FilesDescC16c.df_subs = true }
      | Some (FilesDescC16c.DFileLinkC16c, _) -> { nf with FilesDescC16c.df_link = true }
      | None -> nf in
    let (s1, o) = run ft in
    st := s1.FilesDescC16c.dd_fs;
    let calls = List.map (fun (c, failed) -> desc_call_letter c ^ (if failed then "!" else "")) (List.rev s1.FilesDescC16c.dd_calls) in
    "SETX code=" ^ string_of_z (FilesDescC16c.code_of_c16c o) ^ " calls=" ^ (if calls = [] then "-" else String.concat "," calls)
  | ["NEWACCX"; u; k; tpls] ->
    (* replyCreateUser (Sys/FilesAccC16c.v); the driver sends no credentials and none are required *)
    let uid = n_of_string u in
    let s0 = { FilesAccC16c.aa_fs = !st; aa_calls = [] } in
    let urls = List.map bytes_of_string (expand_list tpls) in
    let run ft = FilesAccC16c.create_user_c16c ft true (bytes_of_string serve_url) s0 uid true urls in
    let nf = FilesAccC16c.no_acc_faults_c16c in
    let ft =
      if k = "-" then nf else
      let (sn, _) = run nf in
      match List.nth_opt (List.rev sn.FilesAccC16c.aa_calls) (int_of_string k - 1) with
      | Some (FilesAccC16c.AUniqueC16c, _) -> { nf with FilesAccC16c.af_unique = true }
      | Some (FilesAccC16c.AUserCreateC16c, _) -> { nf with FilesAccC16c.af_create = true }
      | Some (FilesAccC16c.ATopicShareC16c, _) -> { nf with FilesAccC16c.af_share = true }
      | Some (FilesAccC16c.AAuthAddC16c, _) -> { nf with FilesAccC16c.af_auth = true }
      | Some (FilesAccC16c.AFileLinkC16c, _) -> { nf with FilesAccC16c.af_link = true }
      | Some (FilesAccC16c.AUserDeleteC16c, _) | None -> nf in
    let (s1, o) = run ft in
    st := s1.FilesAccC16c.aa_fs;
    let letter = function
      | FilesAccC16c.AUniqueC16c -> "Q" | FilesAccC16c.AUserCreateC16c -> "C" | FilesAccC16c.ATopicShareC16c -> "H"
      | FilesAccC16c.AAuthAddC16c -> "A" | FilesAccC16c.AUserDeleteC16c -> "D" | FilesAccC16c.AFileLinkC16c -> "L" in
    let calls = List.map (fun (c, failed) -> letter c ^ (if failed then "!" else "")) (List.rev s1.FilesAccC16c.aa_calls) in
    "NEWACCX code=" ^ string_of_z o.FilesAccC16c.ao_code
    ^ " calls=" ^ String.concat "," calls
  | "UPT" :: rest ->
    (* largeFileReceive's type decision + largeFileServe's disposition (Sys/FilesTypeC16f.v); sniff / pok / pmt / pfmt
       are the results of http.DetectContentType, mime.ParseMediaType, mime.FormatMediaType observed by the driver *)
    let m = kv rest in
    let g = get m in
    let hexv k = if g k = "-" || g k = "" then [] else bytes_of_hex (g k) in
    if g "sniff" = "-" then "UPT noext" else
    let declared = if g "pok" = "1" then Some { FilesTypeC16f.d_media = hexv "pmt"; d_formatted = hexv "pfmt" } else None in
    let asatt = g "asatt" <> "-" && parse_bool (g "asatt") in
    let (stored, att) = FilesTypeC16f.served_c16f asatt (hexv "sniff") declared in
    "UPT 200 200 stored=" ^ hex_of_bytes stored ^ " ct=" ^ hex_of_bytes stored ^ " cd=" ^ (if att then "1" else "0") ^ " bytes=1"
  | _ -> "?"
