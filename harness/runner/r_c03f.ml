(* C03 (s03f) model runner: Sys/P2PCreateC03f.v on the scenario lines of
   harness/overlay/server/zz_verif_c03f_test.go (one scenario per line, same answer line). *)
open Conv
open P2PCreateC03f

let ua = n_of_int 1 and ub = n_of_int 2 and ur = n_of_int 3

let pair (s : string) : BinNums.coq_N * BinNums.coq_N =
  match String.split_on_char ',' s with
  | [a; b] -> (n_of_string a, n_of_string b)
  | _ -> failwith "pair"

let row_str (r : row_c03f) = string_of_n r.r_want ^ "/" ^ string_of_n r.r_given
let orow_str = function Some r -> row_str r | None -> "-"
let who u = if int_of_n u = 1 then "a" else if int_of_n u = 2 then "b" else "?"

let state_str (s : state_c03f) : string =
  let st = Printf.sprintf "ex=%s seq=%s msgs=%s sa=%s sb=%s" (if s.t_ex then "1" else "0") (string_of_z s.t_seq)
      (String.concat "," (List.map (fun (q, u) -> string_of_z q ^ ":" ^ who u) s.s_msgs)) (orow_str s.s_a) (orow_str s.s_b) in
  match s.ca with
  | None -> st ^ " ld=0 last=0 ca=- cb=- att="
  | Some c ->
    let at = List.sort compare (List.map (fun (sid, u) -> (int_of_n sid, who u)) c.k_sess) in
    st ^ Printf.sprintf " ld=1 last=%s ca=%s cb=%s att=%s" (string_of_z c.k_lastid) (row_str c.k_a) (row_str c.k_b)
      (String.concat "," (List.map (fun (i, x) -> string_of_int i ^ ":" ^ x) at))

let handle (w : string list) : string =
  match w with
  | "scn" :: id :: rest ->
    let rec split acc = function
      | "ops" :: ops -> (List.rev acc, ops)
      | x :: tl -> split (x :: acc) tl
      | [] -> (List.rev acc, []) in
    let (hd, ops) = split [] rest in
    let kv = List.filter_map (fun x -> match String.index_opt x '=' with
        | Some i -> Some (String.sub x 0 i, String.sub x (i + 1) (String.length x - i - 1)) | None -> None) hd in
    let g k = List.assoc k kv in
    let acct s = let (a, b) = pair s in { d_auth = a; d_anon = b } in
    let row s = let (a, b) = pair s in Some { r_want = a; r_given = b } in
    let pre = int_of_string (g "pre") in
    let s0 = { acc_a = acct (g "A"); acc_b = acct (g "B"); t_ex = pre > 0; t_seq = z_of_int 0;
               s_a = (if pre = 2 || pre = 3 then row (g "ra") else None);
               s_b = (if pre = 1 || pre = 3 then row (g "rb") else None); s_msgs = []; ca = None } in
    let la = if g "la" = "anon" then LvAnon else LvAuth in
    let sm = [ (n_of_int 0, (ua, la)); (n_of_int 1, (ur, LvRoot)); (n_of_int 2, (ub, LvAuth)); (n_of_int 3, (ur, LvRoot)) ] in
    let st = ref s0 and dead = ref false in
    let res = List.map (fun o ->
        match String.split_on_char ':' o with
        | [sid; ob; xl; kind] ->
          if !dead then "UNMODELLED" else
          let q = { q_sid = n_of_string sid;
                    q_obo = (match ob with "-" -> ObNone | "x" -> ObBad | "a" -> ObUser ua | "b" -> ObUser ub | _ -> failwith "obo");
                    q_xl = (match xl with "-" -> XAbsent | "anon" -> XAnon | "auth" -> XAuth | "root" -> XRoot | _ -> XJunk);
                    q_kind = (if kind = "sub" then KSub else KPub) } in
          (match step_c03f ua ub sm !st q with
           | None -> dead := true; "UNMODELLED"
           | Some (s1, (code, seq)) ->
             st := s1;
             string_of_z code ^ " " ^ (match seq with Some z -> string_of_z z | None -> "-") ^ " " ^ state_str s1)
        | _ -> failwith "op") ops in
    "scn " ^ id ^ " | " ^ String.concat " | " res
  | _ -> "ERR"
