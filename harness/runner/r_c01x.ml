(* C01 load-path model runner (coq/Sys/TopicLoad.v): same scenario lines and the same
   canonical block format as harness/overlay/server/zz_verif_c01x_test.go. *)
open Conv
open Topic
open TopicLoad

let empty_store = { t_exists = false; t_seqid = Z0; t_delid = Z0; t_owner = N0; t_auth = N0; t_anon = N0; subs = []; msgs = []; dellog = []; users = [] }
let st : lstate ref = ref { x_st = empty_store; x_ca = None; x_n = Datatypes.O }
let sm : (BinNums.coq_N * BinNums.coq_N) list ref = ref []
let roots : BinNums.coq_N list ref = ref []
let kind : lkind ref = ref LP2P
let started = ref false
let opi = ref 0

let mode_str (m : BinNums.coq_N) : string =
  let i = int_of_n m in
  if i = 1048576 then "-" else
  if i land 255 = 0 && i land 256 <> 0 then "" else
  let s = Acs.mode_string (n_of_int (i land 255)) in
  String.concat "" (List.map (fun b -> String.make 1 (Char.chr (int_of_n b))) s)

let frame_str (fr : lframe) : string =
  match fr with
  | LCtrl (code, None) -> "ctrl " ^ string_of_z code
  | LCtrl (code, Some n) -> "ctrl " ^ string_of_z code ^ " seq=" ^ string_of_z n
  | LData (seq, from, content) -> "data seq=" ^ string_of_z seq ^ " from=" ^ string_of_n from ^ " content=" ^ string_of_n content
  | LDesc seq -> "desc seq=" ^ string_of_z seq

let b2s b = if b then "1" else "0"
let store_str (s : store) : string list =
  if not s.t_exists then ["topic absent"] else
  let subs = List.sort compare (List.map (fun r ->
    Printf.sprintf "sub %d %s/%s read=%s recv=%s del=%s deleted=%s" (int_of_n (r.s_user)) (mode_str (r.s_want)) (mode_str (r.s_given))
      (string_of_z (r.s_read)) (string_of_z (r.s_recv)) (string_of_z (r.s_delid)) (b2s (r.s_deleted))) s.subs) in
  let msgs = List.sort compare (List.map (fun m ->
    Printf.sprintf "msg %05d from=%d content=%s delid=%s" (int_of_z (m.m_seq)) (int_of_n (m.m_from)) (string_of_n (m.m_content)) (string_of_z (m.m_delid))) s.msgs) in
  (Printf.sprintf "topic seqid=%s delid=%s" (string_of_z (s.t_seqid)) (string_of_z (s.t_delid))) :: subs @ msgs

let parse_fault (w : string) : fault =
  if w = "N" then NoFault
  else let k = nat_of_int (int_of_string (String.sub w 1 (String.length w - 1))) in
    if w.[0] = 'F' then FailAt k else CrashAt k

let kv (w : string) : string * string =
  match String.index_opt w '=' with
  | Some i -> (String.sub w 0 i, String.sub w (i + 1) (String.length w - i - 1))
  | None -> (w, "")

let start () =
  if not !started then begin
    started := true;
    st := { !st with x_ca = boot !kind !st.x_st }
  end

let handle (w : string list) : string =
  match w with
  | "scn" :: id :: rest ->
    let a = List.map kv rest in
    opi := 0; sm := []; roots := []; started := false;
    kind := (if List.assoc "kind" a = "sys" then LSys else LP2P);
    let ex = !kind = LSys || List.assoc "exists" a = "1" in
    let s0 = if ex then { empty_store with t_exists = true; t_seqid = z_of_string (List.assoc "seqid" a); t_delid = z_of_string (List.assoc "delid" a) }
             else empty_store in
    st := { x_st = s0; x_ca = None; x_n = Datatypes.O };
    "scn " ^ id
  | "user" :: i :: rest ->
    let a = List.map kv rest in
    let s = !st.x_st in
    st := { !st with x_st = { s with users = s.users @ [(n_of_string i, n_of_string (List.assoc "acc" a))] } };
    if List.assoc "root" a = "1" then roots := !roots @ [n_of_string i];
    ""
  | "subrow" :: i :: rest ->
    let a = List.map kv rest in
    let s = !st.x_st in
    if s.t_exists then begin
      let s1 = ad_sub_create s (n_of_string i) (n_of_string (List.assoc "want" a)) (n_of_string (List.assoc "given" a)) in
      let s2 = if List.assoc "deleted" a = "1" then (match ad_subs_delete s1 (n_of_string i) with Some x -> x | None -> s1) else s1 in
      (* the seeded row never makes its user the owner column's value observable here *)
      st := { !st with x_st = { s2 with t_owner = N0 } }
    end;
    ""
  | "msg" :: seq :: rest ->
    let a = List.map kv rest in
    let s = !st.x_st in
    if s.t_exists then
      st := { !st with x_st = { s with msgs = s.msgs @ [{ m_seq = z_of_string seq; m_from = n_of_string (List.assoc "from" a);
                                                           m_content = n_of_string (List.assoc "content" a); m_delid = Z0 }] } };
    ""
  | ["sess"; sid; u] -> start (); sm := !sm @ [(n_of_string sid, n_of_string u)]; ""
  | "op" :: flt :: kind_s :: args ->
    start ();
    incr opi;
    let n = n_of_string in
    let o = match kind_s, args with
      | "sub", [sid] -> LSub (n sid, false)
      | "subp", [sid] -> LSub (n sid, true)
      | "leave", [sid; unsub] -> LLeave (n sid, unsub = "1")
      | "pub", [sid; content; noecho] -> LPub (n sid, n content, noecho = "1")
      | "getdata", [sid] -> LGetData (n sid)
      | "getdesc", [sid] -> LGetDesc (n sid)
      | "unload", [] -> LUnload
      | "restart", [] -> LRestart
      | _ -> failwith ("bad op " ^ kind_s) in
    let (x1, outs) = lstep_f !kind !sm !roots (n_of_int 1) (n_of_int 2) !st (parse_fault flt, o) in
    st := x1;
    let lines = List.map (fun (sid, fr) -> "S" ^ string_of_n sid ^ " " ^ frame_str fr) outs in
    String.concat "\n" (("op " ^ string_of_int !opi) :: lines
      @ ["calls " ^ string_of_int (int_of_nat x1.x_n);
         "loaded " ^ (match x1.x_ca with Some _ -> "1" | None -> "0")]
      @ List.map (fun l -> "store " ^ l) (store_str x1.x_st)
      @ (match x1.x_ca with
         | None -> []
         | Some c ->
           ("cache lastid=" ^ string_of_z c.l_lastid ^ " delid=" ^ string_of_z c.l_delid)
           :: List.sort compare (List.map (fun (u, p) ->
                Printf.sprintf "cache user %d %s/%s" (int_of_n u) (mode_str p.lp_want) (mode_str p.lp_given)) c.l_users)
           @ List.sort compare (List.map (fun (sid, u) ->
                Printf.sprintf "cache sess %s user=%d" (string_of_n sid) (int_of_n u)) c.l_sess)
           @ List.sort compare (List.filter_map (fun (u, p) ->
                if p.lp_deleted then Some (Printf.sprintf "cache pdel %d" (int_of_n u)) else None) c.l_users)))
  | ["end"] -> "end"
  | [] -> ""
  | _ -> "?"
