(* C17 part E model runner (Sys/VoteTallyC17e.v): one run of electLeader over scripted replies.
   Same line format as the package-main driver harness/overlay/server/zz_verif_c17e_test.go:
     V <tag> <n> <self> <t0> <leader before> <timer ms> <spec of every other node, by index> <order of arrival>
   spec: Y<t> yes with term t | N<t> no with term t | E handler error | D connection dropped |
         U not connected | L late (never answers before electLeader returns)
   answer: E <term> <leader> <k<j> returned after the j-th reply | T<j> left through the timer> <requests> votes=<voteCount>
   (the last word exists in the model only: voteCount is a local variable of electLeader) *)
open Conv
let handle (w : string list) : string =
  match w with
  | ["V"; _tag; n; self; t0; pre; _hb; specs; order] ->
    let open VoteTallyC17e in
    let n = int_of_string n and self = int_of_string self in
    let peers = List.filter (fun i -> i <> self) (List.init n (fun i -> i)) in
    let sp = String.split_on_char ',' specs in
    if List.length sp <> List.length peers then "bad specs" else
    let tbl = List.combine peers sp in
    let num s = nat_of_int (int_of_string (String.sub s 1 (String.length s - 1))) in
    let reply s = match s.[0] with
      | 'Y' -> Some (RYes (num s))
      | 'N' -> Some (RNo (num s))
      | 'E' | 'D' -> Some RErr
      | _ -> None in
    let ord = if order = "-" then [] else List.map int_of_string (String.split_on_char ',' order) in
    let arr = List.filter_map (fun p -> match List.assoc_opt p tbl with Some s -> reply s | None -> None) ord in
    let c = { cd_self = nat_of_int self; cd_term = nat_of_int (int_of_string t0);
              cd_leader = (if pre = "-" then None else Some (nat_of_int (int_of_string pre)));
              cd_peers = List.map (fun (p, s) -> (nat_of_int p, s.[0] <> 'U')) tbl } in
    let o = elect_c17e c arr in
    let reqs = List.sort compare (List.map (fun (p, (nm, t)) -> (int_of_nat p, int_of_nat nm, int_of_nat t)) o.oc_requests) in
    let reqs = if reqs = [] then "-" else
        String.concat "," (List.map (fun (p, nm, t) -> Printf.sprintf "%d:%d:%d" p nm t) reqs) in
    Printf.sprintf "E %d %s %s%d %s votes=%d" (int_of_nat o.oc_term)
      (match o.oc_leader with Some x -> string_of_int (int_of_nat x) | None -> "-")
      (if o.oc_tally.tl_timeout then "T" else "k") (int_of_nat o.oc_tally.tl_taken) reqs
      (int_of_nat o.oc_tally.tl_votes)
  | _ -> "bad request"
