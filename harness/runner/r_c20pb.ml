(* C20 part B model runner.  Stateful: ENUM / TAB lines load the probed tables, then one request per
   message.  Leaves: sp|ix|k:v  (ix: comma-joined positions / k:<hex key>, "-" = none;
   v: hex for s y j, decimal for i t e, 1 for b p). *)
open Conv
open PbTable

let coq_of_char (c : char) : Ascii.ascii =
  let n = Char.code c in
  let b i = (n lsr i) land 1 = 1 in
  Ascii.Ascii (b 0, b 1, b 2, b 3, b 4, b 5, b 6, b 7)
let char_of_coq (a : Ascii.ascii) : char =
  match a with
  | Ascii.Ascii (b0, b1, b2, b3, b4, b5, b6, b7) ->
    let v b i = if b then 1 lsl i else 0 in
    Char.chr (v b0 0 + v b1 1 + v b2 2 + v b3 3 + v b4 4 + v b5 5 + v b6 6 + v b7 7)
let cs (s : string) : String0.string =
  let r = ref String0.EmptyString in
  for i = String.length s - 1 downto 0 do r := String0.String (coq_of_char s.[i], !r) done;
  !r
let sc (c : String0.string) : string =
  let b = Buffer.create 16 in
  let rec go = function String0.EmptyString -> () | String0.String (a, r) -> Buffer.add_char b (char_of_coq a); go r in
  go c; Buffer.contents b
let unhex (h : string) : string =
  if h = "-" then "" else String.init (String.length h / 2) (fun i -> Char.chr (int_of_string ("0x" ^ String.sub h (2 * i) 2)))
let hex (s : string) : string =
  if s = "" then "-" else String.concat "" (List.map (fun c -> Printf.sprintf "%02x" (Char.code c)) (List.of_seq (String.to_seq s)))

let enums : (string, enum_tab) Hashtbl.t = Hashtbl.create 16
let cli : table ref = ref []
let srv : stable ref = ref []

let split c s = String.split_on_char c s
let split2 c s = match String.index_opt s c with
  | Some i -> (String.sub s 0 i, String.sub s (i + 1) (String.length s - i - 1))
  | None -> (s, "")

let parse_kind (k : string) : kind =
  match k with
  | "s" -> KStr | "i" -> KInt | "b" -> KBool | "y" -> KBytes | "t" -> KTime | "j" -> KJson | "p" -> KPresent
  | _ -> KEnum (Hashtbl.find enums k)
let parse_fate (f : string) : fate =
  match f with
  | "same" -> Same | "int32" -> Transformed XInt32 | "ms" -> Transformed XMs | "enum" -> Transformed XEnum
  | "other" -> Transformed XOther | "dropped" -> Dropped | "panic" -> Panics | "noschema" -> NoSchema
  | _ -> let (a, b) = split2 ':' f in if a = "moved" then Moved (cs b) else failwith ("fate " ^ f)

let parse_ix (s : string) : idx list =
  if s = "-" then [] else
  List.map (fun t -> if String.length t > 2 && String.sub t 0 2 = "k:" then IK (cs (unhex (String.sub t 2 (String.length t - 2))))
                     else IN (n_of_string t)) (split ',' s)
let show_ix (l : idx list) : string =
  if l = [] then "-" else
  String.concat "," (List.map (function IN n -> string_of_n n | IK k -> "k:" ^ hex (sc k)) l)

let parse_leaf (t : string) : (spath * idx list) * leaf =
  match split '|' t with
  | [sp; ix; kv] ->
    let (k, v) = split2 ':' kv in
    let l = (match k with
      | "s" -> LStr (cs (unhex v)) | "i" -> LInt (z_of_string v) | "b" -> LBool true | "y" -> LBytes (cs (unhex v))
      | "t" -> LTime (z_of_string v) | "j" -> LJson (cs (unhex v)) | "p" -> LPresent
      | _ -> failwith ("leaf kind " ^ k)) in
    ((cs sp, parse_ix ix), l)
  | _ -> failwith ("leaf " ^ t)
let parse_wleaf (t : string) : (spath * idx list) * wleaf =
  match split '|' t with
  | [sp; ix; kv] ->
    let (k, v) = split2 ':' kv in
    let l = (match k with
      | "s" -> WStr (cs (unhex v)) | "i" -> WInt (z_of_string v) | "b" -> WBool true | "y" -> WBytes (cs (unhex v))
      | "e" -> WEnum (z_of_string v) | "p" -> WPresent
      | _ -> failwith ("wire leaf kind " ^ k)) in
    ((cs sp, parse_ix ix), l)
  | _ -> failwith ("wire leaf " ^ t)
let show_leaf (((sp, ix), l) : (spath * idx list) * leaf) : string =
  sc sp ^ "|" ^ show_ix ix ^ "|" ^
  (match l with
   | LStr s -> "s:" ^ hex (sc s) | LInt z -> "i:" ^ string_of_z z | LBool b -> "b:" ^ (if b then "1" else "0")
   | LBytes s -> "y:" ^ hex (sc s) | LTime z -> "t:" ^ string_of_z z | LJson s -> "j:" ^ hex (sc s) | LPresent -> "p:1")
let show_wleaf (((sp, ix), l) : (spath * idx list) * wleaf) : string =
  sc sp ^ "|" ^ show_ix ix ^ "|" ^
  (match l with
   | WStr s -> "s:" ^ hex (sc s) | WInt z -> "i:" ^ string_of_z z | WBool b -> "b:" ^ (if b then "1" else "0")
   | WBytes s -> "y:" ^ hex (sc s) | WEnum z -> "e:" ^ string_of_z z | WPresent -> "p:1")
let show_msg m = String.concat " " ("M" :: List.map show_leaf m)
let show_wire m = String.concat " " ("W" :: List.map show_wleaf m)
let b2s b = if b then "1" else "0"

let handle (w : string list) : string =
  match w with
  | ["ENUM"; name; zero; ser; deser] ->
    let ps s = if s = "-" then [] else List.map (split2 ':') (split ',' s) in
    Hashtbl.replace enums name
      { e_ser = List.map (fun (s, n) -> (cs (unhex s), z_of_string n)) (ps ser);
        e_deser = List.map (fun (n, s) -> (z_of_string n, cs (unhex s))) (ps deser);
        e_zero = cs (unhex zero) };
    "OK"
  | "TAB" :: "cli" :: rows ->
    cli := List.map (fun r -> match split '|' r with
      | [sp; k; f] -> ((cs sp, parse_kind k), parse_fate f) | _ -> failwith ("row " ^ r)) rows;
    "OK " ^ string_of_int (List.length !cli)
  | "TAB" :: "srv" :: rows ->
    srv := List.map (fun r -> match split '|' r with
      | [sp; k; q; f] -> (((cs sp, parse_kind k), cs (if q = "-" then "" else q)), parse_fate f) | _ -> failwith ("row " ^ r)) rows;
    "OK " ^ string_of_int (List.length !srv)
  | ["OK"] ->
    String.concat " " ["OK"; b2s (table_ok !cli); b2s (table_ok_srv !srv);
                       String.concat "," (List.map (fun (p, _) -> sc p) (bad_rows !cli));
                       String.concat "," (List.map (fun (p, _) -> sc p) (bad_srows !srv))]
  | "NRT" :: ls -> let m = List.map parse_leaf ls in show_msg (norm_msg !cli (deser !cli (ser !cli m)))
  | "NORM" :: "cli" :: ls -> show_msg (norm_msg !cli (List.map parse_leaf ls))
  | "WF" :: "cli" :: ls -> b2s (wf_msg !cli (List.map parse_leaf ls))
  | "PANICS" :: ls -> b2s (panics !cli (List.map parse_leaf ls))
  | "SER" :: ls -> show_wire (ser_srv !srv (List.map parse_leaf ls))
  | "BACK" :: ls -> show_msg (deser_srv !srv (List.map parse_wleaf ls))
  | "NORM" :: "srv" :: ls -> show_msg (norm_srv !srv (List.map parse_leaf ls))
  | "WF" :: "srv" :: ls -> b2s (wf_smsg !srv (List.map parse_leaf ls))
  | _ -> "ERR request"
