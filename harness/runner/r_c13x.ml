(* C13 model runner for the structured driver TestVerifC13x (tools/props/c13x.py).

   "I <init_test> <op> <op> ..."   part 1: the request slot and slow consumers (coq/Sys/Inflight.v).  Population of
       zz_verif_c13x_test.go: sessions a1 a2 (user 1) b1 b2 (user 2) c1 r1 (user 3); group G and p2p topic P of users
       1, 2 with a1 and b1 attached.  Each op is "kind:sess[:topic]"; one client label of Inflight.exec, then
       Inflight.settle (hub / topicInit / topic steps until the queues are empty) and the write loops' detach steps
       of the connections that are reading.  Answer: per op the state lines of the driver joined by ';'.
   "H <sys> <p2p> <rel> <errcode> <joinsess> <joinid> <sess>:<id>:<kind> ..."   part 2: the load of a topic held open
       (coq/Sys/HeldLoad.v).  Answer: the replies "sess:code:id" in order. *)
open Conv
open Inflight

let names = ["a1"; "a2"; "b1"; "b2"; "c1"; "r1"]
let sid_of s = match s with "a1" -> 1 | "a2" -> 2 | "b1" -> 3 | "b2" -> 4 | "c1" -> 5 | _ -> 6
let user_of s = match s with 1 | 2 -> 1 | 3 | 4 -> 2 | _ -> 3
let sessions_of_user u = List.filter (fun s -> user_of s = u) [1; 2; 3; 4; 5; 6]
let nn = n_of_int
let ni = int_of_n

(* topics: G=1 P=2 X=3 Q=4, every "new" a fresh number from 10 *)
let tok_of t = match t with 1 -> "G" | 2 -> "P" | 3 -> "X" | 4 -> "Q" | _ -> "N"

let state_lines (c : config) (fresh : int) : string list =
  let sl = List.map (fun name ->
    let x = c.c_sess (nn (sid_of name)) in
    let infl = match x.s_inflight with None -> "nil" | Some k -> string_of_int (int_of_nat k) in
    let subs = List.sort compare (List.map (fun t -> tok_of (ni t)) x.s_subs) in
    Printf.sprintf "S %s inflight=%s term=%s subs=%s" name infl (if x.s_term then "1" else "0") (String.concat "," subs)) names in
  let tids = [1; 2; 3; 4] @ List.init (max 0 (fresh - 10)) (fun k -> 10 + k) in
  let tl = List.filter_map (fun t ->
    let tp = c.c_topic (nn t) in
    let ss = List.sort compare (List.map (fun s -> List.nth names (ni s - 1)) tp.t_sessions) in
    if ss = [] then None else Some (Printf.sprintf "T %s %s" (tok_of t) (String.concat "," ss))) tids in
  sl @ List.sort compare tl

let part1 (init_test : bool) (ops : string list) : string =
  (* initial population through the model's own steps *)
  let fresh = ref 10 in
  let clogged = ref [] in
  let panic = ref false in
  let init_ok (q : req) = ni q.q_topic <> 3 in
  let reg_ok (q : req) =
    let u = user_of (ni q.q_sess) in
    match ni q.q_topic with
    | 2 -> u = 1 || u = 2
    | 4 -> u = 1 || u = 3
    | _ -> true in
  let users (s : BinNums.coq_N) = List.map nn (sessions_of_user (user_of (ni s))) in
  let c = ref init_cfg in
  let step l = if not !panic then (match exec init_test l !c with Ok c1 -> c := c1 | Panic _ -> panic := true | Skip -> ()) in
  let detach_all () =
    (* the write loop of every connection that is reading takes what is in Session.detach *)
    List.iter (fun name ->
      let s = sid_of name in
      if not (List.mem s !clogged) then begin
        let go = ref true in
        while !go && not !panic do
          if (!c).c_sess (nn s) |> (fun x -> x.s_detachq) = [] then go := false else step (LSessDetach (nn s))
        done
      end) names in
  let settle_all () =
    if not !panic then (match settle (nat_of_int 64) init_test init_ok reg_ok users !c with Ok c1 -> c := c1 | Panic _ -> panic := true | Skip -> ());
    detach_all () in
  List.iter (fun (s, t) -> step (LSub (nn s, nn t, false)); settle_all ()) [(1, 1); (3, 1); (1, 2); (3, 2)];
  let out = List.map (fun op ->
    if !panic then "PANIC" else begin
      (* "kind:sess[:topic][+sess@topic,...]": after the '+' the stuck connections that a broadcast of this operation
         selected in the implementation (label parameter [rcpts] of LBroadcast) *)
      let op, extra = match String.split_on_char '+' op with
        | [o; e] -> o, List.map (fun x -> match String.split_on_char '@' x with [a; b] -> (sid_of a, b) | _ -> failwith "bad extra") (String.split_on_char ',' e)
        | _ -> op, [] in
      let w = String.split_on_char ':' op in
      let kind = List.nth w 0 and s = sid_of (List.nth w 1) in
      let tid () = match List.nth w 2 with "G" -> 1 | "P" -> 2 | "X" -> 3 | "Q" -> 4 | _ -> (let t = !fresh in incr fresh; t) in
      (* the sender is one of Topic.sessions (a stale Session.subs entry left by evictUser does not count: the user has no subscription any more, the topic drops the message) *)
      let attached t = mem (nn s) ((!c).c_topic (nn t)).t_sessions in
      let alive = not ((!c).c_sess (nn s)).s_term in
      (match kind with
       | "sub" -> step (LSub (nn s, nn (tid ()), false))
       | "leave" -> step (LLeave (nn s, nn (tid ()), false, false))
       | "unsub" -> step (LLeave (nn s, nn (tid ()), true, false))
       | "pub" -> let t = tid () in if alive && attached t then step (LBroadcast (nn t, List.map nn [1; 2; 3; 4; 5; 6]))
       | "kp" -> let t = tid () in
         if alive && attached t then step (LBroadcast (nn t, List.map nn (List.filter (fun x -> user_of x <> user_of s) [1; 2; 3; 4; 5; 6])))
       | "clog" -> if alive && not (List.mem s !clogged) then (clogged := s :: !clogged; step (LClog (nn s, true)))
       | "unclog" -> if List.mem s !clogged then (clogged := List.filter (fun x -> x <> s) !clogged; step (LClog (nn s, false)))
       | "disc" -> if alive then (clogged := List.filter (fun x -> x <> s) !clogged; step (LDiscBegin (nn s)); step (LDiscEnd (nn s)))
       | _ -> ());
      settle_all ();
      List.iter (fun (s', tok) ->
        let t = match tok with "G" -> 1 | "P" -> 2 | "Q" -> 4 | _ -> 3 in
        step (LBroadcast (nn t, [nn s'])); settle_all ()) extra;
      if !panic then "PANIC" else String.concat ";" (state_lines !c !fresh)
    end) ops in
  String.concat "|" out

open HeldLoad
let kind_of (p2p : bool) (k : string) : mkind =
  match k with
  | "pub" | "pubnoid" -> KPub
  | "kp" -> KNote (NKp, true)
  | "read" -> KNote (NRead, true)
  | "recv" -> KNote (NRecv, true)
  | "ring" | "hangup" -> KNote (NCallEvent true, p2p)
  | "getdesc" | "getsub" -> KGet (true, true)
  | "getdata" -> KGet (true, false)
  | "setpriv" -> KSet (true, false)
  | "settags" -> KSet (true, true)
  | "delmsg" -> KDelOther true
  | "deltopic" -> KDelTopic false
  | "deltopicO" -> KDelTopic true
  | "leave" -> KLeave false
  | "unsub" -> KLeave true
  | _ -> KSub

let handle (w : string list) : string =
  match w with
  | "I" :: it :: ops -> part1 (it = "1") ops
  | "H" :: as_is :: sys :: p2p :: rel :: code :: js :: jid :: msgs ->
    let p2p = p2p = "1" in
    let ti = { ti_sys = (sys = "1"); ti_p2p = p2p } in
    let join = { m_sess = nn (sid_of js); m_id = bytes_of_hex jid; m_kind = KSub } in
    let ms = List.map (fun m ->
      match String.split_on_char ':' m with
      | [s; id; k] -> { m_sess = nn (sid_of s); m_id = (if k = "pubnoid" then [] else bytes_of_hex id); m_kind = kind_of p2p k }
      | _ -> failwith "bad message") msgs in
    let rel = if rel = "ok" then RelOk else RelFail (n_of_string code) in
    let rs = run_held (as_is = "1") ti join ms rel in
    if rs = [] then "-" else
    String.concat "," (List.map (fun r -> Printf.sprintf "%s:%d:%s" (List.nth names (ni r.r_to - 1)) (ni r.r_code) (hex_of_bytes r.r_id)) rs)
  | _ -> "?"
