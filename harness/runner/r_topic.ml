(* Topic-history model runner.  Input: scenario lines (see tools/props/topiclib.py);
   output: the same canonical block format as the Go driver. *)
open Conv
open Topic

let empty_store = { t_exists = false; t_seqid = Z0; t_delid = Z0; t_owner = N0; t_auth = N0; t_anon = N0; subs = []; msgs = []; dellog = []; users = [] }
let st : state ref = ref { st = empty_store; ca = None; ncalls = Datatypes.O }
let sm : (BinNums.coq_N * BinNums.coq_N) list ref = ref []
let opi = ref 0

let mode_str (m : BinNums.coq_N) : string =
  let i = int_of_n m in
  if i = 1048576 then "-" else
  if i land 255 = 0 && i land 256 <> 0 then "" else
  let s = Acs.mode_string (n_of_int (i land 255)) in
  String.concat "" (List.map (fun b -> String.make 1 (Char.chr (int_of_n b))) s)

let kv_name k = match int_of_n k with 1 -> "seq" | 2 -> "del" | 3 -> "count" | 4 -> "what" | _ -> "k"
let what_name v = match int_of_z v with 1 -> "data" | 2 -> "sub" | 3 -> "del" | _ -> "?"
let note_name k = match int_of_n k with 1 -> "read" | 2 -> "recv" | 3 -> "kp" | _ -> "xx"
let ids_str (rs : (BinNums.coq_Z * BinNums.coq_Z) list) : string =
  String.concat "," (List.map string_of_z (DelRangesLite.expand rs))

let frame_str (fr : frame) : string =
  match fr with
  | Ctrl (code, params) ->
    "ctrl " ^ string_of_z code ^
    String.concat "" (List.map (fun (k, v) ->
      " " ^ kv_name k ^ "=" ^ (if int_of_n k = 4 then what_name v else string_of_z v)) params)
  | CtrlAcs (code, user, w, g) ->
    "ctrl " ^ string_of_z code ^ " acs=" ^ mode_str w ^ "/" ^ mode_str g ^
    (if int_of_n user = 0 then "" else " user=" ^ string_of_n user)
  | Data (seq, from, content) -> "data seq=" ^ string_of_z seq ^ " from=" ^ string_of_n from ^ " content=" ^ string_of_n content
  | MetaDesc (w, g, seq, rd, rc, del, reader) ->
    "desc acs=" ^ mode_str w ^ "/" ^ mode_str g ^ " seq=" ^ string_of_z seq ^ " read=" ^ string_of_z rd ^
    " recv=" ^ string_of_z rc ^ " del=" ^ string_of_z del
  | MetaSub rows ->
    let rows = List.sort compare (List.map (fun ((u, (w, g)), ((rd, rc), dl)) ->
      (int_of_n u, mode_str w ^ "/" ^ mode_str g, string_of_z rd, string_of_z rc, string_of_z dl)) rows) in
    "sub " ^ String.concat " " (List.map (fun (u, a, rd, rc, dl) ->
      string_of_int u ^ ":" ^ a ^ ":" ^ rd ^ ":" ^ rc ^ ":" ^ dl) rows)
  | MetaDel (delid, rs) -> "del delid=" ^ string_of_z delid ^ " ids=" ^ ids_str rs
  | Info (what, from, seq) -> "info what=" ^ note_name what ^ " from=" ^ string_of_n from ^ " seq=" ^ string_of_z seq
  | Evicted unsub -> "ctrl 205 unsub=" ^ (if unsub then "1" else "0")
  | Push (seq, from, rcpt) -> "push seq=" ^ string_of_z seq ^ " from=" ^ string_of_n from ^ " to=" ^
      String.concat "," (List.map string_of_n rcpt)

let b2s b = if b then "1" else "0"
let store_str (s : store) : string list =
  let subs = List.sort compare (List.map (fun r ->
    Printf.sprintf "sub %d %s/%s read=%s recv=%s del=%s deleted=%s" (int_of_n (r.s_user)) (mode_str (r.s_want)) (mode_str (r.s_given))
      (string_of_z (r.s_read)) (string_of_z (r.s_recv)) (string_of_z (r.s_delid)) (b2s (r.s_deleted))) s.subs) in
  let msgs = List.sort compare (List.map (fun m ->
    Printf.sprintf "msg %05d from=%d content=%s delid=%s" (int_of_z (m.m_seq)) (int_of_n (m.m_from)) (string_of_n (m.m_content)) (string_of_z (m.m_delid))) s.msgs) in
  (* dellog compared as sets of ids per (delid, for) *)
  let tbl = Hashtbl.create 16 in
  List.iter (fun d ->
    let key = (int_of_z (d.d_delid), int_of_n (d.d_for)) in
    let ids = List.map int_of_z (DelRangesLite.expand [(d.d_low, d.d_hi)]) in
    Hashtbl.replace tbl key (ids @ (try Hashtbl.find tbl key with Not_found -> []))) s.dellog;
  let dels = List.sort compare (Hashtbl.fold (fun (delid, fu) ids acc ->
    Printf.sprintf "dellog %05d for=%d ids=%s" delid fu
      (String.concat "," (List.map string_of_int (List.sort_uniq compare ids))) :: acc) tbl []) in
  (Printf.sprintf "topic seqid=%s delid=%s owner=%d" (string_of_z (s.t_seqid)) (string_of_z (s.t_delid)) (int_of_n (s.t_owner)))
  :: subs @ msgs @ dels

let parse_fault (w : string) : fault =
  if w = "N" then NoFault
  else let k = nat_of_int (int_of_string (String.sub w 1 (String.length w - 1))) in
    if w.[0] = 'F' then FailAt k else CrashAt k

let parse_ranges (w : string) : (BinNums.coq_Z * BinNums.coq_Z) list =
  if w = "-" then [] else
  List.map (fun p -> match String.split_on_char ':' p with
    | [a; b] -> (z_of_string a, z_of_string b)
    | _ -> failwith "range") (String.split_on_char ',' w)

let kv (w : string) : string * string =
  match String.index_opt w '=' with
  | Some i -> (String.sub w 0 i, String.sub w (i + 1) (String.length w - i - 1))
  | None -> (w, "")

let note_kind = function "read" -> n_of_int 1 | "recv" -> n_of_int 2 | "kp" -> n_of_int 3 | _ -> n_of_int 9

let handle (w : string list) : string =
  match w with
  | "scn" :: id :: rest ->
    let g k = z_of_string (List.assoc k (List.map kv rest)) in
    let gn k = n_of_string (List.assoc k (List.map kv rest)) in
    opi := 0; sm := [];
    let owner = gn "owner" in
    let s0 = { empty_store with t_exists = true; t_auth = gn "auth"; t_anon = gn "anon" } in
    let s1 = ad_sub_create s0 owner (gn "ownerwant") (gn "ownergiven") in
    ignore g;
    st := { st = s1; ca = None; ncalls = Datatypes.O };
    "scn " ^ id
  | ["user"; i; acc] ->
    let s = !st.st in
    let acc = n_of_string (snd (kv acc)) in
    let s' = { s with users = s.users @ [(n_of_string i, acc)] } in
    st := { !st with st = s' }; ""
  | ["subrow"; i; want; given] ->
    let s' = ad_sub_create !st.st (n_of_string i) (n_of_string (snd (kv want))) (n_of_string (snd (kv given))) in
    st := { !st with st = s' }; ""
  | ["sess"; sid; u] -> sm := !sm @ [(n_of_string sid, n_of_string u)]; ""
  | "op" :: flt :: kind :: args ->
    incr opi;
    let n = n_of_string and z = z_of_string in
    let o = match kind, args with
      | "sub", [sid; want; bkg] -> OSub (n sid, bytes_of_hex want, bkg = "1")
      | "leave", [sid; unsub] -> OLeave (n sid, unsub = "1")
      | "pub", [sid; content; noecho] -> OPub (n sid, n content, noecho = "1")
      | "note", [sid; what; seq] -> ONote (n sid, note_kind what, z seq)
      | "getdata", [sid; a; b; c] -> OGetData (n sid, z a, z b, z c)
      | "getdesc", [sid] -> OGetDesc (n sid)
      | "getsub", [sid] -> OGetSub (n sid)
      | "getdel", [sid; a; b; c] -> OGetDel (n sid, z a, z b, z c)
      | "delmsg", [sid; hard; rs] -> ODelMsg (n sid, parse_ranges rs, hard = "1")
      | "setsub", [sid; target; mode] -> OSetSub (n sid, n target, bytes_of_hex mode)
      | "delsub", [sid; target] -> ODelSub (n sid, n target)
      | "unload", [] -> OUnload
      | "restart", [] -> ORestart
      | _ -> failwith ("bad op " ^ kind) in
    let (x1, outs) = TopicInst.step_fi !sm !st (parse_fault flt, o) in
    st := x1;
    let lines = List.map (fun (sid, fr) -> "S" ^ string_of_n sid ^ " " ^ frame_str fr) outs in
    String.concat "\n" (("op " ^ string_of_int !opi) :: lines
      @ ["calls " ^ string_of_int (int_of_nat x1.ncalls);
         "loaded " ^ (match x1.ca with Some _ -> "1" | None -> "0")]
      @ List.map (fun l -> "store " ^ l) (store_str x1.st)
      @ (match x1.ca with
         | None -> []
         | Some c ->
           ("cache lastid=" ^ string_of_z c.c_lastid ^ " delid=" ^ string_of_z c.c_delid ^ " owner=" ^ string_of_n c.c_owner)
           :: List.sort compare (List.map (fun (u, p) ->
                Printf.sprintf "cache user %d %s/%s read=%s recv=%s del=%s online=%s" (int_of_n u) (mode_str p.p_want) (mode_str p.p_given)
                  (string_of_z p.p_read) (string_of_z p.p_recv) (string_of_z p.p_delid) (string_of_z p.p_online)) c.c_users)
           @ List.sort compare (List.map (fun (sid, (u, bkg)) ->
                Printf.sprintf "cache sess %s user=%d bkg=%s" (string_of_n sid) (int_of_n u) (b2s bkg)) c.c_sess)))
  | ["end"] -> "end"
  | [] -> ""
  | _ -> "?"
