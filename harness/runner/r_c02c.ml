(* C02 part c (background sessions, store faults) model runner: the extended model
   Sys/FanoutBkgC02.v on the scenario lines of tools/props/c02c.py; prints the same canonical blocks
   as the Go driver harness/overlay/server/zz_verif_c02c_test.go.  Helpers of r_c02.ml are reused. *)
open BinNums
open Conv
open Fanout
open FanoutBkgC02

let x : xstate ref = ref (xinit KGrp N0 N0 [] [] [])
let kind_s = ref "grp"
let defacs = ref 0
let rows : (int * int * int * bool) list ref = ref []
let sess_user : (int * int) list ref = ref []
let bkg_decl : int list ref = ref []
let opi = ref 0

let ni = n_of_int
let b2s = R_c02.b2s
let kv = R_c02.kv

let call_s (c, failed) =
  (match c with CGet -> "SubscriptionGet" | CShare -> "TopicShare" | CUpd -> "SubsUpdate" | CDel -> "SubsDelete")
  ^ (if failed then "!fail" else "")

let extra_lines (cl : (acall * bool) list) (xs : xstate) : string list =
  [ "calls " ^ (if cl = [] then "-" else String.concat "," (List.map call_s cl)) ]
  @ List.sort compare (List.map (fun (u, p) -> Printf.sprintf "O %02d %s" (int_of_n u) (string_of_z p.pu_online)) xs.x_st.st_users)
  @ List.sort compare (List.map (fun k -> Printf.sprintf "B %02d" (int_of_n k)) xs.x_bkg)
  @ List.sort compare (List.map (fun (u, (w, g)) -> Printf.sprintf "R %02d want=%d given=%d" (int_of_n u) (int_of_n w) (int_of_n g)) xs.x_rows)
  @ List.sort compare (List.map (fun (u, w) -> Printf.sprintf "C %02d want=%d" (int_of_n u) (int_of_n w)) xs.x_st.st_chanrows)

let build () =
  let p2p = !kind_s = "p2p" in
  let users = List.filter_map (fun (u, w, g, ch) ->
    if ch then None else
    Some (ni u, { pu_want = ni w; pu_given = ni g; pu_deleted = false; pu_ischan = false;
                  pu_peer = (if p2p then ni (if u = 1 then 2 else 1) else N0); pu_online = z_of_int 0 })) (List.rev !rows) in
  let crow = List.filter_map (fun (u, w, _, ch) -> if ch then Some (ni u, ni w) else None) (List.rev !rows) in
  let k = match !kind_s with "p2p" -> KP2P | "chn" -> KChn | _ -> KGrp in
  x := xinit k (if p2p then N0 else ni 1) (if p2p then N0 else ni !defacs) users crow []

let do_op (f : int) (kind : string) (args : string list) : string =
  incr opi;
  let hdr = "op " ^ string_of_int !opi in
  let i = int_of_string in
  let s = i (List.hd args) in
  let state_lines () = R_c02.state_lines !x.x_st in
  if not (List.mem_assoc s !sess_user) then String.concat "\n" ((hdr :: "skipped" :: state_lines ()) @ extra_lines [] !x) else
  let real = List.assoc s !sess_user in
  let acting a = if i a = 0 then real else i a in
  let peer u = if u = 1 then 2 else 1 in
  let fn = nat_of_int f in
  let o = match kind, args with
    | "att", [_; a; sp] -> XAttach (fn, ni s, ni (acting a), sp = "c", None)
    | "attm", [_; a; sp; m] -> XAttach (fn, ni s, ni (acting a), sp = "c", Some (ni (i m)))
    | "det", [_; a; sp] -> XDetach (ni s, ni (acting a), sp = "c")
    | "unsub", [_; a; sp] -> XUnsub (fn, ni s, ni (acting a), sp = "c")
    | "disc", [_] -> XDisc (ni s)
    | "fg", [_] -> XFg (ni s)
    | "want", [_; a; _; m] -> XSetWant (fn, ni (acting a), ni (i m))
    | "given", [_; a; _; u; m] -> XSetGiven (fn, ni (acting a), ni (i u), ni (i m))
    | "evict", [_; a; _; u] -> XEvict (fn, ni (acting a), ni (i u))
    | "clog", [_] -> XClog (ni s)
    | "unclog", [_] -> XUnclog (ni s)
    | "pub", [_; a; sp; ne; hasid; content; hd] ->
      let au = acting a in
      let orig = match sp with "g" -> TGrp | "c" -> TChn | "u" -> TUsr (ni (peer au)) | _ -> TP2P in
      XPub { px_sid = ni s; px_real = ni real; px_author = ni au; px_orig = orig; px_noecho = (ne = "1");
             px_hasid = (hasid = "1"); px_content = n_of_string content; px_head = R_c02.head_of hd }
    | _ -> failwith ("bad op " ^ kind) in
  let res = xstep !x o in
  let oos = match res.xr_state with Some x1 -> x := x1; [] | None -> [ "oos" ] in
  let lines = match res.xr_pub, o with
    | Some r, XPub px ->
      let me = "S" ^ string_of_int s in
      (match r with
       | PNotAttached -> [ me ^ " ctrl 409 mine=1" ]
       | PCallPath -> [ "callpath" ]
       | PDenied -> [ me ^ " ctrl 403 mine=1" ]
       | PAccepted (seq, ack, copies, push) ->
         let fl = List.map (fun (k, f) ->
           (int_of_n k, Printf.sprintf "data seq=%s from=%d topic=%s content=%s head=%s" (string_of_z f.f_seq) (int_of_n f.f_from)
              (R_c02.tname_s f.f_topic) (string_of_n f.f_content) (R_c02.head_s f.f_head))) (sent copies) in
         let al = match ack with
           | AckSent _ -> [ (s, Printf.sprintf "ctrl 202 mine=1 seq=%s" (string_of_z seq)) ]
           | _ -> [] in
         let all = List.stable_sort (fun (a, _) (b, _) -> compare a b) (al @ fl) in
         let ov = List.map (fun k -> "overflow " ^ string_of_n k) (List.sort compare (overflowed copies)) in
         let pl = match push with
           | None -> []
           | Some (to_, ch) ->
             let ts = List.sort compare (List.map int_of_n to_) in
             [ Printf.sprintf "push seq=%s from=%d topic=%s to=%s chan=%s" (string_of_z seq) (int_of_n px.px_author)
                 (if !kind_s = "p2p" then "T" else "g")
                 (if ts = [] then "-" else String.concat "," (List.map string_of_int ts)) (if ch then "c" else "-") ] in
         List.map (fun (k, t) -> "S" ^ string_of_int k ^ " " ^ t) all @ ov @ pl)
    | _ -> [] in
  String.concat "\n" ((hdr :: lines) @ oos @ state_lines () @ extra_lines res.xr_calls !x)

let handle (w : string list) : string =
  match w with
  | "scn" :: id :: rest ->
    opi := 0; rows := []; sess_user := []; bkg_decl := [];
    kind_s := kv rest "kind";
    defacs := (try int_of_string (kv rest "defacs") with _ -> 0);
    "scn " ^ id
  | "subrow" :: u :: rest ->
    rows := (int_of_string u, int_of_string (kv rest "want"), int_of_string (kv rest "given"), kv rest "chan" = "1") :: !rows; ""
  | ["mk"] -> build (); ""
  | "sess" :: si :: ui :: flags ->
    sess_user := (int_of_string si, int_of_string ui) :: !sess_user;
    if List.mem "b" flags then begin
      bkg_decl := int_of_string si :: !bkg_decl;
      x := { !x with x_bkg = !x.x_bkg @ [ ni (int_of_string si) ] }
    end;
    ""
  | "op" :: kind :: args -> do_op 0 kind args
  | "fop" :: k :: kind :: args -> do_op (int_of_string k) kind args
  | ["end"] -> "end"
  | [] -> ""
  | _ -> "?"
