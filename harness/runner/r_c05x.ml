(* C05 layer 2 model runner (Sys/AcsNotify.v): one request per line, one answer per line.
     NP ow og nw ng                       -> NP <hex dWant> <hex dGiven> unsub=<b> acs=<b>
     FL w g has hexW hexG                 -> FL w g                (client session: follow)
     PX present w g srcok has hexW hexG   -> PX w g | PX none      (proxy_pres on the entry of the notified user)
     RC target skip unsub sid:uid:it:want:given ...  -> RC d=<sids> m=<sids> b=<sids> *)
open Conv
let b2s b = if b then "1" else "0"
let nl l = if l = [] then "-" else String.concat "," (List.map string_of_n l)
let acs has hw hg = if has = "1" then Some (bytes_of_hex hw, bytes_of_hex hg) else None
let handle (w : string list) : string =
  match w with
  | ["NP"; ow; og; nw; ng] ->
    let d = AcsNotify.notify_params (n_of_string ow) (n_of_string og) (n_of_string nw) (n_of_string ng) in
    "NP " ^ hex_of_bytes (fst d) ^ " " ^ hex_of_bytes (snd d) ^ " unsub=" ^ b2s (AcsNotify.ns_unsub (n_of_string nw) (n_of_string ng))
    ^ " acs=" ^ b2s (match AcsNotify.pack_acs d with Some _ -> true | None -> false)
  | ["FL"; cw; cg; has; hw; hg] ->
    let (a, b) = AcsNotify.follow (n_of_string cw, n_of_string cg) (acs has hw hg) in
    "FL " ^ string_of_n a ^ " " ^ string_of_n b
  | ["PX"; present; cw; cg; srcok; has; hw; hg] ->
    let u = n_of_int 7 in
    let t = if present = "1" then [(u, (n_of_string cw, n_of_string cg))] else [] in
    let t' = AcsNotify.proxy_pres t (if srcok = "1" then u else n_of_int 0) (acs has hw hg) in
    (match AcsNotify.lk u t' with
     | Some (a, b) -> "PX " ^ string_of_n a ^ " " ^ string_of_n b
     | None -> "PX none")
  | "RC" :: target :: skip :: unsub :: rest ->
    let ents = List.map (fun e -> match String.split_on_char ':' e with
      | [sid; uid; it; want; given] -> (n_of_string sid, n_of_string uid, it = "1", n_of_string want, n_of_string given)
      | _ -> failwith "bad RC entry") rest in
    let ss = List.map (fun (sid, uid, it, _, _) -> (sid, (uid, it))) ents in
    let t = List.map (fun (_, uid, _, wa, gi) -> (uid, (wa, gi))) ents in
    let tg = n_of_string target and sk = n_of_string skip and un = (unsub = "1") in
    let srt l = List.sort compare (List.map int_of_n l) |> List.map n_of_int in
    "RC d=" ^ nl (srt (AcsNotify.direct_rcpt ss tg sk un)) ^ " m=" ^ nl (srt (AcsNotify.me_rcpt ss tg sk un))
    ^ " b=" ^ nl (srt (AcsNotify.bcast_rcpt ss t tg sk))
  | _ -> "?"
