(* C12 model runner.  Request = the case words, then "|", then the aux words the
   implementation driver printed (clock readings, presented token, MAC values). *)
open Conv
open BinNums

let split_aux (w : string list) : string list * string list =
  let rec go acc = function
    | [] -> (List.rev acc, [])
    | "|" :: rest -> (List.rev acc, rest)
    | x :: rest -> go (x :: acc) rest in
  go [] w

let aux_get (aux : string list) (k : string) : string option =
  let p = k ^ "=" in
  let n = String.length p in
  List.find_map (fun a -> if String.length a >= n && String.sub a 0 n = p
                  then Some (String.sub a n (String.length a - n)) else None) aux
let aux_all (aux : string list) (k : string) : string list =
  let p = k ^ "=" in
  let n = String.length p in
  List.filter_map (fun a -> if String.length a >= n && String.sub a 0 n = p
                    then Some (String.sub a n (String.length a - n)) else None) aux
let req aux k = match aux_get aux k with Some v -> v | None -> failwith ("aux-missing-" ^ k)

(* the MAC as a finite table supplied by the harness (real HMAC values) *)
let mac_of_table (aux : string list) : coq_N list -> coq_N list -> coq_N list =
  let tbl = List.map (fun e -> match String.split_on_char ':' e with
      | [k; d; m] -> ((k, d), m) | _ -> failwith "bad-mac-entry") (aux_all aux "mac") in
  fun k d ->
    match List.assoc_opt (hex_of_bytes k, hex_of_bytes d) tbl with
    | Some m -> bytes_of_hex m
    | None -> failwith "mac-not-supplied"

let terr = function Token.TMalformed -> "malformed" | Token.TFailed -> "failed" | Token.TExpired -> "expired"

let token (w : string list) (aux : string list) : string =
  match w with
  | [_; key; serial; expire_in; uid; level; features; _ltspec; vkey; vserial; mut] ->
    let key = bytes_of_hex key and serial = z_of_string serial and expire_in = z_of_string expire_in in
    if not (Token.token_init_ok key expire_in) then "initerr" else
    let mac = mac_of_table aux in
    let g = { Token.g_uid = n_of_string uid; g_level = z_of_string level;
              g_features = n_of_string features; g_lifetime = z_of_string (req aux "L") } in
    let deflt = Token.default_lifetime expire_in in
    let res, issued =
      match Token.effective_lifetime deflt g with
      | None -> "gen:err", None
      | Some _ ->
        let exp = z_of_string (req aux "exp") in
        let tok = Token.issue_at mac key serial exp g in
        let br = Token.gen_bracket_ok deflt (z_of_string (req aux "t0")) (z_of_string (req aux "t1")) g exp in
        "gen:ok " ^ hex_of_bytes tok ^ (if br then " expok" else " expbad"), Some tok in
    let vkey' = if vkey = "=" then key else bytes_of_hex vkey in
    let vserial' = if vserial = "=" then serial else z_of_string vserial in
    if (vkey <> "=" || vserial <> "=") && not (Token.token_init_ok vkey' expire_in) then res ^ " vinit:err" else
    let standalone = (String.length mut >= 4 && String.sub mut 0 4 = "set:")
                     || (String.length mut >= 6 && String.sub mut 0 6 = "craft:") in
    if issued = None && not standalone then res else
    let ptok = bytes_of_hex (req aux "ptok") in
    let nowv = z_of_string (req aux "nowv") in
    (match Token.authenticate mac vkey' vserial' nowv ptok with
     | Token.TOk r -> res ^ " auth:ok " ^ string_of_n r.Token.r_uid ^ " " ^ string_of_n r.Token.r_level
                      ^ " " ^ string_of_n r.Token.r_features
     | Token.TErr e -> res ^ " auth:err " ^ terr e)
  | _ -> "?"

(* ---------------- API key ---------------- *)
let akres = function
  | ApiKey.AKPanic -> "panic" | ApiKey.AKRefused -> "refused"
  | ApiKey.AKValid r -> "valid " ^ (if r then "1" else "0")

let apikey (w : string list) (aux : string list) : string =
  match w with
  | [_; salt; key] ->
    let mac = mac_of_table aux in
    let salt = bytes_of_hex salt and key = bytes_of_hex key in
    "K " ^ akres (ApiKey.check_api_key mac salt key) ^ " ; " ^ akres (ApiKey.check_api_key_fixed mac salt key)
  | _ -> "?"

(* ---------------- reset codes ---------------- *)
let split_on c s = String.split_on_char c s
let cerr = function Code.CEMalformed -> "malformed" | Code.CEFailed -> "failed"
                  | Code.CEDuplicate -> "duplicate" | Code.CEExpired -> "expired"
let sec = z_of_string "1000000000"
let zmul a b = BinInt.Z.mul a b

let code_with step (w : string list) (aux : string list) : string =
  match w with
  | _ :: code_len :: expire_in :: max_retries :: ops ->
    let cfg = { Code.cc_max_retries = z_of_string max_retries;
                cc_lifetime = zmul (z_of_string expire_in) sec } in
    let st = ref Code.cinit in
    let out = List.mapi (fun i op ->
      let f = split_on ':' op in
      let mop, tag = match f with
        | ["G"; cred; uid; lt] ->
          let nc = match aux_get aux ("g" ^ string_of_int i) with Some c -> bytes_of_hex c | None -> [] in
          Code.CGen (bytes_of_hex cred, n_of_string uid, z_of_string lt, nc), "G"
        | "A" :: _ | "S" :: _ -> Code.CAuth (bytes_of_hex (req aux ("s" ^ string_of_int i))), "A"
        | ["ADV"; d] -> Code.CAdv (zmul (z_of_string d) sec), "ADV"
        | _ -> failwith "bad-op" in
      let (st', r) = step cfg !st mop in
      st := st';
      match r with
      | Code.CGenOk c -> "G:ok:" ^ code_len ^ ":1:1"
      | Code.CAuthOk (uid, cred) -> "A:ok:" ^ string_of_n uid ^ ":0:2:" ^ hex_of_bytes cred
      | Code.CErr e -> tag ^ ":err:" ^ cerr e
      | Code.CAdvanced -> "ADV") ops in
    let rows = List.map (fun (k, e) ->
        hex_of_bytes k ^ "=" ^ hex_of_bytes e.Code.ce_code ^ "/" ^ string_of_z e.Code.ce_count ^ "/"
        ^ string_of_n e.Code.ce_uid) (!st).Code.cs_store in
    let rows = List.sort compare rows in
    "C " ^ String.concat " " out ^ " st:" ^ (if rows = [] then "-" else String.concat ";" rows)
  | _ -> "?"

(* the code as it is, then the code with the proposed expiry repair *)
let code w aux = code_with Code.cstep w aux ^ " ;; " ^ code_with Code.cstep_fixed w aux

(* ---------------- login / password ---------------- *)
let berr = function Basic.BEMalformed -> "malformed" | Basic.BEPolicy -> "policy" | Basic.BEDuplicate -> "duplicate"
                  | Basic.BEFailed -> "failed" | Basic.BEExpired -> "expired" | Basic.BENotFound -> "notfound"

let bcerr_name = function
  | Basic.BcTooShort -> "short" | Basic.BcPrefix -> "prefix" | Basic.BcVersion -> "version"
  | Basic.BcCostSyntax -> "costsyntax" | Basic.BcCostRange -> "costrange" | Basic.BcOther -> "other"
  | Basic.BcIndexPanic -> "indexpanic"
let bcres_of_string = function
  | "m" -> Basic.BcMatch | "x" -> Basic.BcMismatch
  | "e-short" -> Basic.BcError Basic.BcTooShort | "e-prefix" -> Basic.BcError Basic.BcPrefix
  | "e-version" -> Basic.BcError Basic.BcVersion | "e-costsyntax" -> Basic.BcError Basic.BcCostSyntax
  | "e-costrange" -> Basic.BcError Basic.BcCostRange | "e-other" -> Basic.BcError Basic.BcOther
  | s -> failwith ("bad-bcrypt-outcome-" ^ s)

let basic (w : string list) (aux : string list) : string =
  match w with
  | _ :: _minl :: _minp :: ops ->
    (* lower / policies: the table the driver computed with strings.ToLower and the policy of the source;
       hash := the bytes the store holds after the operation (reported by the driver: bcrypt salts are random),
       cmp := the three-valued outcome table the driver computed with golang.org/x/crypto/bcrypt for exactly the
       (stored bytes, password) pairs the authenticator may have to compare *)
    let tbl = List.map (fun e -> match split_on ':' e with
        | [sec; low; lok; pok] -> (sec, (low, lok = "1", pok = "1")) | _ -> failwith "bad-lo") (aux_all aux "lo") in
    let split_hex (sec : string) : (string * string) option =
      let b = bytes_of_hex sec in
      match Code.split_colon b with Some (u, p) -> Some (hex_of_bytes u, hex_of_bytes p) | None -> None in
    (* functions of the login / password alone, recovered from the per-secret table *)
    let by_login = List.filter_map (fun (sec, (low, lok, _)) ->
        match split_hex sec with Some (u, _) -> Some (u, (low, lok)) | None -> None) tbl in
    let by_pw = List.filter_map (fun (sec, (_, _, pok)) ->
        match split_hex sec with Some (_, p) -> Some (p, pok) | None -> None) tbl in
    let lower u = match List.assoc_opt (hex_of_bytes u) by_login with
      | Some (low, _) -> bytes_of_hex low | None -> failwith "lower-not-supplied" in
    let login_ok u =
      (* asked about the lower-cased login *)
      match List.find_opt (fun (_, (low, _)) -> low = hex_of_bytes u) by_login with
      | Some (_, (_, ok)) -> ok | None -> failwith "login_ok-not-supplied" in
    let pw_ok p = match List.assoc_opt (hex_of_bytes p) by_pw with Some ok -> ok | None -> failwith "pw_ok-not-supplied" in
    let bctbl = List.map (fun e -> match split_on ':' e with
        | [h; p; o] -> ((h, p), bcres_of_string o) | _ -> failwith "bad-bc-entry") (aux_all aux "bc") in
    let cmp h p = match List.assoc_opt (hex_of_bytes h, hex_of_bytes p) bctbl with
      | Some o -> o | None -> failwith "bcrypt-outcome-not-supplied" in
    let stored i = match aux_get aux ("h" ^ string_of_int i) with Some h -> bytes_of_hex h | None -> [] in
    let raw_bytes = function "nil" -> [] | h -> bytes_of_hex h in
    let st = ref Basic.binit in
    let out = List.mapi (fun i op ->
      let f = split_on ':' op in
      let mop, tag = match f with
        | ["ADD"; uid; lvl; sec; lt] -> Basic.BAdd (n_of_string uid, z_of_string lvl, bytes_of_hex sec, stored i, z_of_string lt), "ADD"
        | ["AUTH"; sec] -> Basic.BAuth (bytes_of_hex sec), "AUTH"
        | ["UPD"; uid; sec; lt] -> Basic.BUpd (n_of_string uid, bytes_of_hex sec, stored i, z_of_string lt), "UPD"
        | ["ADV"; d] -> Basic.BAdv (zmul (z_of_string d) sec), "ADV"
        | ["RAW"; uid; h] -> Basic.BRaw (n_of_string uid, raw_bytes h), "RAW"
        | _ -> failwith "bad-op" in
      let (st', r) = Basic.bstep lower login_ok pw_ok cmp !st mop in
      st := st';
      match r with
      | Basic.BRawOk ->
        (* the class of bcrypt's header check (newFromHash) on the bytes written, by the model of it *)
        let h = (match mop with Basic.BRaw (_, h) -> h | _ -> []) in
        "RAW:ok:" ^ (match Basic.bc_header h with None -> "none" | Some e -> bcerr_name e)
      | Basic.BAddOk l -> "ADD:ok:" ^ string_of_z l
      | Basic.BAuthOk (u, l) -> "AUTH:ok:" ^ string_of_n u ^ ":" ^ string_of_z l
      | Basic.BUpdOk -> "UPD:ok"
      | Basic.BErr e -> tag ^ ":err:" ^ berr e
      | Basic.BAdvanced -> "ADV") ops in
    let rows = List.map (fun (k, r) ->
        hex_of_bytes k ^ "=" ^ string_of_n r.Basic.br_uid ^ "/" ^ string_of_z r.Basic.br_level ^ "/"
        ^ (match r.Basic.br_expires with Some _ -> "1" | None -> "0")) (!st).Basic.bs_store in
    let rows = List.sort compare rows in
    "B " ^ String.concat " " out ^ " st:" ^ (if rows = [] then "-" else String.concat ";" rows)
  | _ -> "?"

let handle (w : string list) : string =
  let (c, aux) = split_aux w in
  match c with
  | "T" :: _ -> token c aux
  | "K" :: _ -> apikey c aux
  | "C" :: _ -> code c aux
  | "B" :: _ -> basic c aux
  | "LOWER" :: _ -> "LOWER 0 "
  | _ -> "?"
