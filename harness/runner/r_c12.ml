(* C12 model runner.  Request = the case words, then "|", then the aux words the
   implementation driver printed (clock readings, presented token, MAC values). *)
open Conv
open BinNums

let split_aux (w : string list) : string list * string list =
  let rec go acc = function
    | [] -> (List.rev acc, [])
    | "|" :: rest -> (List.rev acc, rest)
    | x :: rest -> go (x :: acc) rest in
  go [] w

let aux_get (aux : string list) (k : string) : string option =
  let p = k ^ "=" in
  let n = String.length p in
  List.find_map (fun a -> if String.length a >= n && String.sub a 0 n = p
                  then Some (String.sub a n (String.length a - n)) else None) aux
let aux_all (aux : string list) (k : string) : string list =
  let p = k ^ "=" in
  let n = String.length p in
  List.filter_map (fun a -> if String.length a >= n && String.sub a 0 n = p
                    then Some (String.sub a n (String.length a - n)) else None) aux
let req aux k = match aux_get aux k with Some v -> v | None -> failwith ("aux-missing-" ^ k)

(* the MAC as a finite table supplied by the harness (real HMAC values) *)
let mac_of_table (aux : string list) : coq_N list -> coq_N list -> coq_N list =
  let tbl = List.map (fun e -> match String.split_on_char ':' e with
      | [k; d; m] -> ((k, d), m) | _ -> failwith "bad-mac-entry") (aux_all aux "mac") in
  fun k d ->
    match List.assoc_opt (hex_of_bytes k, hex_of_bytes d) tbl with
    | Some m -> bytes_of_hex m
    | None -> failwith "mac-not-supplied"

let terr = function Token.TMalformed -> "malformed" | Token.TFailed -> "failed" | Token.TExpired -> "expired"

let token (w : string list) (aux : string list) : string =
  match w with
  | [_; key; serial; expire_in; uid; level; features; _ltspec; vkey; vserial; mut] ->
    let key = bytes_of_hex key and serial = z_of_string serial and expire_in = z_of_string expire_in in
    if not (Token.token_init_ok key expire_in) then "initerr" else
    let mac = mac_of_table aux in
    let g = { Token.g_uid = n_of_string uid; g_level = z_of_string level;
              g_features = n_of_string features; g_lifetime = z_of_string (req aux "L") } in
    let deflt = Token.default_lifetime expire_in in
    let res, issued =
      match Token.effective_lifetime deflt g with
      | None -> "gen:err", None
      | Some _ ->
        let exp = z_of_string (req aux "exp") in
        let tok = Token.issue_at mac key serial exp g in
        let br = Token.gen_bracket_ok deflt (z_of_string (req aux "t0")) (z_of_string (req aux "t1")) g exp in
        "gen:ok " ^ hex_of_bytes tok ^ (if br then " expok" else " expbad"), Some tok in
    let vkey' = if vkey = "=" then key else bytes_of_hex vkey in
    let vserial' = if vserial = "=" then serial else z_of_string vserial in
    if (vkey <> "=" || vserial <> "=") && not (Token.token_init_ok vkey' expire_in) then res ^ " vinit:err" else
    let standalone = (String.length mut >= 4 && String.sub mut 0 4 = "set:")
                     || (String.length mut >= 6 && String.sub mut 0 6 = "craft:") in
    if issued = None && not standalone then res else
    let ptok = bytes_of_hex (req aux "ptok") in
    let nowv = z_of_string (req aux "nowv") in
    (match Token.authenticate mac vkey' vserial' nowv ptok with
     | Token.TOk r -> res ^ " auth:ok " ^ string_of_n r.Token.r_uid ^ " " ^ string_of_n r.Token.r_level
                      ^ " " ^ string_of_n r.Token.r_features
     | Token.TErr e -> res ^ " auth:err " ^ terr e)
  | _ -> "?"

let handle (w : string list) : string =
  let (c, aux) = split_aux w in
  match c with
  | "T" :: _ -> token c aux
  | _ -> "?"
