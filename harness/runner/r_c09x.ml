(* C09 on the presence slice: model runner for tools/props/c09.py pres_notes.  Same scenario lines and the
   same canonical blocks as the C10 runner (R_pres: its state, parsers and dump are reused as they are), run
   with the LABELLED steps of Sys/PresNoteC09.v (every {info} frame with its Info.From), plus the lines the
   driver harness/overlay/server/zz_verif_c09x_test.go adds:
     I <sid> <topic as seen> <src> i:<what> from=<user>     (for {note} requests)
     LC / MC  cached lastID and marks of loaded topics;  LS / MS  stored seqid and marks of the rows. *)
open Conv
open Pres
open PresNoteC09

let marks (s : state) : string list =
  let lines = ref [] in
  let add l = lines := l :: !lines in
  List.iter (fun (t, x) ->
    let tk = R_pres.tok t in
    let isp2p = (match t with TP2P _ -> true | _ -> false) in
    if x.t_loaded then begin
      add (Printf.sprintf "LC %s %s" tk (string_of_z x.t_lastid));
      List.iter (fun (u, p) ->
        if isp2p || not p.p_deleted then
          add (Printf.sprintf "MC %s %d %s %s" tk (int_of_n u) (string_of_z p.p_read) (string_of_z p.p_recv))) x.t_users
    end;
    add (Printf.sprintf "LS %s %s" tk (string_of_z x.t_lastid));
    List.iter (fun (u, p) ->
      add (Printf.sprintf "MS %s %d %s %s" tk (int_of_n u) (string_of_z p.p_dread) (string_of_z p.p_drecv))) x.t_users)
    s.s_top;
  List.sort compare !lines

let handle (w : string list) : string =
  match w with
  | "op" :: kind :: a ->
    incr R_pres.opi;
    let outs = ref [] in
    let do_op (o : op) =
      let (s1, o1) = step_from !R_pres.st o in
      let (s2, o2) = drain_from R_pres.fuel s1 in
      R_pres.st := s2; outs := !outs @ o1 @ o2 in
    let n i = n_of_string (List.nth a i) in
    let sid_user i = n_of_int (R_pres.user_of (int_of_string (List.nth a i))) in
    let flag i = List.length a > i && List.nth a i = "1" in
    let pref = R_pres.parse_ref and pabs = R_pres.parse_abs in
    (match kind with
     | "new" -> do_op (New (n 0, sid_user 0, n 1, flag 2))
     | "att" -> do_op (Att (n 0, sid_user 0, pref (List.nth a 1), flag 2))
     | "det" -> do_op (Det (n 0, pref (List.nth a 1)))
     | "unsub" -> do_op (Unsub (n 0, pref (List.nth a 1)))
     | "disc" -> do_op (Disc (n 0))
     | "fg" -> do_op (Fg (n 0))
     | "want" -> do_op (Want (n 0, pref (List.nth a 1), n 2))
     | "given" -> do_op (Given (n 0, pref (List.nth a 1), n 2, n 3))
     | "evict" -> do_op (Evict (n 0, pref (List.nth a 1), n 2))
     | "pub" -> do_op (Pub (n 0, pref (List.nth a 1)))
     | "note" ->
       let wh = (match List.nth a 2 with "kp" -> WIKp | "read" -> WIRead | "recv" -> WIRecv | _ -> WOther) in
       do_op (Note (n 0, sid_user 0, pref (List.nth a 1), wh, z_of_string (List.nth a 3)))
     | "delmsg" -> do_op (DelMsg (n 0, pref (List.nth a 1), flag 2))
     | "unload" -> do_op (Unload (pabs (List.nth a 0)))
     | "unload1" -> do_op (UnloadHub (pabs (List.nth a 0)))
     | "unload2" -> do_op (UnloadOff (pabs (List.nth a 0)))
     | "unloadall" ->
       let ts = List.sort (fun x y -> compare (R_pres.key_of x) (R_pres.key_of y)) (idle_topics !R_pres.st) in
       List.iter (fun t -> if idle !R_pres.st t then do_op (Unload t)) ts;
       outs := List.filter (fun (o, _) -> o <> Skipped) !outs
     | _ -> outs := [(Skipped, None)]);
    let fl = List.sort compare (List.filter_map (fun (o, _) -> R_pres.out_str o) !outs) in
    (* the {info} frames of a {note} request with the From the model gives them *)
    let il = if kind <> "note" then [] else
      List.sort compare (List.filter_map (fun (o, f) ->
        match o, R_pres.out_str o with
        | Frame (_, _, _, _, (WIRead | WIRecv | WIKp)), Some l ->
          let body = String.sub l 2 (String.length l - 2) in
          Some (Printf.sprintf "I %s from=%s" body (match f with Some u -> string_of_n u | None -> "?"))
        | _ -> None) !outs) in
    let hang = if (!R_pres.st).s_net <> [] then ["HANG model network not drained"] else [] in
    String.concat "\n" (("op " ^ string_of_int !R_pres.opi) :: il @ fl @ hang @ R_pres.dump !R_pres.st @ marks !R_pres.st)
  | _ -> R_pres.handle w
