(* C12 model runner, token re-issuance on {login} (Sys/Relogin.v).
   Request:  R <key hex> <serial> <expire_in s> <code expire_in s> <state_ok 0|1> <unvalidated 0|1>
               <session uid> <session lvl> <t0 ns> <t1 ns> <secret> | mac=<key>:<data>:<mac> ...
   <secret>: tok:<hex> | code:<uid>|code:- | basic:<uid>:<lvl>:<record expiry ns or 0>|basic:- | bogus
   Answer:   <code> <session uid>,<session lvl> <uid> <lvl> <features> <Elo> <Ehi> <exp_lo ns> <exp_hi ns>
             (or "-" in place of the five token items when no token is handed back), evaluated at the
             two extreme clocks of the bracket [t0, t1]; AMBIG when they differ in more than the expiry. *)
open Conv
open BinNums

let mac_of_table (aux : string list) : coq_N list -> coq_N list -> coq_N list =
  let tbl = List.map (fun e -> match String.split_on_char ':' e with
      | [k; d; m] -> ((k, d), m) | _ -> failwith "bad-mac-entry") (R_c12.aux_all aux "mac") in
  fun k d ->
    match List.assoc_opt (hex_of_bytes k, hex_of_bytes d) tbl with
    | Some m -> bytes_of_hex m
    | None -> List.init 32 (fun _ -> N0)     (* signature of the token handed back: not compared here *)

let lcode = function
  | Relogin.LOk200 -> "200" | Relogin.LValidate300 -> "300"
  | Relogin.LRefused4xx -> "4xx" | Relogin.LAlready409 -> "409"

(* G <key hex> <serial> <expire_in s> <update|create> <uid> <t0 ns> <t1 ns>: the temporary token of a credential
   validation request -> <uid> <lvl> <features> <Elo> <Ehi> *)
let tmp (w : string list) : string =
  match w with
  | [_; key; serial; expire_in; kind; uid; t0; t1] ->
    let mac = fun _ _ -> List.init 32 (fun _ -> N0) in
    let cfg = { Relogin.tc_key = bytes_of_hex key; tc_serial = z_of_string serial;
                tc_lifetime = Token.default_lifetime (z_of_string expire_in) } in
    let rc = if kind = "create" then Relogin.create_cred_rec (n_of_string uid) else Relogin.update_cred_rec (n_of_string uid) in
    let one t = match Relogin.tmp_token mac cfg (z_of_string t) rc with
      | None -> None
      | Some (tok, _) -> Some (Relogin.tok_fields tok) in
    (match one t0, one t1 with
     | Some a, Some b ->
       string_of_n a.Token.f_uid ^ " " ^ string_of_n a.Token.f_level ^ " " ^ string_of_n a.Token.f_features ^ " "
       ^ string_of_n a.Token.f_expires ^ " " ^ string_of_n b.Token.f_expires
     | _ -> "-")
  | _ -> "?"

let handle (w : string list) : string =
  let (c, aux) = R_c12.split_aux w in
  match c with
  | "G" :: _ -> tmp c
  | [_; key; serial; expire_in; code_expire_in; state_ok; unvalidated; suid; slvl; t0; t1; sec] ->
    let mac = mac_of_table aux in
    let second = z_of_string "1000000000" in
    let cfg = { Relogin.tc_key = bytes_of_hex key; tc_serial = z_of_string serial;
                tc_lifetime = Token.default_lifetime (z_of_string expire_in) } in
    let env = { Relogin.le_state_ok = (state_ok = "1"); le_unvalidated = (unvalidated = "1");
                le_code_lifetime = BinInt.Z.mul (z_of_string code_expire_in) second } in
    let s = { Relogin.s_uid = n_of_string suid; s_lvl = z_of_string slvl } in
    let sec = match String.split_on_char ':' sec with
      | ["tok"; h] -> Relogin.SecToken (bytes_of_hex h)
      | ["code"; "-"] -> Relogin.SecCode None
      | ["code"; u] -> Relogin.SecCode (Some (n_of_string u))
      | ["basic"; "-"] -> Relogin.SecBasic None
      | ["basic"; u; l; e] ->
        Relogin.SecBasic (Some ((n_of_string u, z_of_string l), (if e = "0" then None else Some (z_of_string e))))
      | _ -> Relogin.SecUnknownScheme in
    let t0 = z_of_string t0 and t1 = z_of_string t1 in
    let run clk =
      let (s', o) = Relogin.login mac cfg env s clk sec in
      let head = lcode o.Relogin.lo_code ^ " " ^ string_of_n s'.Relogin.s_uid ^ "," ^ string_of_z s'.Relogin.s_lvl in
      match o.Relogin.lo_token with
      | None -> (head ^ " -", None)
      | Some (tok, exp) ->
        let f = Relogin.tok_fields tok in
        (head ^ " " ^ string_of_n f.Token.f_uid ^ " " ^ string_of_n f.Token.f_level ^ " " ^ string_of_n f.Token.f_features,
         Some (string_of_n f.Token.f_expires, string_of_z exp)) in
    let (a, ea) = run (Relogin.clk_lo t0 t1) and (b, eb) = run (Relogin.clk_hi t0 t1) in
    if a <> b then "AMBIG " ^ a ^ " / " ^ b else
    (match ea, eb with
     | Some (e1, x1), Some (e2, x2) -> a ^ " " ^ e1 ^ " " ^ e2 ^ " " ^ x1 ^ " " ^ x2
     | None, None -> a
     | _ -> "AMBIG " ^ a)
  | _ -> "?"
