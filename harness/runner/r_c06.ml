(* C06 model runner for the owner-only gates:
     gate <deltopic|public|trusted|defacs|defacso|tags> <loaded> <attached> <owner_c> <owner_s> <subscribed> <root>
   -> all|own|none <code>
   and for {del what=topic} with the population of the topic (Sys/OwnerGateC06x.v):
     delgate <grp|p2p> <loaded> <owner_c> <count_c> <subscribed> <owner_s> <count_s>
   -> all|own|none <code> *)
open Conv
open OwnerGate
open OwnerGateC06x
let b s = s = "1"
let handle (w : string list) : string =
  match w with
  | ["gate"; k; l; a; oc; os; sb; rt] ->
    let kind = match k with
      | "deltopic" -> Some GDelTopic | "public" -> Some GSetPublic | "trusted" -> Some GSetTrusted
      | "defacs" -> Some (GSetDefacs false) | "defacso" -> Some (GSetDefacs true) | "tags" -> Some GSetTags
      | _ -> None in
    (match kind with
     | None -> "?"
     | Some kd ->
       let r = { g_loaded = b l; g_attached = b a; g_owner_c = b oc; g_owner_s = b os; g_subscribed = b sb; g_root = b rt } in
       (match gate kd r with
        | GAll c -> "all " ^ string_of_z c
        | GOwn c -> "own " ^ string_of_z c
        | GNone c -> "none " ^ string_of_z c))
  | ["delgate"; cat; l; oc; cc; sb; os; cs] ->
    let r = { dx_p2p = (cat = "p2p"); dx_loaded = b l; dx_owner_c = b oc; dx_count_c = n_of_string cc;
              dx_subscribed = b sb; dx_owner_s = b os; dx_count_s = n_of_string cs } in
    (match gate_del_c06x r with
     | GAll c -> "all " ^ string_of_z c
     | GOwn c -> "own " ^ string_of_z c
     | GNone c -> "none " ^ string_of_z c)
  | _ -> "?"
