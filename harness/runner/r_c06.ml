(* C06 model runner for the owner-only gates:
     gate <deltopic|public|trusted|defacs|defacso|tags> <loaded> <attached> <owner_c> <owner_s> <subscribed> <root>
   -> all|own|none <code> *)
open Conv
open OwnerGate
let b s = s = "1"
let handle (w : string list) : string =
  match w with
  | ["gate"; k; l; a; oc; os; sb; rt] ->
    let kind = match k with
      | "deltopic" -> Some GDelTopic | "public" -> Some GSetPublic | "trusted" -> Some GSetTrusted
      | "defacs" -> Some (GSetDefacs false) | "defacso" -> Some (GSetDefacs true) | "tags" -> Some GSetTags
      | _ -> None in
    (match kind with
     | None -> "?"
     | Some kd ->
       let r = { g_loaded = b l; g_attached = b a; g_owner_c = b oc; g_owner_s = b os; g_subscribed = b sb; g_root = b rt } in
       (match gate kd r with
        | GAll c -> "all " ^ string_of_z c
        | GOwn c -> "own " ^ string_of_z c
        | GNone c -> "none " ^ string_of_z c))
  | _ -> "?"
