(* C01 description-options model runner (coq/Sys/TopicImsC01.v over the group-topic model).  Same scenario
   lines and the same canonical blocks as the topic runner (R_topic: its head-line handling, parsers and
   renderers are reused as they are), plus the requests of harness/overlay/server/zz_verif_c01i_test.go:
     getdesci <sess> <ims> <bad> / subdesc <sess> <mode hex|-> <bkg> <ims> <bad> / setpub <sess> <n>
   <ims>: a (absent) | z o j (before t.updated) | e n f (not before t.updated). *)
open Conv
open Topic
open TopicImsC01

let pub_s : BinNums.coq_N ref = ref (n_of_int 0)
let pub_c : BinNums.coq_N ref = ref (n_of_int 0)

let ims_of (w : string) : ims =
  match w with
  | "a" -> ImsAbsent
  | "z" | "o" | "j" -> ImsBefore
  | "e" | "n" | "f" -> ImsNotBefore
  | _ -> failwith ("bad ims " ^ w)

let b2s b = if b then "1" else "0"

let iframe_str (fr : iframe) : string =
  match fr with
  | FB f -> R_topic.frame_str f
  | FDesc (w, g, seq, rd, rc, del, reader, created, pub) ->
    "desc acs=" ^ R_topic.mode_str w ^ "/" ^ R_topic.mode_str g ^ " seq=" ^ string_of_z seq ^ " read=" ^ string_of_z rd ^
    " recv=" ^ string_of_z rc ^ " del=" ^ string_of_z del ^ " created=" ^ b2s created ^ " pub=" ^ string_of_n pub

let handle (w : string list) : string =
  match w with
  | "scn" :: _ -> pub_s := n_of_int 0; pub_c := n_of_int 0; R_topic.handle w
  | "op" :: flt :: kind :: args ->
    let n = n_of_string in
    let o = match kind, args with
      | "getdesci", [sid; i; bad] -> Some (IGetDesc (n sid, ims_of i, bad <> "0"))
      | "subdesc", [sid; want; bkg; i; bad] -> Some (ISubDesc (n sid, bytes_of_hex want, bkg = "1", ims_of i, bad <> "0"))
      | "setpub", [sid; tok] -> Some (ISetPub (n sid, n tok))
      | _ -> None in
    let x0 = { ibase = !R_topic.st; s_pub = !pub_s; c_pub = !pub_c; icalls = Datatypes.O } in
    (match o with
     | None ->
       (* a request of the base model: stepped through the wrapper (IBase) so that the public content follows
          loads; printed by the topic runner, which steps the same base model on the same state *)
       let bo_line = R_topic.handle w in
       let x1 = { x0 with ibase = !R_topic.st } in
       (* the wrapper's reload rule, evaluated on the base transition the topic runner just made *)
       pub_c := reload_pub x0 x1.ibase;
       bo_line
     | Some o ->
       incr R_topic.opi;
       let (x1, outs) = istep_f TopicInst.del_ranges_i TopicInst.norm_ranges_i !R_topic.sm x0 (R_topic.parse_fault flt, o) in
       R_topic.st := x1.ibase; pub_s := x1.s_pub; pub_c := x1.c_pub;
       let b1 = x1.ibase in
       let lines = List.map (fun (sid, fr) -> "S" ^ string_of_n sid ^ " " ^ iframe_str fr) outs in
       String.concat "\n" (("op " ^ string_of_int !R_topic.opi) :: lines
         @ ["calls " ^ string_of_int (int_of_nat x1.icalls);
            "loaded " ^ (match b1.ca with Some _ -> "1" | None -> "0")]
         @ List.map (fun l -> "store " ^ l) (R_topic.store_str b1.st)
         @ (match b1.ca with
            | None -> []
            | Some c ->
              ("cache lastid=" ^ string_of_z c.c_lastid ^ " delid=" ^ string_of_z c.c_delid ^ " owner=" ^ string_of_n c.c_owner)
              :: List.sort compare (List.map (fun (u, p) ->
                   Printf.sprintf "cache user %d %s/%s read=%s recv=%s del=%s online=%s" (int_of_n u) (R_topic.mode_str p.p_want) (R_topic.mode_str p.p_given)
                     (string_of_z p.p_read) (string_of_z p.p_recv) (string_of_z p.p_delid) (string_of_z p.p_online)) c.c_users)
              @ List.sort compare (List.map (fun (sid, (u, bkg)) ->
                   Printf.sprintf "cache sess %s user=%d bkg=%s" (string_of_n sid) (int_of_n u) (b2s bkg)) c.c_sess))))
  | _ -> R_topic.handle w
