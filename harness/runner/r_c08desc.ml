(* Model runner for the description part of C08 (coq/Sys/TopicDesc.v).  Input: scenario lines
   (tools/props/c08desc.py); output: the same canonical block format as the Go driver
   harness/overlay/server/zz_verif_c08_test.go. *)
open Conv
open TopicDesc

let empty_store = { d_auth = N0; d_anon = N0; d_pub = N0; d_tru = N0; d_tags = []; d_owner = N0; d_subs = [] }
let st : dstate ref = ref { dst = empty_store; dca = None; dncalls = Datatypes.O }
let sm : (BinNums.coq_N * (BinNums.coq_N * bool)) list ref = ref []
let opi = ref 0

let mode_str (m : BinNums.coq_N) : string =
  let i = int_of_n m in
  if i = 1048576 then "-" else
  if i land 255 = 0 && i land 256 <> 0 then "" else
  let s = Acs.mode_string (n_of_int (i land 255)) in
  String.concat "" (List.map (fun b -> String.make 1 (Char.chr (int_of_n b))) s)

let tags_str (l : BinNums.coq_N list) : string =
  if l = [] then "-" else String.concat "," (List.map string_of_n l)
let parse_tags (w : string) : BinNums.coq_N list =
  if w = "-" then [] else List.map n_of_string (String.split_on_char ',' w)
let b2s b = if b then "1" else "0"

let frame_str (fr : dframe) : string =
  match fr with
  | DCtrl code -> "ctrl " ^ string_of_z code
  | DCtrlAcs (code, w, g) -> "ctrl " ^ string_of_z code ^ " acs=" ^ mode_str w ^ "/" ^ mode_str g
  | DDesc (acs, mode, defacs, pub, tru, priv) ->
    "desc acs=" ^ (match acs with Some (w, g) -> mode_str w ^ "/" ^ mode_str g | None -> "-") ^
    " mode=" ^ mode_str mode ^
    " defacs=" ^ (match defacs with Some (a, n) -> mode_str a ^ "/" ^ mode_str n | None -> "-") ^
    " pub=" ^ string_of_n pub ^ " tru=" ^ string_of_n tru ^ " priv=" ^ string_of_n priv
  | DTags l -> "tags " ^ tags_str l
  | DEvicted unsub -> "ctrl 205 unsub=" ^ b2s unsub

let parse_fault (w : string) : Topic.fault =
  if w = "N" then Topic.NoFault
  else let k = nat_of_int (int_of_string (String.sub w 1 (String.length w - 1))) in
    if w.[0] = 'F' then Topic.FailAt k else Topic.CrashAt k

let kv (w : string) : string * string =
  match String.index_opt w '=' with
  | Some i -> (String.sub w 0 i, String.sub w (i + 1) (String.length w - i - 1))
  | None -> (w, "")

let mode_arg (w : string) : BinNums.coq_N option =
  if w = "-" then None else if w = "X" then Some (n_of_int 999) else Some (n_of_string w)

let store_lines (s : dstore) : string list =
  ("topic auth=" ^ mode_str s.d_auth ^ " anon=" ^ mode_str s.d_anon ^ " pub=" ^ string_of_n s.d_pub ^ " tru=" ^ string_of_n s.d_tru ^
   " tags=" ^ tags_str s.d_tags ^ " owner=" ^ string_of_n s.d_owner)
  :: ("tagidx " ^ tags_str (List.sort_uniq compare s.d_tags |> List.map int_of_n |> List.sort compare |> List.map n_of_int))
  :: List.mapi (fun i r ->
       Printf.sprintf "sub %02d user=%d %s/%s priv=%s deleted=%s" i (int_of_n r.r_user) (mode_str r.r_want) (mode_str r.r_given)
         (string_of_n r.r_priv) (b2s r.r_deleted)) s.d_subs

let handle (w : string list) : string =
  match w with
  | "scn" :: id :: rest ->
    let gn k = n_of_string (List.assoc k (List.map kv rest)) in
    opi := 0; sm := [];
    let s0 = { empty_store with d_auth = gn "auth"; d_anon = gn "anon"; d_pub = gn "pub"; d_tru = gn "tru";
               d_tags = parse_tags (List.assoc "tags" (List.map kv rest)) } in
    st := { dst = s0; dca = None; dncalls = Datatypes.O };
    "scn " ^ id
  | ["user"; _] -> ""
  | "subrow" :: i :: rest ->
    let gn k = n_of_string (List.assoc k (List.map kv rest)) in
    let s1 = dad_sub_create !st.dst (n_of_string i) (gn "want") (gn "given") (gn "priv") in
    let s2 = if List.assoc "deleted" (List.map kv rest) = "1" then
        (match dad_subs_delete s1 (n_of_string i) with Some s -> s | None -> s1) else s1 in
    st := { !st with dst = s2 }; ""
  | "sess" :: sid :: u :: rest ->
    sm := !sm @ [(n_of_string sid, (n_of_string u, rest = ["1"]))]; ""
  | "op" :: flt :: kind :: args ->
    incr opi;
    let n = n_of_string in
    let o = match kind, args with
      | "sub", [sid; priv] -> DSub (n sid, n priv)
      | "leave", [sid; unsub] -> DLeave (n sid, unsub = "1")
      | "setdesc", [sid; defacs; pub; tru; priv] ->
        let da = if defacs = "-" then None else
            (match String.split_on_char ':' defacs with
             | [a; b] -> Some (mode_arg a, mode_arg b)
             | _ -> failwith "defacs") in
        DSetDesc (n sid, da, n pub, n tru, n priv)
      | "settags", [sid; tags] -> DSetTags (n sid, parse_tags tags)
      | "getdesc", [sid] -> DGetDesc (n sid)
      | "gettags", [sid] -> DGetTags (n sid)
      | "unload", [] -> DUnload
      | "restart", [] -> DRestart
      | _ -> failwith ("bad op " ^ kind) in
    let (x1, outs) = dstep_f !sm !st (parse_fault flt, o) in
    st := x1;
    let lines = List.map (fun (sid, fr) -> "S" ^ string_of_n sid ^ " " ^ frame_str fr) outs in
    String.concat "\n" (("op " ^ string_of_int !opi) :: lines
      @ ["calls " ^ string_of_int (int_of_nat x1.dncalls);
         "loaded " ^ (match x1.dca with Some _ -> "1" | None -> "0")]
      @ List.map (fun l -> "store " ^ l) (store_lines x1.dst)
      @ (match x1.dca with
         | None -> []
         | Some c ->
           ("cache topic auth=" ^ mode_str c.k_auth ^ " anon=" ^ mode_str c.k_anon ^ " pub=" ^ string_of_n c.k_pub ^ " tru=" ^ string_of_n c.k_tru ^
            " tags=" ^ tags_str c.k_tags ^ " owner=" ^ string_of_n c.k_owner)
           :: List.sort compare (List.map (fun (u, p) ->
                Printf.sprintf "cache user %d %s/%s priv=%s" (int_of_n u) (mode_str p.q_want) (mode_str p.q_given) (string_of_n p.q_priv)) c.k_users)
           @ List.sort compare (List.map (fun (sid, u) ->
                Printf.sprintf "cache sess %s user=%d" (string_of_n sid) (int_of_n u)) c.k_sess)))
  | ["end"] -> "end"
  | [] -> ""
  | _ -> "?"
