(* C02 fan-out model runner.  Input: the scenario lines of tools/props/c02.py; output: the same
   canonical blocks as the Go driver harness/overlay/server/zz_verif_c02_test.go, restricted to
   what the model speaks about: for a publish the {data} copies per session, the {ctrl} reply of
   the publisher and the push receipt; for every request the state the fan-out reads. *)
open BinNums
open Conv
open Fanout

let st : state ref = ref (init KGrp N0 N0 [] [])
let kind_s = ref "grp"
let defacs = ref 0
let rows : (int * int * int * bool) list ref = ref []
let sess_user : (int * int) list ref = ref []
let opi = ref 0

let kv (w : string list) (k : string) : string =
  let p = k ^ "=" in
  let n = String.length p in
  match List.filter (fun x -> String.length x >= n && String.sub x 0 n = p) w with
  | x :: _ -> String.sub x n (String.length x - n)
  | [] -> ""
let b2s b = if b then "1" else "0"
let ni = n_of_int
let tname_s = function TGrp -> "g" | TChn -> "c" | TUsr u -> "u" ^ string_of_n u | TP2P -> "T"
let key_s k = match int_of_n k with 0 -> "sender" | 1 -> "webrtc" | 2 -> "mime" | 3 -> "x1" | 4 -> "x2" | 5 -> "x3" | i -> "k" ^ string_of_int i
let key_of = function "sender" -> 0 | "webrtc" -> 1 | "mime" -> 2 | "x1" -> 3 | "x2" -> 4 | "x3" -> 5
  | s -> int_of_string (String.sub s 1 (String.length s - 1))
let head_s (h : (coq_N * coq_N) list) : string =
  if h = [] then "-" else
  String.concat "," (List.sort compare (List.map (fun (k, v) ->
    let ks = key_s k in
    if ks = "sender" then "sender:u" ^ string_of_n v else ks ^ ":t" ^ string_of_n v) h))
let head_of (s : string) : (coq_N * coq_N) list =
  if s = "-" then [] else
  List.map (fun kvs ->
    match String.split_on_char ':' kvs with
    | [k; v] ->
      let vn = if v = "j" then 99 else int_of_string (String.sub v 1 (String.length v - 1)) in
      (ni (key_of k), ni vn)
    | _ -> failwith ("bad head " ^ s)) (String.split_on_char ',' s)

let state_lines (s : state) : string list =
  [ "loaded 1"; "lastid " ^ string_of_z s.st_lastid ]
  @ List.sort compare (List.map (fun (u, p) ->
      Printf.sprintf "U %02d want=%d given=%d del=%s chan=%s" (int_of_n u) (int_of_n p.pu_want) (int_of_n p.pu_given)
        (b2s p.pu_deleted) (b2s p.pu_ischan)) s.st_users)
  @ List.sort compare (List.map (fun (k, d) ->
      Printf.sprintf "A %02d uid=%d chan=%s" (int_of_n k) (int_of_n d.ss_uid) (b2s d.ss_chan)) s.st_sess)

let build () =
  let p2p = !kind_s = "p2p" in
  let users = List.filter_map (fun (u, w, g, ch) ->
    if ch then None else
    Some (ni u, { pu_want = ni w; pu_given = ni g; pu_deleted = false; pu_ischan = false;
                  pu_peer = (if p2p then ni (if u = 1 then 2 else 1) else N0); pu_online = z_of_int 0 })) (List.rev !rows) in
  let crow = List.filter_map (fun (u, w, _, ch) -> if ch then Some (ni u, ni w) else None) (List.rev !rows) in
  let k = match !kind_s with "p2p" -> KP2P | "chn" -> KChn | _ -> KGrp in
  st := init k (if p2p then N0 else ni 1) (if p2p then N0 else ni !defacs) users crow

let handle (w : string list) : string =
  match w with
  | "scn" :: id :: rest ->
    opi := 0; rows := []; sess_user := [];
    kind_s := kv rest "kind";
    defacs := (try int_of_string (kv rest "defacs") with _ -> 0);
    "scn " ^ id
  | "subrow" :: u :: rest ->
    rows := (int_of_string u, int_of_string (kv rest "want"), int_of_string (kv rest "given"), kv rest "chan" = "1") :: !rows; ""
  | ["mk"] -> build (); ""
  | "sess" :: si :: ui :: _ -> sess_user := (int_of_string si, int_of_string ui) :: !sess_user; ""
  | "op" :: kind :: args ->
    incr opi;
    let hdr = "op " ^ string_of_int !opi in
    let i = int_of_string in
    let s = i (List.hd args) in
    if not (List.mem_assoc s !sess_user) then String.concat "\n" (hdr :: "skipped" :: state_lines !st) else
    let real = List.assoc s !sess_user in
    let acting a = if i a = 0 then real else i a in
    let peer u = if u = 1 then 2 else 1 in
    if kind = "note" then begin
      match args with
      | [_; a; sp; what; seq] ->
        let au = acting a in
        let orig = match sp with "g" -> TGrp | "c" -> TChn | "u" -> TUsr (ni (peer au)) | _ -> TP2P in
        let wt = match what with "kp" -> 0 | "read" -> 1 | "recv" -> 2 | "kpa" -> 3 | _ -> 4 in
        let nx = { nx_sid = ni s; nx_from = ni au; nx_chan = (sp = "c"); nx_orig = orig; nx_what = ni wt; nx_seq = z_of_string seq } in
        let attached = List.exists (fun (k, _) -> int_of_n k = s) !st.st_sess in
        let permitted = attached && note_permitted !st nx in
        let fl = if attached then List.map (fun (k, (f : iframe)) ->
            (int_of_n k, Printf.sprintf "S%d info what=%s from=%d seq=%s topic=%s src=-" (int_of_n k) what (int_of_n f.i_from)
               (string_of_z f.i_seq) (tname_s f.i_topic))) (isent (note_relay !st nx)) else [] in
        let fl = List.map snd (List.stable_sort (fun (a, _) (b, _) -> compare a b) fl) in
        String.concat "\n" ((hdr :: fl) @ [ "permitted " ^ b2s permitted ] @ state_lines !st)
      | _ -> failwith "bad note"
    end else
    let o = match kind, args with
      | "att", [_; a; sp] -> OAttach (ni s, ni (acting a), sp = "c")
      | "det", [_; a; sp] -> ODetach (ni s, ni (acting a), sp = "c")
      | "unsub", [_; a; sp] -> OUnsub (ni s, ni (acting a), sp = "c")
      | "disc", [_] -> ODisc (ni s)
      | "want", [_; a; _; m] -> OSetWant (ni (acting a), ni (i m))
      | "given", [_; a; _; u; m] -> OSetGiven (ni (acting a), ni (i u), ni (i m))
      | "evict", [_; a; _; u] -> OEvict (ni (acting a), ni (i u))
      | "clog", [_] -> OClog (ni s)
      | "unclog", [_] -> OUnclog (ni s)
      | "pub", [_; a; sp; ne; hasid; content; hd] ->
        let au = acting a in
        let orig = match sp with "g" -> TGrp | "c" -> TChn | "u" -> TUsr (ni (peer au)) | _ -> TP2P in
        OPub { px_sid = ni s; px_real = ni real; px_author = ni au; px_orig = orig; px_noecho = (ne = "1");
               px_hasid = (hasid = "1"); px_content = n_of_string content; px_head = head_of hd }
      | _ -> failwith ("bad op " ^ kind) in
    let (ost, res) = step !st o in
    let oos = match ost with Some s1 -> st := s1; [] | None -> [ "oos" ] in
    let lines = match res, o with
      | Some r, OPub px ->
        let me = "S" ^ string_of_int s in
        (match r with
         | PNotAttached -> [ me ^ " ctrl 409 mine=1" ]
         | PCallPath -> [ "callpath" ]
         | PDenied -> [ me ^ " ctrl 403 mine=1" ]
         | PAccepted (seq, ack, copies, push) ->
           let fl = List.map (fun (k, f) ->
             (int_of_n k, Printf.sprintf "data seq=%s from=%d topic=%s content=%s head=%s" (string_of_z f.f_seq) (int_of_n f.f_from)
                (tname_s f.f_topic) (string_of_n f.f_content) (head_s f.f_head))) (sent copies) in
           let al = match ack with
             | AckSent _ -> [ (s, Printf.sprintf "ctrl 202 mine=1 seq=%s" (string_of_z seq)) ]
             | _ -> [] in
           let all = List.stable_sort (fun (a, _) (b, _) -> compare a b) (al @ fl) in
           let ov = List.map (fun k -> "overflow " ^ string_of_n k) (List.sort compare (overflowed copies)) in
           let pl = match push with
             | None -> []
             | Some (to_, ch) ->
               let ts = List.sort compare (List.map int_of_n to_) in
               [ Printf.sprintf "push seq=%s from=%d topic=%s to=%s chan=%s" (string_of_z seq) (int_of_n px.px_author)
                   (if !kind_s = "p2p" then "T" else "g")
                   (if ts = [] then "-" else String.concat "," (List.map string_of_int ts)) (if ch then "c" else "-") ] in
           List.map (fun (k, t) -> "S" ^ string_of_int k ^ " " ^ t) all @ ov @ pl)
      | _ -> [] in
    String.concat "\n" ((hdr :: lines) @ oos @ state_lines !st)
  | ["end"] -> "end"
  | [] -> ""
  | _ -> "?"
