(* C19 model runner.  Strings are hex UTF-8 on the wire and lists of code
   points in the model; decoding follows Go's range loop (an invalid byte is
   U+FFFD, one byte consumed).  The unicode tables (lower, letter, digit,
   number) are those of the Go toolchain, read from the file named by
   VERIF_UNITAB (written by tools/props/c19.py from the driver's UT answers). *)
open Conv

let maxr = 0x110000
let t_lower : int array Lazy.t = lazy (Array.init maxr (fun i -> i))
let t_letter = Bytes.make maxr '\000'
let t_digit = Bytes.make maxr '\000'
let t_number = Bytes.make maxr '\000'
let loaded = ref false
let load () =
  if not !loaded then begin
    loaded := true;
    let lower = Lazy.force t_lower in
    (try
      let ic = open_in (Sys.getenv "VERIF_UNITAB") in
      (try while true do
        let line = input_line ic in
        match String.split_on_char ' ' line with
        | ["lower"; v] ->
          List.iter (fun p -> match String.split_on_char ':' p with
            | [a; b] -> lower.(int_of_string a) <- int_of_string b | _ -> ()) (String.split_on_char ',' v)
        | [k; v] ->
          let t = (match k with "letter" -> t_letter | "digit" -> t_digit | _ -> t_number) in
          if v <> "-" then
          List.iter (fun p -> match String.split_on_char '-' p with
            | [a; b] -> for i = int_of_string a to int_of_string b do Bytes.set t i '\001' done | _ -> ()) (String.split_on_char ',' v)
        | _ -> ()
      done with End_of_file -> close_in ic)
    with Not_found -> failwith "VERIF_UNITAB not set")
  end

(* small cache of N values for code points *)
let ncache : (int, BinNums.coq_N) Hashtbl.t = Hashtbl.create 1024
let n_of (i : int) = match Hashtbl.find_opt ncache i with Some n -> n | None -> let n = n_of_int i in Hashtbl.add ncache i n; n
let lower (r : BinNums.coq_N) = let i = int_of_n r in if i < maxr then n_of (Lazy.force t_lower).(i) else r
let cls t (r : BinNums.coq_N) = let i = int_of_n r in i < maxr && Bytes.get t i <> '\000'
let is_letter = cls t_letter
let is_digit = cls t_digit
let is_number = cls t_number

(* utf8.DecodeRuneInString over the whole string *)
let decode (s : string) : BinNums.coq_N list =
  let n = String.length s in
  let b i = Char.code s.[i] in
  let cont i = i < n && (b i) land 0xC0 = 0x80 in
  let rec go i acc =
    if i >= n then List.rev acc else
    let c = b i in
    if c < 0x80 then go (i + 1) (n_of c :: acc)
    else if c >= 0xC2 && c <= 0xDF && cont (i + 1) then
      go (i + 2) (n_of (((c land 0x1F) lsl 6) lor ((b (i + 1)) land 0x3F)) :: acc)
    else if c >= 0xE0 && c <= 0xEF && cont (i + 1) && cont (i + 2)
            && (c <> 0xE0 || b (i + 1) >= 0xA0) && (c <> 0xED || b (i + 1) <= 0x9F) then
      go (i + 3) (n_of (((c land 0x0F) lsl 12) lor (((b (i + 1)) land 0x3F) lsl 6) lor ((b (i + 2)) land 0x3F)) :: acc)
    else if c >= 0xF0 && c <= 0xF4 && cont (i + 1) && cont (i + 2) && cont (i + 3)
            && (c <> 0xF0 || b (i + 1) >= 0x90) && (c <> 0xF4 || b (i + 1) <= 0x8F) then
      go (i + 4) (n_of (((c land 0x07) lsl 18) lor (((b (i + 1)) land 0x3F) lsl 12)
                        lor (((b (i + 2)) land 0x3F) lsl 6) lor ((b (i + 3)) land 0x3F)) :: acc)
    else go (i + 1) (n_of 0xFFFD :: acc) in
  go 0 []

let encode (l : BinNums.coq_N list) : string =
  let buf = Buffer.create 16 in
  List.iter (fun r ->
    let c = int_of_n r in
    let c = if c > 0x10FFFF || (c >= 0xD800 && c <= 0xDFFF) then 0xFFFD else c in
    if c < 0x80 then Buffer.add_char buf (Char.chr c)
    else if c < 0x800 then (Buffer.add_char buf (Char.chr (0xC0 lor (c lsr 6))); Buffer.add_char buf (Char.chr (0x80 lor (c land 0x3F))))
    else if c < 0x10000 then (Buffer.add_char buf (Char.chr (0xE0 lor (c lsr 12)));
                              Buffer.add_char buf (Char.chr (0x80 lor ((c lsr 6) land 0x3F)));
                              Buffer.add_char buf (Char.chr (0x80 lor (c land 0x3F))))
    else (Buffer.add_char buf (Char.chr (0xF0 lor (c lsr 18)));
          Buffer.add_char buf (Char.chr (0x80 lor ((c lsr 12) land 0x3F)));
          Buffer.add_char buf (Char.chr (0x80 lor ((c lsr 6) land 0x3F)));
          Buffer.add_char buf (Char.chr (0x80 lor (c land 0x3F))))) l;
  Buffer.contents buf

let unhex (h : string) : string =
  if h = "-" || h = "_" then "" else String.init (String.length h / 2) (fun i -> Char.chr (int_of_string ("0x" ^ String.sub h (2 * i) 2)))
let hex (s : string) : string = String.concat "" (List.init (String.length s) (fun i -> Printf.sprintf "%02x" (Char.code s.[i])))
let runes_of_hex h = decode (unhex h)
let str_of_runes l = match l with [] -> "_" | _ -> hex (encode l)
let fmt_list sep l = match l with [] -> "-" | _ -> String.concat sep (List.map str_of_runes l)
let list_of (s : string) : BinNums.coq_N list list option =
  if s = "nil" then None else if s = "-" then Some [] else
  Some (List.map runes_of_hex (String.split_on_char ',' s))
let list_of' s = match list_of s with None -> [] | Some l -> l
let b2s b = if b then "1" else "0"

let rewrite wl = Tags.rewrite_tag is_letter is_number Tags.fake_val Tags.fake_auth wl

let show_q k = function
  | Util.Err -> k ^ " err"
  | Util.Ok (a, o) ->
    let ga = (match a with [] -> "-" | _ -> String.concat ";" (List.map (fmt_list "+") a)) in
    k ^ " ok " ^ ga ^ " " ^ fmt_list "," o

(* ---- stateful tag scenarios (TagState.v): TS <ns> <maxTagCount> <holders> <requests> ---- *)
let split c s = if s = "-" || s = "" then [] else String.split_on_char c s
let kind_of = function "g" -> TagState.KGrp | _ -> TagState.KMe
let str_of_kind = function TagState.KGrp -> "g" | TagState.KMe -> "m"
let nn s = n_of_int (int_of_string s)

let ts_req (s : string) : TagState.req =
  match String.split_on_char '.' s with
  | ["s"; h; who; f; l] -> TagState.SetTags (nn h, nn who, f = "1", list_of l)
  | ["g"; h; who] -> TagState.GetTags (nn h, nn who)
  | ["u"; h] -> TagState.Unload (nn h)
  | ["n"; h; who; l] -> TagState.NewGrp (nn h, nn who, list_of l)
  | ["a"; h; l; au] -> TagState.NewUser (nn h, list_of l, list_of' au)
  | ["v"; h; ad; rm] -> TagState.SrvTags (nn h, list_of' ad, list_of' rm)
  | _ -> failwith ("bad request " ^ s)

let ts_resp = function
  | TagState.RCtrl (code, a, r) -> Printf.sprintf "c%d.%d.%d" (int_of_n code) (int_of_nat a) (int_of_nat r)
  | TagState.RTags l -> "t" ^ fmt_list "," l
  | TagState.RNone -> "n"

let ts_state (ids : int list) (w : TagState.world) : string =
  String.concat ";" (List.filter_map (fun i ->
    match TagState.lookup (n_of_int i) w with
    | None -> None
    | Some hd ->
      Some (Printf.sprintf "%d.%s.%d.%s.%s" i (str_of_kind hd.TagState.h_kind) (int_of_n hd.TagState.h_owner)
              (fmt_list "," hd.TagState.h_store)
              (match hd.TagState.h_cache with None -> "~" | Some c -> fmt_list "," c))) ids)

let ts_run (ns : string) (mx : string) (init : string) (ops : string) : string =
  let c = { TagState.c_ns = list_of' ns; TagState.c_max = nat_of_int (int_of_string mx) } in
  let w0 = List.fold_left (fun w s ->
    match String.split_on_char '.' s with
    | [h; k; o; l] -> TagState.put (nn h) { TagState.h_kind = kind_of k; TagState.h_owner = nn o;
                                             TagState.h_store = list_of' l; TagState.h_cache = None } w
    | _ -> failwith ("bad holder " ^ s)) [] (split ';' init) in
  let reqs = List.map ts_req (split '/' ops) in
  let id_of = function
    | TagState.SetTags (h, _, _, _) | TagState.GetTags (h, _) | TagState.Unload h | TagState.NewGrp (h, _, _)
    | TagState.NewUser (h, _, _) | TagState.SrvTags (h, _, _) -> int_of_n h in
  let ids = List.sort_uniq compare
      (List.map (fun s -> int_of_string (List.hd (String.split_on_char '.' s))) (split ';' init) @ List.map id_of reqs) in
  let _, outs = List.fold_left (fun (w, acc) r ->
    let (w', a) = TagState.step lower is_letter is_digit is_number c w r in
    (w', (ts_resp a ^ "|" ^ ts_state ids w') :: acc)) (w0, []) reqs in
  "TS " ^ String.concat "/" (List.rev outs)

(* ---- search layer (FndSearchC19.v).  The rewriters are ORACLES: the answers which the real
   validators (email, tel) and authenticators (basic, the others) gave when the driver asked them
   directly (request O), read from the file named by VERIF_C19ORACLE: cc term email tel basic other ---- *)
let oracle : (string * string, string array) Hashtbl.t = Hashtbl.create 4096
let oracle_loaded = ref false
let load_oracle () =
  if not !oracle_loaded then begin
    oracle_loaded := true;
    (try
      let ic = open_in (Sys.getenv "VERIF_C19ORACLE") in
      (try while true do
        match String.split_on_char ' ' (input_line ic) with
        | [cc; term; a; b; c; d] -> Hashtbl.replace oracle (cc, term) [| a; b; c; d |]
        | _ -> ()
      done with End_of_file -> close_in ic)
    with Not_found -> ())
  end
let cc_key (cc : BinNums.coq_N list) = match cc with [] -> "-" | _ -> encode cc
let ask (col : int) (cc : BinNums.coq_N list) (term : BinNums.coq_N list) : BinNums.coq_N list =
  match Hashtbl.find_opt oracle (cc_key cc, str_of_runes term) with
  | Some a -> runes_of_hex a.(col)
  | None -> []
let o_vals = [ask 0; ask 1]
(* AsTag does not see the country code; the key of the request (country code + configuration of the
   driver process that served it) selects the rows *)
let cc_of (s : string) = if s = "-" then [] else decode s
let o_auths (key : string) = [ask 2 (cc_of key); ask 3 (cc_of key)]
let rewrite_real cc wl = FndSearchC19.rewrite_tag_c19 is_letter is_number o_vals (o_auths cc) (cc_of cc) (wl = "1")

let q_opt (s : string) = if s = "~" then None else Some (runes_of_hex s)
(* a session reference: <id> or <id>l<level> (sess.authLvl, any int); a bare id means 1, 2 -> 20
   (LevelAuth), 3 -> 30 (LevelRoot) *)
let fs_sess_ref_c19 (r : string) : int * int =
  match String.index_opt r 'l' with
  | Some k -> (int_of_string (String.sub r 0 k), int_of_string (String.sub r (k + 1) (String.length r - k - 1)))
  | None -> let i = int_of_string r in (i, if i = 3 then 30 else 20)
let fs_sess cc r =
  let (i, l) = fs_sess_ref_c19 r in
  { FndSearchC19.s_id = n_of_int i; FndSearchC19.s_lvl = z_of_int l; FndSearchC19.s_cc = cc }
(* the topic state shows the public queries of sessions 1..max(3, largest id named) *)
let fs_nsess_c19 (ops : string list) : int =
  List.fold_left (fun n s -> match String.split_on_char '.' s with
    | ("d" | "g") :: r :: _ -> max n (fst (fs_sess_ref_c19 r))
    | _ -> n) 3 ops
let fs_req cc (s : string) : FndSearchC19.freq_c19 =
  match String.split_on_char '.' s with
  | ["d"; i; p; v] -> FndSearchC19.FSetDesc (fs_sess cc i, q_opt p, q_opt v)
  | ["g"; i] -> FndSearchC19.FGetSub (fs_sess cc i)
  | ["u"] -> FndSearchC19.FUnload
  | ["t"] -> FndSearchC19.FUserTags
  | _ -> failwith ("bad request " ^ s)
let fs_groups = function [] -> "-" | a -> String.concat ";" (List.map (fmt_list "+") a)
let fs_resp = function
  | FndSearchC19.FCtrl code -> Printf.sprintf "c%d" (int_of_n code)
  | FndSearchC19.FMeta ids -> "m" ^ String.concat "," (List.map string_of_int (List.sort compare (List.map int_of_n ids)))
  | FndSearchC19.FNone -> "n"
let fs_call = function
  | None -> "-"
  | Some k ->
    let a = fs_groups k.FndSearchC19.k_req ^ "!" ^ fmt_list "," k.FndSearchC19.k_opt ^ "!" ^ b2s k.FndSearchC19.k_active in
    "U!" ^ a ^ "&T!" ^ a
let fs_q = function None -> "~" | Some q -> str_of_runes q
let fs_state (ns : int) (t : FndSearchC19.fnd_c19) =
  fmt_list "," (Tags.sort_strings t.FndSearchC19.f_tags) ^ "!"
  ^ String.concat "," (List.map (fun i -> fs_q (FndSearchC19.lookup_pub_c19 (n_of_int i) t.FndSearchC19.f_public)) (List.init ns (fun i -> i + 1)))
  ^ "!" ^ fs_q t.FndSearchC19.f_private
let fs_run masked own cckey cands ops =
  let cc = cc_of cckey in
  let o_auths = o_auths cckey in
  let world = { FndSearchC19.cd_id = n_of_int 0; FndSearchC19.cd_user = true; FndSearchC19.cd_ok = true; FndSearchC19.cd_tags = list_of' own }
    :: List.map (fun s -> match String.split_on_char '.' s with
      | [i; k; st; l] -> { FndSearchC19.cd_id = nn i; FndSearchC19.cd_user = (k = "u"); FndSearchC19.cd_ok = (st = "0");
                           FndSearchC19.cd_tags = list_of' l }
      | _ -> failwith ("bad candidate " ^ s)) (split ';' cands) in
  let c = { FndSearchC19.fc_masked = list_of' masked; FndSearchC19.fc_own = list_of' own;
            FndSearchC19.fc_self = n_of_int 0; FndSearchC19.fc_world = world } in
  let ns = fs_nsess_c19 (split '/' ops) in
  let _, outs = List.fold_left (fun (t, acc) r ->
    let (t', (a, k)) = FndSearchC19.step_c19 lower is_letter is_number o_vals o_auths c t r in
    (t', (fs_resp a ^ "|" ^ fs_call k ^ "|" ^ fs_state ns t') :: acc))
    (FndSearchC19.load_c19 None, []) (List.map (fs_req cc) (split '/' ops)) in
  "FS " ^ String.concat "/" (List.rev outs)

let handle (w : string list) : string =
  load ();
  load_oracle ();
  match w with
  | ["WR"; cc; wl; h] -> "WR " ^ str_of_runes (rewrite_real cc wl (runes_of_hex h))
  | ["QR"; cc; wl; h] -> show_q "QR" (Query.parse lower (rewrite_real cc wl) (runes_of_hex h))
  | ["FS"; masked; own; cc; cands; ops] -> fs_run masked own cc cands ops
  (* "anon" scenario: in the driver the level-10 sessions get their level from the real anonymous
     account creation / token login; the model is the same *)
  | ["FS"; masked; own; cc; cands; ops; "anon"] -> fs_run masked own cc cands ops
  | ["Q"; wl; h] -> show_q "Q" (Query.parse lower (rewrite (wl = "1")) (runes_of_hex h))
  | ["QU"; wl; h] -> show_q "QU" (Query.parse_unrepaired lower (rewrite (wl = "1")) (runes_of_hex h))
  | ["QS"; wl; h] ->
    let q = runes_of_hex h in
    show_q "QS" (if QuerySpec.well_formedb q then Util.Ok (QuerySpec.denote lower (rewrite (wl = "1")) q) else Util.Err)
  | ["W"; wl; h] -> "W " ^ str_of_runes (rewrite (wl = "1") (runes_of_hex h))
  | ["N"; mx; l] ->
    (match Tags.normalize_tags lower is_letter is_digit (nat_of_int (int_of_string mx)) (list_of l) with
     | None -> "N nil"
     | Some r -> "N ok " ^ fmt_list "," r)
  | ["NN"; mx; l] ->
    let norm = Tags.normalize_tags lower is_letter is_digit (nat_of_int (int_of_string mx)) in
    let show = function None -> "nil" | Some r -> "ok " ^ fmt_list "," r in
    let r1 = norm (list_of l) in
    "NN " ^ show r1 ^ " | " ^ show (norm r1)
  (* "same": the model's lists are immutable, the call leaves its argument slices as they were *)
  | ["F"; ns; l] -> "F " ^ fmt_list "," (Tags.filter_restricted is_letter is_number (list_of' l) (list_of' ns)) ^ " same"
  | ["R"; ns; o; n] -> "R " ^ b2s (Tags.restricted_tags_equal is_letter is_number (list_of' o) (list_of' n) (list_of' ns)) ^ " same"
  | ["TS"; ns; mx; init; ops] -> ts_run ns mx init ops
  | ["D"; o; n] ->
    let (o, n) = (list_of' o, list_of' n) in
    let ((a, r), i) = Tags.string_slice_delta o n in
    let (o', n') = TagState.delta_args_after o n in
    "D " ^ fmt_list "," a ^ " " ^ fmt_list "," r ^ " " ^ fmt_list "," i ^ " " ^ fmt_list "," o' ^ " " ^ fmt_list "," n'
  | ["G"; ns; own; terms] -> "G " ^ b2s (Tags.masked_gate is_letter is_number (list_of' own) (list_of' terms) (list_of' ns))
  | ["S"; l] -> "S " ^ fmt_list "," (Tags.sort_strings (list_of' l))
  | _ -> "?"
