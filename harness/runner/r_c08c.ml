(* C08 (s08c) model runner: the topic-history runner (R_topic) plus, for every request, the branch of
   thisUserSub / anotherUserSub / replyOfflineTopicSetSub that the request takes in the state it starts
   from (PermBranchC08c.perm_branch_c08c, extracted).  Same input lines and same output blocks as
   "runner topic", with one extra line "branch <name>" right after the "op <n>" line. *)
open Conv
open Topic
open PermBranchC08c

let branch_name_c08c (b : pbr_c08c) : string =
  match b with
  | PB_other -> "other" | PB_sub_attached -> "sub-attached" | PB_sub_load_fail -> "sub-load-fail"
  | PB_t_junk -> "t-junk" | PB_t_new_limit -> "t-new-limit" | PB_t_new_banned -> "t-new-banned"
  | PB_t_new_default -> "t-new-default" | PB_t_new_explicit -> "t-new-explicit" | PB_t_new_selfban -> "t-new-selfban"
  | PB_t_resub_default -> "t-resub-default" | PB_t_resub_explicit -> "t-resub-explicit"
  | PB_t_owner_keeps -> "t-owner-keeps" | PB_t_ask_owner -> "t-ask-owner"
  | PB_t_default_nochange -> "t-default-nochange" | PB_t_unselfban -> "t-unselfban"
  | PB_t_unselfban_banned -> "t-unselfban-banned"
  | PB_t_raise_admin -> "t-raise-admin" | PB_t_raise_owner -> "t-raise-owner"
  | PB_t_accept -> "t-accept" | PB_t_accept_raise -> "t-accept-raise"
  | PB_t_same -> "t-same" | PB_t_selfban -> "t-selfban" | PB_t_banned -> "t-banned"
  | PB_t_reject_offer -> "t-reject-offer" | PB_t_within -> "t-within" | PB_t_beyond -> "t-beyond"
  | PB_a_not_sharer -> "a-not-sharer" | PB_a_junk -> "a-junk" | PB_a_sharer_explicit -> "a-sharer-explicit"
  | PB_a_give_owner_nonowner -> "a-give-owner-nonowner" | PB_a_new_limit -> "a-new-limit"
  | PB_a_invite_unknown -> "a-invite-unknown" | PB_a_invite_nojoin -> "a-invite-nojoin"
  | PB_a_invite_default -> "a-invite-default" | PB_a_invite_explicit -> "a-invite-explicit"
  | PB_a_invite_ban -> "a-invite-ban" | PB_a_reinvite_default -> "a-reinvite-default"
  | PB_a_reinvite_explicit -> "a-reinvite-explicit" | PB_a_nochange -> "a-nochange"
  | PB_a_strip_owner -> "a-strip-owner" | PB_a_offer_owner -> "a-offer-owner"
  | PB_a_withdraw_offer -> "a-withdraw-offer" | PB_a_ban -> "a-ban" | PB_a_unban -> "a-unban"
  | PB_a_up -> "a-up" | PB_a_down -> "a-down" | PB_a_other -> "a-other"
  | PB_o_empty -> "o-empty" | PB_o_other_user -> "o-other-user" | PB_o_nosub -> "o-nosub" | PB_o_junk -> "o-junk"
  | PB_o_owner_bit -> "o-owner-bit" | PB_o_same -> "o-same" | PB_o_changed -> "o-changed"

let perm_op_c08c (kind : string) (args : string list) : op =
  let n = n_of_string in
  match kind, args with
  | "sub", [sid; want; bkg] -> OSub (n sid, bytes_of_hex want, bkg = "1")
  | "setsub", [sid; target; mode] -> OSetSub (n sid, n target, bytes_of_hex mode)
  | _ -> failwith ("bad op " ^ kind)

let handle (w : string list) : string =
  match w with
  (* the branch a request WOULD take in the current state; the state is not changed *)
  | "probe" :: kind :: args ->
    "branch " ^ branch_name_c08c (perm_branch_c08c !R_topic.sm !R_topic.st (perm_op_c08c kind args))
  (* a user id that is in no table (the driver allocates an id without creating the user) *)
  | ["ghost"; _] -> ""
  | "op" :: _ :: kind :: args when kind = "sub" || kind = "setsub" ->
    let o = perm_op_c08c kind args in
    let b = branch_name_c08c (perm_branch_c08c !R_topic.sm !R_topic.st o) in
    let out = R_topic.handle w in
    (match String.index_opt out '\n' with
     | Some i -> String.sub out 0 i ^ "\nbranch " ^ b ^ String.sub out i (String.length out - i)
     | None -> out ^ "\nbranch " ^ b)
  | _ -> R_topic.handle w
