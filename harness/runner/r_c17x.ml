(* C17 gate model runner (Sys/Gate.v).  Same script format as the package-main driver
   harness/overlay/server/zz_verif_c17x_test.go, followed by the two tables of what the
   implementation's ring answered:
     X <nodes> <event>... T <sig table> <get table>
     sig table: <sorted node list>=<sig hex>;...      get table: <sorted node list>/<topic>=<owner hex>;...
   (lists: names joined by ',', '-' = empty list; '.' = empty table).  The ring itself is the business
   of the G cases (r_c17.ml); here Signature()/Get() of a node list are the values the real ring gave. *)
open Conv
exception Notable of string
let str_of (s : string) : BinNums.coq_N list = List.init (String.length s) (fun i -> n_of_int (Char.code s.[i]))
let string_of (l : BinNums.coq_N list) : string = String.concat "" (List.map (fun b -> String.make 1 (Char.chr (int_of_n b))) l)
let names_of s = match s with "*" -> None | "-" -> Some [] | _ -> Some (List.map str_of (String.split_on_char ',' s))
let canon (l : BinNums.coq_N list list) : string =
  match List.sort compare (List.map string_of l) with [] -> "-" | x -> String.concat "," x
let hexsig l = if l = [] then "-" else hex_of_bytes l

let handle (w : string list) : string =
  match w with
  | "X" :: names :: rest ->
    let rec split_t acc = function
      | "T" :: [st; gt] -> (List.rev acc, st, gt)
      | x :: r -> split_t (x :: acc) r
      | [] -> (List.rev acc, ".", ".") in
    let (evs, st, gt) = split_t [] rest in
    let sigt = Hashtbl.create 16 and gett = Hashtbl.create 16 in
    let load tbl s = if s <> "." then List.iter (fun kv ->
        match String.index_opt kv '=' with
        | Some i -> Hashtbl.replace tbl (String.sub kv 0 i) (String.sub kv (i + 1) (String.length kv - i - 1))
        | None -> failwith "bad table") (String.split_on_char ';' s) in
    load sigt st; load gett gt;
    let sigf l = let k = canon l in
      match Hashtbl.find_opt sigt k with Some h -> bytes_of_hex h | None -> raise (Notable ("sig:" ^ k)) in
    let getf l t = let k = canon l ^ "/" ^ string_of t in
      match Hashtbl.find_opt gett k with Some h -> bytes_of_hex h | None -> raise (Notable ("get:" ^ k)) in
    let nl = List.map str_of (String.split_on_char ',' names) in
    let net = ref (Gate.init_net nl) in
    let b s = (s = "1") in
    let opt s = if s = "-" then None else Some (str_of s) in
    let dst = function
      | Gate.DJoin -> "join" | Gate.DLeave -> "leave" | Gate.DMeta -> "meta" | Gate.DBroadcast -> "bcast"
      | Gate.DSupdBg -> "bg" | Gate.DSupdUa -> "ua" | Gate.DRouteSrv -> "routesrv" | Gate.DProxy -> "proxy" in
    let out = ref [] in
    let stop = ref false in
    (try
       out := ("I " ^ hexsig (sigf nl)) :: !out;
       List.iter (fun ev ->
           if not !stop then begin
             let f = String.split_on_char ':' ev in
             let (e, recv, tag) = match f with
               | ["R"; i; l] -> (Gate.ERehash (str_of i, names_of l), None, "")
               | ["T"; i; t; fl] -> (Gate.ETopicPut (str_of i, str_of t,
                                                    { Gate.t_chan = String.contains fl 'c'; t_supd = String.contains fl 's';
                                                      t_proxy = String.contains fl 'p' }), None, "")
               | ["t"; i; t] -> (Gate.ETopicDel (str_of i, str_of t), None, "")
               | ["S"; i; rt; t; orig; s] -> (Gate.ESendMaster (str_of i, z_of_string rt, str_of t, opt orig, b s), None, "")
               | ["G"; i; t] -> (Gate.ESendGone (str_of i, str_of t), None, "")
               | ["U"; i; t; srv; s] -> (Gate.ESendRoute (str_of i, str_of t, b srv, b s), None, "")
               | ["F"; "q"; to_; node; sg; rt; rcpt; orig; s; gone] ->
                 let sg = bytes_of_hex (String.sub sg 1 (String.length sg - 1)) in
                 (Gate.EForge (Gate.MReq (str_of to_, { Gate.q_node = str_of node; q_sig = sg; q_type = z_of_string rt;
                                                         q_rcpt = str_of rcpt; q_cli = opt orig; q_sess = b s; q_gone = b gone })),
                  None, "F " ^ hexsig sg)
               | ["F"; "r"; to_; node; sg; srv; s] ->
                 let sg = bytes_of_hex (String.sub sg 1 (String.length sg - 1)) in
                 (Gate.EForge (Gate.MRoute (str_of to_, { Gate.r_node = str_of node; r_sig = sg; r_srv = b srv; r_sess = b s })),
                  None, "F " ^ hexsig sg)
               | ["F"; "p"; to_; rcpt; srv] ->
                 (Gate.EForge (Gate.MResp (str_of to_, { Gate.p_rcpt = str_of rcpt; p_srv = b srv })), None, "F -")
               | ["D"; k; full] ->
                 let k = int_of_string k in
                 let recv = (match List.nth_opt !net.Gate.flight k with
                     | Some fl -> Some (match fl.Gate.f_msg with Gate.MReq (t, _) -> t | Gate.MRoute (t, _) -> t | Gate.MResp (t, _) -> t)
                     | None -> None) in
                 (Gate.EDeliver (nat_of_int k, b full), recv, "")
               | ["X"; k] -> (Gate.EDrop (nat_of_int (int_of_string k)), None, "")
               | _ -> failwith ("bad event " ^ ev) in
             let (n', o) = Gate.gstep sigf getf !net e in
             net := n';
             let s = match o with
               | Gate.ObNone -> if tag <> "" then tag else "."
               | Gate.ObRehashed sg -> "R " ^ hexsig sg
               | Gate.ObSent (to_, sg) -> "S " ^ string_of to_ ^ " " ^ hexsig sg
               | Gate.ObNoRoute -> "N"
               | Gate.ObLost -> "L"
               | Gate.ObDelivered (oc, ms) ->
                 (match oc with
                  | Gate.OBlocks -> stop := true; "D HANG"
                  | _ ->
                    let (store, nm) = (match recv with
                        | Some r -> (match Gate.find_node r n'.Gate.nodes with
                            | Some st -> (List.length st.Gate.n_store, List.length st.Gate.n_msess)
                            | None -> (0, 0))
                        | None -> (0, 0)) in
                    let rej = (match oc with Gate.ORejectedSig | Gate.ORejectedType | Gate.ORejectedNil | Gate.ORejectedBusy -> 1 | _ -> 0) in
                    let d = (match oc with Gate.ODelivered x -> dst x | _ -> "-") in
                    Printf.sprintf "D rej=%d dst=%s r500=%d ms=%d store=%d nm=%d%s" rej d
                      (match oc with Gate.OBusy500 -> 1 | _ -> 0) (if ms then 1 else 0) store nm
                      (match oc with Gate.OPanic -> " PANIC" | _ -> "")) in
             out := s :: !out
           end) evs
     with Notable k -> out := ("NOTABLE " ^ k) :: !out);
    String.concat "|" (List.rev !out)
  | _ -> "?"
