(* C11 model runner: one scenario per line
     S <ver> <uid> <lvl> ; <msg> ; <msg> ...
   answer: one block per message, joined by " ; ":
     <ver>,<uid>,<lvl>|<reply>+<reply>|<call>|<panic>                                   *)
open Conv
open SessionAuth

let split_on c s = String.split_on_char c s
let b s = s = "1"
let bs x = if x then "1" else "0"
let n = n_of_string
let sn = string_of_n

let reply_of_string (s : string) : reply =
  match s with
  | "ok200" -> ROk200 | "created201" -> RCreated201 | "chal300" -> RChallenge300
  | "valid300" -> RValidate300 | "malf400" -> RMalformed400 | "authreq401" -> RAuthRequired401
  | "authfail401" -> RAuthFailed401 | "unkscheme401" -> RUnknownScheme401 | "denied403" -> RDenied403
  | "already409" -> RAlreadyAuth409 | "outofseq409" -> ROutOfSeq409 | "ver505" -> RVersion505
  | _ -> if String.length s > 1 && s.[0] = 'o' then ROther (n (String.sub s 1 (String.length s - 1)))
    else failwith ("reply " ^ s)

let string_of_reply (r : reply) : string =
  match r with
  | ROk200 -> "ok200" | RCreated201 -> "created201" | RChallenge300 -> "chal300"
  | RValidate300 -> "valid300" | RMalformed400 -> "malf400" | RAuthRequired401 -> "authreq401"
  | RAuthFailed401 -> "authfail401" | RUnknownScheme401 -> "unkscheme401" | RDenied403 -> "denied403"
  | RAlreadyAuth409 -> "already409" | ROutOfSeq409 -> "outofseq409" | RVersion505 -> "ver505"
  | ROther c -> "o" ^ sn c

let optn s = if s = "-" then None else Some (n s)
let soptn o = match o with None -> "-" | Some x -> sn x

let extra_of (s : string) : extra =
  (* x=- | x=<uid>:<level> *)
  let v = String.sub s 2 (String.length s - 2) in
  if v = "-" then { ex_asuser = None; ex_level = N0 }
  else match split_on ':' v with
    | [u; l] -> { ex_asuser = Some (n u); ex_level = n l }
    | _ -> failwith "extra"

let ustate_of s =
  match s with
  | "ok" -> USOk | "susp" -> USSuspended | "del" -> USDeleted
  | _ -> USErr (reply_of_string (String.sub s 1 (String.length s - 1)))

let auth_of s =
  match split_on ',' s with
  | ["U"] -> AUnknownScheme
  | ["F"; r] -> AFailed (reply_of_string r)
  | ["R"; u; l; v; nl; st; ch] ->
    ARec { ar_uid = n u; ar_lvl = n l; ar_validated = b v; ar_nologin = b nl; ar_state = ustate_of st; ar_challenge = b ch }
  | _ -> failwith "auth"

let vld_of s =
  match split_on ',' s with
  | ["S"] -> VSatisfied | ["M"] -> VMissing | ["E"; r] -> VError (reply_of_string r) | _ -> failwith "vld"

let tmp_of s =
  match split_on ',' s with
  | ["N"] -> TmpNone | ["U"] -> TmpUnknown | ["F"; r] -> TmpFailed (reply_of_string r)
  | ["R"; u; l] -> TmpRec (n u, n l) | _ -> failwith "tmp"

let create_of s =
  match split_on ',' s with
  | ["X"; r] -> CrRefused (reply_of_string r)
  | ["C"; u; l; nl; mi] -> CrCreated (n u, n l, b nl, b mi)
  | _ -> failwith "create"

let tkind_of s =
  match s with
  | "sub" -> TSub | "leave" -> TLeave | "pub" -> TPub | "get" -> TGet | "set" -> TSet | "del" -> TDel
  | "note" -> TNote | _ -> failwith "kind"

let kind_name k =
  match k with
  | KHi -> "hi" | KAcc -> "acc" | KLogin -> "login" | KSub -> "sub" | KLeave -> "leave" | KPub -> "pub"
  | KGet -> "get" | KSet -> "set" | KDel -> "del" | KNote -> "note"

let msg_of (w : string list) : msg =
  match w with
  | x :: "hi" :: [e; p; s] ->
    { m_extra = extra_of x; m_body = BHi { hi_empty = b e; hi_parsed = n p; hi_supported = b s } }
  | x :: "login" :: [r; a; v] ->
    { m_extra = extra_of x;
      m_body = BLogin { lg_reset = (if r = "-" then None else Some (reply_of_string r)); lg_auth = auth_of a; lg_vld = vld_of v } }
  | x :: "acc" :: [nw; lg; tmp; cr; tg; st; up] ->
    { m_extra = extra_of x;
      m_body = BAcc { ac_new = b nw; ac_login = b lg; ac_tmp = tmp_of tmp; ac_create = create_of cr; ac_target = optn tg;
                      ac_state = b st; ac_update = reply_of_string up } }
  | x :: k :: [snd; lo] -> { m_extra = extra_of x; m_body = BTopic (tkind_of k, optn snd, b lo) }
  | _ -> failwith ("msg " ^ String.concat " " w)

let rec split_msgs (w : string list) (cur : string list) (acc : string list list) : string list list =
  match w with
  | [] -> List.rev (if cur = [] then acc else List.rev cur :: acc)
  | ";" :: r -> split_msgs r [] (if cur = [] then acc else List.rev cur :: acc)
  | x :: r -> split_msgs r (x :: cur) acc

let handle (w : string list) : string =
  match w with
  | "S" :: v :: u :: l :: rest ->
    let st = ref { ver = n v; uid = n u; lvl = n l } in
    let created = ref 0 in
    let outs = List.map (fun mw ->
        let m0 = msg_of mw in
        (* accounts created in this scenario are numbered 101, 102, ... in creation order *)
        let fresh_uid = n_of_int (101 + !created) in
        let (m, creating) = match m0.m_body with
          | BAcc a when a.ac_new ->
            (match a.ac_create with
             | CrCreated (_, cl, nl, mi) ->
               ({ m0 with m_body = BAcc { a with ac_create = CrCreated (fresh_uid, cl, nl, mi) } }, true)
             | _ -> (m0, false))
          | _ -> (m0, false) in
        let r = dispatch spec_table !st m in
        if creating && (match r.r_replies with [ROk200] | [RCreated201] | [RValidate300] -> true | _ -> false)
        then incr created;
        st := r.r_state;
        let call = match r.r_call with
          | None -> "-"
          | Some c -> kind_name c.c_kind ^ "," ^ sn c.c_user ^ "," ^ sn c.c_level ^ "," ^ soptn c.c_sender in
        let g = match grants m with None -> "-" | Some (gu, gl) -> sn gu ^ "," ^ sn gl in
        sn r.r_state.ver ^ "," ^ sn r.r_state.uid ^ "," ^ sn r.r_state.lvl ^ "|" ^
        String.concat "+" (List.map string_of_reply r.r_replies) ^ "|" ^ call ^ "|" ^ bs r.r_panic ^ "|" ^ g)
        (split_msgs rest [] []) in
    String.concat " ; " outs
  | _ -> "?"
