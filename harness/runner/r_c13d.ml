(* C13 drafty model runner (coq/Pure/Drafty.v).
   Request: "T <repaired 0|1> <preview length> <txt> <fmt> <ent>" with the decoded document in the
   format printed by harness/ext/c13.go:
     txt = "n" | "t" + hex of the grapheme clusters joined by "."
     fmt = "-" | "<tp hex>/<at>/<len>/<key>" joined by ","
     ent = "-" | "<tp hex>/n" | "<tp hex>/d/<url>/<name>" joined by ","   (x | s<hex>)
   Answer: "<plain> <preview>" in the format of the driver: ok:.. | err:I | err:U | PANIC:<site> | FUEL *)
open Conv
open Drafty
let hx s = if s = "" then [] else bytes_of_hex s
let hexd l = hex_of_bytes l
let hexe l = if l = [] then "" else hex_of_bytes l
let split c s = if s = "-" || s = "" then [] else String.split_on_char c s
let opt_str s = if s = "x" then None else Some (hx (String.sub s 1 (String.length s - 1)))
let outcome (f : 'a -> string) (r : 'a res) : string =
  match r with
  | Ok a -> "ok:" ^ f a
  | Err ErrInvalid -> "err:I"
  | Err ErrUnrecognized -> "err:U"
  | Panic s -> "PANIC:" ^ string_of_n s
  | OutOfFuel -> "FUEL"
let style_str (s : style) = hexe s.st_tp ^ "/" ^ string_of_z s.st_at ^ "/" ^ string_of_z s.st_len ^ "/" ^ string_of_z s.st_key
let join l = if l = [] then "-" else String.concat "," l
let handle (w : string list) : string =
  match w with
  | ["T"; rp; maxlen; txt; fmt; ent] ->
    let d_txt = if txt = "n" then None
      else Some (List.map hx (let t = String.sub txt 1 (String.length txt - 1) in if t = "" then [] else String.split_on_char '.' t)) in
    let d_fmt = List.map (fun e -> match String.split_on_char '/' e with
      | [tp; a; l; k] -> { st_tp = hx tp; st_at = z_of_string a; st_len = z_of_string l; st_key = z_of_string k }
      | _ -> failwith "fmt") (split ',' fmt) in
    let d_ent = List.map (fun e -> match String.split_on_char '/' e with
      | [tp; "n"] -> { e_tp = hx tp; e_data = None }
      | [tp; "d"; u; n] -> { e_tp = hx tp; e_data = Some { d_url = opt_str u; d_name = opt_str n } }
      | _ -> failwith "ent") (split ',' ent) in
    let d = { d_txt = d_txt; d_fmt = d_fmt; d_ent = d_ent } in
    let rp = rp = "1" in
    outcome hexd (plain_text rp d) ^ " " ^
    outcome (fun o -> hexd o.o_txt ^ ";" ^ join (List.map style_str o.o_fmt) ^ ";" ^ join (List.map hexd o.o_ent))
      (preview rp (z_of_string maxlen) d)
  | _ -> "?"
