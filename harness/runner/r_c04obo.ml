(* C04, requests on behalf of another user: model runner for the scenarios of
   harness/overlay/server/zz_verif_c04x_test.go (TestVerifC04Obo).  Same scenario lines and the
   same canonical blocks as r_topic.ml, plus `sess <n> <user> r` (root session) and
   `op <flt> <kind>@<obo> ...` (extra.obo: a user index, x = not a user id, 0 = zero id).
   The state, the session map and the renderers are those of R_topic. *)
open Conv
open Topic

let roots : BinNums.coq_N list ref = ref []

let split_kind (k : string) : string * TopicOboC04.obo_c04 =
  match String.index_opt k '@' with
  | None -> (k, TopicOboC04.OboNone)
  | Some i ->
    let kind = String.sub k 0 i and ob = String.sub k (i + 1) (String.length k - i - 1) in
    (kind, if ob = "x" then TopicOboC04.OboJunk else TopicOboC04.OboUser (n_of_string ob))

let handle (w : string list) : string =
  match w with
  | "scn" :: _ -> roots := []; R_topic.handle w
  | ["sess"; sid; u; "r"] -> roots := !roots @ [n_of_string sid]; R_topic.handle ["sess"; sid; u]
  | "op" :: flt :: kind0 :: args ->
    incr R_topic.opi;
    let (kind, ob) = split_kind kind0 in
    let n = n_of_string and z = z_of_string in
    let opts w = if w = "-" then None else
      (match String.split_on_char ':' w with
       | [a; b; c] -> Some ((z a, z b), z c)
       | _ -> failwith "opts") in
    let q = match kind, args with
      | "subget", [sid; want; bkg; gd; gl] ->
        TopicOboC04.QSubGet (ob, n sid, bytes_of_hex want, bkg = "1", opts gd, opts gl)
      | _ -> TopicOboC04.QReq (ob, (match kind, args with
      | "sub", [sid; want; bkg] -> OSub (n sid, bytes_of_hex want, bkg = "1")
      | "leave", [sid; unsub] -> OLeave (n sid, unsub = "1")
      | "pub", [sid; content; noecho] -> OPub (n sid, n content, noecho = "1")
      | "note", [sid; what; seq] -> ONote (n sid, R_topic.note_kind what, z seq)
      | "getdata", [sid; a; b; c] -> OGetData (n sid, z a, z b, z c)
      | "getdesc", [sid] -> OGetDesc (n sid)
      | "getsub", [sid] -> OGetSub (n sid)
      | "getdel", [sid; a; b; c] -> OGetDel (n sid, z a, z b, z c)
      | "delmsg", [sid; hard; rs] -> ODelMsg (n sid, R_topic.parse_ranges rs, hard = "1")
      | "setsub", [sid; target; mode] -> OSetSub (n sid, n target, bytes_of_hex mode)
      | "delsub", [sid; target] -> ODelSub (n sid, n target)
      | "unload", [] -> OUnload
      | "restart", [] -> ORestart
      | _ -> failwith ("bad op " ^ kind))) in
    (match TopicOboC04.ostep_f_c04 !R_topic.sm !roots !R_topic.st (R_topic.parse_fault flt, q) with
     | None -> "op " ^ string_of_int !R_topic.opi ^ "\nUNMODELLED"
     | Some (x1, outs) ->
       R_topic.st := x1;
       let lines = List.map (fun (sid, fr) -> "S" ^ string_of_n sid ^ " " ^ R_topic.frame_str fr) outs in
       String.concat "\n" (("op " ^ string_of_int !R_topic.opi) :: lines
         @ ["calls " ^ string_of_int (int_of_nat x1.ncalls);
            "loaded " ^ (match x1.ca with Some _ -> "1" | None -> "0")]
         @ List.map (fun l -> "store " ^ l) (R_topic.store_str x1.st)
         @ (match x1.ca with
            | None -> []
            | Some c ->
              ("cache lastid=" ^ string_of_z c.c_lastid ^ " delid=" ^ string_of_z c.c_delid ^ " owner=" ^ string_of_n c.c_owner)
              :: List.sort compare (List.map (fun (u, p) ->
                   Printf.sprintf "cache user %d %s/%s read=%s recv=%s del=%s online=%s" (int_of_n u)
                     (R_topic.mode_str p.p_want) (R_topic.mode_str p.p_given)
                     (string_of_z p.p_read) (string_of_z p.p_recv) (string_of_z p.p_delid) (string_of_z p.p_online)) c.c_users)
              @ List.sort compare (List.map (fun (sid, (u, bkg)) ->
                   Printf.sprintf "cache sess %s user=%d bkg=%s" (string_of_n sid) (int_of_n u) (R_topic.b2s bkg)) c.c_sess))))
  | _ -> R_topic.handle w
