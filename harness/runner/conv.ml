(* Conversions between OCaml values and the extracted Coq numerals. *)
open BinNums

let rec pos_of_int (i : int) : positive =
  if i = 1 then Coq_xH
  else if i land 1 = 0 then Coq_xO (pos_of_int (i lsr 1))
  else Coq_xI (pos_of_int (i lsr 1))
let n_of_int (i : int) : coq_N = if i = 0 then N0 else Npos (pos_of_int i)
let rec int_of_pos (p : positive) : int =
  match p with Coq_xH -> 1 | Coq_xO q -> 2 * int_of_pos q | Coq_xI q -> 2 * int_of_pos q + 1
let int_of_n (n : coq_N) : int = match n with N0 -> 0 | Npos p -> int_of_pos p
let z_of_int (i : int) : coq_Z =
  if i = 0 then Z0 else if i > 0 then Zpos (pos_of_int i) else Zneg (pos_of_int (-i))
let int_of_z (z : coq_Z) : int =
  match z with Z0 -> 0 | Zpos p -> int_of_pos p | Zneg p -> - (int_of_pos p)

(* decimal strings of arbitrary size <-> N / Z (values up to 2^64 and beyond) *)
let rec pos_succ = function
  | Coq_xH -> Coq_xO Coq_xH | Coq_xO p -> Coq_xI p | Coq_xI p -> Coq_xO (pos_succ p)
let n_of_string (s : string) : coq_N =
  (* Horner in N using the extracted add/mul would need BinNat; do it by hand on bits *)
  let digits = Array.init (String.length s) (fun i -> Char.code s.[i] - 48) in
  (* repeated division by 2 of the decimal string *)
  let is_zero d = Array.for_all (fun x -> x = 0) d in
  let bits = ref [] in
  let d = Array.copy digits in
  while not (is_zero d) do
    let carry = ref 0 in
    for i = 0 to Array.length d - 1 do
      let cur = !carry * 10 + d.(i) in
      d.(i) <- cur / 2; carry := cur mod 2
    done;
    bits := !carry :: !bits
  done;
  (* bits: most significant first *)
  match !bits with
  | [] -> N0
  | _ :: rest ->
    Npos (List.fold_left (fun acc b -> if b = 1 then Coq_xI acc else Coq_xO acc) Coq_xH rest)
let string_of_n (n : coq_N) : string =
  (* collect bits msb first then convert to decimal via repeated doubling of a digit array *)
  let rec bits p acc = match p with
    | Coq_xH -> 1 :: acc | Coq_xO q -> bits q (0 :: acc) | Coq_xI q -> bits q (1 :: acc) in
  match n with
  | N0 -> "0"
  | Npos p ->
    let bs = bits p [] in
    let d = ref [0] in (* little endian decimal digits *)
    List.iter (fun b ->
      let carry = ref b in
      d := List.map (fun x -> let v = 2 * x + !carry in carry := v / 10; v mod 10) !d;
      if !carry > 0 then d := !d @ [!carry]) bs;
    String.concat "" (List.rev_map string_of_int !d)
let z_of_string (s : string) : coq_Z =
  if String.length s > 0 && s.[0] = '-' then
    (match n_of_string (String.sub s 1 (String.length s - 1)) with N0 -> Z0 | Npos p -> Zneg p)
  else (match n_of_string s with N0 -> Z0 | Npos p -> Zpos p)
let string_of_z (z : coq_Z) : string =
  match z with Z0 -> "0" | Zpos p -> string_of_n (Npos p) | Zneg p -> "-" ^ string_of_n (Npos p)

let rec nat_of_int (i : int) : Datatypes.nat = if i <= 0 then Datatypes.O else Datatypes.S (nat_of_int (i - 1))
let rec int_of_nat (n : Datatypes.nat) : int = match n with Datatypes.O -> 0 | Datatypes.S m -> 1 + int_of_nat m

(* byte strings: hex on the wire ("-" = empty), list of N (< 256) in the model *)
let bytes_of_hex (h : string) : coq_N list =
  if h = "-" then [] else
  List.init (String.length h / 2) (fun i -> n_of_int (int_of_string ("0x" ^ String.sub h (2 * i) 2)))
let hex_of_bytes (l : coq_N list) : string =
  if l = [] then "-" else String.concat "" (List.map (fun b -> Printf.sprintf "%02x" (int_of_n b)) l)
let words (s : string) : string list = List.filter (fun w -> w <> "") (String.split_on_char ' ' s)
