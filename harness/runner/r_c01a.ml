(* C01 attachments model runner (coq/Sys/TopicAttC01.v over the group-topic model).  Same scenario lines and
   the same canonical blocks as the topic runner (R_topic: head-line handling, parsers, renderers and base
   requests reused as they are), plus the request of harness/overlay/server/zz_verif_c01a_test.go:
     puba <sess> <content> <noecho> <atts>     atts: letters j (no file id) u (unknown file) k (uploaded file), or -
     getdescp <sess>                           {get desc}; the frames of both requests carry pbseq (Sys/DescEncC01.v) *)
open Conv
open Topic
open TopicAttC01

let b2s b = if b then "1" else "0"

let atts_of (w : string) : att_c01a list =
  if w = "-" then [] else
  List.map (fun ch -> match ch with
    | 'j' -> AttJunk | 'u' -> AttUnknown | 'k' -> AttKnown
    | _ -> failwith ("bad atts " ^ w)) (List.init (String.length w) (String.get w))

(* the number in the protobuf encoding of the frame (Sys/DescEncC01.v), next to the JSON one *)
let frame_both (fr : frame) : string =
  R_topic.frame_str fr ^
  (match fr, DescEncC01.shown_num_c01e DescEncC01.EncPB fr with
   | (Data _ | MetaDesc _ | Ctrl _), Some z -> " pbseq=" ^ string_of_z z
   | _ -> "")

let handle (w : string list) : string =
  match w with
  | "op" :: flt :: (("puba" | "getdescp" | "getdatap") as kind) :: args ->
    let n = n_of_string in
    incr R_topic.opi;
    let o = match kind, args with
      | "puba", [sid; content; noecho; atts] -> APubAtt (n sid, n content, noecho = "1", atts_of atts)
      | "getdescp", [sid] -> ABase (OGetDesc (n sid))
      | "getdatap", [sid] -> ABase (OGetData (n sid, z_of_string "0", z_of_string "0", z_of_string "0"))
      | _ -> failwith "bad puba/getdescp" in
    let (x1, outs) = astep_f TopicInst.del_ranges_i TopicInst.norm_ranges_i !R_topic.sm !R_topic.st (R_topic.parse_fault flt, o) in
    R_topic.st := x1;
    let lines = List.map (fun (sid, fr) -> "S" ^ string_of_n sid ^ " " ^ frame_both fr) outs in
    String.concat "\n" (("op " ^ string_of_int !R_topic.opi) :: lines
      @ ["calls " ^ string_of_int (int_of_nat x1.ncalls);
         "loaded " ^ (match x1.ca with Some _ -> "1" | None -> "0")]
      @ List.map (fun l -> "store " ^ l) (R_topic.store_str x1.st)
      @ (match x1.ca with
         | None -> []
         | Some c ->
           ("cache lastid=" ^ string_of_z c.c_lastid ^ " delid=" ^ string_of_z c.c_delid ^ " owner=" ^ string_of_n c.c_owner)
           :: List.sort compare (List.map (fun (u, p) ->
                Printf.sprintf "cache user %d %s/%s read=%s recv=%s del=%s online=%s" (int_of_n u) (R_topic.mode_str p.p_want) (R_topic.mode_str p.p_given)
                  (string_of_z p.p_read) (string_of_z p.p_recv) (string_of_z p.p_delid) (string_of_z p.p_online)) c.c_users)
           @ List.sort compare (List.map (fun (sid, (u, bkg)) ->
                Printf.sprintf "cache sess %s user=%d bkg=%s" (string_of_n sid) (int_of_n u) (b2s bkg)) c.c_sess)))
  | _ -> R_topic.handle w
