(* C03 model runner: the scenario format of r_topic.ml plus the events of Sys/TopicLife.v
   (delbegin / delend / suspend / subme / subfnd / pubme / pubfnd / pubsys).  Same canonical
   blocks as harness/overlay/server/zz_verif_c03x_test.go. *)
open Conv
open Topic
open TopicLife

let xs : xstate ref = ref (xinit R_topic.empty_store)
let sm : (BinNums.coq_N * BinNums.coq_N) list ref = ref []
let opi = ref 0

let set_store (s : store) = xs := { !xs with xb = { !xs.xb with st = s } }

let sorted_ns (l : BinNums.coq_N list) : string =
  String.concat "," (List.map string_of_int (List.sort_uniq compare (List.map int_of_n l)))

let handle (w : string list) : string =
  match w with
  | "scn" :: id :: rest ->
    let gn k = n_of_string (List.assoc k (List.map R_topic.kv rest)) in
    opi := 0; sm := [];
    let s0 = { R_topic.empty_store with t_exists = true; t_auth = gn "auth"; t_anon = gn "anon" } in
    let s1 = ad_sub_create s0 (gn "owner") (gn "ownerwant") (gn "ownergiven") in
    xs := xinit s1;
    "scn " ^ id
  | ["user"; i; acc] ->
    let s = !xs.xb.st in
    let acc = n_of_string (snd (R_topic.kv acc)) in
    set_store { s with users = s.users @ [(n_of_string i, acc)] }; ""
  | ["subrow"; i; want; given] ->
    set_store (ad_sub_create !xs.xb.st (n_of_string i) (n_of_string (snd (R_topic.kv want))) (n_of_string (snd (R_topic.kv given)))); ""
  | ["sysrow"; u] ->
    (* user u has a live subscription row on 'sys' (ModeCSys/ModeCSys): he is in sys.perUser *)
    xs := { !xs with x_sys_subs = !xs.x_sys_subs @ [n_of_string u] }; ""
  | ["p2prow"; _k; a; b; wa; ga; wb; gb] ->
    (* the k-th peer-to-peer topic: topic row + the two subscription rows (store.Topics.CreateP2P) *)
    let v x = n_of_string (snd (R_topic.kv x)) in
    let s0 = { R_topic.empty_store with t_exists = true; users = !xs.xb.st.users } in
    let s1 = ad_sub_create (ad_sub_create s0 (n_of_string a) (v wa) (v ga)) (n_of_string b) (v wb) (v gb) in
    xs := { !xs with x_p2p = !xs.x_p2p @ [{ pt_b = { st = s1; ca = None; ncalls = Datatypes.O }; pt_ro = false }] }; ""
  | ["sess"; sid; u] -> sm := !sm @ [(n_of_string sid, n_of_string u)]; ""
  | "op" :: flt :: kind :: args ->
    incr opi;
    let n = n_of_string and z = z_of_string in
    let f = R_topic.parse_fault flt in
    let base o = EBase (f, o) in
    let e = match kind, args with
      | "sub", [sid; want; bkg] -> base (OSub (n sid, bytes_of_hex want, bkg = "1"))
      | "leave", [sid; unsub] -> base (OLeave (n sid, unsub = "1"))
      | "pub", [sid; content; noecho] -> base (OPub (n sid, n content, noecho = "1"))
      | "note", [sid; what; seq] -> base (ONote (n sid, R_topic.note_kind what, z seq))
      | "getdata", [sid; a; b; c] -> base (OGetData (n sid, z a, z b, z c))
      | "getdesc", [sid] -> base (OGetDesc (n sid))
      | "getsub", [sid] -> base (OGetSub (n sid))
      | "getdel", [sid; a; b; c] -> base (OGetDel (n sid, z a, z b, z c))
      | "delmsg", [sid; hard; rs] -> base (ODelMsg (n sid, R_topic.parse_ranges rs, hard = "1"))
      | "setsub", [sid; target; mode] -> base (OSetSub (n sid, n target, bytes_of_hex mode))
      | "delsub", [sid; target] -> base (ODelSub (n sid, n target))
      | "unload", [] -> base OUnload
      | "restart", [] -> base ORestart
      | "delbegin", [sid] -> EDelBegin (f, n sid)
      | "delend", [] -> EDelEnd
      | "suspend", [u; b] -> ESuspend (f, n u, b = "1")
      | "subme", [sid] -> ESubMe (n sid)
      | "subfnd", [sid] -> ESubFnd (n sid)
      | "pubme", [sid; content] -> EPubMe (n sid, n content)
      | "pubfnd", [sid; content] -> EPubFnd (n sid, n content)
      | "pubsys", [sid; content] -> EPubSys (f, n sid, n content)
      | "p2psub", [sid; k] -> EP2P (nat_of_int (int_of_string k - 1), f, PSub (n sid))
      | "p2pleave", [sid; k] -> EP2P (nat_of_int (int_of_string k - 1), f, PLeave (n sid))
      | "p2ppub", [sid; k; content; noecho] -> EP2P (nat_of_int (int_of_string k - 1), f, PPub (n sid, n content, noecho = "1"))
      | "p2punload", [k] -> EP2P (nat_of_int (int_of_string k - 1), f, PUnload)
      | _ -> failwith ("bad op " ^ kind) in
    (* an event other than {pub} while the delete is held open first lets the hub finish it; the driver
       discards what that sends (it belongs to the delete, not to this request): same here *)
    (match !xs.x_del, e with
     | Some _, EBase (_, OPub (_, _, _)) -> ()
     | Some _, EDelEnd -> ()
     | Some _, _ -> xs := fst (TopicLifeInst.xstep_i !sm !xs EDelEnd)
     | None, _ -> ());
    let (x1, outs) = TopicLifeInst.xstep_i !sm !xs e in
    xs := x1;
    let b = x1.xb in
    let lines = List.map (fun (sid, fr) -> "S" ^ string_of_n sid ^ " " ^ R_topic.frame_str fr) outs in
    let b2s = R_topic.b2s in
    let store_lines =
      if b.st.t_exists then List.map (fun l -> "store " ^ l) (R_topic.store_str b.st)
      else ["store topic absent"] in
    String.concat "\n" (("op " ^ string_of_int !opi) :: lines
      @ ["calls " ^ string_of_int (int_of_nat b.ncalls);
         "loaded " ^ (match b.ca with Some _ -> "1" | None -> "0")]
      @ store_lines
      @ (match b.ca with
         | None -> []
         | Some c ->
           ("cache lastid=" ^ string_of_z c.c_lastid ^ " delid=" ^ string_of_z c.c_delid ^ " owner=" ^ string_of_n c.c_owner)
           :: List.sort compare (List.map (fun (u, p) ->
                Printf.sprintf "cache user %d %s/%s read=%s recv=%s del=%s online=%s" (int_of_n u) (R_topic.mode_str p.p_want) (R_topic.mode_str p.p_given)
                  (string_of_z p.p_read) (string_of_z p.p_recv) (string_of_z p.p_delid) (string_of_z p.p_online)) c.c_users)
           @ List.sort compare (List.map (fun (sid, (u, bkg)) ->
                Printf.sprintf "cache sess %s user=%d bkg=%s" (string_of_n sid) (int_of_n u) (b2s bkg)) c.c_sess))
      @ [ "store xstatus paused=" ^ (match x1.x_del with Some _ -> "1" | None -> "0") ^ " ro=" ^ b2s x1.x_ro ^
            " window=" ^ (match x1.x_del with Some _ -> "1" | None -> "0");
          "store susp " ^ sorted_ns x1.x_susp;
          "store me " ^ sorted_ns x1.x_me;
          "store fnd " ^ sorted_ns x1.x_fnd;
          "store sys seqid=" ^ string_of_z x1.x_sys_seqid ^ " lastid=" ^ string_of_z x1.x_sys_lastid ]
      @ List.sort compare (List.map (fun m ->
          Printf.sprintf "store sysmsg %05d from=%d content=%s" (int_of_z m.m_seq) (int_of_n m.m_from) (string_of_n m.m_content)) x1.x_sys_msgs)
      @ [ "store sysro " ^ b2s x1.x_sys_ro;
          "store syssubs " ^ sorted_ns x1.x_sys_subs;
          (* 'me' / 'fnd' topics are skipped by hub.topicsStateForUser: none is ever read-only *)
          "store mefndro " ]
      @ List.mapi (fun i p ->
          let pb = p.pt_b in
          let msgs = String.concat "," (List.map (fun m ->
            Printf.sprintf "%d:%d:%s" (int_of_z m.m_seq) (int_of_n m.m_from) (string_of_n m.m_content))
            (List.sort (fun m1 m2 -> compare (int_of_z m1.m_seq) (int_of_z m2.m_seq)) pb.st.msgs)) in
          match pb.ca with
          | None ->
            Printf.sprintf "store p2p %d loaded=0 ro=%s seqid=%s lastid=-1 users=- sess= msgs=%s" (i + 1) (b2s p.pt_ro)
              (string_of_z pb.st.t_seqid) msgs
          | Some c ->
            let users = String.concat "," (List.map (fun (u, (w, g)) -> Printf.sprintf "%d:%s/%s" u w g)
              (List.sort compare (List.map (fun (u, pd) -> (int_of_n u, (R_topic.mode_str pd.p_want, R_topic.mode_str pd.p_given))) c.c_users))) in
            Printf.sprintf "store p2p %d loaded=1 ro=%s seqid=%s lastid=%s users=%s sess=%s msgs=%s" (i + 1) (b2s p.pt_ro)
              (string_of_z pb.st.t_seqid) (string_of_z c.c_lastid) users (sorted_ns (List.map fst c.c_sess)) msgs) x1.x_p2p)
  | ["end"] -> "end"
  | [] -> ""
  | _ -> "?"
