(* C03 model runner: the scenario format of r_topic.ml plus the events of Sys/TopicLife.v
   (delbegin / delend / suspend / subme / subfnd / pubme / pubfnd / pubsys).  Same canonical
   blocks as harness/overlay/server/zz_verif_c03x_test.go. *)
open Conv
open Topic
open TopicLife
open TopicOffSetC03

(* the wrapper state of Sys/TopicOffSetC03.v (TopicLife.xstate + the stored Private of every row) *)
let zs : ozstate_c03 ref = ref (ozinit_c03 (xinit R_topic.empty_store))
let sm : (BinNums.coq_N * BinNums.coq_N) list ref = ref []
let roots : BinNums.coq_N list ref = ref []
let opi = ref 0

let get_x () : xstate = !zs.oz_x
let set_x (x : xstate) = zs := { !zs with oz_x = x }
let set_store (s : store) = let x = get_x () in set_x { x with xb = { x.xb with st = s } }

let split_kind (k : string) : string * TopicOboC04.obo_c04 * bool =
  match String.index_opt k '@' with
  | None -> (k, TopicOboC04.OboNone, false)
  | Some i ->
    let kind = String.sub k 0 i and ob = String.sub k (i + 1) (String.length k - i - 1) in
    (kind, (if ob = "x" then TopicOboC04.OboJunk else TopicOboC04.OboUser (n_of_string ob)), true)

(* <priv>: - | L<n> | M<k>:<v|d|n>,... *)
let parse_priv (p : string) : preq_c03 =
  if p = "-" || p = "" then PrNil
  else if p.[0] = 'L' then PrLeaf (n_of_string (String.sub p 1 (String.length p - 1)))
  else
    let body = String.sub p 1 (String.length p - 1) in
    let ents = if body = "" then [] else String.split_on_char ',' body in
    PrMap (List.map (fun e ->
      match String.split_on_char ':' e with
      | [k; "d"] -> (n_of_string k, PeDel)
      | [k; "n"] -> (n_of_string k, PeNull)
      | [k; v] -> (n_of_string k, PeVal (n_of_string v))
      | _ -> failwith "priv") ents)

let canon_priv (v : pval_c03) : string =
  match v with
  | PvNil -> ""
  | PvLeaf t -> "L" ^ string_of_n t
  | PvMap m ->
    "M" ^ String.concat ";" (List.map (fun (k, t) -> string_of_int k ^ ":" ^ string_of_n t)
             (List.sort compare (List.map (fun (k, t) -> (int_of_n k, t)) m)))

let offreq target mode priv : offreq_c03 =
  { or_target = n_of_string target; or_mode = bytes_of_hex mode; or_priv = parse_priv priv }

let sorted_ns (l : BinNums.coq_N list) : string =
  String.concat "," (List.map string_of_int (List.sort_uniq compare (List.map int_of_n l)))

let handle (w : string list) : string =
  match w with
  | "scn" :: id :: rest ->
    let gn k = n_of_string (List.assoc k (List.map R_topic.kv rest)) in
    opi := 0; sm := []; roots := [];
    let s0 = { R_topic.empty_store with t_exists = true; t_auth = gn "auth"; t_anon = gn "anon" } in
    let s1 = ad_sub_create s0 (gn "owner") (gn "ownerwant") (gn "ownergiven") in
    zs := ozinit_c03 (xinit s1);
    "scn " ^ id
  | ["user"; i; acc] ->
    let s = (get_x ()).xb.st in
    let acc = n_of_string (snd (R_topic.kv acc)) in
    set_store { s with users = s.users @ [(n_of_string i, acc)] }; ""
  | ["subrow"; i; want; given] ->
    set_store (ad_sub_create (get_x ()).xb.st (n_of_string i) (n_of_string (snd (R_topic.kv want))) (n_of_string (snd (R_topic.kv given)))); ""
  | ["sysrow"; u] ->
    (* user u has a live subscription row on 'sys' (ModeCSys/ModeCSys): he is in sys.perUser *)
    let x = get_x () in set_x { x with x_sys_subs = x.x_sys_subs @ [n_of_string u] }; ""
  | ["p2prow"; _k; a; b; wa; ga; wb; gb] ->
    (* the k-th peer-to-peer topic: topic row + the two subscription rows (store.Topics.CreateP2P) *)
    let v x = n_of_string (snd (R_topic.kv x)) in
    let x = get_x () in
    let s0 = { R_topic.empty_store with t_exists = true; users = x.xb.st.users } in
    let s1 = ad_sub_create (ad_sub_create s0 (n_of_string a) (v wa) (v ga)) (n_of_string b) (v wb) (v gb) in
    zs := { !zs with oz_x = { x with x_p2p = x.x_p2p @ [{ pt_b = { st = s1; ca = None; ncalls = Datatypes.O }; pt_ro = false }] };
                     oz_ppriv = !zs.oz_ppriv @ [[]] }; ""
  | ["sess"; sid; u] -> sm := !sm @ [(n_of_string sid, n_of_string u)]; ""
  | ["sess"; sid; u; "r"] -> sm := !sm @ [(n_of_string sid, n_of_string u)]; roots := !roots @ [n_of_string sid]; ""
  | "op" :: flt :: kind0 :: args ->
    incr opi;
    let (kind, ob, has_obo) = split_kind kind0 in
    let n = n_of_string and z = z_of_string in
    let f = R_topic.parse_fault flt in
    let base o = if has_obo then ZObo (ob, f, o) else ZX (EBase (f, o)) in
    let zx e = ZX e in
    let e = match kind, args with
      | "sub", [sid; want; bkg] -> base (OSub (n sid, bytes_of_hex want, bkg = "1"))
      | "leave", [sid; unsub] -> base (OLeave (n sid, unsub = "1"))
      | "pub", [sid; content; noecho] -> base (OPub (n sid, n content, noecho = "1"))
      | "note", [sid; what; seq] -> base (ONote (n sid, R_topic.note_kind what, z seq))
      | "getdata", [sid; a; b; c] -> base (OGetData (n sid, z a, z b, z c))
      | "getdesc", [sid] -> base (OGetDesc (n sid))
      | "getsub", [sid] -> base (OGetSub (n sid))
      | "getdel", [sid; a; b; c] -> base (OGetDel (n sid, z a, z b, z c))
      | "delmsg", [sid; hard; rs] -> base (ODelMsg (n sid, R_topic.parse_ranges rs, hard = "1"))
      | "setsub", [sid; target; mode] -> base (OSetSub (n sid, n target, bytes_of_hex mode))
      | "delsub", [sid; target] -> base (ODelSub (n sid, n target))
      | "unload", [] -> base OUnload
      | "restart", [] -> base ORestart
      | "delbegin", [sid] -> zx (EDelBegin (f, n sid))
      | "delend", [] -> zx (EDelEnd)
      | "suspend", [u; b] -> zx (ESuspend (f, n u, b = "1"))
      | "subme", [sid] -> zx (ESubMe (n sid))
      | "subfnd", [sid] -> zx (ESubFnd (n sid))
      | "pubme", [sid; content] -> zx (EPubMe (n sid, n content))
      | "pubfnd", [sid; content] -> zx (EPubFnd (n sid, n content))
      | "pubsys", [sid; content] -> zx (EPubSys (f, n sid, n content))
      | "p2psub", [sid; k] -> zx (EP2P (nat_of_int (int_of_string k - 1), f, PSub (n sid)))
      | "p2pleave", [sid; k] -> zx (EP2P (nat_of_int (int_of_string k - 1), f, PLeave (n sid)))
      | "p2ppub", [sid; k; content; noecho] -> zx (EP2P (nat_of_int (int_of_string k - 1), f, PPub (n sid, n content, noecho = "1")))
      | "p2punload", [k] -> zx (EP2P (nat_of_int (int_of_string k - 1), f, PUnload))
      | "osetx", [sid; target; mode; priv] -> ZSet (f, n sid, offreq target mode priv)
      | "p2posetx", [sid; k; mode; priv] -> ZSetP2P (nat_of_int (int_of_string k - 1), f, n sid, offreq "0" mode priv)
      | _ -> failwith ("bad op " ^ kind) in
    (* an event other than {pub} while the delete is held open first lets the hub finish it; the driver
       discards what that sends (it belongs to the delete, not to this request): same here *)
    (match (get_x ()).x_del, e with
     | Some _, ZX (EBase (_, OPub (_, _, _))) -> ()
     | Some _, ZObo (_, _, OPub (_, _, _)) -> ()
     | Some _, ZX EDelEnd -> ()
     | Some _, _ -> set_x (fst (TopicLifeInst.xstep_i !sm (get_x ()) EDelEnd))
     | None, _ -> ());
    (match ozstep_i_c03 !sm !roots !zs e with
     | None -> "op " ^ string_of_int !opi ^ "\nUNMODELLED"
     | Some (z1, outs) ->
    zs := z1;
    let x1 = z1.oz_x in
    let b = x1.xb in
    let lines = List.map (fun (sid, fr) -> "S" ^ string_of_n sid ^ " " ^ R_topic.frame_str fr) outs in
    let b2s = R_topic.b2s in
    let store_lines =
      if b.st.t_exists then List.map (fun l -> "store " ^ l) (R_topic.store_str b.st)
      else ["store topic absent"] in
    String.concat "\n" (("op " ^ string_of_int !opi) :: lines
      @ ["calls " ^ string_of_int (int_of_nat b.ncalls);
         "loaded " ^ (match b.ca with Some _ -> "1" | None -> "0")]
      @ store_lines
      @ (match b.ca with
         | None -> []
         | Some c ->
           ("cache lastid=" ^ string_of_z c.c_lastid ^ " delid=" ^ string_of_z c.c_delid ^ " owner=" ^ string_of_n c.c_owner)
           :: List.sort compare (List.map (fun (u, p) ->
                Printf.sprintf "cache user %d %s/%s read=%s recv=%s del=%s online=%s" (int_of_n u) (R_topic.mode_str p.p_want) (R_topic.mode_str p.p_given)
                  (string_of_z p.p_read) (string_of_z p.p_recv) (string_of_z p.p_delid) (string_of_z p.p_online)) c.c_users)
           @ List.sort compare (List.map (fun (sid, (u, bkg)) ->
                Printf.sprintf "cache sess %s user=%d bkg=%s" (string_of_n sid) (int_of_n u) (b2s bkg)) c.c_sess))
      @ [ "store xstatus paused=" ^ (match x1.x_del with Some _ -> "1" | None -> "0") ^ " ro=" ^ b2s x1.x_ro ^
            " window=" ^ (match x1.x_del with Some _ -> "1" | None -> "0");
          "store susp " ^ sorted_ns x1.x_susp;
          "store me " ^ sorted_ns x1.x_me;
          "store fnd " ^ sorted_ns x1.x_fnd;
          "store sys seqid=" ^ string_of_z x1.x_sys_seqid ^ " lastid=" ^ string_of_z x1.x_sys_lastid ]
      @ List.sort compare (List.map (fun m ->
          Printf.sprintf "store sysmsg %05d from=%d content=%s" (int_of_z m.m_seq) (int_of_n m.m_from) (string_of_n m.m_content)) x1.x_sys_msgs)
      @ [ "store sysro " ^ b2s x1.x_sys_ro;
          "store syssubs " ^ sorted_ns x1.x_sys_subs;
          (* 'me' / 'fnd' topics are skipped by hub.topicsStateForUser: none is ever read-only *)
          "store mefndro " ]
      @ List.mapi (fun i p ->
          let pb = p.pt_b in
          let msgs = String.concat "," (List.map (fun m ->
            Printf.sprintf "%d:%d:%s" (int_of_z m.m_seq) (int_of_n m.m_from) (string_of_n m.m_content))
            (List.sort (fun m1 m2 -> compare (int_of_z m1.m_seq) (int_of_z m2.m_seq)) pb.st.msgs)) in
          match pb.ca with
          | None ->
            Printf.sprintf "store p2p %d loaded=0 ro=%s seqid=%s lastid=-1 users=- sess= msgs=%s" (i + 1) (b2s p.pt_ro)
              (string_of_z pb.st.t_seqid) msgs
          | Some c ->
            let users = String.concat "," (List.map (fun (u, (w, g)) -> Printf.sprintf "%d:%s/%s" u w g)
              (List.sort compare (List.map (fun (u, pd) -> (int_of_n u, (R_topic.mode_str pd.p_want, R_topic.mode_str pd.p_given))) c.c_users))) in
            Printf.sprintf "store p2p %d loaded=1 ro=%s seqid=%s lastid=%s users=%s sess=%s msgs=%s" (i + 1) (b2s p.pt_ro)
              (string_of_z pb.st.t_seqid) (string_of_z c.c_lastid) users (sorted_ns (List.map fst c.c_sess)) msgs) x1.x_p2p
      @ List.sort compare (List.filter_map (fun (u, v) ->
          let c = canon_priv v in
          if c = "" then None else Some (Printf.sprintf "store priv %d %s" (int_of_n u) c)) z1.oz_gpriv)
      @ List.mapi (fun i p ->
          let pl = (try List.nth z1.oz_ppriv i with _ -> []) in
          let pv u = (match List.assoc_opt u pl with Some v -> canon_priv v | None -> "") in
          let rows = List.sort compare (List.map (fun r ->
            Printf.sprintf "%d:%s/%s:%s%s" (int_of_n r.s_user) (R_topic.mode_str r.s_want) (R_topic.mode_str r.s_given) (pv r.s_user)
              (if r.s_deleted then ":deleted" else "")) p.pt_b.st.subs) in
          Printf.sprintf "store p2prows %d %s" (i + 1) (String.concat "," rows)) x1.x_p2p))
  | ["end"] -> "end"
  | [] -> ""
  | _ -> "?"
