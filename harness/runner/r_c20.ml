(* C20 model runner: one request per line, one answer per line (same protocol as harness/ext/c20.go). *)
open Conv
let b2s b = if b then "1" else "0"
let hx = hex_of_bytes
let n8 = nat_of_int 8
let handle (w : string list) : string =
  match w with
  | ["S"; u] ->
    let u = n_of_string u in
    String.concat " " ["S"; hx (Uid.uid_string u); hx (Uid.marshal_text u); hx (Uid.string32 u); hx (Uid.user_id u);
                       hx (Uid.fnd_name u); hx (Uid.marshal_json u); hx (Uid.marshal_binary u); hx (Uid.prefix_id Uid.s_grp u)]
  | ["RT"; u] ->
    let u = n_of_string u in
    let (j, jok) = Uid.unmarshal_json N0 (Uid.marshal_json u) in
    let (b, bok) = Uid.unmarshal_binary N0 (Uid.marshal_binary u) in
    String.concat " " ["RT"; string_of_n (Uid.parse_uid (Uid.uid_string u)); string_of_n (Uid.parse_user_id (Uid.user_id u));
                       string_of_n j; b2s jok; string_of_n (Uid.parse_uid32 (Uid.string32 u)); string_of_n b; b2s bok]
  | ["PU"; h] -> "PU " ^ string_of_n (Uid.parse_uid (bytes_of_hex h))
  | ["PI"; h] -> "PI " ^ string_of_n (Uid.parse_user_id (bytes_of_hex h))
  | ["UT"; c; h] -> let (v, ok) = Uid.unmarshal_text (n_of_string c) (bytes_of_hex h) in "UT " ^ string_of_n v ^ " " ^ b2s ok
  | ["UJ"; c; h] -> let (v, ok) = Uid.unmarshal_json (n_of_string c) (bytes_of_hex h) in "UJ " ^ string_of_n v ^ " " ^ b2s ok
  | ["UB"; c; h] -> let (v, ok) = Uid.unmarshal_binary (n_of_string c) (bytes_of_hex h) in "UB " ^ string_of_n v ^ " " ^ b2s ok
  | ["P32"; h] -> "P32 " ^ string_of_n (Uid.parse_uid32 (bytes_of_hex h))
  | ["P32U"; h] -> "P32U " ^ string_of_n (Uid.parse_uid32_unrepaired (bytes_of_hex h))
  | ["GC"; h] -> let s = bytes_of_hex h in String.concat " " ["GC"; hx (Uid.grp_to_chn s); hx (Uid.chn_to_grp s); b2s (Uid.is_channel s);
      hx (Uid.chn_to_grp (Uid.grp_to_chn s)); hx (Uid.grp_to_chn (Uid.chn_to_grp s)); b2s (Uid.is_channel (Uid.grp_to_chn s))]
  | ["P2"; a; b] ->
    let a = n_of_string a and b = n_of_string b in
    let name = P2PName.p2p_name a b in
    let (u1, u2, ok) = (match P2PName.parse_p2p name with Some (x, y) -> (x, y, true) | None -> (N0, N0, false)) in
    let fu u = (match P2PName.p2p_name_for_user u name with Some s -> "1 " ^ hx s | None -> "0 -") in
    String.concat " " ["P2"; hx name; string_of_n u1; string_of_n u2; b2s ok; fu a; fu b; hx (Uid.user_id a); hx (Uid.user_id b)]
  | ["PP"; h] ->
    (match P2PName.parse_p2p (bytes_of_hex h) with
     | Some (x, y) -> "PP " ^ string_of_n x ^ " " ^ string_of_n y ^ " 1"
     | None -> "PP 0 0 0")
  | ["PF"; u; h] ->
    (match P2PName.p2p_name_for_user (n_of_string u) (bytes_of_hex h) with
     | Some s -> "PF 1 " ^ hx s | None -> "PF 0 -")
  | ["DBR"; u; h1; h2] ->
    (* the cipher is external to the model: its answers on the two blocks come with the request *)
    let z = Uid.decode_uid (fun _ -> bytes_of_hex h1) (n_of_string u) in
    "DBR " ^ string_of_z z ^ " " ^ string_of_n (Uid.encode_int64 (fun _ -> bytes_of_hex h2) z)
  | ["EIR"; z; h1; h2] ->
    let u = Uid.encode_int64 (fun _ -> bytes_of_hex h1) (z_of_string z) in
    "EIR " ^ string_of_n u ^ " " ^ string_of_z (Uid.decode_uid (fun _ -> bytes_of_hex h2) u)
  | ["LE"; u] -> "LE " ^ hx (Uid.le_bytes n8 (n_of_string u))
  | "DBC" :: _ -> "DBC ok"   (* c20_db_roundtrip holds for every id; the model has no shared mutable state *)
  | _ -> "?"
