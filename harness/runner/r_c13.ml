(* C13 model runner: one structured request + the state facts reported by the driver -> the set of
   outcome classes the model allows (over the oracle values it does not determine). *)
open Conv
open PanicSites
let b s = s = "1"
let str h = bytes_of_hex h
let kind_of = function
  | "hi" -> KHi | "acc" -> KAcc | "login" -> KLogin | "sub" -> KSub | "leave" -> KLeave | "pub" -> KPub
  | "get" -> KGet | "set" -> KSet | "del" -> KDel | _ -> KNote
let cls (o : outcome) : string =
  match o with
  | Panic s -> "P" ^ string_of_n s
  | Silent -> "S"
  | Replies [] -> "S"
  | Replies (r :: _) -> let c = int_of_n r.r_code in if c = 999 then "R*" else "R" ^ string_of_int c
let handle (w : string list) : string =
  match w with
  | ["H"; rp; media; facts; kind; id; topic; tuid; what; gbits; sbits; seq; event; payload; unsub; user; scheme; tmpscheme;
     hiver; hiverempty; obo; obouid; att; schemes; tfacts] ->
    (* tfacts (what the default-access site reads): category of the loaded topic, perUser entry of the session's user
       (exists, deleted, modeWant has J, sharer), set.sub.user (0 absent, 1 unparsable, 2 another user, 3 self), that user
       has no live entry *)
    let tf i = tfacts.[i] = '1' in
    let cat = match tfacts.[0] with '0' -> CatMe | '1' -> CatFnd | '2' -> CatP2P | '4' -> CatSys | _ -> CatGrp in
    let tk = tfacts.[5] in
    let f i = facts.[i] = '1' in
    let uid = if f 1 then n_of_int 5 else N0 in
    let g i = gbits.[i] = '1' and s i = sbits.[i] = '1' in
    let m = { m_kind = kind_of kind; m_id = str id; m_topic = str topic;
              m_topic_uid = (match tuid with "1" -> n_of_int 5 | "2" -> n_of_int 6 | _ -> N0);
              m_what = str what; m_get_desc = g 0; m_get_sub = g 1; m_get_data = g 2; m_get_rest = g 3;
              m_set_desc = s 0; m_set_private = s 1; m_set_sub = s 2; m_set_mode = s 3; m_set_tags = s 4; m_set_cred = s 5;
              m_set_joiner = false; m_set_user = (if tk = '0' then [] else [n_of_int 117]);
              m_set_user_uid = (match tk with '2' -> n_of_int 6 | '3' -> n_of_int 5 | _ -> N0);
              m_seq = z_of_string seq; m_event = str event; m_payload = b payload; m_unsub = b unsub; m_user = str user;
              m_scheme = str scheme; m_tmpscheme = str tmpscheme; m_hi_ver = n_of_string hiver; m_hi_ver_empty = b hiverempty;
              m_obo = str obo; m_obo_uid = (if obouid = "0" then N0 else n_of_int 6); m_attachments = b att } in
    let c = { media_configured = b media; calls_configured = true; validators = true; push_configured = false;
              auth_schemes = List.map str (String.split_on_char ',' schemes) } in
    let name = match expand uid m with ExpOk n -> n | ExpErr _ -> [] in
    let res = ref [] in
    List.iter (fun (rej, serr) ->
      let st = { s_terminating = false; s_ver = (if f 0 then n_of_int 22 else N0); s_uid = uid; s_root = f 2;
                 s_subs = (if f 3 then [name] else []); w_partitioned = false;
                 w_loaded = (if f 4 then [{ t_name = name; t_inactive = false; t_owner = N0; t_p2p = false; t_subcount = n_of_int 2; t_members = [uid]; t_cat = cat;
                                           t_peruser = (if tf 1 then [(uid, { pu_deleted = tf 2; pu_want_joiner = tf 3; pu_sharer = tf 4 })] else [])
                                                       @ (if tk = '2' && not (tf 6) then [(n_of_int 6, { pu_deleted = false; pu_want_joiner = true; pu_sharer = false })] else []) }] else []);
                 w_rows = (if f 5 then [(row_name m name, uid)] else []);
                 o_code = n_of_int 999; o_reject = rej; o_store_err = serr; o_queue_full = false; o_fresh = n_of_int 9 } in
      let o = cls (handle (if rp = "1" then all_repairs else no_repairs) c st (Decoded m)) in
      if not (List.mem o !res) then res := o :: !res) [(false, false); (true, false); (false, true); (true, true)];
    String.concat "|" (List.sort compare !res)
  | _ -> "?"
