(* C01 concurrent-joins model runner (coq/Sys/HubJoinC01.v): scenario lines of harness/overlay/server/zz_verif_c01j_test.go.
   join2 a b = the hub takes a's {sub}, then b's, then the load started (if any) completes; sub a = the hub takes a's {sub}
   and the load it started (if any) completes; pub a = the instance a is attached to handles the {pub}. *)
open Conv
open HubJoinC01

let st : jstate ref = ref (jinit (z_of_string "0") [])
let opi = ref 0
let nsaves = ref 0

let reply_str (r : jreply) : string =
  match r with
  | JCtrl (sid, code) -> "S" ^ string_of_n sid ^ " ctrl " ^ string_of_z code
  | JAck (sid, seq) -> "S" ^ string_of_n sid ^ " ctrl 202 seq=" ^ string_of_z seq

let rec drop n l = if n <= 0 then l else match l with [] -> [] | _ :: r -> drop (n - 1) r

let run_events (evs : jstate -> jev list) : string =
  incr opi;
  (* the events are chosen from the state: the load that a join started completes after the joins of the request *)
  let x0 = !st in
  let pending_before = (match x0.j_reg with None -> true | Some _ -> false) in
  let base = evs x0 in
  let evs' = if pending_before && List.exists (fun e -> match e with JJoin _ -> true | _ -> false) base
             then base @ [JInit (nat_of_int (List.length x0.j_insts))] else base in
  let (x1, outs) = jrun true x0 evs' in
  st := x1;
  let saves = drop !nsaves x1.j_saves in
  nsaves := List.length x1.j_saves;
  let lines = List.concat_map (fun o -> List.map reply_str o) outs in
  String.concat "\n" (("op " ^ string_of_int !opi) :: lines
    @ (if saves = [] then [] else
       ["S0 saves " ^ String.concat " " (List.map (fun (n, ok) -> string_of_z n ^ ":" ^ (if ok then "1" else "0")) saves)]))

let handle (w : string list) : string =
  match w with
  | "scn" :: id :: _ -> st := jinit (z_of_string "0") []; opi := 0; nsaves := 0; "scn " ^ id
  | "op" :: _ :: "join2" :: [a; b] -> run_events (fun _ -> [JJoin (n_of_string a); JJoin (n_of_string b)])
  | "op" :: _ :: "sub" :: a :: _ -> run_events (fun _ -> [JJoin (n_of_string a)])
  | "op" :: _ :: "pub" :: a :: _ -> run_events (fun _ -> [JPub (n_of_string a)])
  | ["end"] -> "end"
  | _ -> ""
