(* C04 (layer 1, range algebra) model runner: one request per line, one answer per line.
   A range is written low:hi, a list is comma-separated, "-" = empty list.
     N r,r,...        -> N <sorted> | <normalize (sort rs)>       (repaired Normalize)
     U r,r,...        -> N <sorted> | <normalize_unrepaired ..>   (Normalize of /repo as it is; diagnostic)
     F r,r,...        -> N <sorted> | <normalize_fun (sort rs)>   (recursive form; self-check of the model)
     D lastID r,r,... -> D err | D <ranges handed to DeleteList>
     E lastID r,r,... -> same with the unrepaired Normalize (printed with prefix D)
     G r,r;r;...      -> G <report_deleted of the logs after store/load of every row> *)
open Conv
let parse_range (s : string) : Ranges.range =
  match String.split_on_char ':' s with
  | [l; h] -> { Ranges.low = z_of_string l; Ranges.hi = z_of_string h }
  | _ -> failwith ("bad range " ^ s)
let parse_list (s : string) : Ranges.range list =
  if s = "-" then [] else List.map parse_range (String.split_on_char ',' s)
let show_range (r : Ranges.range) = string_of_z r.Ranges.low ^ ":" ^ string_of_z r.Ranges.hi
let show_list (l : Ranges.range list) = if l = [] then "-" else String.concat "," (List.map show_range l)
let pairs (l : Ranges.range list) = List.map (fun r -> (r.Ranges.low, r.Ranges.hi)) l
let norm_answer f l = let s = Ranges.sort l in "N " ^ show_list s ^ " | " ^ show_list (f s)
let del_answer f last l =
  match f (z_of_string last) (pairs (parse_list l)) with
  | None -> "D err"
  | Some out -> "D " ^ show_list out
let handle (w : string list) : string =
  match w with
  | ["N"; l] -> norm_answer Ranges.normalize (parse_list l)
  | ["U"; l] -> norm_answer Ranges.normalize_unrepaired (parse_list l)
  | ["F"; l] -> norm_answer Ranges.normalize_fun (parse_list l)
  | ["D"; last; l] -> del_answer Ranges.del_ranges last l
  | ["E"; last; l] -> del_answer Ranges.del_ranges_unrepaired last l
  | ["G"; logs] ->
    let ls = List.map parse_list (String.split_on_char ';' logs) in
    let rt = List.map (List.map (fun r -> Ranges.dellog_load (Ranges.dellog_store r))) ls in
    "G " ^ show_list (Ranges.report_deleted rt)
  | _ -> "?"
