(* C17 model runner.
   G <replicas> <hashmod> <adds> <keys> T <table>  ->  G <signature hex> <Get results>
   The hash function of the model is the table printed by the implementation
   driver (every call the real ring made to its hash function); a key the model
   wants hashed that the implementation never hashed is an answer of its own. *)
open Conv
exception Nohash of string
let split c s = if s = "" then [] else String.split_on_char c s
let lst s = if s = "." then [] else List.map bytes_of_hex (split ',' s)
let handle (w : string list) : string =
  match w with
  | ["G"; reps; _; adds; keys; "T"; table] ->
    let tbl = Hashtbl.create 1024 in
    if table <> "." then
      List.iter (fun kv -> match String.split_on_char ':' kv with
          | [k; v] -> Hashtbl.replace tbl k (n_of_string v)
          | _ -> failwith "bad table") (split ',' table);
    let hash (k : BinNums.coq_N list) =
      let h = hex_of_bytes k in
      match Hashtbl.find_opt tbl h with Some v -> v | None -> raise (Nohash h) in
    let adds = if adds = "_" then [] else List.map lst (split ';' adds) in
    (try
       let (sg, gets) = Ring.ring_run hash (z_of_string reps) adds (lst keys) in
       "G " ^ hex_of_bytes sg ^ " " ^
       (if gets = [] then "." else String.concat "," (List.map hex_of_bytes gets))
     with Nohash h -> "NOHASH " ^ h)
  | _ -> "?"
