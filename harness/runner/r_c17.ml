(* C17 model runner.
   G <replicas> <hashmod> <adds> <keys> T <table>  ->  G <signature hex> <Get results>
   The hash function of the model is the table printed by the implementation
   driver (every call the real ring made to its hash function); a key the model
   wants hashed that the implementation never hashed is an answer of its own. *)
open Conv
exception Nohash of string
let split c s = if s = "" then [] else String.split_on_char c s
let lst s = if s = "." then [] else List.map bytes_of_hex (split ',' s)
(* ---- election scripts: <n> <failLimit> <event>...; same line format as the package-main driver ---- *)
let digits s = if s = "-" then [] else List.init (String.length s) (fun i -> nat_of_int (Char.code s.[i] - 48))
let observe cfg n st =
  let open Election in
  let classes = ref [] in
  let parts = List.init n (fun i ->
      let l = st.loc (nat_of_int i) in
      let sg = List.map int_of_nat (sig_of l.ring_nodes) in
      let cls = (match List.assoc_opt sg !classes with
          | Some c -> c
          | None -> let c = List.length !classes in classes := !classes @ [(sg, c)]; c) in
      let act = List.sort compare (List.map int_of_nat l.active_nodes) in
      Printf.sprintf "%d,%s,s%d,%s,%s" (int_of_nat l.term)
        (match l.leader with Some x -> string_of_int (int_of_nat x) | None -> "-")
        cls (if is_partitioned cfg st (nat_of_int i) then "1" else "0")
        (String.concat "" (List.map string_of_int act))) in
  String.concat ";" parts
let election n limit evs =
  let open Election in
  let cfg = { cfg_nodes = List.init n nat_of_int; cfg_vote_timeout = nat_of_int 1; cfg_fail_limit = nat_of_int limit } in
  let st = ref (init cfg) in
  let out = ref [] in
  let stop = ref false in
  ignore stop;
  List.iter (fun ev ->
      if not !stop then begin
        let arg = String.sub ev 1 (String.length ev - 1) in
        let three () = match String.split_on_char ',' arg with
          | [c; t; m] -> (nat_of_int (int_of_string c), nat_of_int (int_of_string t), nat_of_int (int_of_string m))
          | _ -> failwith "bad event" in
        if ev.[0] = 'R' then begin
          (* R<i>:<kind>:<session>:<obo>:<shape>  a client request dispatched on node i (ElectionC17b) *)
          let open ElectionC17b in
          (match String.split_on_char ':' arg with
           | [i; kind; sess; obo; _] ->
             let k = (match kind with
                 | "pub" -> Some KPubD | "sub" -> Some KSubD | "leave" -> Some KLeaveD | "hi" -> Some KHiD
                 | "login" -> Some KLoginD | "get" -> Some KGetD | "set" -> Some KSetD | "del" -> Some KDelD
                 | "acc" -> Some KAccD | "note" -> Some KNoteD | "none" -> None | _ -> failwith "bad kind") in
             let o = (match obo with "-" -> OboNoneD | "v" -> OboValidD | "x" -> OboInvalidD | _ -> failwith "bad obo") in
             let root = String.length sess > 0 && sess.[0] = 'r' in
             let res = client_request_c17b cfg !st (nat_of_int (int_of_string i)) root { rq_kind = k; rq_obo = o } in
             out := (observe cfg n !st ^ (match res with
                 | RepliedD code -> Printf.sprintf "#R:0,%d" (int_of_nat code)
                 | HandlerD _ -> "#R:1,*")) :: !out
           | _ -> failwith "bad request event")
        end else
        let e = match ev.[0] with
          | 'T' -> (match String.split_on_char ':' arg with
              | [i; d; ok] -> Tick (nat_of_int (int_of_string i), digits d, digits ok)
              | _ -> failwith "bad tick")
          | 'Q' -> let (c, t, m) = three () in DeliverReq (c, t, m)
          | 'P' -> let (c, t, m) = three () in DeliverRep (c, t, m)
          | 'X' -> let (c, t, m) = three () in LoseRpc (c, t, m)
          | 'E' -> let (c, t, m) = three () in FailRpc (c, t, m)
          | 'H' -> DeliverHealth (nat_of_int (int_of_string arg))
          | 'D' -> DropHealth (nat_of_int (int_of_string arg))
          | _ -> failwith "bad event" in
        (* the model follows the repaired code (nil check in gcProxySessionsForNode): the
           health-check handler always completes; Election.step never panics *)
        (* suffix of the observation: what the event delivered, as seen before/after the step *)
        let before = !st in
        let suffix = (match e with
          | DeliverHealth idx ->
            (match List.nth_opt before.hnet (int_of_nat idx) with
             | Some h when (before.loc h.h_to).electing = None ->
               let l = before.loc h.h_to in
               let sigeq = list_eqb h.h_sig (sig_of l.ring_nodes) in
               let after = step cfg before e in
               let l' = after.loc h.h_to in
               let adopted = list_eqb (sig_of h.h_nodes) (sig_of l'.ring_nodes) in
               Printf.sprintf "#H:%d,%d,%d,%s,%s,%s" (int_of_nat h.h_to) (int_of_nat h.h_leader) (int_of_nat h.h_term)
                 (if sigeq then "1" else "0")
                 (String.concat "" (List.map string_of_int (List.sort compare (List.map int_of_nat h.h_nodes))))
                 (if adopted then "1" else "0")
             | _ -> "#H:-")
          | DeliverReq (c, t, m) ->
            (match before.rpcs c t m with
             | ReqFlying ->
               let after = step cfg before e in
               (match ElectionC17b.vote_answer_c17b after c t m with
                | Some (g, rt) -> Printf.sprintf "#Q:%s,%d" (if g then "1" else "0") (int_of_nat rt)
                | None -> "#Q:-")
             | _ -> "#Q:-")
          | _ -> "") in
        st := step cfg !st e; out := (observe cfg n !st ^ suffix) :: !out
      end) evs;
  String.concat "|" (List.rev !out)

let handle (w : string list) : string =
  match w with
  | ["G"; reps; _; adds; keys; "T"; table] ->
    let tbl = Hashtbl.create 1024 in
    if table <> "." then
      List.iter (fun kv -> match String.split_on_char ':' kv with
          | [k; v] -> Hashtbl.replace tbl k (n_of_string v)
          | _ -> failwith "bad table") (split ',' table);
    let hash (k : BinNums.coq_N list) =
      let h = hex_of_bytes k in
      match Hashtbl.find_opt tbl h with Some v -> v | None -> raise (Nohash h) in
    let adds = if adds = "_" then [] else List.map lst (split ';' adds) in
    (try
       let (sg, gets) = Ring.ring_run hash (z_of_string reps) adds (lst keys) in
       "G " ^ hex_of_bytes sg ^ " " ^
       (if gets = [] then "." else String.concat "," (List.map hex_of_bytes gets))
     with Nohash h -> "NOHASH " ^ h)
  | n :: limit :: evs when n <> "" && n.[0] >= '0' && n.[0] <= '9' -> election (int_of_string n) (int_of_string limit) evs
  | _ -> "?"
