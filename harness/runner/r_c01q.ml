(* C01 query model runner on fan-out topics (coq/Sys/FanoutQueryC01.v over Sys/Fanout.v).  Same scenario lines and
   the same canonical blocks as the C02 runner (R_c02: its state, head-line handling and printing are reused as
   they are), plus the stored message rows and the two queries of harness/overlay/server/zz_verif_c01q_test.go:
     qdesc <s> <as> <spelling> <ims> / qdata <s> <as> <spelling> <since> <before> <limit>. *)
open BinNums
open Conv
open Fanout
open FanoutQueryC01

let msgs : Topic.msgrow list ref = ref []

let ims_of (w : string) : TopicImsC01.ims =
  match w with
  | "a" -> TopicImsC01.ImsAbsent
  | "z" | "o" | "j" -> TopicImsC01.ImsBefore
  | _ -> TopicImsC01.ImsNotBefore

let handle (w : string list) : string =
  let ni = n_of_int in
  let i = int_of_string in
  let peer u = if u = 1 then 2 else 1 in
  let name_of sp au = match sp with "g" -> TGrp | "c" -> TChn | "u" -> TUsr (ni (peer au)) | _ -> TP2P in
  match w with
  | "scn" :: _ -> msgs := []; R_c02.handle w
  | "op" :: kind :: args when kind = "qdesc" || kind = "qdata" ->
    incr R_c02.opi;
    let hdr = "op " ^ string_of_int !R_c02.opi in
    let s = i (List.hd args) in
    if not (List.mem_assoc s !R_c02.sess_user) then String.concat "\n" (hdr :: "skipped" :: R_c02.state_lines !R_c02.st) else
    let real = List.assoc s !R_c02.sess_user in
    let acting a = if i a = 0 then real else i a in
    let x = { q_st = !R_c02.st; q_msgs = !msgs } in
    let o = match kind, args with
      | "qdesc", [_; a; sp; im] -> QGetDesc (ni s, ni (acting a), name_of sp (acting a), ims_of im)
      | "qdata", [_; a; sp; since; before; limit] ->
        QGetData (ni s, ni (acting a), name_of sp (acting a), z_of_string since, z_of_string before, z_of_string limit)
      | _ -> failwith ("bad op " ^ kind) in
    let ((ox, _), out) = qstep x o in
    let lines = List.map (fun (k, fr) ->
      "S" ^ string_of_n k ^ " " ^
      (match fr with
       | QData (t, f, q, c) -> Printf.sprintf "data seq=%s from=%d topic=%s content=%s head=-" (string_of_z q) (int_of_n f) (R_c02.tname_s t) (string_of_n c)
       | QDesc (full, _, q) -> Printf.sprintf "desc seq=%s full=%s" (string_of_z q) (R_c02.b2s full)
       | QCtrl code -> Printf.sprintf "ctrl %s mine=1" (string_of_z code))) out in
    let oos = match ox with Some _ -> [] | None -> [ "oos" ] in
    String.concat "\n" ((hdr :: lines) @ oos @ R_c02.state_lines !R_c02.st)
  | "op" :: "pub" :: [ss; a; sp; ne; hasid; content; hd] ->
    (* the rows an accepted publish stores: the wrapper's step on the state the C02 runner is about to step *)
    let s = i ss in
    if List.mem_assoc s !R_c02.sess_user then begin
      let real = List.assoc s !R_c02.sess_user in
      let au = if i a = 0 then real else i a in
      let px = { px_sid = ni s; px_real = ni real; px_author = ni au; px_orig = name_of sp au; px_noecho = (ne = "1");
                 px_hasid = (hasid = "1"); px_content = n_of_string content; px_head = R_c02.head_of hd } in
      let ((ox, _), _) = qstep { q_st = !R_c02.st; q_msgs = !msgs } (QBase (OPub px)) in
      (match ox with Some x1 -> msgs := x1.q_msgs | None -> ())
    end;
    R_c02.handle w
  | _ -> R_c02.handle w
