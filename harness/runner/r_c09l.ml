(* C09 load-marks model runner (coq/Sys/LoadMarksC09.v): same scenario lines and the same canonical
   block format as harness/overlay/server/zz_verif_c09l_test.go.  Frame and store rendering are those
   of the topic-history runner (R_topic.frame_str, R_topic.store_str via R_c01x.store_str). *)
open Conv
open Topic
open TopicLoad
open LoadMarksC09

let c09l_st : kstate ref = ref { y_st = R_c01x.empty_store; y_ca = None; y_n = Datatypes.O }
let c09l_sm : (BinNums.coq_N * BinNums.coq_N) list ref = ref []
let c09l_roots : BinNums.coq_N list ref = ref []
let c09l_kind : lkind ref = ref LP2P
let c09l_started = ref false
let c09l_opi = ref 0

let c09l_start () =
  if not !c09l_started then begin
    c09l_started := true;
    c09l_st := { !c09l_st with y_ca = kboot !c09l_kind !c09l_st.y_st }
  end

let c09l_what (w : string) : BinNums.coq_N =
  n_of_int (match w with "read" -> 1 | "recv" -> 2 | "kp" -> 3 | _ -> 9)

let handle (w : string list) : string =
  let kv = R_c01x.kv in
  match w with
  | "scn" :: id :: rest ->
    let a = List.map kv rest in
    c09l_opi := 0; c09l_sm := []; c09l_roots := []; c09l_started := false;
    c09l_kind := (if List.assoc "kind" a = "sys" then LSys else LP2P);
    let ex = !c09l_kind = LSys || List.assoc "exists" a = "1" in
    let e = R_c01x.empty_store in
    let s0 = if ex then { e with t_exists = true; t_seqid = z_of_string (List.assoc "seqid" a); t_delid = z_of_string (List.assoc "delid" a) }
             else e in
    c09l_st := { y_st = s0; y_ca = None; y_n = Datatypes.O };
    "scn " ^ id
  | "user" :: i :: rest ->
    let a = List.map kv rest in
    let s = !c09l_st.y_st in
    c09l_st := { !c09l_st with y_st = { s with users = s.users @ [(n_of_string i, n_of_string (List.assoc "acc" a))] } };
    if List.assoc "root" a = "1" then c09l_roots := !c09l_roots @ [n_of_string i];
    ""
  | "subrow" :: i :: rest ->
    let a = List.map kv rest in
    let s = !c09l_st.y_st in
    if s.t_exists then begin
      let u = n_of_string i in
      let z k = z_of_string (List.assoc k a) in
      let s1 = ad_sub_create s u (n_of_string (List.assoc "want" a)) (n_of_string (List.assoc "given" a)) in
      let s1 = ad_subs_update s1 u { u_want = None; u_given = None; u_read = Some (z "read"); u_recv = Some (z "recv"); u_delid = Some (z "del") } in
      let s2 = if List.assoc "deleted" a = "1" then (match ad_subs_delete s1 u with Some x -> x | None -> s1) else s1 in
      c09l_st := { !c09l_st with y_st = { s2 with t_owner = N0 } }
    end;
    ""
  | "msg" :: seq :: rest ->
    let a = List.map kv rest in
    let s = !c09l_st.y_st in
    if s.t_exists then
      c09l_st := { !c09l_st with y_st = { s with msgs = s.msgs @ [{ m_seq = z_of_string seq; m_from = n_of_string (List.assoc "from" a);
                                                                   m_content = n_of_string (List.assoc "content" a); m_delid = Z0 }] } };
    ""
  | ["sess"; sid; u] -> c09l_start (); c09l_sm := !c09l_sm @ [(n_of_string sid, n_of_string u)]; ""
  | "op" :: flt :: kind_s :: args ->
    c09l_start ();
    incr c09l_opi;
    let n = n_of_string in
    let o = match kind_s, args with
      | "sub", [sid] -> KSub (n sid, false)
      | "subp", [sid] -> KSub (n sid, true)
      | "leave", [sid; unsub] -> KLeave (n sid, unsub = "1")
      | "pub", [sid; content; noecho] -> KPub (n sid, n content, noecho = "1")
      | "note", [sid; what; seq] -> KNote (n sid, c09l_what what, z_of_string seq)
      | "getdesc", [sid] -> KGetDesc (n sid)
      | "getsub", [sid] -> KGetSub (n sid)
      | "unload", [] -> KUnload
      | "restart", [] -> KRestart
      | _ -> failwith ("bad op " ^ kind_s) in
    let (x1, outs) = kstep_f !c09l_kind !c09l_sm !c09l_roots (n_of_int 1) (n_of_int 2) !c09l_st (R_c01x.parse_fault flt, o) in
    c09l_st := x1;
    let lines = List.map (fun (sid, fr) -> "S" ^ string_of_n sid ^ " " ^ R_topic.frame_str fr) outs in
    let ms = R_c01x.mode_str in
    String.concat "\n" (("op " ^ string_of_int !c09l_opi) :: lines
      @ ["calls " ^ string_of_int (int_of_nat x1.y_n);
         "loaded " ^ (match x1.y_ca with Some _ -> "1" | None -> "0")]
      @ List.map (fun l -> "store " ^ l) (R_c01x.store_str x1.y_st)
      @ (match x1.y_ca with
         | None -> []
         | Some c ->
           ("cache lastid=" ^ string_of_z c.k_lastid ^ " delid=" ^ string_of_z c.k_delid)
           :: List.sort compare (List.map (fun (u, p) ->
                Printf.sprintf "cache user %d %s/%s read=%s recv=%s del=%s online=0" (int_of_n u) (ms p.kp_want) (ms p.kp_given)
                  (string_of_z p.kp_read) (string_of_z p.kp_recv) (string_of_z p.kp_delid)) c.k_users)
           @ List.sort compare (List.map (fun (sid, u) ->
                Printf.sprintf "cache sess %s user=%d" (string_of_n sid) (int_of_n u)) c.k_sess)
           @ List.sort compare (List.filter_map (fun (u, p) ->
                if p.kp_deleted then Some (Printf.sprintf "cache pdel %d" (int_of_n u)) else None) c.k_users)))
  | ["end"] -> "end"
  | [] -> ""
  | _ -> "?"
