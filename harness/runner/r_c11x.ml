(* C11 part x (sender header) model runner: one {pub} per line
     P <ver> <uid> <lvl> <x=..> <name_ok> <attached> <sys> <gates> <head>
   head: "-" = nil map, "e" = empty map, else k:v,k:v (key 0 = "sender")
   answer: R:<reply>+<reply> | name | attach | topic | S:<from>:<sender|->:<other k:v sorted>   *)
open Conv
open SessionAuth
open SenderC11x

let n = n_of_string
let sn = string_of_n
let b s = s = "1"

let head_of (s : string) : head =
  if s = "-" then None
  else if s = "e" then Some []
  else Some (List.map (fun kv -> match String.split_on_char ':' kv with
      | [k; v] -> (n k, n v) | _ -> failwith "head") (String.split_on_char ',' s))

let show_head (h : head) : string =
  let l = match h with None -> [] | Some l -> l in
  let snd = match hget N0 l with None -> "-" | Some v -> sn v in
  let others = List.filter (fun (k, _) -> sn k <> "0") l in
  let others = List.sort compare (List.map (fun (k, v) -> sn k ^ "=" ^ sn v) others) in
  snd ^ ":" ^ String.concat "," others

let handle (w : string list) : string =
  match w with
  | ["P"; v; u; l; x; nm; att; sys; gates; hd] ->
    let st = { ver = n v; uid = n u; lvl = n l } in
    let q = { q_name_ok = b nm; q_attached = b att; q_sys = b sys; q_gates = b gates; q_head = head_of hd } in
    (match pub_c11x spec_table st (R_c11.extra_of x) q with
     | Coq_inl rs -> "R:" ^ String.concat "+" (List.map R_c11.string_of_reply rs)
     | Coq_inr OName -> "name"
     | Coq_inr OAttachFirst -> "attach"
     | Coq_inr OTopic -> "topic"
     | Coq_inr (OStored (f, h)) -> "S:" ^ sn f ^ ":" ^ show_head h)
  | _ -> "?"
