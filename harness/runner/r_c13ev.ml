(* C13 model runner for the session-store driver TestVerifC13Evict (tools/props/c13evict.py), model coq/Sys/EvictStoreC13.v.

   "E <keep> <op> <op> ..."  one scenario of zz_verif_c13ev_test.go.  Population: users u1 u2 u3 u4 ur (uids 1..5, all ok),
   the bystander session `by` (websocket of u4).  Operations:
     new:NAME:ws|lp   login:NAME:USER   (a {login} the implementation accepted)
     acc:NAME:TARGET:STATE   ({acc user=TARGET status=STATE}; TARGET a user name or `-` = own account; STATE ok susp del undef bad)
     deluser:NAME:TARGET     poll:NAME   stall:NAME   resume:NAME   disc:NAME   nop (any other request)
   One operation = its labels of EvictStoreC13.step, then, as the driver does, every websocket that is being read and
   has a notice queued takes it and is cleaned up (LTake; LPurge; LCleanStop).
   Answer: per operation the driver's state lines joined by ';', operations joined by '|'; "BLOCKS:<site>:<session>"
   ends the scenario when a label blocks. *)
open Conv
open EvictStoreC13

type rs = { name : string; sid : int; lp : bool; mutable stalled : bool; mutable cleaned : bool }

let users = ["u1"; "u2"; "u3"; "u4"; "ur"]
let uid_of u = match u with "u1" -> 1 | "u2" -> 2 | "u3" -> 3 | "u4" -> 4 | "ur" -> 5 | _ -> 0
let uname i = match i with 1 -> "u1" | 2 -> "u2" | 3 -> "u3" | 4 -> "u4" | 5 -> "ur" | 0 -> "-" | _ -> "?"
let nn = n_of_int
let ni = int_of_n
let b01 x = if x then "1" else "0"

exception Blocked of string

let handle (w : string list) : string =
  match w with
  | "E" :: keep :: ops ->
    let keep = keep = "1" in
    let st = ref (init_store (List.map (fun u -> (nn (uid_of u), StateOK)) users)) in
    let sess : rs list ref = ref [] in
    let fresh = ref 0 in
    let find name = List.find_opt (fun r -> r.name = name) !sess in
    let name_of sid = match List.find_opt (fun r -> r.sid = sid) !sess with Some r -> r.name | None -> "?" in
    let do_label (l : label) =
      match step keep l !st with
      | Ok s1 -> st := s1
      | Blocks (site, sid) ->
        raise (Blocked (Printf.sprintf "BLOCKS:%s:%s" (match site with BEvict -> "EvictUser" | BStopSelf -> "stopSelf" | BCleanUp -> "cleanUp") (name_of (ni sid))))
      | Fatal sid -> raise (Blocked ("FATAL:" ^ name_of (ni sid))) in
    let msess r = find_sess (nn r.sid) (!st).sessions in
    let cleanup r = do_label (LPurge (nn r.sid)); do_label (LCleanStop (nn r.sid)); r.cleaned <- true in
    let settle () =
      List.iter (fun r ->
        if not r.lp && not r.stalled && not r.cleaned then
          match msess r with
          | Some s when s.s_stopfull -> do_label (LTake (nn r.sid)); cleanup r
          | _ -> ()) (List.rev !sess) in
    let add name lp =
      incr fresh;
      let r = { name; sid = !fresh; lp; stalled = false; cleaned = false } in
      sess := r :: !sess;
      do_label (LNew (nn r.sid, (if lp then LPOLL else WEBSOCK), [])) in
    let state () =
      let sl = List.map (fun r ->
        match msess r with
        | Some s -> Printf.sprintf "S %s cached=%s lru=%s stop=%s uid=%s root=%s" r.name (b01 s.s_cached) (b01 s.s_lru) (b01 s.s_stopfull) (uname (ni s.s_uid)) (b01 s.s_root)
        | None -> "S " ^ r.name ^ " ?") (List.rev !sess) in
      let ul = List.map (fun u ->
        "U " ^ u ^ " " ^ (match get_user (nn (uid_of u)) (!st).users with
          | None -> "none" | Some StateOK -> "ok" | Some StateSuspended -> "susp" | Some StateDeleted -> "del" | Some StateUndefined -> "undef")) users in
      String.concat ";" (sl @ ul) in
    add "by" false;
    do_label (LLogin (nn 1, nn 4, false));
    let out = ref [] in
    (try
      List.iter (fun op ->
        (match String.split_on_char ':' op with
         | ["new"; name; kind] -> add name (kind = "lp")
         | ["login"; name; user] ->
           (match find name with Some r -> do_label (LLogin (nn r.sid, nn (uid_of user), user = "ur")) | None -> ())
         | ["acc"; name; target; state] ->
           (match find name with
            | Some r ->
              let a = match state with "ok" -> AState StateOK | "susp" -> AState StateSuspended | "del" -> AState StateDeleted
                                       | "undef" -> AState StateUndefined | _ -> ABad in
              do_label (LAccState (nn r.sid, nn (uid_of target), a, true))
            | None -> ())
         | ["deluser"; name; target] ->
           (match find name with
            | Some r ->
              let reading = not r.lp && not r.stalled in
              let own = match msess r with Some s -> ni s.s_uid | None -> 0 in
              let t = uid_of target in
              do_label (LDelUser (nn r.sid, nn t, true, reading));
              (* the requester's own notice, taken at once by a connection that is being read: the write loop closes the socket *)
              if reading && own <> 0 && (t = 0 || t = own) then cleanup r
            | None -> ())
         | ["poll"; name] ->
           (match find name with
            | Some r ->
              do_label (LGet (nn r.sid));
              (match msess r with Some s when s.s_cached && s.s_stopfull -> do_label (LTake (nn r.sid)) | _ -> ())
            | None -> ())
         | ["stall"; name] -> (match find name with Some r -> r.stalled <- true | None -> ())
         | ["resume"; name] -> (match find name with Some r -> r.stalled <- false | None -> ())
         | ["disc"; name] ->
           (match find name with
            | Some r -> cleanup r; if not r.stalled then do_label (LTake (nn r.sid))
            | None -> ())
         | _ -> ());
        settle ();
        out := state () :: !out) ops
    with Blocked s -> out := s :: !out);
    String.concat "|" (List.rev !out)
  | _ -> "?"
