(* runner <property>: reads requests on stdin, prints the model's answers. *)
let () =
  let prop = if Array.length Sys.argv > 1 then Sys.argv.(1) else "" in
  let handle = match prop with
    | "c05" -> R_c05.handle
    | _ -> prerr_endline ("unknown property " ^ prop); exit 2 in
  (try
    while true do
      let line = input_line stdin in
      print_endline (try handle (Conv.words line) with e -> "EXC " ^ Printexc.to_string e)
    done
  with End_of_file -> ())
