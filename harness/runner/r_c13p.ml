(* C13 push-preview model runner (coq/Pure/PushPreviewC13.v).
   Request: "T <inner 0|1> <units>" with units = "-" | entries joined by "," : "v<code point>" (a well-formed
   UTF-8 sequence) | "b<byte>" (a byte outside any well-formed sequence), as printed by harness/ext/c13push.go.
   Answer: "ok:<units joined by ,>" ("ok:-" = empty) | "PANIC:slice:<bound>:<len>" *)
open Conv
open PushPreviewC13
let handle (w : string list) : string =
  match w with
  | ["T"; inner; units] ->
    let us = if units = "-" then [] else List.map (fun e ->
      let v = n_of_string (String.sub e 1 (String.length e - 1)) in
      if e.[0] = 'b' then UBadByte v else UValid v) (String.split_on_char ',' units) in
    (match trim_c13 (inner = "1") us with
     | POk l -> "ok:" ^ (if l = [] then "-" else String.concat "," (List.map (function UValid c -> "v" ^ string_of_n c | UBadByte b -> "b" ^ string_of_n b) l))
     | PPanicSlice (b, l) -> "PANIC:slice:" ^ string_of_int (int_of_nat b) ^ ":" ^ string_of_int (int_of_nat l))
  | _ -> "?"
