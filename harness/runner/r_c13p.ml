(* C13 push-preview model runner (coq/Pure/PushPreviewC13.v).
   Request: "T <inner 0|1> <units>" with units = "-" | entries joined by "," : "v<code point>" (a well-formed
   UTF-8 sequence) | "b" (a byte outside any well-formed sequence), as printed by harness/ext/c13push.go.
   Answer: "ok:<code points joined by ,>" ("ok:-" = empty) | "PANIC:slice:<bound>:<len>" *)
open Conv
open PushPreviewC13
let rec int_of_nat = function O -> 0 | S n -> 1 + int_of_nat n
let handle (w : string list) : string =
  match w with
  | ["T"; inner; units] ->
    let us = if units = "-" then [] else List.map (fun e ->
      if e = "b" then UBadByte else UValid (n_of_string (String.sub e 1 (String.length e - 1)))) (String.split_on_char ',' units) in
    (match trim_c13 (inner = "1") us with
     | POk l -> "ok:" ^ (if l = [] then "-" else String.concat "," (List.map string_of_n l))
     | PPanicSlice (b, l) -> "PANIC:slice:" ^ string_of_int (int_of_nat b) ^ ":" ^ string_of_int (int_of_nat l))
  | _ -> "?"
