//go:build verif

// C14 life-cycle driver: BURSTS of concurrent requests against the REAL hub, topic
// goroutines and sessions above memverif.  Every session has a reader goroutine (its
// requests stay sequential, like a websocket read loop: dispatchRaw, then cleanUp when the
// socket closes) and a writer goroutine (like writeLoop: drains send, applies detach,
// leaves on stop).  No quiescence wait inside a burst.  After a burst the driver waits for
// sound quiescence (vQuiescent of the topic driver + no request pending) and prints what it
// sees on the REAL objects: Session.subs, Topic.sessions, perUser online counters,
// terminating flags, the in-flight semaphore, all ctrl/pres frames per session, goroutine
// count.  The laws are evaluated by tools/props/c14.py on this output.
package main

import (
	"bufio"
	"encoding/json"
	"fmt"
	"os"
	"runtime"
	"sort"
	"strconv"
	"strings"
	"sync"
	"sync/atomic"
	"testing"
	"time"

	"github.com/tinode/chat/server/auth"
	"github.com/tinode/chat/server/store"
	"github.com/tinode/chat/server/store/types"
)

type lcReq struct {
	rid  string
	kind string
	k    int    // topic ref
	arg  string // unsub flag
	as   string // "" (the name the user normally uses) | "grp" | "chn": name form of a group/channel topic in the request
	obo   int    // 0 | user the request is made on behalf of (extra.obo; root sessions, round s14f)
	fault string // "" | name of a store adapter method (e.g. "TopicDelete"): the first call of that method made while this
	// request is handled fails (zz_verif_c14d_test.go)
}

type lcSess struct {
	s        *Session
	idx      int
	user     int
	mu       sync.Mutex
	lines    []string // rendered frames, in arrival order
	stall    chan chan struct{}
	closed   int32 // the "socket" is closed (writer left)
	closedCh chan struct{}
	reqCh    chan lcReq
	cleaned  int32 // cleanUp returned
	busy     int32 // reader is inside dispatchRaw / cleanUp
	notsent  []string
	sc       *lcScn
	curKind  atomic.Value // kind of the request the reader is inside
	wexit    int32        // the writer has returned
	dead     int32        // the reader is parked for ever inside the server (reported); the session is abandoned
}

type lcTopic struct {
	k      int
	kind   string // grp | chn | p2p | me
	name   string // hub name
	owner  int
	u1, u2 int
	member map[int]bool // grp/chn: users with a stored group subscription at set-up (the others address a chn topic as chnXXX)
}

type lcScn struct {
	id      string
	n       int
	uids    map[int]types.Uid
	uidIdx  map[types.Uid]int
	topics  map[int]*lcTopic
	sess    map[int]*lcSess
	out     *bufio.Writer
	burst   []string
	nburst  int
	pending int32
	base    int
	leaked  int // goroutines diagnosed as parked for ever during this scenario (reported as hangs)
}

var lcSeq int64

// ---- session plumbing ----

func (sc *lcScn) newSession(idx, user, capSend int) *lcSess {
	s := &Session{
		proto:        WEBSOCK,
		sid:          fmt.Sprintf("lc%d_%d_%d", idx, time.Now().UnixNano(), atomic.AddInt64(&lcSeq, 1)),
		uid:          sc.uids[user],
		authLvl:      auth.LevelAuth,
		ver:          (0 << 8) | 22,
		userAgent:    "",
		subs:         make(map[string]*Subscription),
		send:         make(chan any, capSend),
		stop:         make(chan any, 1),
		detach:       make(chan string, 64),
		inflightReqs: newBoundedWaitGroup(1),
		lastTouched:  time.Now(),
	}
	s.bkgTimer = time.NewTimer(time.Hour)
	s.bkgTimer.Stop()
	ls := &lcSess{s: s, idx: idx, user: user, stall: make(chan chan struct{}, 1), closedCh: make(chan struct{}),
		reqCh: make(chan lcReq, 4096), sc: sc}
	ss := globals.sessionStore
	ss.lock.Lock()
	ss.sessCache[s.sid] = s
	ss.lock.Unlock()
	go ls.writer()
	go ls.reader()
	return ls
}

// seenRef maps a topic name as this session's user sees it back to the scenario's topic ref.
func (ls *lcSess) seenRef(topic string) string {
	if topic == "" {
		return "-"
	}
	sc := ls.sc
	for _, k := range sc.topicIdx() {
		t := sc.topics[k]
		switch t.kind {
		case "me":
			if t.owner == ls.user && (topic == "me" || topic == t.name) {
				return strconv.Itoa(k)
			}
		case "p2p":
			if (ls.user == t.u1 || ls.user == t.u2) && (topic == sc.seen(t, ls.user) || topic == t.name) {
				return strconv.Itoa(k)
			}
		default:
			if topic == t.name || types.ChnToGrp(topic) == t.name {
				return strconv.Itoa(k)
			}
		}
	}
	return "?" + topic
}

func (ls *lcSess) record(m *ServerComMessage) {
	var l string
	switch {
	case m.Ctrl != nil:
		id := m.Ctrl.Id
		if id == "" {
			id = "-"
		}
		l = fmt.Sprintf("f %d %s %d %s %s", ls.idx, id, m.Ctrl.Code, strings.ReplaceAll(m.Ctrl.Text, " ", "_"), ls.seenRef(m.Ctrl.Topic))
		if p, ok := m.Ctrl.Params.(map[string]any); ok {
			if v, ok := p["unsub"]; ok {
				l += " unsub=" + vNum(v)
			}
		}
	case m.Pres != nil:
		l = fmt.Sprintf("p %d %s %s %s", ls.idx, ls.seenRef(m.Pres.Topic), m.Pres.What, ls.seenRef(m.Pres.Src))
	case m.Data != nil:
		l = fmt.Sprintf("d %d %s %d", ls.idx, ls.seenRef(m.Data.Topic), m.Data.SeqId)
	default:
		return
	}
	ls.mu.Lock()
	ls.lines = append(ls.lines, l)
	ls.mu.Unlock()
}

// writer mirrors Session.writeLoop (hdl_websock.go:84-145): send, detach, stop.
func (ls *lcSess) writer() {
	s := ls.s
	defer atomic.StoreInt32(&ls.wexit, 1)
	for {
		select {
		case resume := <-ls.stall:
			// the socket write blocks (slow client): nothing is processed until it resumes
			<-resume
		case m, ok := <-s.send:
			if !ok {
				close(ls.closedCh)
				return
			}
			switch v := m.(type) {
			case *ServerComMessage:
				ls.record(v)
			case []*ServerComMessage:
				for _, x := range v {
					ls.record(x)
				}
			}
		case topic := <-s.detach:
			s.delSub(topic)
		case m := <-s.stop:
			if b, ok := m.([]byte); ok && b != nil {
				var fr struct {
					Ctrl *struct {
						Code int    `json:"code"`
						Text string `json:"text"`
					} `json:"ctrl"`
				}
				if json.Unmarshal(b, &fr) == nil && fr.Ctrl != nil {
					ls.mu.Lock()
					ls.lines = append(ls.lines, fmt.Sprintf("f %d - %d %s - stop=1", ls.idx, fr.Ctrl.Code, strings.ReplaceAll(fr.Ctrl.Text, " ", "_")))
					ls.mu.Unlock()
				}
			}
			atomic.StoreInt32(&ls.closed, 1)
			close(ls.closedCh)
			return
		}
	}
}

// reader mirrors readLoop (hdl_websock.go:39-65): requests one after another, cleanUp when the socket is closed.
func (ls *lcSess) reader() {
	s := ls.s
	cleaned := false
	closedCh := ls.closedCh
	for {
		select {
		case r, ok := <-ls.reqCh:
			if !ok {
				return
			}
			if cleaned || atomic.LoadInt32(&ls.closed) != 0 {
				ls.mu.Lock()
				ls.notsent = append(ls.notsent, r.rid)
				ls.mu.Unlock()
			} else if r.kind == "disc" {
				atomic.StoreInt32(&ls.busy, 1)
				s.cleanUp(false)
				atomic.StoreInt32(&ls.busy, 0)
				atomic.StoreInt32(&ls.cleaned, 1)
				cleaned = true
			} else {
				ls.curKind.Store(r.kind)
				atomic.StoreInt32(&ls.busy, 1)
				if r.fault != "" {
					lcArmFaultC14d(ls, r)
				}
				s.dispatchRaw([]byte(ls.sc.reqJSON(ls, r)))
				atomic.StoreInt32(&ls.busy, 0)
			}
			atomic.AddInt32(&ls.sc.pending, -1)
		case <-closedCh:
			closedCh = nil
			if !cleaned {
				atomic.AddInt32(&ls.sc.pending, 1)
				atomic.StoreInt32(&ls.busy, 1)
				s.cleanUp(false)
				atomic.StoreInt32(&ls.busy, 0)
				atomic.StoreInt32(&ls.cleaned, 1)
				cleaned = true
				atomic.AddInt32(&ls.sc.pending, -1)
			}
		}
	}
}

// ---- names ----

func (sc *lcScn) seen(t *lcTopic, user int) string {
	switch t.kind {
	case "me":
		return "me"
	case "p2p":
		if user == t.u1 {
			return sc.uids[t.u2].UserId()
		}
		return sc.uids[t.u1].UserId()
	case "chn":
		if user != t.owner && !t.member[user] {
			return types.GrpToChn(t.name)
		}
	}
	return t.name
}

func (sc *lcScn) reqJSON(ls *lcSess, r lcReq) string {
	tn := ""
	if t := sc.topics[r.k]; t != nil {
		tn = sc.seen(t, ls.user)
		if t.kind == "grp" || t.kind == "chn" {
			// explicit name form: the same topic addressed by its group name or by its channel name
			switch r.as {
			case "grp":
				tn = t.name
			case "chn":
				tn = types.GrpToChn(t.name)
			}
		}
	}
	extra := lcOboExtraC14f(sc, r)
	switch r.kind {
	case "sub":
		return `{"sub":{"id":"` + r.rid + `","topic":"` + tn + `"}` + extra + `}`
	case "leave":
		u := ""
		if r.arg == "1" {
			u = `,"unsub":true`
		}
		return `{"leave":{"id":"` + r.rid + `","topic":"` + tn + `"` + u + `}` + extra + `}`
	case "pub":
		return `{"pub":{"id":"` + r.rid + `","topic":"` + tn + `","content":"x"}}`
	case "deltopic":
		return `{"del":{"id":"` + r.rid + `","topic":"` + tn + `","what":"topic","hard":true}}`
	case "deluser":
		return `{"del":{"id":"` + r.rid + `","what":"user","hard":true}}`
	}
	return `{}`
}

// ---- quiescence with hang diagnosis ----

func (sc *lcScn) names() []string {
	var ns []string
	for _, t := range sc.topics {
		ns = append(ns, t.name)
	}
	return ns
}

// goroutines which were diagnosed as parked for ever (a send on a nil channel, a receive from a
// channel nobody will ever send to) and REPORTED as hangs; they are left out of later quiescence tests.
var lcIgnore = map[string]bool{}

type lcG struct {
	id, state, text string
}

func lcGoroutines() []lcG {
	buf := make([]byte, 4<<20)
	n := runtime.Stack(buf, true)
	var res []lcG
	for i, g := range strings.Split(string(buf[:n]), "\n\n") {
		if i == 0 {
			continue // the caller
		}
		m := vGoroutineHdr.FindStringSubmatch(g)
		if m == nil {
			continue
		}
		st := m[2]
		if j := strings.Index(st, ","); j >= 0 {
			st = st[:j]
		}
		res = append(res, lcG{id: m[1], state: st, text: g})
	}
	return res
}

// lcSnapshot classifies the process: "busy" (some goroutine other than the caller can run: wait), "quiet"
// (every goroutine is parked in a state from which only new input wakes it, hub/topic queues empty: sound
// quiescence, as vQuiescent of the topic driver, with the ignore list) or "blocked" (every goroutine is parked
// and at least one of them is parked in a send / lock / semaphore: nobody is left to wake it).
func lcSnapshot(topics []string) (string, string) {
	blocked := ""
	for _, g := range lcGoroutines() {
		if lcIgnore[g.id] {
			continue
		}
		switch g.state {
		case "select", "chan receive", "sleep", "IO wait", "sync.Cond.Wait", "select (no cases)",
			"chan receive (nil chan)", "finalizer wait", "GC worker (idle)", "GC sweep wait", "GC scavenge wait",
			"force gc (idle)", "debug call", "timer goroutine (idle)":
		case "chan send", "chan send (nil chan)", "semacquire", "sync.Mutex.Lock", "sync.RWMutex.RLock", "sync.RWMutex.Lock",
			"sync.WaitGroup.Wait":
			blocked = "goroutine " + g.id + " " + g.state
		default:
			return "busy", "goroutine " + g.id + " " + g.state
		}
	}
	if blocked != "" {
		return "blocked", blocked
	}
	h := globals.hub
	if len(h.join)+len(h.routeCli)+len(h.routeSrv)+len(h.meta)+len(h.unreg)+len(h.userStatus) > 0 {
		return "busy", "hub queues"
	}
	for _, name := range topics {
		if t := h.topicGet(name); t != nil {
			if len(t.reg)+len(t.unreg)+len(t.clientMsg)+len(t.serverMsg)+len(t.meta)+len(t.exit) > 0 {
				return "busy", "topic queues " + name
			}
			if t.supd != nil && len(t.supd) > 0 {
				return "busy", "topic supd " + name
			}
		}
	}
	return "quiet", ""
}

func lcQuiescent(topics []string) (bool, string) {
	st, why := lcSnapshot(topics)
	return st == "quiet", why
}

// wait returns "" at sound quiescence with no request pending.  It returns "HANG ..." as soon as the
// process is provably stuck - every goroutine parked, yet a request is pending or a goroutine sits in a
// send / lock / semaphore - in many consecutive snapshots (no wall-clock guess), or after [limit] of
// continuous activity.
func (sc *lcScn) wait(limit time.Duration) string {
	names := sc.names()
	deadline := time.Now().Add(limit)
	okCount, stuckCount := 0, 0
	why := ""
	for time.Now().Before(deadline) {
		runtime.Gosched()
		st, w := lcSnapshot(names)
		pend := atomic.LoadInt32(&sc.pending)
		switch {
		case st == "quiet" && pend == 0:
			okCount++
			stuckCount = 0
			if okCount >= 2 {
				return ""
			}
			continue
		case st == "busy":
			okCount, stuckCount = 0, 0
			why = w
		default:
			// all parked, but a request is pending or a goroutine is blocked
			okCount = 0
			stuckCount++
			if st == "quiet" {
				why = "requests pending"
			} else {
				why = w
			}
			if stuckCount >= 20 {
				return "HANG " + why
			}
			time.Sleep(200 * time.Microsecond)
			continue
		}
		time.Sleep(50 * time.Microsecond)
	}
	return "HANG timeout " + why
}

func lcWaitQuiet() {
	deadline := time.Now().Add(20 * time.Second)
	ok := 0
	for time.Now().Before(deadline) && ok < 2 {
		runtime.Gosched()
		if q, _ := lcQuiescent(nil); q {
			ok++
		} else {
			ok = 0
			time.Sleep(50 * time.Microsecond)
		}
	}
}

func lcFns(g string, max int) string {
	var fns []string
	for _, l := range strings.Split(g, "\n")[1:] {
		if !strings.HasPrefix(l, "\t") && !strings.HasPrefix(l, "created by") {
			f := l
			if i := strings.LastIndex(f, "("); i > 0 {
				f = f[:i]
			}
			if j := strings.LastIndex(f, "/"); j >= 0 {
				f = f[j+1:]
			}
			fns = append(fns, f)
		}
	}
	if len(fns) > max {
		fns = fns[:max]
	}
	return strings.Join(fns, "<")
}

// blockedDump: the goroutines which are parked in a send / lock / wait-group (or in the receive of
// replyDelUser / stopTopicsForUser), one item each.
func lcBlockedDump() string {
	var res []string
	for _, g := range lcGoroutines() {
		if lcIgnore[g.id] {
			continue
		}
		hdr := g.state
		if strings.Contains(hdr, "chan send") || strings.Contains(hdr, "semacquire") || strings.Contains(hdr, "sync.Mutex") ||
			strings.Contains(hdr, "sync.WaitGroup.Wait") || strings.Contains(hdr, "sync.RWMutex") ||
			(hdr == "chan receive" && (strings.Contains(g.text, "server.replyDelUser") || strings.Contains(g.text, "stopTopicsForUser"))) {
			res = append(res, "goroutine_"+g.id+"_["+strings.ReplaceAll(hdr, " ", "_")+"]:@"+lcFns(g.text, 6))
		}
	}
	return strings.Join(res, " | ")
}

// waitAndRepair waits for quiescence.  When a session stays blocked on its in-flight
// semaphore (Add in subscribe/leave, Wait in cleanUp) although nothing moves any more, the
// hang is REPORTED and the driver then releases the semaphore itself so that the process can
// go on with the next scenario.
func (sc *lcScn) waitAndRepair() {
	for round := 0; round < 8; round++ {
		h := sc.wait(10 * time.Second)
		if h == "" {
			return
		}
		// a stalled writer stands for a socket write that blocks; the real write has a deadline
		// (hdl_websock.go writeWait): let it expire before calling anything a hang
		if sc.unstallAll() {
			continue
		}
		fmt.Fprintf(sc.out, "hang %s :: %s\n", strings.ReplaceAll(h, " ", "_"), lcBlockedDump())
		repaired := false
		gs := lcGoroutines()
		// (a) a goroutine of the server parked in a send on a nil channel: it stays for ever
		for _, g := range gs {
			if !lcIgnore[g.id] && g.state == "chan send (nil chan)" && !strings.Contains(g.text, "zz_verif") {
				fmt.Fprintf(sc.out, "parked %s nil-chan-send %s\n", g.id, lcFns(g.text, 4))
				lcIgnore[g.id] = true
				sc.leaked++
				repaired = true
			}
		}
		// (b) a session blocked on its in-flight semaphore (Add in subscribe/leave, Wait in cleanUp)
		for _, i := range sc.sessIdx() {
			ls := sc.sess[i]
			w := ls.s.inflightReqs
			if atomic.LoadInt32(&ls.busy) != 0 && atomic.LoadInt32(&ls.dead) == 0 && w != nil && len(w.sem) > 0 {
				fmt.Fprintf(sc.out, "unstuck %d\n", i)
				w.Done()
				repaired = true
			}
		}
		// (c) {del user}: replyDelUser waits for stopTopicsForUser, which waits for a topic that will never answer
		if !repaired {
			var parked []lcG
			for _, g := range gs {
				if !lcIgnore[g.id] && g.state == "chan receive" &&
					(strings.Contains(g.text, "server.replyDelUser") || strings.Contains(g.text, "stopTopicsForUser")) {
					parked = append(parked, g)
				}
			}
			if len(parked) > 0 {
				for _, i := range sc.sessIdx() {
					ls := sc.sess[i]
					if k, _ := ls.curKind.Load().(string); k == "deluser" && atomic.LoadInt32(&ls.busy) != 0 && atomic.LoadInt32(&ls.dead) == 0 {
						fmt.Fprintf(sc.out, "abandoned %d deluser-blocked\n", i)
						atomic.StoreInt32(&ls.dead, 1)
						atomic.AddInt32(&sc.pending, -1)
						// what is queued behind the stuck request will never be read
					drainq:
						for {
							select {
							case r := <-ls.reqCh:
								ls.mu.Lock()
								ls.notsent = append(ls.notsent, r.rid)
								ls.mu.Unlock()
								atomic.AddInt32(&sc.pending, -1)
							default:
								break drainq
							}
						}
						repaired = true
					}
				}
				if repaired {
					for _, g := range parked {
						fmt.Fprintf(sc.out, "parked %s chan-receive %s\n", g.id, lcFns(g.text, 4))
						lcIgnore[g.id] = true
						sc.leaked++
					}
				}
			}
		}
		// (e) cleanUp parked inside purgeChannels: `for len(ch) > 0 { <-ch }` lost the race for the last queued
		// item against the write loop, which is still running at that point (session.go:399-414)
		if !repaired {
			for _, g := range gs {
				if lcIgnore[g.id] || g.state != "chan receive" || !strings.Contains(g.text, "purgeChannels") {
					continue
				}
				which := lcPurgeChannel(g.text)
				for _, i := range sc.sessIdx() {
					ls := sc.sess[i]
					if !strings.Contains(g.text, fmt.Sprintf("reader(%p", ls)) {
						continue
					}
					fmt.Fprintf(sc.out, "parked-purge %d %s\n", i, which)
					switch which {
					case "stop":
						select {
						case ls.s.stop <- nil:
						default:
						}
					case "detach":
						select {
						case ls.s.detach <- "":
						default:
						}
					default:
						select {
						case ls.s.send <- struct{}{}:
						default:
						}
					}
					repaired = true
				}
			}
		}
		// (d) a session whose writer has left and whose reader is blocked sending to the full stop channel
		if !repaired {
			for _, i := range sc.sessIdx() {
				ls := sc.sess[i]
				if atomic.LoadInt32(&ls.closed) != 0 && atomic.LoadInt32(&ls.busy) != 0 && len(ls.s.stop) > 0 {
					select {
					case <-ls.s.stop:
						fmt.Fprintf(sc.out, "unblocked-stop %d\n", i)
						repaired = true
					default:
					}
				}
			}
		}
		if !repaired {
			// nothing recognisable: print every goroutine that is inside the server or a reader
			var all []string
			for _, g := range gs {
				if !lcIgnore[g.id] && (strings.Contains(g.text, "lcSess).reader") || !strings.Contains(g.text, "zz_verif")) &&
					!strings.Contains(g.text, "runLocal") && !strings.Contains(g.text, "(*Hub).run") && !strings.Contains(g.text, "testing.") {
					all = append(all, "goroutine_"+g.id+"_["+strings.ReplaceAll(g.state, " ", "_")+"]:@"+lcFns(g.text, 8))
				}
			}
			fmt.Fprintf(sc.out, "hang fatal pending=%d :: %s\n", atomic.LoadInt32(&sc.pending), strings.Join(all, " | "))
			fmt.Fprintf(sc.out, "fatal-hang\n")
			sc.out.Flush()
			os.Exit(3)
		}
	}
}

// lcPurgeChannel: which channel the receive inside purgeChannels waits for, read off the source line that
// the goroutine dump names.
func lcPurgeChannel(stack string) string {
	ls := strings.Split(stack, "\n")
	for i, l := range ls {
		if strings.Contains(l, "purgeChannels") && i+1 < len(ls) {
			f := strings.Fields(strings.TrimSpace(ls[i+1]))
			if len(f) == 0 {
				break
			}
			j := strings.LastIndex(f[0], ":")
			if j < 0 {
				break
			}
			n, _ := strconv.Atoi(f[0][j+1:])
			if src, err := os.ReadFile(f[0][:j]); err == nil {
				sl := strings.Split(string(src), "\n")
				if n >= 1 && n <= len(sl) {
					switch {
					case strings.Contains(sl[n-1], "s.stop"):
						return "stop"
					case strings.Contains(sl[n-1], "s.detach"):
						return "detach"
					case strings.Contains(sl[n-1], "s.send"):
						return "send"
					}
				}
			}
			break
		}
	}
	return "send?"
}

func (sc *lcScn) unstallAll() bool {
	any := false
	for _, i := range sc.sessIdx() {
		ls := sc.sess[i]
		ls.mu.Lock()
		ch := lcResume[ls]
		delete(lcResume, ls)
		ls.mu.Unlock()
		if ch != nil {
			close(ch)
			fmt.Fprintf(sc.out, "autounstall %d\n", i)
			any = true
		}
	}
	return any
}

func (sc *lcScn) sessIdx() []int {
	var idx []int
	for i := range sc.sess {
		idx = append(idx, i)
	}
	sort.Ints(idx)
	return idx
}

func (sc *lcScn) topicIdx() []int {
	var idx []int
	for i := range sc.topics {
		idx = append(idx, i)
	}
	sort.Ints(idx)
	return idx
}

// ---- one burst ----

func (sc *lcScn) runBurst() {
	sc.nburst++
	fmt.Fprintf(sc.out, "burst %d\n", sc.nburst)
	var injects []string
	for _, l := range sc.burst {
		w := strings.Fields(l)
		if w[0] != "i" {
			continue
		}
		k, _ := strconv.Atoi(w[2])
		switch w[1] {
		case "stall":
			if ls := sc.sess[k]; ls != nil {
				ls.mu.Lock()
				_, already := lcResume[ls]
				ls.mu.Unlock()
				if already || atomic.LoadInt32(&ls.closed) != 0 || atomic.LoadInt32(&ls.cleaned) != 0 {
					break
				}
				ch := make(chan struct{})
				ls.mu.Lock()
				lcResume[ls] = ch
				ls.mu.Unlock()
				ls.stall <- ch
				for n := 0; len(ls.stall) > 0 && n < 5000; n++ {
					time.Sleep(20 * time.Microsecond)
				}
			}
		case "unstall":
			if ls := sc.sess[k]; ls != nil {
				ls.mu.Lock()
				ch := lcResume[ls]
				delete(lcResume, ls)
				ls.mu.Unlock()
				if ch != nil {
					close(ch)
				}
			}
		case "unload":
			// the kill timer of an idle topic fired: what handleTopicTimeout sends (topic.go:495).
			// Decided here, at quiescence, like the timer which is armed only while no session is attached.
			if t := sc.topics[k]; t != nil {
				if tt := globals.hub.topicGet(t.name); tt != nil && len(tt.sessions) == 0 {
					injects = append(injects, t.name)
					fmt.Fprintf(sc.out, "injected unload %d\n", k)
				}
			}
		}
	}
	// queue the requests: every session's reader starts as soon as its first request is queued
	n := 0
	for _, l := range sc.burst {
		w := strings.Fields(l)
		if w[0] == "q" {
			n++
		}
	}
	atomic.AddInt32(&sc.pending, int32(n))
	var wg sync.WaitGroup
	for _, name := range injects {
		wg.Add(1)
		go func(name string) {
			defer wg.Done()
			globals.hub.unreg <- &topicUnreg{rcptTo: name}
		}(name)
	}
	for _, l := range sc.burst {
		w := strings.Fields(l)
		if w[0] != "q" {
			continue
		}
		si, _ := strconv.Atoi(w[1])
		r := lcReq{rid: w[2], kind: w[3]}
		if len(w) > 4 {
			r.k, _ = strconv.Atoi(w[4])
		}
		if len(w) > 5 {
			r.arg = w[5]
		}
		for _, x := range w[4:] {
			if strings.HasPrefix(x, "as=") {
				r.as = x[3:]
			}
			if strings.HasPrefix(x, "fault=") {
				r.fault = x[6:]
			}
			if strings.HasPrefix(x, "obo=") {
				r.obo, _ = strconv.Atoi(x[4:])
			}
		}
		if ls := sc.sess[si]; ls != nil && atomic.LoadInt32(&ls.dead) == 0 {
			ls.reqCh <- r
		} else if ls != nil {
			ls.mu.Lock()
			ls.notsent = append(ls.notsent, r.rid)
			ls.mu.Unlock()
			atomic.AddInt32(&sc.pending, -1)
		} else {
			atomic.AddInt32(&sc.pending, -1)
		}
	}
	wg.Wait()
	sc.burst = nil
	sc.waitAndRepair()
	lcReportFaultsC14d(sc)
	sc.dump()
}

var lcResume = map[*lcSess]chan struct{}{}

func (sc *lcScn) dump() {
	for _, i := range sc.sessIdx() {
		ls := sc.sess[i]
		ls.mu.Lock()
		for _, l := range ls.lines {
			fmt.Fprintln(sc.out, l)
		}
		ls.lines = nil
		for _, r := range ls.notsent {
			fmt.Fprintf(sc.out, "ns %d %s\n", i, r)
		}
		ls.notsent = nil
		ls.mu.Unlock()
	}
	for _, i := range sc.sessIdx() {
		ls := sc.sess[i]
		s := ls.s
		infl := 0
		if w := s.inflightReqs; w != nil {
			infl = len(w.sem)
		}
		var subs []string
		s.subsLock.RLock()
		for name := range s.subs {
			subs = append(subs, ls.seenRef(name))
		}
		s.subsLock.RUnlock()
		sort.Strings(subs)
		fmt.Fprintf(sc.out, "state sess %d user=%d term=%d closed=%d cleaned=%d inflight=%d detachq=%d sendq=%d dead=%d subs=%s\n", i, ls.user,
			atomic.LoadInt32(&s.terminating), atomic.LoadInt32(&ls.closed), atomic.LoadInt32(&ls.cleaned), infl, len(s.detach), len(s.send),
			atomic.LoadInt32(&ls.dead), strings.Join(subs, ","))
	}
	for _, k := range sc.topicIdx() {
		t := sc.topics[k]
		tt := globals.hub.topicGet(t.name)
		if tt == nil {
			fmt.Fprintf(sc.out, "state topic %d loaded=0 stored=%s\n", k, vB2s(lcStored(t)))
			continue
		}
		var ss []string
		var chs, chu []string // sessions attached as channel subscriptions (perSessionData.isChanSub); users cached as channel readers (perUserData.isChan)
		att := map[int]int{}
		for s, pssd := range tt.sessions {
			found := false
			for i, ls := range sc.sess {
				if ls.s == s {
					ss = append(ss, strconv.Itoa(i))
					if pssd.isChanSub {
						chs = append(chs, strconv.Itoa(i))
					}
					found = true
					if !s.background {
						att[sc.uidIdx[pssd.uid]]++
					}
				}
			}
			if !found {
				ss = append(ss, "?"+s.sid)
			}
		}
		sort.Strings(ss)
		var on []string
		for uid, pud := range tt.perUser {
			on = append(on, fmt.Sprintf("%d:%d", sc.uidIdx[uid], pud.online))
			if pud.isChan {
				chu = append(chu, strconv.Itoa(sc.uidIdx[uid]))
			}
		}
		sort.Strings(on)
		sort.Strings(chs)
		sort.Strings(chu)
		st := atomic.LoadInt32(&tt.status)
		fmt.Fprintf(sc.out, "state topic %d loaded=1 stored=%s paused=%s deleted=%s sessions=%s online=%s queues=%d ischan=%s chansess=%s chanusers=%s%s\n", k, vB2s(lcStored(t)),
			vB2s(st&topicStatusPaused != 0), vB2s(st&topicStatusMarkedDeleted != 0), strings.Join(ss, ","), strings.Join(on, ","),
			len(tt.reg)+len(tt.unreg)+len(tt.meta)+len(tt.clientMsg)+len(tt.exit), vB2s(tt.isChan), strings.Join(chs, ","), strings.Join(chu, ","),
			lcDumpAsUserC14f(sc, t, tt))
	}
	fmt.Fprintf(sc.out, "goroutines %d\n", runtime.NumGoroutine())
}

func lcStored(t *lcTopic) bool {
	if t.kind == "me" {
		return true
	}
	st, err := store.Topics.Get(t.name)
	return err == nil && st != nil && st.State != types.StateDeleted
}

// finish: every session disconnects, every topic is unloaded; the goroutine count must be back.
func (sc *lcScn) finish() {
	for _, i := range sc.sessIdx() {
		ls := sc.sess[i]
		ls.mu.Lock()
		ch := lcResume[ls]
		delete(lcResume, ls)
		ls.mu.Unlock()
		if ch != nil {
			close(ch)
		}
		if atomic.LoadInt32(&ls.dead) != 0 {
			if atomic.LoadInt32(&ls.wexit) == 0 {
				sc.leaked++ // its writer stays (its reader is already counted)
			}
			continue
		}
		atomic.AddInt32(&sc.pending, 1)
		ls.reqCh <- lcReq{rid: "fin", kind: "disc"}
	}
	fmt.Fprintf(sc.out, "burst fin\n")
	sc.waitAndRepair()
	sc.dump()
	// unload what is still loaded (idle timers are 4 s long; same message as the timer sends)
	globals.hub.topics.Range(func(name, t any) bool {
		if name.(string) != "sys" {
			globals.hub.unreg <- &topicUnreg{rcptTo: name.(string)}
		}
		return true
	})
	for _, i := range sc.sessIdx() {
		close(sc.sess[i].reqCh)
	}
	h := sc.wait(10 * time.Second)
	if h != "" {
		fmt.Fprintf(sc.out, "hang %s :: %s\n", strings.ReplaceAll(h, " ", "_"), lcBlockedDump())
	}
	n := 0
	globals.hub.topics.Range(func(name, t any) bool { n++; return true })
	fmt.Fprintf(sc.out, "final goroutines=%d baseline=%d loaded_topics=%d leaked=%d\n", runtime.NumGoroutine(), sc.base, n, sc.leaked)
}

func TestVerifLifecycle(t *testing.T) {
	vInitServer(t)
	globals.maxSubscriberCount = 32
	fin, err := os.Open(os.Getenv("VERIF_IN"))
	if err != nil {
		t.Fatal(err)
	}
	defer fin.Close()
	fout, err := os.Create(os.Getenv("VERIF_OUT"))
	if err != nil {
		t.Fatal(err)
	}
	defer fout.Close()
	out := bufio.NewWriterSize(fout, 1<<20)
	defer out.Flush()
	in := bufio.NewScanner(fin)
	in.Buffer(make([]byte, 1<<20), 1<<26)
	var sc *lcScn
	nscn := 0
	for in.Scan() {
		w := strings.Fields(in.Text())
		if len(w) == 0 {
			continue
		}
		switch w[0] {
		case "scn":
			nscn++
			sc = &lcScn{id: w[1], n: nscn, uids: map[int]types.Uid{}, uidIdx: map[types.Uid]int{}, topics: map[int]*lcTopic{},
				sess: map[int]*lcSess{}, out: out}
			lcWaitQuiet()
			sc.base = runtime.NumGoroutine()
			fmt.Fprintf(out, "scn %s\n", w[1])
		case "user":
			i, _ := strconv.Atoi(w[1])
			u := &types.User{}
			u.Access.Auth = types.ModeCP2P
			u.Access.Anon = types.ModeNone
			if _, err := store.Users.Create(u, nil); err != nil {
				t.Fatal("user create: ", err)
			}
			sc.uids[i] = u.Uid()
			sc.uidIdx[u.Uid()] = i
		case "grp", "chn":
			k, _ := strconv.Atoi(w[1])
			kv := vKV(w[2:])
			owner, _ := strconv.Atoi(kv["owner"])
			name := fmt.Sprintf("grpLc%dx%dx%s", nscn, k, strconv.FormatInt(time.Now().UnixNano()%100000000, 36))
			now := types.TimeNow()
			stopic := &types.Topic{ObjHeader: types.ObjHeader{Id: name, CreatedAt: now},
				Access: types.DefaultAccess{Auth: types.ModeCPublic, Anon: types.ModeNone}, UseBt: w[0] == "chn"}
			stopic.GiveAccess(sc.uids[owner], types.ModeCFull, types.ModeCFull)
			if err := store.Topics.Create(stopic, sc.uids[owner], nil); err != nil {
				t.Fatal("topic create: ", err)
			}
			for _, m := range strings.Split(kv["members"], ",") {
				if mi, _ := strconv.Atoi(m); mi != 0 && mi != owner {
					if err := store.Subs.Create(&types.Subscription{User: sc.uids[mi].String(), Topic: name,
						ModeWant: types.ModeCPublic, ModeGiven: types.ModeCPublic}); err != nil {
						t.Fatal("sub create: ", err)
					}
				}
			}
			member := map[int]bool{owner: true}
			for _, m := range strings.Split(kv["members"], ",") {
				if mi, _ := strconv.Atoi(m); mi != 0 {
					member[mi] = true
				}
			}
			sc.topics[k] = &lcTopic{k: k, kind: w[0], name: name, owner: owner, member: member}
		case "p2p":
			k, _ := strconv.Atoi(w[1])
			u1, _ := strconv.Atoi(w[2])
			u2, _ := strconv.Atoi(w[3])
			sc.topics[k] = &lcTopic{k: k, kind: "p2p", name: sc.uids[u1].P2PName(sc.uids[u2]), u1: u1, u2: u2}
		case "me":
			k, _ := strconv.Atoi(w[1])
			u, _ := strconv.Atoi(w[2])
			sc.topics[k] = &lcTopic{k: k, kind: "me", name: sc.uids[u].UserId(), owner: u, u1: u}
		case "sess":
			si, _ := strconv.Atoi(w[1])
			ui, _ := strconv.Atoi(w[2])
			kv := vKV(w[3:])
			c := 4096
			if v, ok := kv["cap"]; ok {
				c, _ = strconv.Atoi(v)
			}
			sc.sess[si] = sc.newSession(si, ui, c)
			if kv["root"] == "1" {
				// round s14f: a root session (may act on behalf of other users: extra.obo)
				sc.sess[si].s.authLvl = auth.LevelRoot
			}
		case "q", "i":
			sc.burst = append(sc.burst, in.Text())
		case "go":
			sc.runBurst()
		case "end":
			sc.finish()
			fmt.Fprintln(out, "end")
			out.Flush()
		}
	}
}
