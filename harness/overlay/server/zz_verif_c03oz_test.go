//go:build verif

// C03 driver, strengthening s03c (model coq/Sys/TopicOffSetC03.v): additions to the C03 driver
// zz_verif_c03x_test.go
//
//	sess <n> <user> r                          session n is authenticated at level root
//	op <flt> sub|leave|pub@<obo> ...           the request carries {"extra":{"obo":"<user obo>"}} (zz_verif_c04x_test.go)
//	op <flt> osetx <sid> <target> <mode|-> <priv>      {set topic=<group> desc.private sub.user sub.mode} in ONE request
//	op <flt> p2posetx <sid> <k> <mode|-> <priv>        the same to the k-th peer-to-peer topic (no sub.user)
//
// <priv>: -  absent;  L<n>  the JSON number n (not a map);  M<k>:<v>,...  a JSON object, key "k<k>" ->
// number <v>, or d = the string U+2421 (delete the key), or n = JSON null;  M alone = {}.
//
// After every op the block gets the stored Private of the rows of the group topic and the stored rows
// (modes and Private) of every peer-to-peer topic.
package main

import (
	"fmt"
	"sort"
	"strconv"
	"strings"

	"github.com/tinode/chat/server/auth"
	"github.com/tinode/chat/server/db/memverif"
)

func c03ozSplitKind(k string) (string, string, bool) {
	if i := strings.Index(k, "@"); i >= 0 {
		return k[:i], k[i+1:], true
	}
	return k, "", false
}

// the shared driver re-creates sessions (restart, crash) at level auth: put the root flag back (at quiescence)
func (x *x3Scn) c03ozReflag() {
	for si, vs := range x.sess {
		if x.c03ozRoots[si] {
			vs.s.authLvl = auth.LevelRoot
		}
	}
}

// `,"desc":{"private":...}` or ""
func c03ozPrivJSON(p string) string {
	if p == "-" || p == "" {
		return ""
	}
	if p[0] == 'L' {
		return `,"desc":{"private":` + p[1:] + `}`
	}
	var ents []string
	if len(p) > 1 {
		for _, e := range strings.Split(p[1:], ",") {
			kv := strings.SplitN(e, ":", 2)
			v := kv[1]
			switch v {
			case "d":
				v = `"␡"`
			case "n":
				v = "null"
			}
			ents = append(ents, `"k`+kv[0]+`":`+v)
		}
	}
	return `,"desc":{"private":{` + strings.Join(ents, ",") + `}}`
}

// canonical text of a stored Private ("" = nil)
func c03ozCanon(v any) string {
	switch p := v.(type) {
	case nil:
		return ""
	case map[string]any:
		var ks []string
		for k := range p {
			ks = append(ks, k)
		}
		sort.Slice(ks, func(i, j int) bool {
			a, _ := strconv.Atoi(strings.TrimPrefix(ks[i], "k"))
			b, _ := strconv.Atoi(strings.TrimPrefix(ks[j], "k"))
			return a < b
		})
		var es []string
		for _, k := range ks {
			es = append(es, strings.TrimPrefix(k, "k")+":"+vNum(p[k]))
		}
		return "M" + strings.Join(es, ";")
	default:
		return "L" + vNum(v)
	}
}

func (x *x3Scn) c03ozEmit() {
	out := x.out
	d := memverif.DumpTopicDesc(x.topic)
	var lines []string
	for _, s := range d.Subs {
		if c := c03ozCanon(s.Private); c != "" {
			lines = append(lines, fmt.Sprintf("store priv %d %s", x.uidIdx[s.User], c))
		}
	}
	sort.Strings(lines)
	for _, l := range lines {
		fmt.Fprintln(out, l)
	}
	for k, p := range x.p2p {
		pd := memverif.DumpTopicDesc(p.name)
		var rs []string
		for _, s := range pd.Subs {
			del := ""
			if s.Deleted {
				del = ":deleted"
			}
			rs = append(rs, fmt.Sprintf("%d:%s/%s:%s%s", x.uidIdx[s.User], vModeStr(s.Want), vModeStr(s.Given), c03ozCanon(s.Private), del))
		}
		sort.Strings(rs)
		fmt.Fprintf(out, "store p2prows %d %s\n", k+1, strings.Join(rs, ","))
	}
}

// {set} with desc.private and sub in one request, to the group topic (k == 0) or to the k-th p2p topic
func (x *x3Scn) c03ozSetOp(flt string, si int, k int, target int, mode string, priv string) {
	sc := x.vScn
	quiet := x.c03xQuiet()
	tn := sc.topic
	if k > 0 {
		peer, _ := x.c03xPeer(si, k)
		if peer == "" {
			// not a party: nothing is sent
			x.begin("N")
			x.tail(vWaitQuiet(quiet), "N")
			return
		}
		tn = peer
	}
	id := x.begin(flt)
	var parts []string
	if target != 0 {
		parts = append(parts, `"user":"`+sc.uids[target].UserId()+`"`)
	}
	if mode != "-" {
		parts = append(parts, `"mode":`+vJSON(vHexStr(mode)))
	}
	desc := c03ozPrivJSON(priv)
	sub := ""
	if len(parts) > 0 || desc == "" {
		sub = `,"sub":{` + strings.Join(parts, ",") + `}`
	}
	sc.send(si, `{"set":{"id":"`+id+`","topic":"`+tn+`"`+desc+sub+`}}`)
	x.tail(vWaitQuiet(quiet), flt)
}
