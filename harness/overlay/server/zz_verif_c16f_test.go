//go:build verif

// C16 part f: (1) UPT - an upload whose multipart part DECLARES a content type of the generator's
// choice for a body of every sniff class, followed by the download of that upload: the stored type,
// the served Content-Type and Content-Disposition, next to the results of the three stdlib functions
// the handler's decision depends on (computed here on the same inputs); (2) AGES / GCRUN - the real
// largeFileRunGarbageCollection goroutine run with a short period against memverif, which records the
// arguments of every FileDeleteUnused call.
// Same VERIF_IN / VERIF_OUT stream as zz_verif_c16_test.go (hooked from its line()); the model runner
// is harness/runner/r_c16.ml.
package main

import (
	"bytes"
	"fmt"
	"mime"
	"mime/multipart"
	"net/http"
	"net/http/httptest"
	"net/textproto"
	"net/url"
	"os"
	"sort"
	"strconv"
	"strings"
	"time"

	"github.com/tinode/chat/server/db/memverif"
	"github.com/tinode/chat/server/store"
	"github.com/tinode/chat/server/store/types"
)

func c16fHead(kind string) (string, bool) {
	switch kind {
	case "gzip":
		return "\x1f\x8b\x08\x00\x00\x00\x00\x00", true
	case "wasm":
		return "\x00asm\x01\x00\x00\x00", true
	case "ps":
		return "%!PS-Adobe-3.0\n", true
	case "rar":
		return "Rar!\x1a\x07\x00", true
	case "ogg":
		return "OggS\x00\x02", true
	case "woff":
		return "wOFF\x00\x01\x00\x00", true
	case "woff2":
		return "wOF2\x00\x01\x00\x00", true
	case "ttf":
		return "\x00\x01\x00\x00\x00\x0c", true
	case "mp3":
		return "ID3\x03\x00\x00", true
	case "wav":
		return "RIFF\x24\x00\x00\x00WAVEfmt ", true
	case "webp":
		return "RIFF\x24\x00\x00\x00WEBPVP8 ", true
	case "webm":
		return "\x1a\x45\xdf\xa3\x01\x00", true
	case "bmp":
		return "BM\x36\x00", true
	case "json":
		return "{\"a\": 1, \"b\": ", true
	case "utf16":
		return "\xfe\xff\x00h\x00i", true
	case "wsxml":
		return "  \n\t<?xml version=\"1.0\"?><a>", true
	case "wshtml":
		return "\n\n  <HTML><body>", true
	}
	return "", false
}

func c16fContent(kind string, n int, tag int) []byte {
	head, ok := c16fHead(kind)
	if !ok {
		return c16Content(kind, n, tag)
	}
	b := []byte(head + fmt.Sprintf("#%d#", tag))
	if len(b) > n {
		b = b[:n]
	}
	for len(b) < n {
		b = append(b, byte('a'+(len(b)*7+tag)%26))
	}
	return b
}

// UPT kind=<k> n=<bytes> tag=<int> ct=<hex of the declared type | -> asatt=<-|value>
func (d *c16Drv) uptC16f(kv map[string]string) string {
	d.reqCount++
	n, _ := strconv.Atoi(kv["n"])
	tag, _ := strconv.Atoi(kv["tag"])
	content := c16fContent(kv["kind"], n, tag)
	declared := ""
	var bb bytes.Buffer
	mw := multipart.NewWriter(&bb)
	mw.SetBoundary("verifc16boundaryverifc16boundary")
	mw.WriteField("id", "rq"+strconv.Itoa(d.reqCount))
	h := textproto.MIMEHeader{}
	h.Set("Content-Disposition", `form-data; name="file"; filename="upload.dat"`)
	if kv["ct"] != "-" {
		declared = string(vUnhex(kv["ct"]))
		h.Set("Content-Type", declared)
	}
	w, _ := mw.CreatePart(h)
	w.Write(content)
	mw.Close()

	// the inputs of the handler's decision, by the same stdlib functions on the same bytes / text
	buff := make([]byte, 512)
	copy(buff, content)
	sniff := http.DetectContentType(buff)
	pok, pmt, pfmt := "0", "", ""
	if mt, params, err := mime.ParseMediaType(declared); err == nil {
		pok, pmt, pfmt = "1", mt, mime.FormatMediaType(mt, params)
	}
	ext := " | sniff=" + c16Hex(sniff) + " pok=" + pok + " pmt=" + c16Hex(pmt) + " pfmt=" + c16Hex(pfmt)

	req := httptest.NewRequest("POST", "/v0/file/u/", bytes.NewReader(bb.Bytes()))
	req.Header.Set("Content-Type", mw.FormDataContentType())
	req.Header.Set("X-Tinode-APIKey", d.keys["valid"])
	m, s := d.cred("good1")
	req.Header.Set("X-Tinode-Auth", m+" "+s)
	globals.maxFileUploadSize = 1 << 20
	d.useHandler("fs")
	before := d.snap()
	r := c16Call(largeFileReceive, req)
	after := d.snap()
	var newRecs []memverif.FileDump
	for id, f := range after.recs {
		if _, ok := before.recs[id]; !ok {
			newRecs = append(newRecs, f)
		}
	}
	// the upload is removed again at the end of the line: it is not part of the histories
	defer func() {
		for _, f := range newRecs {
			fd := &types.FileDef{ObjHeader: types.ObjHeader{Id: f.Id.String()}, Location: f.Location}
			store.Files.FinishUpload(fd, false, 0)
			os.Remove(f.Location)
		}
	}()
	if r.crashed || r.rec.Code != 200 || len(newRecs) != 1 || newRecs[0].Status != types.UploadCompleted {
		return "UPT " + c16Status(r) + " - recs=" + strconv.Itoa(len(newRecs)) + ext
	}
	rec := newRecs[0]
	target := c16ServeURL + rec.Id.String()
	if a := kv["asatt"]; a != "-" {
		target += "?asatt=" + url.QueryEscape(a)
	}
	req2 := httptest.NewRequest("GET", target, nil)
	req2.Header.Set("X-Tinode-APIKey", d.keys["valid"])
	req2.Header.Set("X-Tinode-Auth", m+" "+s)
	r2 := c16Call(largeFileServe, req2)
	if r2.crashed || r2.rec.Code != 200 {
		return "UPT 200 " + c16Status(r2) + " stored=" + c16Hex(rec.Mime) + ext
	}
	cd := "odd"
	switch v := r2.rec.Header()["Content-Disposition"]; {
	case len(v) == 0:
		cd = "0"
	case len(v) == 1 && v[0] == "attachment":
		cd = "1"
	}
	return "UPT 200 200 stored=" + c16Hex(rec.Mime) + " ct=" + c16Hex(r2.rec.Header().Get("Content-Type")) +
		" cd=" + cd + " bytes=" + vB2s(bytes.Equal(r2.rec.Body.Bytes(), content)) + ext
}

// GCRUN <period in ms> <block size>: the real GC goroutine, stopped after its first completed tick(s)
func (d *c16Drv) gcrunC16f(w []string) string {
	ms, _ := strconv.Atoi(w[1])
	block, _ := strconv.Atoi(w[2])
	d.useHandler("fs")
	before := d.snap()
	memverif.RecordGcC16f(true)
	stop := largeFileRunGarbageCollection(time.Duration(ms)*time.Millisecond, block)
	deadline := time.Now().Add(60 * time.Second)
	for len(memverif.GcCallsC16f()) == 0 && time.Now().Before(deadline) {
		time.Sleep(time.Millisecond)
	}
	// unbuffered: received only between ticks, i.e. after the DeleteUnused call in progress has returned
	stop <- true
	calls := memverif.GcCallsC16f()
	memverif.RecordGcC16f(false)
	end := time.Now()
	after := d.snap()
	if len(calls) == 0 {
		return "GCRUN nocall"
	}
	minCut := time.Duration(1<<63 - 1)
	limits := map[int]bool{}
	for _, c := range calls {
		if c.OlderThan.IsZero() {
			minCut = 0
		} else if dt := c.At.Sub(c.OlderThan); dt < minCut {
			minCut = dt
		}
		limits[c.Limit] = true
	}
	var gone []string
	for id, f := range before.recs {
		if _, ok := after.recs[id]; !ok {
			gone = append(gone, d.fileIndex(id)+":"+strconv.FormatInt(int64(end.Sub(f.Updated)/time.Millisecond), 10))
		}
	}
	goneFiles := 0
	for n := range before.dir {
		if !after.dir[n] {
			goneFiles++
		}
	}
	sort.Strings(gone)
	var ls []string
	for l := range limits {
		ls = append(ls, strconv.Itoa(l))
	}
	sort.Strings(ls)
	return fmt.Sprintf("GCRUN ok | calls=%d mincut_ns=%d limits=%s gonerec=%s gonefiles=%d", len(calls), int64(minCut),
		strings.Join(ls, ","), strings.Join(gone, ","), goneFiles)
}

func (d *c16Drv) c16fLine(w []string) (string, bool) {
	switch w[0] {
	case "UPT":
		return d.uptC16f(vKV(w[1:])), true
	case "AGES": // AGES <seconds>: every upload record becomes that much older
		sec, _ := strconv.Atoi(w[1])
		memverif.AgeFilesC16b(time.Duration(sec) * time.Second)
		return "AGES ok", true
	case "GCRUN":
		return d.gcrunC16f(w), true
	}
	return "", false
}
