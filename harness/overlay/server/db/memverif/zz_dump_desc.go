//go:build verif

package memverif

import (
	"encoding/json"
	"sort"

	t "github.com/tinode/chat/server/store/types"
)

// Dump of the description columns of one topic (C08, description part):
// topics.access / public / trusted / tags / owner and subscriptions.private,
// decoded the way a read through the adapter decodes them.
type SubDescDump struct {
	User        t.Uid
	Rid         int64
	Want, Given t.AccessMode
	Private     any
	Deleted     bool
}
type TopicDescDump struct {
	Exists          bool
	Auth, Anon      t.AccessMode
	Public, Trusted any
	Tags            []string
	TagIdx          []string // rows of the topictags index, sorted
	Owner           t.Uid
	Subs            []SubDescDump // row (insertion) order
}

func c08DecodeAny(b []byte) any {
	if b == nil {
		return nil
	}
	var v any
	if err := json.Unmarshal(b, &v); err != nil {
		return "!" + string(b)
	}
	return v
}

func DumpTopicDesc(name string) TopicDescDump {
	a := theAdapter
	a.mu.Lock()
	defer a.mu.Unlock()
	var d TopicDescDump
	tr, ok := a.db.topics[name]
	if !ok {
		return d
	}
	d.Exists = true
	var da t.DefaultAccess
	if tr.access != nil {
		if err := da.Scan(append([]byte{}, tr.access...)); err != nil {
			da.Auth, da.Anon = t.ModeInvalid, t.ModeInvalid
		}
	}
	d.Auth, d.Anon = da.Auth, da.Anon
	d.Public = c08DecodeAny(tr.public)
	d.Trusted = c08DecodeAny(tr.trusted)
	if tr.tags != nil {
		var ss t.StringSlice
		if err := ss.Scan(append([]byte{}, tr.tags...)); err == nil {
			d.Tags = []string(ss)
		} else {
			d.Tags = []string{"!" + string(tr.tags)}
		}
	}
	for _, tg := range a.db.topictags {
		if tg.top == name {
			d.TagIdx = append(d.TagIdx, tg.tag)
		}
	}
	sort.Strings(d.TagIdx)
	d.Owner = tr.owner
	for k, s := range a.db.subs {
		if k.topic != name {
			continue
		}
		d.Subs = append(d.Subs, SubDescDump{User: s.uid, Rid: s.rid, Want: parseMode(s.modeWant), Given: parseMode(s.modeGiven),
			Private: c08DecodeAny(s.private), Deleted: s.deletedAt != nil})
	}
	sort.Slice(d.Subs, func(i, j int) bool { return d.Subs[i].Rid < d.Subs[j].Rid })
	return d
}
