//go:build verif

// Package memverif is an in-memory database adapter for tinode/chat which
// reproduces the observable semantics of the MySQL adapter
// (server/db/mysql/adapter.go).  It exists only for verification runs: it is
// added to the server build by `go test -overlay`, nothing is written to the
// tinode source tree.  See CONTRACT.md next to this file.
//
// Layout of the package:
//
//	adapter.go   tables, transactions (undo log), general methods, harness API
//	convert.go   emulation of SQL argument/column conversions
//	users.go     users, tags, auth records, credentials, devices
//	topics.go    topics and subscriptions
//	messages.go  messages and the deletion log
//	files.go     file uploads, links, persistent cache, tag search
//	snapshot.go  canonical dumps
package memverif

import (
	"encoding/json"
	"errors"
	"sort"
	"strconv"
	"sync"
	"time"

	dbif "github.com/tinode/chat/server/db"
	"github.com/tinode/chat/server/store"
	t "github.com/tinode/chat/server/store/types"
)

const (
	// Same as the MySQL adapter so that CheckDbVersion passes.
	adpVersion = 113

	adapterName = "memverif"

	defaultMaxResults = 1024
	// This is capped by the Session's send queue limit (128).
	defaultMaxMessageResults = 100
)

// ErrInjected is returned by adapter calls selected by SetFault.
var ErrInjected = errors.New("memverif: injected fault")

// sqlError imitates *mysql.MySQLError: a generic (non-sentinel) database error.
type sqlError struct {
	Number  int
	Message string
}

func (e *sqlError) Error() string {
	return "Error " + strconv.Itoa(e.Number) + ": " + e.Message
}

func errDupEntry(table, key string) error {
	return &sqlError{1062, "Duplicate entry '" + key + "' for key '" + table + "'"}
}

func errForeignKey(table, col string) error {
	return &sqlError{1452, "Cannot add or update a child row: a foreign key constraint fails (" + table + "." + col + ")"}
}

func errSQL(num int, msg string) error {
	return &sqlError{num, msg}
}

// isDupe is the same test as isDupe of the MySQL adapter.
func isDupe(err error) bool {
	var se *sqlError
	return errors.As(err, &se) && se.Number == 1062
}

// ---------------------------------------------------------------------------
// Rows. Encoded columns (JSON, CHAR modes) are kept in their encoded form so
// that every read goes through the same decoders as with a real database and
// no pointer into the tables ever escapes. []byte values are never modified
// in place.

type userRow struct {
	uid       t.Uid
	createdAt time.Time
	updatedAt time.Time
	state     t.ObjState
	stateAt   *time.Time
	access    []byte // JSON, nil = NULL
	lastSeen  *time.Time
	userAgent string
	public    []byte
	trusted   []byte
	tags      []byte // JSON, nil = NULL
}

type tagRow struct {
	rid int64
	uid t.Uid  // usertags
	top string // topictags
	tag string
}

type deviceRow struct {
	rid      int64
	uid      t.Uid
	hash     string
	deviceID string
	platform string
	lastSeen time.Time
	lang     string
}

type authRow struct {
	rid     int64
	uname   string
	uid     t.Uid
	scheme  string
	authLvl int
	secret  []byte
	expires *time.Time
}

type topicRow struct {
	rid       int64
	createdAt time.Time
	updatedAt time.Time
	state     t.ObjState
	stateAt   *time.Time
	touchedAt *time.Time
	name      string
	useBt     bool
	owner     t.Uid
	access    []byte
	seqID     int
	delID     int
	public    []byte
	trusted   []byte
	tags      []byte
}

type subKey struct {
	topic string
	uid   t.Uid
}

type subRow struct {
	rid       int64
	createdAt time.Time
	updatedAt time.Time
	deletedAt *time.Time
	uid       t.Uid
	topic     string
	delID     int
	recvSeqID int
	readSeqID int
	modeWant  string
	modeGiven string
	private   []byte
}

type msgKey struct {
	topic string
	seq   int
}

type msgRow struct {
	id        int64
	createdAt time.Time
	updatedAt time.Time
	deletedAt *time.Time
	delID     int
	seqID     int
	topic     string
	from      t.Uid
	head      []byte // JSON, nil = NULL
	content   []byte // JSON, nil = NULL
}

type dellogRow struct {
	rid        int64
	topic      string
	deletedFor t.Uid
	delID      int
	low        int
	hi         int
}

type credRow struct {
	rid       int64
	createdAt time.Time
	updatedAt time.Time
	deletedAt *time.Time
	method    string
	value     string
	synthetic string
	uid       t.Uid
	resp      string
	done      bool
	retries   int
}

type fileRow struct {
	uid       t.Uid // file id
	createdAt time.Time
	updatedAt time.Time
	user      t.Uid
	status    int
	mimeType  string
	size      int64
	location  string
}

type linkRow struct {
	rid       int64
	createdAt time.Time
	file      t.Uid
	msgID     int64  // 0 = NULL
	topic     string // "" = NULL
	user      t.Uid  // 0 = NULL
}

type kvRow struct {
	key       string
	createdAt *time.Time
	value     string
}

type database struct {
	users     map[t.Uid]*userRow
	usertags  map[int64]*tagRow
	devices   map[string]*deviceRow // by hash (unique index devices_hash)
	auth      map[int64]*authRow
	topics    map[string]*topicRow
	topictags map[int64]*tagRow
	subs      map[subKey]*subRow
	msgs      map[msgKey]*msgRow
	dellog    map[int64]*dellogRow
	creds     map[int64]*credRow
	files     map[t.Uid]*fileRow
	links     map[int64]*linkRow
	kv        map[string]*kvRow
	autoinc   map[string]int64
}

func newDatabase() *database {
	return &database{
		users:     map[t.Uid]*userRow{},
		usertags:  map[int64]*tagRow{},
		devices:   map[string]*deviceRow{},
		auth:      map[int64]*authRow{},
		topics:    map[string]*topicRow{},
		topictags: map[int64]*tagRow{},
		subs:      map[subKey]*subRow{},
		msgs:      map[msgKey]*msgRow{},
		dellog:    map[int64]*dellogRow{},
		creds:     map[int64]*credRow{},
		files:     map[t.Uid]*fileRow{},
		links:     map[int64]*linkRow{},
		kv:        map[string]*kvRow{},
		autoinc:   map[string]int64{},
	}
}

// adapter is the in-memory adapter. There is exactly one instance (theAdapter).
type adapter struct {
	mu sync.Mutex

	isOpen bool
	// Database exists (CreateDb has been run). True from the start so that
	// store.Store.Open works without a separate initialization step.
	created bool

	maxResults        int
	maxMessageResults int

	db *database
	// Undo log of the current call ("transaction").
	undo []func()

	// Harness state.
	calls   []string
	faultIn int  // >0: that many counted calls from now the call fails
	crash   bool // the planned fault is a crash
	crashed bool // every call fails until ClearFault
}

var theAdapter = newAdapter()

func newAdapter() *adapter {
	a := &adapter{
		created:           true,
		maxResults:        defaultMaxResults,
		maxMessageResults: defaultMaxMessageResults,
	}
	a.db = newDatabase()
	a.initSchema()
	return a
}

// initSchema inserts what CreateDb of the MySQL adapter inserts: the 'sys'
// topic and the version record in kvmeta.
func (a *adapter) initSchema() {
	now := t.TimeNow()
	db := a.db
	db.autoinc["topics"]++
	db.topics["sys"] = &topicRow{
		rid:       db.autoinc["topics"],
		createdAt: now,
		updatedAt: now,
		state:     t.StateOK,
		touchedAt: &now,
		name:      "sys",
		access:    []byte(`{"Auth":"N","Anon":"N"}`),
		public:    []byte(`{"fn":"System"}`),
	}
	db.kv["version"] = &kvRow{key: "version", value: strconv.Itoa(adpVersion)}
}

// ---------------------------------------------------------------------------
// Calls, faults, transactions.

// begin locks the adapter, records the call and applies the fault plan. If it
// returns an error the adapter is NOT locked and the call must return at once.
func (a *adapter) begin(name string) error {
	runHook(name) // zz_hook.go: harness callback, no-op unless a driver installed one
	a.mu.Lock()
	fail := false
	if a.crashed {
		fail = true
	} else if a.faultIn > 0 {
		a.faultIn--
		if a.faultIn == 0 {
			fail = true
			if a.crash {
				a.crashed = true
			}
		}
	}
	if fail {
		a.calls = append(a.calls, name+"!fail")
		a.mu.Unlock()
		return ErrInjected
	}
	a.calls = append(a.calls, name)
	a.undo = a.undo[:0]
	return nil
}

// end finishes a call started by begin: all changes are rolled back if the
// call returns an error (or panics), then the adapter is unlocked.
func (a *adapter) end(err *error) {
	if r := recover(); r != nil {
		a.rollback()
		a.mu.Unlock()
		panic(r)
	}
	if err != nil && *err != nil {
		a.rollback()
	}
	a.undo = a.undo[:0]
	a.mu.Unlock()
}

func (a *adapter) rollback() {
	for i := len(a.undo) - 1; i >= 0; i-- {
		a.undo[i]()
	}
	a.undo = a.undo[:0]
}

// nextID returns the next AUTO_INCREMENT value of a table. As with InnoDB the
// counter is not restored by a rollback.
func (a *adapter) nextID(table string) int64 {
	a.db.autoinc[table]++
	return a.db.autoinc[table]
}

// ins inserts a row under a key which must not be present.
func ins[K comparable, R any](a *adapter, m map[K]*R, k K, r *R) {
	m[k] = r
	a.undo = append(a.undo, func() { delete(m, k) })
}

// del removes a row.
func del[K comparable, R any](a *adapter, m map[K]*R, k K) {
	r, ok := m[k]
	if !ok {
		return
	}
	delete(m, k)
	a.undo = append(a.undo, func() { m[k] = r })
}

// mod must be called before a row is modified in place.
func mod[R any](a *adapter, r *R) *R {
	old := *r
	a.undo = append(a.undo, func() { *r = old })
	return r
}

// sorted returns the rows of a table which satisfy keep, ordered by less.
func sorted[K comparable, R any](m map[K]*R, keep func(*R) bool, less func(x, y *R) bool) []*R {
	var out []*R
	for _, r := range m {
		if keep == nil || keep(r) {
			out = append(out, r)
		}
	}
	sort.Slice(out, func(i, j int) bool { return less(out[i], out[j]) })
	return out
}

// ---------------------------------------------------------------------------
// Uid <-> int64 (the SQL adapters store decoded ids).

// dec is store.DecodeUid made safe for the case when the store's uid generator
// has not been initialized (adapter used without store.Store.Open).
func dec(uid t.Uid) (val int64) {
	if uid.IsZero() {
		return 0
	}
	defer func() {
		if recover() != nil {
			// Keep the fallback positive like real decoded (snowflake) ids.
			val = int64(uid & 0x7fffffffffffffff)
		}
	}()
	return store.DecodeUid(uid)
}

// decStr is the decimal representation of the decoded uid, which is what a
// scan of a BIGINT column into a string field produces.
func decStr(uid t.Uid) string {
	return strconv.FormatInt(dec(uid), 10)
}

// lessUid orders uids like the SQL tables do (by decoded value).
func lessUid(x, y t.Uid) bool {
	return dec(x) < dec(y)
}

// ---------------------------------------------------------------------------
// Column encodings.

// toJSON converts to JSON before storing to JSON field (same as MySQL adapter).
func toJSON(src any) []byte {
	if src == nil {
		return nil
	}
	jval, _ := json.Marshal(src)
	return jval
}

// fromJSON deserializes JSON data from DB (same as MySQL adapter after a scan
// of the column into `any`).
func fromJSON(src []byte) any {
	if src == nil {
		return nil
	}
	var out any
	json.Unmarshal(src, &out)
	return out
}

func cloneBytes(b []byte) []byte {
	if b == nil {
		return nil
	}
	return append([]byte{}, b...)
}

func cloneTimePtr(p *time.Time) *time.Time {
	if p == nil {
		return nil
	}
	v := *p
	return &v
}

// dt3 is the value stored by a DATETIME(3) column.
func dt3(v time.Time) time.Time {
	if v.IsZero() {
		return time.Time{}
	}
	return v.UTC().Round(time.Millisecond)
}

// dt0 is the value stored by a DATETIME column (no fractional seconds).
func dt0(v time.Time) time.Time {
	if v.IsZero() {
		return time.Time{}
	}
	return v.UTC().Round(time.Second)
}

func timePtr(v time.Time) *time.Time {
	return &v
}

// scanMode is AccessMode.Scan applied to a CHAR column.
func scanMode(dst *t.AccessMode, col string) error {
	return dst.Scan([]byte(col))
}

// ---------------------------------------------------------------------------
// General methods.

// Open initializes the adapter. Any configuration is accepted.
func (a *adapter) Open(jsonconfig json.RawMessage) error {
	a.mu.Lock()
	defer a.mu.Unlock()
	if a.isOpen {
		return errors.New("memverif adapter is already connected")
	}
	if a.maxResults <= 0 {
		a.maxResults = defaultMaxResults
	}
	if a.maxMessageResults <= 0 {
		a.maxMessageResults = defaultMaxMessageResults
	}
	a.isOpen = true
	return nil
}

// Close closes the adapter. The data is kept.
func (a *adapter) Close() error {
	a.mu.Lock()
	defer a.mu.Unlock()
	a.isOpen = false
	return nil
}

// IsOpen returns true if the adapter has been opened.
func (a *adapter) IsOpen() bool {
	a.mu.Lock()
	defer a.mu.Unlock()
	return a.isOpen
}

func (a *adapter) getDbVersion() (int, error) {
	if !a.created {
		return -1, errors.New("Database not initialized")
	}
	return adpVersion, nil
}

// GetDbVersion returns current database version.
func (a *adapter) GetDbVersion() (int, error) {
	a.mu.Lock()
	defer a.mu.Unlock()
	return a.getDbVersion()
}

// CheckDbVersion checks whether the actual DB version matches the expected version of this adapter.
func (a *adapter) CheckDbVersion() error {
	a.mu.Lock()
	defer a.mu.Unlock()
	version, err := a.getDbVersion()
	if err != nil {
		return err
	}
	if version != adpVersion {
		return errors.New("Invalid database version " + strconv.Itoa(version) +
			". Expected " + strconv.Itoa(adpVersion))
	}
	return nil
}

// Version returns adapter version.
func (*adapter) Version() int {
	return adpVersion
}

// Stats returns the number of rows per table (nil when not open).
func (a *adapter) Stats() any {
	a.mu.Lock()
	defer a.mu.Unlock()
	if !a.isOpen {
		return nil
	}
	db := a.db
	return map[string]int{
		"users": len(db.users), "usertags": len(db.usertags), "devices": len(db.devices),
		"auth": len(db.auth), "topics": len(db.topics), "topictags": len(db.topictags),
		"subscriptions": len(db.subs), "messages": len(db.msgs), "dellog": len(db.dellog),
		"credentials": len(db.creds), "fileuploads": len(db.files), "filemsglinks": len(db.links),
		"kvmeta": len(db.kv),
	}
}

// GetName returns string that adapter uses to register itself with store.
func (*adapter) GetName() string {
	return adapterName
}

// SetMaxResults configures how many results can be returned in a single DB call.
func (a *adapter) SetMaxResults(val int) error {
	a.mu.Lock()
	defer a.mu.Unlock()
	if val <= 0 {
		a.maxResults = defaultMaxResults
	} else {
		a.maxResults = val
	}
	return nil
}

// CreateDb initializes the storage. Like CREATE DATABASE it fails if the
// database exists and reset is false.
func (a *adapter) CreateDb(reset bool) error {
	a.mu.Lock()
	defer a.mu.Unlock()
	if a.created && !reset {
		return errSQL(1007, "Can't create database; database exists (memverif: use CreateDb(true) or Reset())")
	}
	a.db = newDatabase()
	a.undo = nil
	a.initSchema()
	a.created = true
	return nil
}

// UpgradeDb upgrades the database, if necessary. Nothing to do.
func (a *adapter) UpgradeDb() error {
	a.mu.Lock()
	defer a.mu.Unlock()
	_, err := a.getDbVersion()
	return err
}

// ---------------------------------------------------------------------------
// Harness API.

// Reset drops all data (the result is a freshly created database: only the
// 'sys' topic and the version record exist), clears the fault plan and the
// call log. Open/closed state and SetMaxResults are kept.
func Reset() {
	a := theAdapter
	a.mu.Lock()
	defer a.mu.Unlock()
	a.db = newDatabase()
	a.undo = nil
	a.initSchema()
	a.created = true
	a.calls = nil
	a.faultIn, a.crash, a.crashed = 0, false, false
}

// SetFault makes the k-th (1-based) counted adapter call from now fail with
// ErrInjected without any effect. If crash is true that call and every later
// call fail until ClearFault. k <= 0 clears the plan. Counted calls are all
// adapter methods from UserCreate to PCacheExpire in db/adapter.go (the
// "General" group - Open, Close, CreateDb, ... - is neither counted nor logged).
func SetFault(k int, crash bool) {
	a := theAdapter
	a.mu.Lock()
	defer a.mu.Unlock()
	if k <= 0 {
		a.faultIn, a.crash, a.crashed = 0, false, false
		return
	}
	a.faultIn, a.crash, a.crashed = k, crash, false
}

// ClearFault removes the fault plan and ends a crash.
func ClearFault() {
	a := theAdapter
	a.mu.Lock()
	defer a.mu.Unlock()
	a.faultIn, a.crash, a.crashed = 0, false, false
}

// CallLog returns the names of counted adapter methods called since the last
// reset of the log, in order. Calls made to fail by SetFault have the suffix "!fail".
func CallLog() []string {
	a := theAdapter
	a.mu.Lock()
	defer a.mu.Unlock()
	return append([]string{}, a.calls...)
}

// ResetCallLog clears the call log.
func ResetCallLog() {
	a := theAdapter
	a.mu.Lock()
	defer a.mu.Unlock()
	a.calls = nil
}

// Instance returns the adapter object registered with the store, for harness
// code which wants to call adapter methods directly.
func Instance() dbif.Adapter {
	return theAdapter
}

func init() {
	store.RegisterAdapter(theAdapter)
}
