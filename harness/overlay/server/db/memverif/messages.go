//go:build verif

package memverif

import (
	"errors"

	t "github.com/tinode/chat/server/store/types"
)

// MessageSave saves message to database.
func (a *adapter) MessageSave(msg *t.Message) (err error) {
	if err = a.begin("MessageSave"); err != nil {
		return err
	}
	defer a.end(&err)

	head, err := driverValue(msg.Head)
	if err != nil {
		return err
	}
	headJSON, _ := head.([]byte)

	// store assignes message ID, but we don't use it. Message IDs are not used anywhere.
	// Using a sequential ID provided by the database.
	id := a.nextID("messages")
	key := msgKey{msg.Topic, msg.SeqId}
	if _, ok := a.db.msgs[key]; ok {
		// Generic error, NOT types.ErrDuplicate (the MySQL adapter does not map it).
		return errDupEntry("messages.messages_topic_seqid", msg.Topic+"-"+itoa(msg.SeqId))
	}
	if _, ok := a.db.topics[msg.Topic]; !ok {
		return errForeignKey("messages", "topic")
	}
	ins(a, a.db.msgs, key, &msgRow{
		id:        id,
		createdAt: dt3(msg.CreatedAt),
		updatedAt: dt3(msg.UpdatedAt),
		seqID:     msg.SeqId,
		topic:     msg.Topic,
		from:      t.ParseUid(msg.From),
		head:      headJSON,
		content:   toJSON(msg.Content),
	})
	// Replacing ID given by store by ID given by the DB.
	msg.SetUid(t.Uid(id))
	return nil
}

// MessageGetAll returns messages matching the query: not hard-deleted
// (delid=0), not soft-deleted for forUser, since <= seqid < before, newest
// first, at most limit.
func (a *adapter) MessageGetAll(topic string, forUser t.Uid, opts *t.QueryOpt) (_ []t.Message, err error) {
	if err = a.begin("MessageGetAll"); err != nil {
		return nil, err
	}
	defer a.end(&err)

	var limit = a.maxMessageResults
	var lower = 0
	var upper = 1<<31 - 1

	if opts != nil {
		if opts.Since > 0 {
			lower = opts.Since
		}
		if opts.Before > 0 {
			// MySQL BETWEEN is inclusive-inclusive, Tinode API requires inclusive-exclusive, thus -1
			upper = opts.Before - 1
		}

		if opts.Limit > 0 && opts.Limit < limit {
			limit = opts.Limit
		}
	}

	// Rows of dellog which can hide messages from forUser:
	// d.topic=m.topic AND m.seqid BETWEEN d.low AND d.hi-1 AND d.deletedfor=forUser.
	var hidden []*dellogRow
	for _, d := range a.db.dellog {
		if d.topic == topic && d.deletedFor == forUser {
			hidden = append(hidden, d)
		}
	}

	rows := sorted(a.db.msgs,
		func(m *msgRow) bool {
			if m.delID != 0 || m.topic != topic || m.seqID < lower || m.seqID > upper {
				return false
			}
			for _, d := range hidden {
				if m.seqID >= d.low && m.seqID <= d.hi-1 {
					return false
				}
			}
			return true
		},
		func(x, y *msgRow) bool { return x.seqID > y.seqID })
	if len(rows) > limit {
		rows = rows[:limit]
	}

	msgs := make([]t.Message, 0, limit)
	for _, m := range rows {
		var msg t.Message
		msg.CreatedAt = m.createdAt
		msg.UpdatedAt = m.updatedAt
		msg.DeletedAt = cloneTimePtr(m.deletedAt)
		msg.DelId = m.delID
		msg.SeqId = m.seqID
		msg.Topic = m.topic
		if m.head == nil {
			// MessageHeaders.Scan(nil) panics in the real adapter; reachable only
			// for messages hard-deleted with DelId == 0.
			return nil, errors.New("memverif: NULL message head (the MySQL adapter would panic in MessageHeaders.Scan)")
		}
		if err = msg.Head.Scan(cloneBytes(m.head)); err != nil {
			return nil, err
		}
		msg.From = m.from.String()
		msg.Content = fromJSON(m.content)
		msgs = append(msgs, msg)
	}
	return msgs, nil
}

// MessageGetDeleted gets ranges of deleted messages.
func (a *adapter) MessageGetDeleted(topic string, forUser t.Uid, opts *t.QueryOpt) (_ []t.DelMessage, err error) {
	if err = a.begin("MessageGetDeleted"); err != nil {
		return nil, err
	}
	defer a.end(&err)

	var limit = a.maxResults
	var lower = 0
	var upper = 1<<31 - 1

	if opts != nil {
		if opts.Since > 0 {
			lower = opts.Since
		}
		if opts.Before > 1 {
			// DelRange is inclusive-exclusive, while BETWEEN is inclusive-inclisive.
			upper = opts.Before - 1
		}

		if opts.Limit > 0 && opts.Limit < limit {
			limit = opts.Limit
		}
	}

	// Fetch log of deletions:
	// WHERE topic=? AND delid BETWEEN ? AND ? AND (deletedFor=0 OR deletedFor=?) ORDER BY delid LIMIT ?
	rows := sorted(a.db.dellog,
		func(d *dellogRow) bool {
			return d.topic == topic && d.delID >= lower && d.delID <= upper &&
				(d.deletedFor.IsZero() || d.deletedFor == forUser)
		},
		func(x, y *dellogRow) bool {
			// Index dellog_topic_delid_deletedfor(topic,delid,deletedfor), then primary key.
			if x.delID != y.delID {
				return x.delID < y.delID
			}
			if x.deletedFor != y.deletedFor {
				return lessUid(x.deletedFor, y.deletedFor)
			}
			return x.rid < y.rid
		})
	if len(rows) > limit {
		rows = rows[:limit]
	}

	var dmsgs []t.DelMessage
	var dmsg t.DelMessage
	for _, d := range rows {
		hi := d.hi
		if d.delID != dmsg.DelId {
			if dmsg.DelId > 0 {
				dmsgs = append(dmsgs, dmsg)
			}
			dmsg.DelId = d.delID
			dmsg.Topic = d.topic
			if dec(d.deletedFor) > 0 {
				dmsg.DeletedFor = d.deletedFor.String()
			} else {
				dmsg.DeletedFor = ""
			}
			dmsg.SeqIdRanges = nil
		}
		if hi <= d.low+1 {
			hi = 0
		}
		dmsg.SeqIdRanges = append(dmsg.SeqIdRanges, t.Range{Low: d.low, Hi: hi})
	}

	if dmsg.DelId > 0 {
		dmsgs = append(dmsgs, dmsg)
	}

	return dmsgs, nil
}

// messageDeleteList is messageDeleteList of the MySQL adapter.
func (a *adapter) messageDeleteList(topic string, toDel *t.DelMessage) error {
	if toDel == nil {
		// Whole topic is being deleted, thus also deleting all messages.
		for id, d := range a.db.dellog {
			if d.topic == topic {
				del(a, a.db.dellog, id)
			}
		}
		// filemsglinks are deleted because of ON DELETE CASCADE
		a.deleteMessagesOfTopic(topic)
		return nil
	}

	// Only some messages are being deleted
	// Start with making log entries
	forUser := t.ParseUid(toDel.DeletedFor)

	// Counter of deleted messages
	seqCount := 0
	for _, rng := range toDel.SeqIdRanges {
		if rng.Hi == 0 {
			// Dellog must contain valid Low and *Hi*.
			rng.Hi = rng.Low + 1
		}
		seqCount += rng.Hi - rng.Low
		id := a.nextID("dellog")
		if _, ok := a.db.topics[topic]; !ok {
			return errForeignKey("dellog", "topic")
		}
		ins(a, a.db.dellog, id, &dellogRow{
			rid: id, topic: topic, deletedFor: forUser, delID: toDel.DelId, low: rng.Low, hi: rng.Hi,
		})
	}

	if toDel.DeletedFor == "" {
		// Hard-deleting messages requires updates to the messages table
		if len(toDel.SeqIdRanges) == 0 {
			return errors.New("memverif: empty SeqIdRanges in hard delete (the MySQL adapter would panic: index out of range)")
		}
		var match func(seq int) bool
		if len(toDel.SeqIdRanges) > 1 || toDel.SeqIdRanges[0].Hi == 0 {
			// m.seqid IN (?,?,...): seqCount placeholders, one argument per id.
			ids := map[int]bool{}
			nargs := 0
			for _, r := range toDel.SeqIdRanges {
				if r.Hi == 0 {
					ids[r.Low] = true
					nargs++
				} else {
					for i := r.Low; i < r.Hi; i++ {
						ids[i] = true
						nargs++
					}
				}
			}
			if seqCount-1 < 0 {
				return errors.New("memverif: malformed ranges in hard delete (the MySQL adapter would panic: negative Repeat count)")
			}
			if nargs != seqCount {
				// Number of placeholders differs from the number of arguments.
				return errSQL(0, "sql: expected "+itoa(seqCount+1)+" arguments, got "+itoa(nargs+1))
			}
			match = func(seq int) bool { return ids[seq] }
		} else {
			// Optimizing for a special case of single range low..hi.
			// MySQL's BETWEEN is inclusive-inclusive thus decrement Hi by 1.
			low, hi := toDel.SeqIdRanges[0].Low, toDel.SeqIdRanges[0].Hi-1
			match = func(seq int) bool { return seq >= low && seq <= hi }
		}

		// ... AND m.deletedAt IS NULL: only messages not yet hard-deleted.
		now := t.TimeNow()
		affected := map[int64]bool{}
		for k, m := range a.db.msgs {
			if k.topic == topic && match(m.seqID) && m.deletedAt == nil {
				affected[m.id] = true
			}
		}
		a.deleteLinksWhere(func(l *linkRow) bool { return l.msgID != 0 && affected[l.msgID] })
		for k, m := range a.db.msgs {
			if k.topic == topic && affected[m.id] {
				mod(a, m)
				m.deletedAt = timePtr(now)
				m.delID = toDel.DelId
				m.head = nil
				m.content = nil
			}
		}
	}

	return nil
}

// MessageDeleteList deletes messages in the given topic with seqIds from the list
func (a *adapter) MessageDeleteList(topic string, toDel *t.DelMessage) (err error) {
	if err = a.begin("MessageDeleteList"); err != nil {
		return err
	}
	defer a.end(&err)

	return a.messageDeleteList(topic, toDel)
}
