//go:build verif

package memverif

import (
	t "github.com/tinode/chat/server/store/types"
)

// Structured dump of one topic's rows for the topic-history driver.
type SubDump struct {
	User                   t.Uid
	Want, Given            t.AccessMode
	Read, Recv, DelId      int
	Deleted                bool
}
type MsgDump struct {
	Seq     int
	From    t.Uid
	Content string
	Head    string
	DelId   int
}
type DelDump struct {
	DelId   int
	For     t.Uid
	Low, Hi int
}
type TopicDump struct {
	Exists bool
	SeqId  int
	DelId  int
	Owner  t.Uid
	Subs   []SubDump
	Msgs   []MsgDump
	Dellog []DelDump
}

func parseMode(s string) t.AccessMode {
	m, err := t.ParseAcs([]byte(s))
	if err != nil {
		return t.ModeInvalid
	}
	if m != t.ModeUnset {
		m &= t.ModeBitmask
	}
	return m
}

func DumpTopic(name string) TopicDump {
	a := theAdapter
	a.mu.Lock()
	defer a.mu.Unlock()
	var d TopicDump
	tr, ok := a.db.topics[name]
	if !ok {
		return d
	}
	d.Exists = true
	d.SeqId = tr.seqID
	d.DelId = tr.delID
	d.Owner = tr.owner
	for k, s := range a.db.subs {
		if k.topic != name {
			continue
		}
		d.Subs = append(d.Subs, SubDump{User: s.uid, Want: parseMode(s.modeWant), Given: parseMode(s.modeGiven),
			Read: s.readSeqID, Recv: s.recvSeqID, DelId: s.delID, Deleted: s.deletedAt != nil})
	}
	for k, m := range a.db.msgs {
		if k.topic != name {
			continue
		}
		c := string(m.content)
		if m.content == nil {
			c = "0"
		}
		d.Msgs = append(d.Msgs, MsgDump{Seq: m.seqID, From: m.from, Content: c, Head: string(m.head), DelId: m.delID})
	}
	for _, r := range a.db.dellog {
		if r.topic != name {
			continue
		}
		d.Dellog = append(d.Dellog, DelDump{DelId: r.delID, For: r.deletedFor, Low: r.low, Hi: r.hi})
	}
	return d
}
