//go:build verif

package memverif

import (
	"encoding/json"
	"reflect"
	"strings"
	"sync"
	"testing"
	"time"

	"github.com/tinode/chat/server/auth"
	dbif "github.com/tinode/chat/server/db"
	"github.com/tinode/chat/server/store"
	t "github.com/tinode/chat/server/store/types"
)

const testConfig = `{"uid_key":"la6YsO+bNX/+XIkOqc5Svw==","max_results":1024,"use_adapter":"memverif","adapters":{"memverif":{"any":"thing"}}}`

var openOnce sync.Once

// setup opens the store (once: it initializes the uid generator used by
// store.DecodeUid) and resets the adapter.
func setup(tb testing.TB) dbif.Adapter {
	tb.Helper()
	openOnce.Do(func() {
		if err := store.Store.Open(1, json.RawMessage(testConfig)); err != nil {
			tb.Fatal("store open:", err)
		}
	})
	Reset()
	return store.Store.GetAdapter()
}

func must(tb testing.TB, err error) {
	tb.Helper()
	if err != nil {
		tb.Fatal(err)
	}
}

func newUser(tb testing.TB, name string, tags ...string) *t.User {
	tb.Helper()
	u := &t.User{
		Access: t.DefaultAccess{Auth: t.ModeCAuth, Anon: t.ModeNone},
		Public: map[string]any{"fn": name},
		Tags:   tags,
	}
	if _, err := store.Users.Create(u, map[string]any{"me": name}); err != nil {
		tb.Fatal(err)
	}
	return u
}

func newGroup(tb testing.TB, name string, owner t.Uid, tags ...string) *t.Topic {
	tb.Helper()
	topic := &t.Topic{
		ObjHeader: t.ObjHeader{Id: name},
		Access:    t.DefaultAccess{Auth: t.ModeCPublic, Anon: t.ModeCReadOnly},
		Public:    map[string]any{"fn": "Group " + name},
		Tags:      tags,
	}
	topic.GiveAccess(owner, t.ModeCFull, t.ModeCFull)
	must(tb, store.Topics.Create(topic, owner, map[string]any{"note": "owner"}))
	return topic
}

func share(tb testing.TB, topic string, uid t.Uid, private any) {
	tb.Helper()
	must(tb, store.Subs.Create(&t.Subscription{
		User: uid.String(), Topic: topic,
		ModeWant: t.ModeCPublic, ModeGiven: t.ModeCPublic, Private: private,
	}))
}

func save(tb testing.TB, topic string, from t.Uid, seq int, content any) *t.Message {
	tb.Helper()
	msg := &t.Message{
		SeqId: seq, Topic: topic, From: from.String(),
		Head: t.MessageHeaders{"mime": "text/x-drafty"}, Content: content,
	}
	if err, _ := store.Messages.Save(msg, nil, true); err != nil {
		tb.Fatal(err)
	}
	return msg
}

func seqs(msgs []t.Message) []int {
	out := []int{}
	for _, m := range msgs {
		out = append(out, m.SeqId)
	}
	return out
}

func eq(tb testing.TB, what string, got, want any) {
	tb.Helper()
	if !reflect.DeepEqual(got, want) {
		tb.Fatalf("%s: got %#v, want %#v", what, got, want)
	}
}

func TestGeneral(tt *testing.T) {
	adp := setup(tt)
	eq(tt, "name", adp.GetName(), "memverif")
	eq(tt, "version", adp.Version(), 113)
	must(tt, adp.CheckDbVersion())
	if !adp.IsOpen() {
		tt.Fatal("not open")
	}
	if err := adp.Open(nil); err == nil {
		tt.Fatal("second Open must fail")
	}
	if err := adp.CreateDb(false); err == nil {
		tt.Fatal("CreateDb(false) on an existing database must fail")
	}
	newUser(tt, "x")
	must(tt, adp.CreateDb(true))
	if strings.Contains(Snapshot(), "user id=") {
		tt.Fatal("CreateDb(true) must clear users")
	}
	// Fresh database has the 'sys' topic.
	sys, err := adp.TopicGet("sys")
	must(tt, err)
	if sys == nil || sys.Access.Auth != t.ModeNone {
		tt.Fatalf("sys topic: %+v", sys)
	}
	v, err := adp.PCacheGet("version")
	must(tt, err)
	eq(tt, "kv version", v, "113")
}

func TestUsers(tt *testing.T) {
	adp := setup(tt)
	alice := newUser(tt, "alice", "email:alice@example.com", "alice")
	bob := newUser(tt, "bob", "bob")

	got, err := adp.UserGet(alice.Uid())
	must(tt, err)
	eq(tt, "public", got.Public, map[string]any{"fn": "alice"})
	eq(tt, "tags", []string(got.Tags), []string{"email:alice@example.com", "alice"})
	eq(tt, "access", got.Access, t.DefaultAccess{Auth: t.ModeCAuth, Anon: t.ModeNone})
	eq(tt, "id", got.Id, alice.Id)
	// The returned value is a copy.
	got.Public.(map[string]any)["fn"] = "mallory"
	got.Tags[0] = "zzz"
	got2, _ := adp.UserGet(alice.Uid())
	eq(tt, "public after mutation", got2.Public, map[string]any{"fn": "alice"})
	eq(tt, "tags after mutation", got2.Tags[0], "email:alice@example.com")

	// me and fnd subscriptions were created by the store mapper.
	subs, err := adp.SubsForUser(alice.Uid())
	must(tt, err)
	eq(tt, "me+fnd", len(subs), 2)
	eq(tt, "me private not loaded", subs[0].Private, nil)

	// Duplicate user id: generic error, no sentinel.
	dup := &t.User{}
	dup.SetUid(alice.Uid())
	err = adp.UserCreate(dup)
	if err == nil || err == t.ErrDuplicate {
		tt.Fatalf("duplicate user: %v", err)
	}
	// Duplicate tags: ErrDuplicate and the user row is rolled back.
	dup2 := &t.User{Tags: []string{"a", "a"}}
	dup2.SetUid(t.Uid(12345))
	eq(tt, "dup tags", adp.UserCreate(dup2), error(t.ErrDuplicate))
	if u, _ := adp.UserGet(t.Uid(12345)); u != nil {
		tt.Fatal("user with duplicate tags must be rolled back")
	}

	users, err := adp.UserGetAll(alice.Uid(), bob.Uid(), t.Uid(777))
	must(tt, err)
	eq(tt, "get all", len(users), 2)

	// Tags.
	tags, err := adp.UserUpdateTags(alice.Uid(), []string{"x", "alice"}, []string{"email:alice@example.com"}, nil)
	must(tt, err)
	eq(tt, "tags add/remove", tags, []string{"alice", "x"})
	tags, err = adp.UserUpdateTags(alice.Uid(), nil, nil, []string{"r1", "r0"})
	must(tt, err)
	eq(tt, "tags reset", tags, []string{"r0", "r1"})
	got, _ = adp.UserGet(alice.Uid())
	eq(tt, "tags column", []string(got.Tags), []string{"r0", "r1"})
	if _, err = adp.UserUpdateTags(t.Uid(999), []string{"q"}, nil, nil); err == nil {
		tt.Fatal("tags of a missing user: foreign key error expected")
	}

	// Update.
	now := t.TimeNow()
	must(tt, store.Users.UpdateLastSeen(alice.Uid(), "ua/1.0", now.Add(400*time.Millisecond)))
	got, _ = adp.UserGet(alice.Uid())
	eq(tt, "ua", got.UserAgent, "ua/1.0")
	if got.LastSeen == nil || got.LastSeen.Nanosecond() != 0 {
		tt.Fatalf("lastseen is DATETIME (whole seconds): %v", got.LastSeen)
	}
	must(tt, store.Users.Update(alice.Uid(), map[string]any{
		"Public": map[string]any{"fn": "Alice A."},
		"Access": t.DefaultAccess{Auth: t.ModeCP2P, Anon: t.ModeNone},
		"Tags":   t.StringSlice{"t1"},
	}))
	got, _ = adp.UserGet(alice.Uid())
	eq(tt, "updated public", got.Public, map[string]any{"fn": "Alice A."})
	eq(tt, "updated access", got.Access.Auth, t.ModeCP2P)
	tags, _ = adp.UserUpdateTags(alice.Uid(), nil, nil, nil)
	eq(tt, "tag index follows Tags update", tags, []string{"t1"})
	if err = adp.UserUpdate(alice.Uid(), map[string]any{"NoSuchColumn": 1}); err == nil {
		tt.Fatal("unknown column must fail")
	}
	// A state which is a valid column value but not an ObjState: ErrMalformed and rollback.
	if err = adp.UserUpdate(alice.Uid(), map[string]any{"State": 10}); err != t.ErrMalformed {
		tt.Fatalf("bad state: %v", err)
	}
	got, _ = adp.UserGet(alice.Uid())
	eq(tt, "state rolled back", got.State, t.StateOK)

	// Auth records.
	must(tt, store.Users.AddAuthRecord(alice.Uid(), auth.LevelAuth, "basic", "alice", []byte("secret"), time.Time{}))
	eq(tt, "dup login", store.Users.AddAuthRecord(bob.Uid(), auth.LevelAuth, "basic", "alice", []byte("s"), time.Time{}),
		error(t.ErrDuplicate))
	eq(tt, "dup scheme", store.Users.AddAuthRecord(alice.Uid(), auth.LevelAuth, "basic", "alice2", []byte("s"), time.Time{}),
		error(t.ErrDuplicate))
	uid, lvl, secret, _, err := store.Users.GetAuthUniqueRecord("basic", "alice")
	must(tt, err)
	eq(tt, "auth uid", uid, alice.Uid())
	eq(tt, "auth lvl", lvl, auth.LevelAuth)
	eq(tt, "auth secret", string(secret), "secret")
	uid, _, _, _, err = store.Users.GetAuthUniqueRecord("basic", "nobody")
	must(tt, err)
	eq(tt, "no auth", uid, t.ZeroUid)
	_, _, _, _, err = adp.AuthGetRecord(bob.Uid(), "basic")
	eq(tt, "no record", err, error(t.ErrNotFound))
	// Partial update: empty unique and secret are kept.
	must(tt, adp.AuthUpdRecord(alice.Uid(), "basic", "", auth.LevelRoot, nil, time.Time{}))
	uname, lvl, secret, _, err := adp.AuthGetRecord(alice.Uid(), "basic")
	must(tt, err)
	eq(tt, "uname kept", uname, "basic:alice")
	eq(tt, "lvl updated", lvl, auth.LevelRoot)
	eq(tt, "secret kept", string(secret), "secret")
	eq(tt, "no-change update", adp.AuthUpdRecord(alice.Uid(), "basic", "", auth.LevelRoot, nil, time.Time{}), error(t.ErrNotFound))
	eq(tt, "missing update", adp.AuthUpdRecord(bob.Uid(), "basic", "x", auth.LevelRoot, nil, time.Time{}), error(t.ErrNotFound))
	n, err := adp.AuthDelAllRecords(alice.Uid())
	must(tt, err)
	eq(tt, "deleted auth", n, 1)
}

func TestCredentials(tt *testing.T) {
	adp := setup(tt)
	alice := newUser(tt, "alice")
	bob := newUser(tt, "bob")

	ins, err := store.Users.UpsertCred(&t.Credential{User: alice.Id, Method: "email", Value: "a@example.com", Resp: "123"})
	must(tt, err)
	eq(tt, "inserted", ins, true)
	// New value of the same method: the old one is soft-deleted.
	ins, err = store.Users.UpsertCred(&t.Credential{User: alice.Id, Method: "email", Value: "b@example.com", Resp: "456"})
	must(tt, err)
	eq(tt, "inserted 2", ins, true)
	active, err := adp.CredGetActive(alice.Uid(), "email")
	must(tt, err)
	eq(tt, "active", active.Value, "b@example.com")
	all, _ := adp.CredGetAll(alice.Uid(), "", false)
	eq(tt, "all excludes soft-deleted", len(all), 1)
	must(tt, adp.CredFail(alice.Uid(), "email"))
	// Back to the first value: undeleted, not inserted; retries are kept.
	ins, err = store.Users.UpsertCred(&t.Credential{User: alice.Id, Method: "email", Value: "a@example.com", Resp: "789"})
	must(tt, err)
	eq(tt, "updated", ins, false)
	active, _ = adp.CredGetActive(alice.Uid(), "email")
	eq(tt, "active again", active.Value, "a@example.com")
	eq(tt, "resp", active.Resp, "789")
	eq(tt, "retries kept (CredFail counts deleted rows too)", active.Retries, 1)
	// Deleting a credential with failed attempts: ErrNotFound and no change.
	eq(tt, "del tried", adp.CredDel(alice.Uid(), "email", "a@example.com"), error(t.ErrNotFound))
	active, _ = adp.CredGetActive(alice.Uid(), "email")
	if active == nil {
		tt.Fatal("the soft-deletion of CredDel is rolled back")
	}

	must(tt, adp.CredConfirm(alice.Uid(), "email"))
	eq(tt, "confirm again", adp.CredConfirm(alice.Uid(), "email"), error(t.ErrNotFound))
	uid, err := adp.UserGetByCred("email", "a@example.com")
	must(tt, err)
	eq(tt, "by cred", uid, alice.Uid())
	// Validated value cannot be claimed by anyone else.
	_, err = store.Users.UpsertCred(&t.Credential{User: bob.Id, Method: "email", Value: "a@example.com"})
	eq(tt, "claimed", err, error(t.ErrDuplicate))
	valid, _ := adp.CredGetAll(alice.Uid(), "email", true)
	eq(tt, "validated", len(valid), 1)

	uids, err := adp.UserGetUnvalidated(t.TimeNow().Add(time.Hour), 10)
	must(tt, err)
	eq(tt, "unvalidated", uids, []t.Uid{bob.Uid()})

	must(tt, adp.CredDel(alice.Uid(), "email", "a@example.com"))
	eq(tt, "all gone?", adp.CredDel(bob.Uid(), "", ""), error(t.ErrNotFound))
}

func TestTopicsAndSubscriptions(tt *testing.T) {
	adp := setup(tt)
	alice := newUser(tt, "alice")
	bob := newUser(tt, "bob")
	carol := newUser(tt, "carol")
	newGroup(tt, "grpTest1", alice.Uid(), "travel")

	topic, err := adp.TopicGet("grpTest1")
	must(tt, err)
	eq(tt, "owner", topic.Owner, alice.Id)
	eq(tt, "seq", topic.SeqId, 0)
	eq(tt, "public", topic.Public, map[string]any{"fn": "Group grpTest1"})
	if missing, err := adp.TopicGet("grpNone"); missing != nil || err != nil {
		tt.Fatal("missing topic must be nil,nil")
	}
	if err = adp.TopicCreate(&t.Topic{ObjHeader: t.ObjHeader{Id: "grpTest1"}}); err == nil || err == t.ErrDuplicate {
		tt.Fatalf("duplicate topic: %v", err)
	}
	own, _ := adp.OwnTopics(alice.Uid())
	eq(tt, "own", own, []string{"grpTest1"})

	share(tt, "grpTest1", bob.Uid(), map[string]any{"note": "bob1"})
	share(tt, "grpTest1", carol.Uid(), nil)

	subs, err := adp.SubsForTopic("grpTest1", false, nil)
	must(tt, err)
	eq(tt, "3 subs", len(subs), 3)
	eq(tt, "insertion order", []string{subs[0].User, subs[1].User, subs[2].User}, []string{alice.Id, bob.Id, carol.Id})
	eq(tt, "owner want", subs[0].ModeWant, t.ModeCFull)

	// Share to a missing user fails and the whole call is rolled back.
	before := Snapshot()
	err = adp.TopicShare([]*t.Subscription{
		{User: carol.Id, Topic: "grpOther", ModeWant: t.ModeCPublic, ModeGiven: t.ModeCPublic},
		{User: t.Uid(4242).String(), Topic: "grpTest1", ModeWant: t.ModeCPublic, ModeGiven: t.ModeCPublic},
	})
	if err == nil {
		tt.Fatal("foreign key error expected")
	}
	eq(tt, "rolled back", Snapshot(), before)

	// Read/recv marks and delid.
	must(tt, store.Subs.Update("grpTest1", bob.Uid(), map[string]any{"RecvSeqId": 5, "ReadSeqId": 4, "DelId": 2}))
	sub, err := adp.SubscriptionGet("grpTest1", bob.Uid(), false)
	must(tt, err)
	eq(tt, "recv", sub.RecvSeqId, 5)
	eq(tt, "read", sub.ReadSeqId, 4)
	eq(tt, "delid", sub.DelId, 2)
	eq(tt, "private", sub.Private, map[string]any{"note": "bob1"})

	// Soft delete keeps the row.
	must(tt, store.Subs.Delete("grpTest1", bob.Uid()))
	eq(tt, "second delete", store.Subs.Delete("grpTest1", bob.Uid()), error(t.ErrNotFound))
	eq(tt, "missing delete", store.Subs.Delete("grpTest1", t.Uid(31337)), error(t.ErrNotFound))
	sub, _ = adp.SubscriptionGet("grpTest1", bob.Uid(), false)
	if sub != nil {
		tt.Fatal("deleted subscription must not be returned")
	}
	sub, _ = adp.SubscriptionGet("grpTest1", bob.Uid(), true)
	if sub == nil || sub.DeletedAt == nil || sub.ReadSeqId != 4 {
		tt.Fatalf("keepDeleted: %+v", sub)
	}
	subs, _ = adp.SubsForTopic("grpTest1", false, nil)
	eq(tt, "2 live subs", len(subs), 2)
	subs, _ = adp.SubsForTopic("grpTest1", true, nil)
	eq(tt, "3 subs incl. deleted", len(subs), 3)
	subs, _ = adp.SubsForTopic("grpTest1", true, &t.QueryOpt{User: bob.Uid()})
	eq(tt, "one user", len(subs), 1)
	subs, _ = adp.SubsForTopic("grpTest1", true, &t.QueryOpt{Limit: 2})
	eq(tt, "limit", len(subs), 2)

	// Re-share resurrects the row and resets marks, but keeps private.
	must(tt, store.Subs.Create(&t.Subscription{User: bob.Id, Topic: "grpTest1",
		ModeWant: t.ModeCReadOnly, ModeGiven: t.ModeCPublic, Private: map[string]any{"note": "bob2"}}))
	sub, _ = adp.SubscriptionGet("grpTest1", bob.Uid(), false)
	if sub == nil {
		tt.Fatal("not resurrected")
	}
	eq(tt, "recv reset", sub.RecvSeqId, 0)
	eq(tt, "read reset", sub.ReadSeqId, 0)
	eq(tt, "delid reset", sub.DelId, 0)
	eq(tt, "want replaced", sub.ModeWant, t.ModeCReadOnly)
	eq(tt, "private kept by TopicShare", sub.Private, map[string]any{"note": "bob1"})
	subs, _ = adp.SubsForTopic("grpTest1", false, nil)
	eq(tt, "row keeps its position", subs[1].User, bob.Id)

	// Update of all subscriptions of a topic (zero uid).
	must(tt, adp.SubsUpdate("grpTest1", t.ZeroUid, map[string]any{"DelId": 7}))
	subs, _ = adp.SubsForTopic("grpTest1", false, nil)
	for _, s := range subs {
		eq(tt, "delid all", s.DelId, 7)
	}

	// UsersForTopic loads public of users.
	usubs, err := adp.UsersForTopic("grpTest1", false, nil)
	must(tt, err)
	eq(tt, "users", len(usubs), 3)
	eq(tt, "user public", usubs[1].GetPublic(), map[string]any{"fn": "bob"})

	// TopicsForUser.
	tsubs, err := adp.TopicsForUser(bob.Uid(), false, nil)
	must(tt, err)
	eq(tt, "me/fnd skipped", len(tsubs), 1)
	eq(tt, "topic public", tsubs[0].GetPublic(), map[string]any{"fn": "Group grpTest1"})
	eq(tt, "user", tsubs[0].User, bob.Id)

	// Owner change.
	must(tt, adp.TopicOwnerChange("grpTest1", bob.Uid()))
	topic, _ = adp.TopicGet("grpTest1")
	eq(tt, "new owner", topic.Owner, bob.Id)

	// Topic update incl. tags; caller's map gets TouchedAt.
	upd := map[string]any{"Public": map[string]any{"fn": "renamed"}, "Tags": t.StringSlice{"a", "b"}}
	must(tt, store.Topics.Update("grpTest1", upd))
	if upd["TouchedAt"] == nil {
		tt.Fatal("TouchedAt is added to the caller's map")
	}
	found, err := adp.FindTopics([][]string{{"a", "zz"}}, []string{"b"}, true)
	must(tt, err)
	eq(tt, "found", len(found), 1)
	eq(tt, "found tags", found[0].Private, []string{"a", "b"})
	found, _ = adp.FindTopics([][]string{{"a"}, {"zz"}}, nil, true)
	eq(tt, "AND of ORs", len(found), 0)

	// Soft delete of a topic.
	must(tt, store.Topics.Delete("grpTest1", false, false))
	topic, _ = adp.TopicGet("grpTest1")
	eq(tt, "state", topic.State, t.StateDeleted)
	subs, _ = adp.SubsForTopic("grpTest1", false, nil)
	eq(tt, "all subs deleted", len(subs), 0)
	subs, _ = adp.SubsForTopic("grpTest1", true, nil)
	eq(tt, "rows kept", len(subs), 3)
	// Hard delete.
	must(tt, store.Topics.Delete("grpTest1", false, true))
	topic, _ = adp.TopicGet("grpTest1")
	if topic != nil {
		tt.Fatal("topic must be gone")
	}
	eq(tt, "no rows", strings.Contains(Snapshot(), "grpTest1"), false)
}

func TestP2P(tt *testing.T) {
	adp := setup(tt)
	alice := newUser(tt, "alice")
	bob := newUser(tt, "bob")
	name := alice.Uid().P2PName(bob.Uid())

	mk := func() (*t.Subscription, *t.Subscription) {
		return &t.Subscription{User: alice.Id, Topic: name, ModeWant: t.ModeCP2P, ModeGiven: t.ModeCP2P,
				Private: map[string]any{"c": "a1"}},
			&t.Subscription{User: bob.Id, Topic: name, ModeWant: t.ModeCP2P, ModeGiven: t.ModeCP2P,
				Private: map[string]any{"c": "b1"}}
	}
	s1, s2 := mk()
	must(tt, store.Topics.CreateP2P(s1, s2))
	topic, err := adp.TopicGet(name)
	must(tt, err)
	eq(tt, "no owner", topic.Owner, "")
	eq(tt, "p2p access", topic.Access, t.DefaultAccess{})

	// Second creation fails on the topic row and changes nothing.
	before := Snapshot()
	s1, s2 = mk()
	s1.Private = "changed"
	if err = store.Topics.CreateP2P(s1, s2); err == nil {
		tt.Fatal("duplicate p2p topic must fail")
	}
	eq(tt, "unchanged", Snapshot(), before)

	// Public values are swapped.
	usubs, err := adp.UsersForTopic(name, false, nil)
	must(tt, err)
	eq(tt, "two", len(usubs), 2)
	eq(tt, "alice sees bob", usubs[0].GetPublic(), map[string]any{"fn": "bob"})
	eq(tt, "bob sees alice", usubs[1].GetPublic(), map[string]any{"fn": "alice"})

	// Quirk of the SQL adapters kept on purpose: the one-user filter of p2p
	// topics compares ObjHeader.Uid() (always zero here) and drops everything.
	usubs, _ = adp.UsersForTopic(name, false, &t.QueryOpt{User: alice.Uid()})
	eq(tt, "p2p one user", len(usubs), 0)

	tsubs, err := adp.TopicsForUser(alice.Uid(), false, nil)
	must(tt, err)
	eq(tt, "one", len(tsubs), 1)
	eq(tt, "with", tsubs[0].GetWith(), bob.Uid().UserId())
	eq(tt, "other's public", tsubs[0].GetPublic(), map[string]any{"fn": "bob"})
	eq(tt, "default access", *tsubs[0].GetDefaultAccess(), t.DefaultAccess{Auth: t.ModeCAuth, Anon: t.ModeNone})

	// Soft-deleted user: topic disabled, both subscriptions deleted.
	must(tt, store.Users.Delete(bob.Uid(), false))
	if u, _ := adp.UserGet(bob.Uid()); u != nil {
		tt.Fatal("deleted user must not be returned")
	}
	topic, _ = adp.TopicGet(name)
	eq(tt, "p2p disabled", topic.State, t.StateDeleted)
	sub, _ := adp.SubscriptionGet(name, alice.Uid(), false)
	if sub != nil {
		tt.Fatal("other side must be unsubscribed")
	}
	tsubs, _ = adp.TopicsForUser(alice.Uid(), false, nil)
	eq(tt, "no topics", len(tsubs), 0)
	tsubs, _ = adp.TopicsForUser(alice.Uid(), true, nil)
	eq(tt, "deleted kept", len(tsubs), 1)
	eq(tt, "state", tsubs[0].GetState(), t.StateDeleted)
}

func TestMessages(tt *testing.T) {
	adp := setup(tt)
	alice := newUser(tt, "alice")
	bob := newUser(tt, "bob")
	carol := newUser(tt, "carol")
	newGroup(tt, "grpMsg", alice.Uid())
	share(tt, "grpMsg", bob.Uid(), nil)
	share(tt, "grpMsg", carol.Uid(), nil)

	ResetCallLog()
	for i := 1; i <= 10; i++ {
		msg := save(tt, "grpMsg", alice.Uid(), i, map[string]any{"txt": i})
		eq(tt, "db id", msg.Id, t.Uid(i).String())
	}
	eq(tt, "call order", CallLog()[:3], []string{"TopicUpdateOnMessage", "MessageSave", "SubsUpdate"})
	topic, _ := adp.TopicGet("grpMsg")
	eq(tt, "seq", topic.SeqId, 10)
	sub, _ := adp.SubscriptionGet("grpMsg", alice.Uid(), false)
	eq(tt, "read by sender", sub.ReadSeqId, 10)

	// Duplicate (topic, seqid): generic error, not ErrDuplicate.
	err := adp.MessageSave(&t.Message{SeqId: 3, Topic: "grpMsg", From: alice.Id})
	if err == nil || err == t.ErrDuplicate {
		tt.Fatalf("duplicate message: %v", err)
	}
	// Missing topic: foreign key.
	if err = adp.MessageSave(&t.Message{SeqId: 1, Topic: "grpNone", From: alice.Id}); err == nil {
		tt.Fatal("message to a missing topic must fail")
	}

	msgs, err := adp.MessageGetAll("grpMsg", bob.Uid(), nil)
	must(tt, err)
	eq(tt, "all desc", seqs(msgs), []int{10, 9, 8, 7, 6, 5, 4, 3, 2, 1})
	eq(tt, "content", msgs[0].Content, map[string]any{"txt": float64(10)})
	eq(tt, "head", msgs[0].Head, t.MessageHeaders{"mime": "text/x-drafty"})
	eq(tt, "from", msgs[0].From, alice.Id)
	msgs, _ = adp.MessageGetAll("grpMsg", bob.Uid(), &t.QueryOpt{Since: 3, Before: 7})
	eq(tt, "since<=seq<before", seqs(msgs), []int{6, 5, 4, 3})
	msgs, _ = adp.MessageGetAll("grpMsg", bob.Uid(), &t.QueryOpt{Since: 3, Limit: 2})
	eq(tt, "limit takes newest", seqs(msgs), []int{10, 9})

	unread, err := adp.UserUnreadCount(alice.Uid(), bob.Uid(), t.Uid(55))
	must(tt, err)
	eq(tt, "unread", unread, map[t.Uid]int{alice.Uid(): 0, bob.Uid(): 10, t.Uid(55): 0})

	// Soft delete for bob: [2,4) and {6}.
	must(tt, store.Messages.DeleteList("grpMsg", 1, bob.Uid(), []t.Range{{Low: 2, Hi: 4}, {Low: 6}}))
	msgs, _ = adp.MessageGetAll("grpMsg", bob.Uid(), nil)
	eq(tt, "bob", seqs(msgs), []int{10, 9, 8, 7, 5, 4, 1})
	msgs, _ = adp.MessageGetAll("grpMsg", carol.Uid(), nil)
	eq(tt, "carol unaffected", len(msgs), 10)
	topic, _ = adp.TopicGet("grpMsg")
	eq(tt, "topic delid", topic.DelId, 1)
	sub, _ = adp.SubscriptionGet("grpMsg", bob.Uid(), false)
	eq(tt, "bob delid", sub.DelId, 1)
	sub, _ = adp.SubscriptionGet("grpMsg", carol.Uid(), false)
	eq(tt, "carol delid", sub.DelId, 0)

	// Hard delete [5,8): content erased, hidden from everyone.
	must(tt, store.Messages.DeleteList("grpMsg", 2, t.ZeroUid, []t.Range{{Low: 5, Hi: 8}}))
	msgs, _ = adp.MessageGetAll("grpMsg", carol.Uid(), nil)
	eq(tt, "carol after hard", seqs(msgs), []int{10, 9, 8, 4, 3, 2, 1})
	msgs, _ = adp.MessageGetAll("grpMsg", bob.Uid(), nil)
	eq(tt, "bob after hard", seqs(msgs), []int{10, 9, 8, 4, 1})
	snap := SnapshotTopic("grpMsg")
	if !strings.Contains(snap, "seq=6 from="+alice.Id+" delid=2 deleted=true head=null content=null") {
		tt.Fatalf("hard-deleted message must be erased:\n%s", snap)
	}
	sub, _ = adp.SubscriptionGet("grpMsg", carol.Uid(), false)
	eq(tt, "all subs get delid", sub.DelId, 2)

	// Hard delete again with an overlapping list: already deleted messages keep delid=2.
	must(tt, store.Messages.DeleteList("grpMsg", 3, t.ZeroUid, []t.Range{{Low: 7, Hi: 9}, {Low: 10}}))
	snap = SnapshotTopic("grpMsg")
	for _, want := range []string{"seq=7 from=" + alice.Id + " delid=2", "seq=8 from=" + alice.Id + " delid=3", "seq=10 from=" + alice.Id + " delid=3"} {
		if !strings.Contains(snap, want) {
			tt.Fatalf("missing %q in\n%s", want, snap)
		}
	}

	// Deletion log.
	dels, err := adp.MessageGetDeleted("grpMsg", bob.Uid(), nil)
	must(tt, err)
	eq(tt, "bob dellog", len(dels), 3)
	eq(tt, "del 1", dels[0].SeqIdRanges, []t.Range{{Low: 2, Hi: 4}, {Low: 6}})
	eq(tt, "del 1 for", dels[0].DeletedFor, bob.Id)
	eq(tt, "del 2", dels[1].SeqIdRanges, []t.Range{{Low: 5, Hi: 8}})
	eq(tt, "del 2 for", dels[1].DeletedFor, "")
	eq(tt, "del 3", dels[2].SeqIdRanges, []t.Range{{Low: 7, Hi: 9}, {Low: 10}})
	dels, _ = adp.MessageGetDeleted("grpMsg", carol.Uid(), nil)
	eq(tt, "carol dellog: hard only", len(dels), 2)
	dels, _ = adp.MessageGetDeleted("grpMsg", bob.Uid(), &t.QueryOpt{Since: 2, Before: 3})
	eq(tt, "delid range", len(dels), 1)
	eq(tt, "delid 2", dels[0].DelId, 2)
	dels, _ = adp.MessageGetDeleted("grpMsg", bob.Uid(), &t.QueryOpt{Limit: 1})
	eq(tt, "limit counts ranges", dels[0].SeqIdRanges, []t.Range{{Low: 2, Hi: 4}})
	ranges, maxID, err := store.Messages.GetDeleted("grpMsg", bob.Uid(), nil)
	must(tt, err)
	eq(tt, "max del id", maxID, 3)
	if len(ranges) == 0 {
		tt.Fatal("no ranges")
	}
	if !strings.Contains(snap, "dellog topic=grpMsg for="+bob.Id+" delid=1 low=6 hi=7") {
		tt.Fatalf("single id is stored as [low, low+1):\n%s", snap)
	}

	// Unsubscribing removes the user's soft-deletion records.
	must(tt, store.Subs.Delete("grpMsg", bob.Uid()))
	dels, _ = adp.MessageGetDeleted("grpMsg", bob.Uid(), nil)
	eq(tt, "bob dellog after unsub", len(dels), 2)

	// Delete everything (topic deletion path).
	must(tt, adp.MessageDeleteList("grpMsg", nil))
	msgs, _ = adp.MessageGetAll("grpMsg", carol.Uid(), nil)
	eq(tt, "no messages", len(msgs), 0)
	dels, _ = adp.MessageGetDeleted("grpMsg", carol.Uid(), nil)
	eq(tt, "no dellog", len(dels), 0)
}

func TestFiles(tt *testing.T) {
	adp := setup(tt)
	alice := newUser(tt, "alice")
	newGroup(tt, "grpFiles", alice.Uid())

	mkFile := func(loc string) *t.FileDef {
		fd := &t.FileDef{User: alice.Id, MimeType: "image/png", Location: loc}
		fd.SetUid(store.Store.GetUid())
		fd.InitTimes()
		must(tt, store.Files.StartUpload(fd))
		_, err := store.Files.FinishUpload(fd, true, 100)
		must(tt, err)
		return fd
	}
	f1, f2, f3 := mkFile("/f1"), mkFile("/f2"), mkFile("/f3")
	got, err := adp.FileGet(f1.Id)
	must(tt, err)
	eq(tt, "status", got.Status, t.UploadCompleted)
	eq(tt, "size", got.Size, int64(100))
	eq(tt, "user", got.User, alice.Id)
	if _, err = adp.FileGet("bad"); err != t.ErrMalformed {
		tt.Fatalf("bad id: %v", err)
	}

	// Failed upload removes the record.
	f4 := &t.FileDef{User: alice.Id, Location: "/f4"}
	f4.SetUid(store.Store.GetUid())
	f4.InitTimes()
	must(tt, store.Files.StartUpload(f4))
	_, err = store.Files.FinishUpload(f4, false, 0)
	must(tt, err)
	if got, _ = adp.FileGet(f4.Id); got != nil {
		tt.Fatal("failed upload must be deleted")
	}

	msg := save(tt, "grpFiles", alice.Uid(), 1, "with attachment")
	must(tt, adp.FileLinkAttachments("", t.ZeroUid, msg.Uid(), []string{f1.Id}))
	// Topic avatar: one link; a new one replaces the old one.
	must(tt, adp.FileLinkAttachments("grpFiles", t.ZeroUid, t.ZeroUid, []string{f2.Id, f3.Id}))
	locs, err := adp.FileDeleteUnused(time.Time{}, 0)
	must(tt, err)
	eq(tt, "f3 unused (only first id is linked)", locs, []string{"/f3"})
	f3 = mkFile("/f3b")
	must(tt, adp.FileLinkAttachments("grpFiles", t.ZeroUid, t.ZeroUid, []string{f3.Id}))
	locs, _ = adp.FileDeleteUnused(time.Time{}, 0)
	eq(tt, "f2 replaced", locs, []string{"/f2"})
	// User avatar.
	f5 := mkFile("/f5")
	must(tt, adp.FileLinkAttachments("", alice.Uid(), t.ZeroUid, []string{f5.Id}))
	// Link to a missing file / message: foreign key error, nothing changes.
	before := Snapshot()
	if err = adp.FileLinkAttachments("grpFiles", t.ZeroUid, t.ZeroUid, []string{t.Uid(99).String()}); err == nil {
		tt.Fatal("missing file")
	}
	if err = adp.FileLinkAttachments("", t.ZeroUid, t.Uid(99), []string{f1.Id}); err == nil {
		tt.Fatal("missing message")
	}
	eq(tt, "unchanged", Snapshot(), before)
	eq(tt, "malformed", adp.FileLinkAttachments("", t.ZeroUid, t.ZeroUid, []string{f1.Id}), error(t.ErrMalformed))

	// Age filter.
	locs, _ = adp.FileDeleteUnused(t.TimeNow().Add(-time.Hour), 0)
	eq(tt, "nothing old", len(locs), 0)

	// Hard-deleting the message unlinks the attachment.
	must(tt, store.Messages.DeleteList("grpFiles", 1, t.ZeroUid, []t.Range{{Low: 1}}))
	locs, _ = adp.FileDeleteUnused(time.Time{}, 5)
	eq(tt, "f1 unused", locs, []string{"/f1"})
	// Deleting the topic unlinks the avatar.
	must(tt, store.Topics.Delete("grpFiles", false, true))
	locs, _ = adp.FileDeleteUnused(time.Time{}, 5)
	eq(tt, "f3b unused", locs, []string{"/f3b"})
	// Deleting the user unlinks the avatar.
	must(tt, store.Users.Delete(alice.Uid(), true))
	locs, _ = adp.FileDeleteUnused(time.Time{}, 5)
	eq(tt, "f5 unused", locs, []string{"/f5"})
}

func TestUserDeleteHard(tt *testing.T) {
	adp := setup(tt)
	alice := newUser(tt, "alice", "alice")
	bob := newUser(tt, "bob")
	newGroup(tt, "grpA", alice.Uid(), "ta")
	newGroup(tt, "grpB", bob.Uid())
	share(tt, "grpA", bob.Uid(), nil)
	share(tt, "grpB", alice.Uid(), nil)
	save(tt, "grpA", bob.Uid(), 1, "a")
	save(tt, "grpB", alice.Uid(), 1, "b")
	must(tt, store.Messages.DeleteList("grpB", 1, alice.Uid(), []t.Range{{Low: 1}}))
	must(tt, store.Users.AddAuthRecord(alice.Uid(), auth.LevelAuth, "basic", "alice", []byte("x"), time.Time{}))
	must(tt, store.Devices.Update(alice.Uid(), "", &t.DeviceDef{DeviceId: "dev1", Platform: "ios", LastSeen: t.TimeNow()}))
	devs, n, err := adp.DeviceGetAll(alice.Uid())
	must(tt, err)
	eq(tt, "devices", n, 1)
	eq(tt, "device", devs[alice.Uid()][0].DeviceId, "dev1")

	must(tt, store.Users.Delete(alice.Uid(), true))
	snap := Snapshot()
	if strings.Contains(snap, alice.Id) {
		// Messages sent by alice to other topics stay.
		for _, line := range strings.Split(snap, "\n") {
			if strings.Contains(line, alice.Id) && !strings.HasPrefix(line, "msg topic=grpB") {
				tt.Fatalf("leftover: %s", line)
			}
		}
	}
	if strings.Contains(snap, "grpA") {
		tt.Fatalf("owned topic must be gone:\n%s", snap)
	}
	if tp, _ := adp.TopicGet("grpB"); tp == nil {
		tt.Fatal("other topic must stay")
	}
	eq(tt, "device delete", adp.DeviceDelete(alice.Uid(), "dev1"), error(t.ErrNotFound))
	// Deleting a missing user is not an error.
	must(tt, adp.UserDelete(t.Uid(1), true))
}

func TestFindUsers(tt *testing.T) {
	adp := setup(tt)
	alice := newUser(tt, "alice", "a", "b", "c")
	bob := newUser(tt, "bob", "a", "b")
	carol := newUser(tt, "carol", "a")
	dave := newUser(tt, "dave", "z")
	_ = dave
	subs, err := adp.FindUsers(carol.Uid(), [][]string{{"a"}}, []string{"b", "c"}, true)
	must(tt, err)
	eq(tt, "ranked, caller skipped", []string{subs[0].User, subs[1].User}, []string{alice.Id, bob.Id})
	eq(tt, "matched tags", subs[0].Private, []string{"a", "b", "c"})
	eq(tt, "public", subs[1].GetPublic(), map[string]any{"fn": "bob"})
	must(tt, store.Users.UpdateState(bob.Uid(), t.StateSuspended))
	subs, _ = adp.FindUsers(carol.Uid(), [][]string{{"a"}}, nil, true)
	eq(tt, "active only", len(subs), 1)
	subs, _ = adp.FindUsers(carol.Uid(), [][]string{{"a"}}, nil, false)
	eq(tt, "any state", len(subs), 2)
	all, err := store.Users.FindSubs(carol.Uid(), [][]string{{"a"}}, nil, false)
	must(tt, err)
	eq(tt, "mapper", len(all), 2)
}

func TestPCache(tt *testing.T) {
	adp := setup(tt)
	_, err := adp.PCacheGet("k1")
	eq(tt, "missing", err, error(t.ErrNotFound))
	must(tt, adp.PCacheUpsert("k1", "v1", true))
	eq(tt, "dup", adp.PCacheUpsert("k1", "v2", true), error(t.ErrDuplicate))
	must(tt, adp.PCacheUpsert("k1", "v3", false))
	v, _ := adp.PCacheGet("k1")
	eq(tt, "replaced", v, "v3")
	eq(tt, "percent", adp.PCacheUpsert("k%", "v", false), error(t.ErrMalformed))
	must(tt, adp.PCacheUpsert("other", "v", false))
	eq(tt, "empty prefix", adp.PCacheExpire("", t.TimeNow()), error(t.ErrMalformed))
	must(tt, adp.PCacheExpire("k", t.TimeNow().Add(time.Hour)))
	_, err = adp.PCacheGet("k1")
	eq(tt, "expired", err, error(t.ErrNotFound))
	_, err = adp.PCacheGet("other")
	must(tt, err)
	must(tt, adp.PCacheDelete("other"))
	must(tt, adp.PCacheDelete("other"))
}

func TestFaults(tt *testing.T) {
	adp := setup(tt)
	alice := newUser(tt, "alice")
	newGroup(tt, "grpF", alice.Uid())
	before := Snapshot()

	ResetCallLog()
	SetFault(2, false)
	msg := &t.Message{SeqId: 1, Topic: "grpF", From: alice.Id, Content: "x"}
	err, _ := store.Messages.Save(msg, nil, true)
	eq(tt, "injected", err, ErrInjected)
	eq(tt, "log", CallLog(), []string{"TopicUpdateOnMessage", "MessageSave!fail"})
	// The first call took effect, the failed one did not.
	topic, _ := adp.TopicGet("grpF")
	eq(tt, "seq advanced", topic.SeqId, 1)
	msgs, _ := adp.MessageGetAll("grpF", alice.Uid(), nil)
	eq(tt, "no message", len(msgs), 0)
	// One-shot: the next calls work.
	err, _ = store.Messages.Save(msg, nil, true)
	must(tt, err)

	// Crash: every call fails until ClearFault.
	SetFault(1, true)
	_, err = adp.TopicGet("grpF")
	eq(tt, "crash 1", err, ErrInjected)
	_, err = adp.UserGet(alice.Uid())
	eq(tt, "crash 2", err, ErrInjected)
	counts, err := adp.UserUnreadCount(alice.Uid())
	eq(tt, "crash 3", err, ErrInjected)
	eq(tt, "counts are still returned", counts, map[t.Uid]int{alice.Uid(): 0})
	ClearFault()
	_, err = adp.TopicGet("grpF")
	must(tt, err)

	Reset()
	eq(tt, "log cleared", len(CallLog()), 0)
	if Snapshot() == before {
		tt.Fatal("reset must drop data")
	}
}

// scenario runs a fixed script with fixed ids directly against the adapter.
func scenario(tb testing.TB, adp dbif.Adapter) {
	ts := time.Date(2024, 1, 2, 3, 4, 5, 0, time.UTC)
	for i := 1; i <= 5; i++ {
		u := &t.User{Public: map[string]any{"z": i, "a": []int{i}}, Tags: []string{"u" + itoa(i)}}
		u.SetUid(t.Uid(1000 + i))
		u.CreatedAt, u.UpdatedAt = ts, ts
		must(tb, adp.UserCreate(u))
	}
	for _, name := range []string{"grpB", "grpA"} {
		tp := &t.Topic{ObjHeader: t.ObjHeader{Id: name, CreatedAt: ts, UpdatedAt: ts}, TouchedAt: ts,
			Owner: t.Uid(1001).String(), Tags: []string{"x", "y"}}
		must(tb, adp.TopicCreate(tp))
		var subs []*t.Subscription
		for i := 5; i >= 1; i-- {
			subs = append(subs, &t.Subscription{ObjHeader: t.ObjHeader{CreatedAt: ts, UpdatedAt: ts},
				User: t.Uid(1000 + i).String(), Topic: name, ModeWant: t.ModeCPublic, ModeGiven: t.ModeCPublic,
				Private: map[string]any{"k": i}})
		}
		must(tb, adp.TopicShare(subs))
		for seq := 1; seq <= 20; seq++ {
			must(tb, adp.MessageSave(&t.Message{ObjHeader: t.ObjHeader{CreatedAt: ts, UpdatedAt: ts},
				SeqId: seq, Topic: name, From: t.Uid(1002).String(), Content: seq}))
		}
		must(tb, adp.MessageDeleteList(name, &t.DelMessage{Topic: name, DelId: 1, DeletedFor: t.Uid(1003).String(),
			SeqIdRanges: []t.Range{{Low: 3, Hi: 6}, {Low: 9}}}))
		must(tb, adp.MessageDeleteList(name, &t.DelMessage{Topic: name, DelId: 2,
			SeqIdRanges: []t.Range{{Low: 10, Hi: 12}}}))
		must(tb, adp.SubsDelete(name, t.Uid(1004)))
	}
	must(tb, adp.PCacheUpsert("b", "1", false))
	must(tb, adp.PCacheUpsert("a", "2", false))
}

func TestSnapshotDeterminism(tt *testing.T) {
	adp := setup(tt)
	scenario(tt, adp)
	s1 := Snapshot()
	eq(tt, "same state, same dump", Snapshot(), s1)
	Reset()
	scenario(tt, adp)
	eq(tt, "same script, same dump", Snapshot(), s1)
	if strings.Contains(s1, "2024") {
		tt.Fatal("no timestamps in the dump")
	}
	a := SnapshotTopic("grpA")
	if strings.Contains(a, "grpB") || !strings.Contains(a, "topic name=grpA") ||
		strings.Count(a, "\nsub ") != 5 || strings.Count(a, "\nmsg ") != 20 || strings.Count(a, "\ndellog ") != 3 {
		tt.Fatalf("topic dump:\n%s", a)
	}
	// Lines of the topic dump are lines of the full dump.
	for _, line := range strings.Split(a, "\n") {
		if line != "" && !strings.HasPrefix(line, "[") && !strings.Contains(s1, line+"\n") {
			tt.Fatalf("line %q is not in the full dump", line)
		}
	}
}

func TestConcurrency(tt *testing.T) {
	adp := setup(tt)
	alice := newUser(tt, "alice")
	newGroup(tt, "grpC", alice.Uid())
	var wg sync.WaitGroup
	for g := 0; g < 8; g++ {
		wg.Add(1)
		go func(g int) {
			defer wg.Done()
			for i := 0; i < 50; i++ {
				seq := g*50 + i + 1
				adp.MessageSave(&t.Message{SeqId: seq, Topic: "grpC", From: alice.Id, Content: seq})
				adp.MessageGetAll("grpC", alice.Uid(), &t.QueryOpt{Limit: 5})
				Snapshot()
				CallLog()
			}
		}(g)
	}
	wg.Wait()
	eq(tt, "all saved", strings.Count(SnapshotTopic("grpC"), "\nmsg "), 400)
}

func TestTopicsForUserPaging(tt *testing.T) {
	adp := setup(tt)
	alice := newUser(tt, "alice")
	bob := newUser(tt, "bob")
	base := t.TimeNow().Add(-time.Hour)
	for i, name := range []string{"grpP1", "grpP2", "grpP3"} {
		ts := base.Add(time.Duration(i) * time.Minute)
		topic := &t.Topic{ObjHeader: t.ObjHeader{Id: name, CreatedAt: ts}, Public: name}
		topic.GiveAccess(alice.Uid(), t.ModeCFull, t.ModeCFull)
		must(tt, store.Topics.Create(topic, alice.Uid(), nil))
		must(tt, store.Subs.Create(&t.Subscription{ObjHeader: t.ObjHeader{CreatedAt: ts}, User: bob.Id, Topic: name,
			ModeWant: t.ModeCPublic, ModeGiven: t.ModeCPublic}))
	}
	// Channel subscription is joined with the group topic.
	must(tt, adp.TopicUpdate("grpP3", map[string]any{"UseBt": true}))
	carol := newUser(tt, "carol")
	must(tt, store.Subs.Create(&t.Subscription{User: carol.Id, Topic: "chnP3",
		ModeWant: t.ModeCChnReader, ModeGiven: t.ModeCChnReader}))
	subs, err := adp.TopicsForUser(carol.Uid(), false, nil)
	must(tt, err)
	eq(tt, "channel", len(subs), 1)
	eq(tt, "channel name kept", subs[0].Topic, "chnP3")
	eq(tt, "channel public", subs[0].GetPublic(), "grpP3")
	chans, _ := adp.ChannelsForUser(carol.Uid())
	eq(tt, "channels", chans, []string{"chnP3"})
	unread, _ := adp.UserUnreadCount(carol.Uid())
	eq(tt, "channel subscriptions are not counted", unread[carol.Uid()], 0)

	names := func(subs []t.Subscription) []string {
		var out []string
		for _, s := range subs {
			out = append(out, s.Topic)
		}
		return out
	}
	subs, _ = adp.TopicsForUser(bob.Uid(), false, nil)
	eq(tt, "all", names(subs), []string{"grpP1", "grpP2", "grpP3"})
	subs, _ = adp.TopicsForUser(bob.Uid(), false, &t.QueryOpt{Limit: 2})
	eq(tt, "limit: raw rows incl. me/fnd", names(subs), []string(nil))
	subs, _ = adp.TopicsForUser(bob.Uid(), false, &t.QueryOpt{Topic: "grpP2"})
	eq(tt, "one topic", names(subs), []string{"grpP2"})

	// A message touches grpP1: it becomes the most recently modified.
	save(tt, "grpP1", alice.Uid(), 1, "x")
	ims := base.Add(90 * time.Second)
	subs, _ = adp.TopicsForUser(bob.Uid(), false, &t.QueryOpt{IfModifiedSince: &ims})
	eq(tt, "modified since, oldest first", names(subs), []string{"grpP3", "grpP1"})
	eq(tt, "seq joined", subs[1].GetSeqId(), 1)
	subs, _ = adp.TopicsForUser(bob.Uid(), false, &t.QueryOpt{IfModifiedSince: &ims, Limit: 1})
	eq(tt, "modified since with limit", names(subs), []string{"grpP3"})

	// Deleted topic: subscription rows are soft-deleted with it.
	must(tt, store.Topics.Delete("grpP3", true, false))
	subs, _ = adp.TopicsForUser(bob.Uid(), false, nil)
	eq(tt, "without deleted", names(subs), []string{"grpP1", "grpP2"})
	subs, _ = adp.TopicsForUser(carol.Uid(), true, nil)
	eq(tt, "channel row deleted with the topic", subs[0].DeletedAt != nil, true)
}

func TestMalformedDeletes(tt *testing.T) {
	adp := setup(tt)
	alice := newUser(tt, "alice")
	newGroup(tt, "grpD", alice.Uid())
	for i := 1; i <= 5; i++ {
		save(tt, "grpD", alice.Uid(), i, i)
	}
	before := Snapshot()
	for _, ranges := range [][]t.Range{
		nil,
		{{Low: 5, Hi: 3}, {Low: 1}},
		{{Low: 4, Hi: 2}, {Low: 1, Hi: 4}},
	} {
		err := adp.MessageDeleteList("grpD", &t.DelMessage{Topic: "grpD", DelId: 1, SeqIdRanges: ranges})
		if err == nil {
			tt.Fatalf("malformed hard delete %v must fail", ranges)
		}
		eq(tt, "no effect", Snapshot(), before)
	}
	// Single inverted range: BETWEEN matches nothing, the log row is still written.
	must(tt, adp.MessageDeleteList("grpD", &t.DelMessage{Topic: "grpD", DelId: 1, SeqIdRanges: []t.Range{{Low: 5, Hi: 3}}}))
	msgs, _ := adp.MessageGetAll("grpD", alice.Uid(), nil)
	eq(tt, "nothing deleted", len(msgs), 5)
	if !strings.Contains(SnapshotTopic("grpD"), "delid=1 low=5 hi=3") {
		tt.Fatal("log row expected")
	}
	// Dellog of a missing topic: foreign key.
	if err := adp.MessageDeleteList("grpNone", &t.DelMessage{DelId: 1, DeletedFor: alice.Id, SeqIdRanges: []t.Range{{Low: 1}}}); err == nil {
		tt.Fatal("foreign key error expected")
	}
}
