//go:build verif

package memverif

import (
	"time"

	"github.com/tinode/chat/server/db/common"
	t "github.com/tinode/chat/server/store/types"
)

// ---------------------------------------------------------------------------
// Topics.

// topicCreate inserts the topics row and the topic's tags.
func (a *adapter) topicCreate(topic *t.Topic) error {
	access, err := driverValue(topic.Access)
	if err != nil {
		return err
	}
	tags, err := driverValue(topic.Tags)
	if err != nil {
		return err
	}
	id := a.nextID("topics")
	if _, ok := a.db.topics[topic.Id]; ok {
		return errDupEntry("topics.topics_name", topic.Id)
	}
	accessJSON, _ := access.([]byte)
	tagsJSON, _ := tags.([]byte)
	ins(a, a.db.topics, topic.Id, &topicRow{
		rid:       id,
		createdAt: dt3(topic.CreatedAt),
		updatedAt: dt3(topic.UpdatedAt),
		touchedAt: timePtr(dt3(topic.TouchedAt)),
		state:     topic.State,
		name:      topic.Id,
		useBt:     topic.UseBt,
		owner:     t.ParseUid(topic.Owner),
		access:    accessJSON,
		public:    toJSON(topic.Public),
		trusted:   toJSON(topic.Trusted),
		tags:      tagsJSON,
	})

	// Save topic's tags to a separate table to make topic findable.
	return a.addTags(t.ZeroUid, topic.Id, topic.Tags, false)
}

// TopicCreate saves topic object to database.
func (a *adapter) TopicCreate(topic *t.Topic) (err error) {
	if err = a.begin("TopicCreate"); err != nil {
		return err
	}
	defer a.end(&err)

	return a.topicCreate(topic)
}

// createSubscription is createSubscription of the MySQL adapter:
// INSERT, and when the (topic, userid) row exists - soft-deleted or not - an
// UPDATE which resets createdat, updatedat, deletedat=NULL, modeWant,
// modeGiven, delid=0, recvseqid=0, readseqid=0 and, only if undelete is
// FALSE, also private.
func (a *adapter) createSubscription(sub *t.Subscription, undelete bool) error {
	isOwner := (sub.ModeGiven & sub.ModeWant).IsOwner()

	jpriv := toJSON(sub.Private)
	uid := t.ParseUid(sub.User)
	key := subKey{sub.Topic, uid}

	id := a.nextID("subscriptions")
	if row, ok := a.db.subs[key]; ok {
		mod(a, row)
		row.createdAt = dt3(sub.CreatedAt)
		row.updatedAt = dt3(sub.UpdatedAt)
		row.deletedAt = nil
		row.modeWant = sub.ModeWant.String()
		row.modeGiven = sub.ModeGiven.String()
		row.delID = 0
		row.recvSeqID = 0
		row.readSeqID = 0
		if !undelete {
			row.private = jpriv
		}
	} else {
		if _, ok := a.db.users[uid]; !ok {
			return errForeignKey("subscriptions", "userid")
		}
		ins(a, a.db.subs, key, &subRow{
			rid:       id,
			createdAt: dt3(sub.CreatedAt),
			updatedAt: dt3(sub.UpdatedAt),
			uid:       uid,
			topic:     sub.Topic,
			modeWant:  sub.ModeWant.String(),
			modeGiven: sub.ModeGiven.String(),
			private:   jpriv,
		})
	}
	if isOwner {
		if tr, ok := a.db.topics[sub.Topic]; ok {
			mod(a, tr)
			tr.owner = uid
		}
	}
	return nil
}

// TopicCreateP2P given two users creates a p2p topic
func (a *adapter) TopicCreateP2P(initiator, invited *t.Subscription) (err error) {
	if err = a.begin("TopicCreateP2P"); err != nil {
		return err
	}
	defer a.end(&err)

	if err = a.createSubscription(initiator, false); err != nil {
		return err
	}

	if err = a.createSubscription(invited, true); err != nil {
		return err
	}

	topic := &t.Topic{ObjHeader: t.ObjHeader{Id: initiator.Topic}}
	topic.ObjHeader.MergeTimes(&initiator.ObjHeader)
	topic.TouchedAt = initiator.GetTouchedAt()
	return a.topicCreate(topic)
}

// scanTopic is a StructScan of the topics row into t.Topic (all columns
// except owner, which the callers handle).
func scanTopic(r *topicRow, tt *t.Topic) error {
	tt.CreatedAt = r.createdAt
	tt.UpdatedAt = r.updatedAt
	tt.State = r.state
	tt.StateAt = cloneTimePtr(r.stateAt)
	if r.touchedAt == nil {
		return errSQL(0, "sql: Scan error on column 'touchedat': converting NULL to time.Time is unsupported")
	}
	tt.TouchedAt = *r.touchedAt
	tt.Id = r.name
	tt.UseBt = r.useBt
	if r.access == nil {
		return errSQL(0, "sql: Scan error on column 'access': NULL")
	}
	if err := tt.Access.Scan(cloneBytes(r.access)); err != nil {
		return err
	}
	tt.SeqId = r.seqID
	tt.DelId = r.delID
	tt.Public = anyBytes(r.public)
	tt.Trusted = anyBytes(r.trusted)
	return tt.Tags.Scan(anyBytes(r.tags))
}

// rawJSON is fromJSON of the MySQL adapter applied to a scanned `any`.
func rawJSON(src any) any {
	if bb, ok := src.([]byte); ok {
		return fromJSON(bb)
	}
	return nil
}

// TopicGet loads a single topic by name, if it exists. If the topic does not exist the call returns (nil, nil)
func (a *adapter) TopicGet(topic string) (_ *t.Topic, err error) {
	if err = a.begin("TopicGet"); err != nil {
		return nil, err
	}
	defer a.end(&err)

	r, ok := a.db.topics[topic]
	if !ok {
		return nil, nil
	}
	var tt = new(t.Topic)
	if err = scanTopic(r, tt); err != nil {
		return nil, err
	}
	tt.Owner = r.owner.String()
	tt.Public = rawJSON(tt.Public)
	tt.Trusted = rawJSON(tt.Trusted)
	return tt, nil
}

// scanSubCommon assigns the columns selected by all subscription queries.
// dst may hold values of a previously scanned row, like the reused variables
// of the MySQL adapter: an empty mode column leaves the previous mode.
func scanSubCommon(r *subRow, dst *t.Subscription) error {
	dst.CreatedAt = r.createdAt
	dst.UpdatedAt = r.updatedAt
	dst.DeletedAt = cloneTimePtr(r.deletedAt)
	dst.Topic = r.topic
	dst.DelId = r.delID
	dst.RecvSeqId = r.recvSeqID
	dst.ReadSeqId = r.readSeqID
	if err := scanMode(&dst.ModeWant, r.modeWant); err != nil {
		return err
	}
	return scanMode(&dst.ModeGiven, r.modeGiven)
}

// TopicsForUser loads user's contact list: p2p and grp topics, except for 'me' & 'fnd' subscriptions.
// Reads and denormalizes Public value.
func (a *adapter) TopicsForUser(uid t.Uid, keepDeleted bool, opts *t.QueryOpt) (_ []t.Subscription, err error) {
	if err = a.begin("TopicsForUser"); err != nil {
		return nil, err
	}
	defer a.end(&err)

	// Fetch ALL user's subscriptions, even those which has not been modified recently.
	// We are going to use these subscriptions to fetch topics and users which may have been modified recently.
	limit := 0
	ims := time.Time{}
	oneTopic := ""
	if opts != nil {
		oneTopic = opts.Topic

		// Apply the limit only when the client does not manage the cache (or cold start).
		// Otherwise have to get all subscriptions and do a manual join with users/topics.
		if opts.IfModifiedSince == nil {
			if opts.Limit > 0 && opts.Limit < a.maxResults {
				limit = opts.Limit
			} else {
				limit = a.maxResults
			}
		} else {
			ims = *opts.IfModifiedSince
		}
	} else {
		limit = a.maxResults
	}

	rows := sorted(a.db.subs,
		func(s *subRow) bool {
			return s.uid == uid && (keepDeleted || s.deletedAt == nil) && (oneTopic == "" || s.topic == oneTopic)
		},
		func(x, y *subRow) bool { return x.rid < y.rid })
	if limit > 0 && len(rows) > limit {
		rows = rows[:limit]
	}

	// Fetch subscriptions. Two queries are needed: users table (p2p) and topics table (grp).
	// Prepare a list of separate subscriptions to users vs topics
	join := make(map[string]t.Subscription) // Keeping these to make a join with table for .private and .access
	var order []string                      // keys of join in order of first appearance (deterministic output)
	topq := make([]string, 0, 16)
	usrq := make([]t.Uid, 0, 16)
	for _, r := range rows {
		var sub t.Subscription
		if err = scanSubCommon(r, &sub); err != nil {
			return nil, err
		}
		tname := sub.Topic
		sub.User = uid.String()
		tcat := t.GetTopicCat(tname)

		if tcat == t.TopicCatMe || tcat == t.TopicCatFnd {
			// One of 'me', 'fnd' subscriptions, skip. Don't skip 'sys' subscription.
			continue
		} else if tcat == t.TopicCatP2P {
			// P2P subscription, find the other user to get user.Public and user.Trusted.
			uid1, uid2, _ := t.ParseP2P(tname)
			if uid1 == uid {
				usrq = append(usrq, uid2)
				sub.SetWith(uid2.UserId())
			} else {
				usrq = append(usrq, uid1)
				sub.SetWith(uid1.UserId())
			}
			topq = append(topq, tname)
		} else {
			// Group or 'sys' subscription.
			if tcat == t.TopicCatGrp {
				// Maybe convert channel name to topic name.
				tname = t.ChnToGrp(tname)
			}
			topq = append(topq, tname)
		}
		sub.Private = fromJSON(r.private)
		if _, ok := join[tname]; !ok {
			order = append(order, tname)
		}
		join[tname] = sub
	}

	var subs []t.Subscription
	if len(join) == 0 {
		return subs, nil
	}

	// Fetch grp topics and join to subscriptions.
	if len(topq) > 0 {
		inq := map[string]bool{}
		for _, name := range topq {
			inq[name] = true
		}
		trows := sorted(a.db.topics,
			func(r *topicRow) bool {
				if !inq[r.name] {
					return false
				}
				if !keepDeleted && r.state == t.StateDeleted {
					// Optionally skip deleted topics.
					return false
				}
				if !ims.IsZero() {
					// Use cache timestamp if provided: get newer entries only.
					if r.touchedAt == nil || !r.touchedAt.After(ims) {
						return false
					}
				}
				return true
			},
			func(x, y *topicRow) bool {
				if !ims.IsZero() && limit > 0 && limit < len(topq) {
					// ORDER BY touchedat
					if !x.touchedAt.Equal(*y.touchedAt) {
						return x.touchedAt.Before(*y.touchedAt)
					}
				}
				return x.rid < y.rid
			})
		if !ims.IsZero() && limit > 0 && limit < len(topq) && len(trows) > limit {
			// No point in fetching more than the requested limit.
			trows = trows[:limit]
		}

		var top t.Topic
		for _, r := range trows {
			if err = scanTopic(r, &top); err != nil {
				return nil, err
			}

			sub := join[top.Id]
			// Check if sub.UpdatedAt needs to be adjusted to earlier or later time.
			sub.UpdatedAt = common.SelectLatestTime(sub.UpdatedAt, top.UpdatedAt)
			sub.SetState(top.State)
			sub.SetTouchedAt(top.TouchedAt)
			sub.SetSeqId(top.SeqId)
			if t.GetTopicCat(sub.Topic) == t.TopicCatGrp {
				sub.SetPublic(rawJSON(top.Public))
				sub.SetTrusted(rawJSON(top.Trusted))
			}
			// Put back the updated value of a subsription, will process further below
			join[top.Id] = sub
		}
	}

	// Fetch p2p users and join to p2p subscriptions.
	if len(usrq) > 0 {
		inq := map[t.Uid]bool{}
		for _, id := range usrq {
			inq[id] = true
		}
		urows := sorted(a.db.users,
			func(r *userRow) bool {
				// Optionally skip deleted users.
				return inq[r.uid] && (keepDeleted || r.state != t.StateDeleted)
			},
			func(x, y *userRow) bool { return lessUid(x.uid, y.uid) })

		// Ignoring ims: we need all users to get LastSeen and UserAgent.

		for _, r := range urows {
			var usr2 t.User
			if err = scanUser(r, &usr2); err != nil {
				return nil, err
			}

			joinOn := uid.P2PName(r.uid)
			if sub, ok := join[joinOn]; ok {
				sub.UpdatedAt = common.SelectLatestTime(sub.UpdatedAt, usr2.UpdatedAt)
				sub.SetState(usr2.State)
				sub.SetPublic(usr2.Public)
				sub.SetTrusted(usr2.Trusted)
				sub.SetDefaultAccess(usr2.Access.Auth, usr2.Access.Anon)
				sub.SetLastSeenAndUA(usr2.LastSeen, usr2.UserAgent)
				join[joinOn] = sub
			}
		}
	}

	subs = make([]t.Subscription, 0, len(join))
	for _, key := range order {
		subs = append(subs, join[key])
	}

	return common.SelectEarliestUpdatedSubs(subs, opts, a.maxResults), nil
}

// UsersForTopic loads users subscribed to the given topic.
// The difference between UsersForTopic vs SubsForTopic is that the former loads user.Public,
// the latter does not.
func (a *adapter) UsersForTopic(topic string, keepDeleted bool, opts *t.QueryOpt) (_ []t.Subscription, err error) {
	if err = a.begin("UsersForTopic"); err != nil {
		return nil, err
	}
	defer a.end(&err)

	tcat := t.GetTopicCat(topic)

	limit := a.maxResults
	var oneUser t.Uid
	filterUser := false
	if opts != nil {
		// Ignore IfModifiedSince: loading all entries because a topic cannot have too many subscribers.
		// Those unmodified will be stripped of Public & Private.

		if !opts.User.IsZero() {
			// For p2p topics we have to fetch both users otherwise public cannot be swapped.
			if tcat != t.TopicCatP2P {
				filterUser = true
			}
			oneUser = opts.User
		}
		if opts.Limit > 0 && opts.Limit < limit {
			limit = opts.Limit
		}
	}

	// Fetch all subscribed users. The number of users is not large
	rows := sorted(a.db.subs,
		func(s *subRow) bool {
			if s.topic != topic {
				return false
			}
			u, ok := a.db.users[s.uid]
			if !ok {
				// JOIN users
				return false
			}
			if !keepDeleted {
				// Filter out rows with users deleted
				if u.state == t.StateDeleted {
					return false
				}
				// For p2p topics we must load all subscriptions including deleted.
				// Otherwise it will be impossible to swipe Public values.
				if tcat != t.TopicCatP2P && s.deletedAt != nil {
					// Filter out deleted subscriptions.
					return false
				}
			}
			if filterUser && s.uid != oneUser {
				return false
			}
			return true
		},
		func(x, y *subRow) bool { return x.rid < y.rid })
	if len(rows) > limit {
		rows = rows[:limit]
	}

	// Fetch subscriptions
	var sub t.Subscription
	var subs []t.Subscription
	for _, r := range rows {
		u := a.db.users[r.uid]
		if err = scanSubCommon(r, &sub); err != nil {
			break
		}
		sub.User = r.uid.String()
		sub.Private = fromJSON(r.private)
		sub.SetPublic(fromJSON(u.public))
		sub.SetTrusted(fromJSON(u.trusted))
		var lastSeen time.Time
		if u.lastSeen != nil {
			lastSeen = *u.lastSeen
		}
		sub.SetLastSeenAndUA(&lastSeen, u.userAgent)
		subs = append(subs, sub)
	}

	if err == nil && tcat == t.TopicCatP2P && len(subs) > 0 {
		// Swap public & lastSeen values of P2P topics as expected.
		if len(subs) == 1 {
			// The other user is deleted, nothing we can do.
			subs[0].SetPublic(nil)
			subs[0].SetTrusted(nil)
			subs[0].SetLastSeenAndUA(nil, "")
		} else {
			tmp := subs[0].GetPublic()
			subs[0].SetPublic(subs[1].GetPublic())
			subs[1].SetPublic(tmp)

			tmp = subs[0].GetTrusted()
			subs[0].SetTrusted(subs[1].GetTrusted())
			subs[1].SetTrusted(tmp)

			lastSeen := subs[0].GetLastSeen()
			userAgent := subs[0].GetUserAgent()
			subs[0].SetLastSeenAndUA(subs[1].GetLastSeen(), subs[1].GetUserAgent())
			subs[1].SetLastSeenAndUA(lastSeen, userAgent)
		}

		// Remove deleted and unneeded subscriptions
		if !keepDeleted || !oneUser.IsZero() {
			var xsubs []t.Subscription
			for i := range subs {
				// NOTE: as in the MySQL adapter subs[i].Uid() is ObjHeader.Uid(),
				// i.e. parsed from the (empty) Id field, not from User.
				if (subs[i].DeletedAt != nil && !keepDeleted) || (!oneUser.IsZero() && subs[i].Uid() != oneUser) {
					continue
				}
				xsubs = append(xsubs, subs[i])
			}
			subs = xsubs
		}
	}

	return subs, err
}

// OwnTopics loads a slice of topic names where the user is the owner.
func (a *adapter) OwnTopics(uid t.Uid) (_ []string, err error) {
	if err = a.begin("OwnTopics"); err != nil {
		return nil, err
	}
	defer a.end(&err)

	var names []string
	for _, r := range sorted(a.db.topics,
		func(r *topicRow) bool { return r.owner == uid },
		func(x, y *topicRow) bool { return x.rid < y.rid }) {
		names = append(names, r.name)
	}
	return names, nil
}

// ChannelsForUser loads a slice of topic names where the user is a channel reader and notifications (P) are enabled.
func (a *adapter) ChannelsForUser(uid t.Uid) (_ []string, err error) {
	if err = a.begin("ChannelsForUser"); err != nil {
		return nil, err
	}
	defer a.end(&err)

	var names []string
	for _, r := range sorted(a.db.subs,
		func(s *subRow) bool {
			return s.uid == uid && likeMatch("chn%", s.topic) &&
				hasMode(s.modeWant, 'P') && hasMode(s.modeGiven, 'P') && s.deletedAt == nil
		},
		func(x, y *subRow) bool { return x.rid < y.rid }) {
		names = append(names, r.topic)
	}
	return names, nil
}

// TopicShare creates topic subscriptions.
func (a *adapter) TopicShare(shares []*t.Subscription) (err error) {
	if err = a.begin("TopicShare"); err != nil {
		return err
	}
	defer a.end(&err)

	for _, sub := range shares {
		if err = a.createSubscription(sub, true); err != nil {
			return err
		}
	}
	return nil
}

// TopicDelete deletes specified topic.
func (a *adapter) TopicDelete(topic string, isChan, hard bool) (err error) {
	if err = a.begin("TopicDelete"); err != nil {
		return err
	}
	defer a.end(&err)

	// If the topic is a channel, must try to delete subscriptions under both grpXXX and chnXXX names.
	names := map[string]bool{topic: true}
	if isChan {
		names[t.GrpToChn(topic)] = true
	}

	if hard {
		// Delete subscriptions. If this is a channel, delete both group subscriptions and channel subscriptions.
		for k := range a.db.subs {
			if names[k.topic] {
				del(a, a.db.subs, k)
			}
		}

		if err = a.messageDeleteList(topic, nil); err != nil {
			return err
		}

		a.removeAllTags(t.ZeroUid, topic)
		a.deleteTopicRow(topic)
	} else {
		now := t.TimeNow()

		for _, s := range a.db.subs {
			if names[s.topic] {
				mod(a, s)
				s.updatedAt = now
				s.deletedAt = timePtr(now)
			}
		}

		if tr, ok := a.db.topics[topic]; ok {
			mod(a, tr)
			tr.updatedAt = now
			tr.touchedAt = timePtr(now)
			tr.state = t.StateDeleted
			tr.stateAt = timePtr(now)
		}
	}
	return nil
}

// TopicUpdateOnMessage sets topic's seqid and touchedat from the message.
func (a *adapter) TopicUpdateOnMessage(topic string, msg *t.Message) (err error) {
	if err = a.begin("TopicUpdateOnMessage"); err != nil {
		return err
	}
	defer a.end(&err)

	if tr, ok := a.db.topics[topic]; ok {
		mod(a, tr)
		tr.seqID = msg.SeqId
		tr.touchedAt = timePtr(dt3(msg.CreatedAt))
	}
	return nil
}

// TopicUpdate updates topic record.
func (a *adapter) TopicUpdate(topic string, update map[string]any) (err error) {
	if err = a.begin("TopicUpdate"); err != nil {
		return err
	}
	defer a.end(&err)

	// As in the MySQL adapter the caller's map is amended.
	if t, u := update["TouchedAt"], update["UpdatedAt"]; t == nil && u != nil {
		update["TouchedAt"] = u
	}
	patch, err := topicPatch(update)
	if err != nil {
		return err
	}
	if tr, ok := a.db.topics[topic]; ok {
		mod(a, tr)
		for _, set := range patch {
			set(tr)
		}
	}

	// Tags are also stored in a separate table
	if tags := extractTags(update); tags != nil {
		// First delete all topic tags
		a.removeAllTags(t.ZeroUid, topic)
		// Now insert new tags
		if err = a.addTags(t.ZeroUid, topic, tags, false); err != nil {
			return err
		}
	}
	return nil
}

// TopicOwnerChange updates topic's owner.
func (a *adapter) TopicOwnerChange(topic string, newOwner t.Uid) (err error) {
	if err = a.begin("TopicOwnerChange"); err != nil {
		return err
	}
	defer a.end(&err)

	if tr, ok := a.db.topics[topic]; ok {
		mod(a, tr)
		tr.owner = newOwner
	}
	return nil
}

// ---------------------------------------------------------------------------
// Subscriptions.

// SubscriptionGet gets a subscription of a user to a topic.
func (a *adapter) SubscriptionGet(topic string, user t.Uid, keepDeleted bool) (_ *t.Subscription, err error) {
	if err = a.begin("SubscriptionGet"); err != nil {
		return nil, err
	}
	defer a.end(&err)

	r, ok := a.db.subs[subKey{topic, user}]
	if !ok {
		// Nothing found - clear the error
		return nil, nil
	}
	var sub t.Subscription
	if err = scanSubCommon(r, &sub); err != nil {
		return nil, err
	}
	// "userid AS user" is scanned into the string field and is NOT converted
	// back to a Uid string by the MySQL adapter: decimal decoded id.
	sub.User = decStr(r.uid)

	if !keepDeleted && sub.DeletedAt != nil {
		return nil, nil
	}

	sub.Private = fromJSON(r.private)

	return &sub, nil
}

// SubsForUser loads all user's subscriptions. Does NOT load Public or Private values and does
// not load deleted subscriptions.
func (a *adapter) SubsForUser(forUser t.Uid) (_ []t.Subscription, err error) {
	if err = a.begin("SubsForUser"); err != nil {
		return nil, err
	}
	defer a.end(&err)

	rows := sorted(a.db.subs,
		func(s *subRow) bool { return s.uid == forUser && s.deletedAt == nil },
		func(x, y *subRow) bool { return x.rid < y.rid })

	var subs []t.Subscription
	var ss t.Subscription
	for _, r := range rows {
		if err = scanSubCommon(r, &ss); err != nil {
			break
		}
		ss.User = forUser.String()
		subs = append(subs, ss)
	}
	return subs, err
}

// SubsForTopic fetches all subsciptions for a topic. Does NOT load Public value.
// The difference between UsersForTopic vs SubsForTopic is that the former loads user.public+trusted,
// the latter does not.
func (a *adapter) SubsForTopic(topic string, keepDeleted bool, opts *t.QueryOpt) (_ []t.Subscription, err error) {
	if err = a.begin("SubsForTopic"); err != nil {
		return nil, err
	}
	defer a.end(&err)

	limit := a.maxResults
	var oneUser t.Uid
	if opts != nil {
		// Ignore IfModifiedSince - we must return all entries
		// Those unmodified will be stripped of Public & Private.

		if !opts.User.IsZero() {
			oneUser = opts.User
		}
		if opts.Limit > 0 && opts.Limit < limit {
			limit = opts.Limit
		}
	}

	rows := sorted(a.db.subs,
		func(s *subRow) bool {
			return s.topic == topic && (keepDeleted || s.deletedAt == nil) && (oneUser.IsZero() || s.uid == oneUser)
		},
		func(x, y *subRow) bool { return x.rid < y.rid })
	if len(rows) > limit {
		rows = rows[:limit]
	}

	var subs []t.Subscription
	var ss t.Subscription
	for _, r := range rows {
		if err = scanSubCommon(r, &ss); err != nil {
			break
		}
		ss.User = r.uid.String()
		ss.Private = fromJSON(r.private)
		subs = append(subs, ss)
	}
	return subs, err
}

// SubsUpdate updates one or multiple subscriptions to a topic.
func (a *adapter) SubsUpdate(topic string, user t.Uid, update map[string]any) (err error) {
	if err = a.begin("SubsUpdate"); err != nil {
		return err
	}
	defer a.end(&err)

	patch, err := subPatch(update)
	if err != nil {
		return err
	}
	for _, s := range a.db.subs {
		// Zero user: update all subscriptions of the topic.
		if s.topic == topic && (user.IsZero() || s.uid == user) {
			mod(a, s)
			for _, set := range patch {
				set(s)
			}
		}
	}
	return nil
}

// SubsDelete marks subscription as deleted.
func (a *adapter) SubsDelete(topic string, user t.Uid) (err error) {
	if err = a.begin("SubsDelete"); err != nil {
		return err
	}
	defer a.end(&err)

	now := t.TimeNow()
	s, ok := a.db.subs[subKey{topic, user}]
	if !ok || s.deletedAt != nil {
		return t.ErrNotFound
	}
	mod(a, s)
	s.updatedAt = now
	s.deletedAt = timePtr(now)

	// Remove records of messages soft-deleted by this user.
	for id, d := range a.db.dellog {
		if d.topic == topic && d.deletedFor == user {
			del(a, a.db.dellog, id)
		}
	}
	return nil
}
