//go:build verif

package memverif

import (
	"database/sql/driver"
	"encoding/json"
	"fmt"
	"reflect"
	"strconv"
	"strings"
	"time"

	"github.com/tinode/chat/server/store"
	t "github.com/tinode/chat/server/store/types"
)

// driverValue converts a query argument the way database/sql does before it is
// handed to the driver: driver.Valuer first (a nil pointer is NULL), then the
// default conversion of basic kinds.
func driverValue(arg any) (any, error) {
	if arg == nil {
		return nil, nil
	}
	if vr, ok := arg.(driver.Valuer); ok {
		if rv := reflect.ValueOf(arg); rv.Kind() == reflect.Pointer && rv.IsNil() {
			return nil, nil
		}
		v, err := vr.Value()
		if err != nil {
			return nil, err
		}
		return plainValue(v)
	}
	return plainValue(arg)
}

func plainValue(v any) (any, error) {
	switch x := v.(type) {
	case nil:
		return nil, nil
	case []byte:
		if x == nil {
			return nil, nil
		}
		return cloneBytes(x), nil
	case string, int64, float64, bool, time.Time:
		return x, nil
	}
	rv := reflect.ValueOf(v)
	switch rv.Kind() {
	case reflect.Pointer:
		if rv.IsNil() {
			return nil, nil
		}
		return driverValue(rv.Elem().Interface())
	case reflect.Int, reflect.Int8, reflect.Int16, reflect.Int32, reflect.Int64:
		return rv.Int(), nil
	case reflect.Uint, reflect.Uint8, reflect.Uint16, reflect.Uint32, reflect.Uint64:
		return int64(rv.Uint()), nil
	case reflect.Float32, reflect.Float64:
		return rv.Float(), nil
	case reflect.Bool:
		return rv.Bool(), nil
	case reflect.String:
		return rv.String(), nil
	case reflect.Slice:
		if rv.Type().Elem().Kind() == reflect.Uint8 {
			if rv.IsNil() {
				return nil, nil
			}
			return cloneBytes(rv.Bytes()), nil
		}
	}
	return nil, fmt.Errorf("sql: converting argument type: unsupported type %T, a %s", v, rv.Kind())
}

func errBadValue(col string, v any) error {
	return errSQL(1366, fmt.Sprintf("Incorrect value: '%v' for column '%s'", v, col))
}

func errNotNull(col string) error {
	return errSQL(1048, "Column '"+col+"' cannot be null")
}

// colInt coerces a driver value to an INT NOT NULL / INT column (NULL is
// refused: no caller stores NULL into a counter).
func colInt(col string, v any) (int, error) {
	switch x := v.(type) {
	case int64:
		return int(x), nil
	case bool:
		if x {
			return 1, nil
		}
		return 0, nil
	case float64:
		return int(x + 0.5), nil
	case string:
		if n, err := strconv.Atoi(strings.TrimSpace(x)); err == nil {
			return n, nil
		}
	case []byte:
		if n, err := strconv.Atoi(strings.TrimSpace(string(x))); err == nil {
			return n, nil
		}
	case nil:
		return 0, errNotNull(col)
	}
	return 0, errBadValue(col, v)
}

// colStr coerces a driver value to a (VAR)CHAR NOT NULL column.
func colStr(col string, v any) (string, error) {
	switch x := v.(type) {
	case string:
		return x, nil
	case []byte:
		return string(x), nil
	case int64:
		return strconv.FormatInt(x, 10), nil
	case bool:
		if x {
			return "1", nil
		}
		return "0", nil
	case nil:
		return "", errNotNull(col)
	}
	return "", errBadValue(col, v)
}

// colTime coerces a driver value to a DATETIME column; nil result = NULL.
func colTime(col string, v any, round func(time.Time) time.Time) (*time.Time, error) {
	switch x := v.(type) {
	case nil:
		return nil, nil
	case time.Time:
		r := round(x)
		return &r, nil
	}
	return nil, errBadValue(col, v)
}

// colJSON coerces a driver value to a JSON column; nil result = NULL.
func colJSON(col string, v any) ([]byte, error) {
	var b []byte
	switch x := v.(type) {
	case nil:
		return nil, nil
	case []byte:
		b = x
	case string:
		b = []byte(x)
	default:
		return nil, errSQL(3140, "Invalid JSON text: \"Invalid value.\" in value for column '"+col+"'")
	}
	if !json.Valid(b) {
		return nil, errSQL(3140, "Invalid JSON text: \"Invalid value.\" in value for column '"+col+"'")
	}
	return cloneBytes(b), nil
}

// enc is store.EncodeUid made safe for an uninitialized uid generator.
func enc(val int64) (uid t.Uid) {
	if val == 0 {
		return t.ZeroUid
	}
	defer func() {
		if recover() != nil {
			uid = t.Uid(val)
		}
	}()
	return store.EncodeUid(val)
}

func errUnknownColumn(col string) error {
	return errSQL(1054, "Unknown column '"+col+"' in 'field list'")
}

func errEmptyUpdate() error {
	return errSQL(1064, "You have an error in your SQL syntax (UPDATE with an empty SET list)")
}

// updateArgs is updateByMap of the MySQL adapter followed by the driver's
// argument conversion: lowercase column name -> driver value.
func updateArgs(update map[string]any) (map[string]any, error) {
	if len(update) == 0 {
		return nil, errEmptyUpdate()
	}
	out := make(map[string]any, len(update))
	for col, arg := range update {
		col = strings.ToLower(col)
		if col == "public" || col == "trusted" || col == "private" {
			arg = toJSON(arg)
		}
		v, err := driverValue(arg)
		if err != nil {
			return nil, err
		}
		if _, dup := out[col]; dup {
			// Keys which differ only by case: "Column specified twice".
			return nil, errSQL(1110, "Column '"+col+"' specified twice")
		}
		out[col] = v
	}
	return out, nil
}

// userPatch converts an update map to a list of assignments to a users row.
func userPatch(update map[string]any) ([]func(*userRow), error) {
	args, err := updateArgs(update)
	if err != nil {
		return nil, err
	}
	var patch []func(*userRow)
	for col, v := range args {
		switch col {
		case "createdat", "updatedat":
			tm, err := colTime(col, v, dt3)
			if err != nil {
				return nil, err
			}
			if tm == nil {
				return nil, errNotNull(col)
			}
			if col == "createdat" {
				patch = append(patch, func(r *userRow) { r.createdAt = *tm })
			} else {
				patch = append(patch, func(r *userRow) { r.updatedAt = *tm })
			}
		case "state":
			n, err := colInt(col, v)
			if err != nil {
				return nil, err
			}
			patch = append(patch, func(r *userRow) { r.state = t.ObjState(n) })
		case "stateat":
			tm, err := colTime(col, v, dt3)
			if err != nil {
				return nil, err
			}
			patch = append(patch, func(r *userRow) { r.stateAt = cloneTimePtr(tm) })
		case "lastseen":
			tm, err := colTime(col, v, dt0)
			if err != nil {
				return nil, err
			}
			patch = append(patch, func(r *userRow) { r.lastSeen = cloneTimePtr(tm) })
		case "useragent":
			s, err := colStr(col, v)
			if err != nil {
				return nil, err
			}
			patch = append(patch, func(r *userRow) { r.userAgent = s })
		case "access", "public", "trusted", "tags":
			b, err := colJSON(col, v)
			if err != nil {
				return nil, err
			}
			switch col {
			case "access":
				patch = append(patch, func(r *userRow) { r.access = b })
			case "public":
				patch = append(patch, func(r *userRow) { r.public = b })
			case "trusted":
				patch = append(patch, func(r *userRow) { r.trusted = b })
			case "tags":
				patch = append(patch, func(r *userRow) { r.tags = b })
			}
		default:
			return nil, errUnknownColumn(col)
		}
	}
	return patch, nil
}

// topicPatch converts an update map to a list of assignments to a topics row.
func topicPatch(update map[string]any) ([]func(*topicRow), error) {
	args, err := updateArgs(update)
	if err != nil {
		return nil, err
	}
	var patch []func(*topicRow)
	for col, v := range args {
		switch col {
		case "createdat", "updatedat":
			tm, err := colTime(col, v, dt3)
			if err != nil {
				return nil, err
			}
			if tm == nil {
				return nil, errNotNull(col)
			}
			if col == "createdat" {
				patch = append(patch, func(r *topicRow) { r.createdAt = *tm })
			} else {
				patch = append(patch, func(r *topicRow) { r.updatedAt = *tm })
			}
		case "stateat":
			tm, err := colTime(col, v, dt3)
			if err != nil {
				return nil, err
			}
			patch = append(patch, func(r *topicRow) { r.stateAt = cloneTimePtr(tm) })
		case "touchedat":
			tm, err := colTime(col, v, dt3)
			if err != nil {
				return nil, err
			}
			patch = append(patch, func(r *topicRow) { r.touchedAt = cloneTimePtr(tm) })
		case "state", "seqid", "delid", "usebt", "owner":
			n, err := colInt(col, v)
			if err != nil {
				return nil, err
			}
			switch col {
			case "state":
				patch = append(patch, func(r *topicRow) { r.state = t.ObjState(n) })
			case "seqid":
				patch = append(patch, func(r *topicRow) { r.seqID = n })
			case "delid":
				patch = append(patch, func(r *topicRow) { r.delID = n })
			case "usebt":
				patch = append(patch, func(r *topicRow) { r.useBt = n != 0 })
			case "owner":
				patch = append(patch, func(r *topicRow) { r.owner = enc(int64(n)) })
			}
		case "access", "public", "trusted", "tags":
			b, err := colJSON(col, v)
			if err != nil {
				return nil, err
			}
			switch col {
			case "access":
				patch = append(patch, func(r *topicRow) { r.access = b })
			case "public":
				patch = append(patch, func(r *topicRow) { r.public = b })
			case "trusted":
				patch = append(patch, func(r *topicRow) { r.trusted = b })
			case "tags":
				patch = append(patch, func(r *topicRow) { r.tags = b })
			}
		default:
			return nil, errUnknownColumn(col)
		}
	}
	return patch, nil
}

// subPatch converts an update map to a list of assignments to a subscriptions row.
func subPatch(update map[string]any) ([]func(*subRow), error) {
	args, err := updateArgs(update)
	if err != nil {
		return nil, err
	}
	var patch []func(*subRow)
	for col, v := range args {
		switch col {
		case "createdat", "updatedat":
			tm, err := colTime(col, v, dt3)
			if err != nil {
				return nil, err
			}
			if tm == nil {
				return nil, errNotNull(col)
			}
			if col == "createdat" {
				patch = append(patch, func(r *subRow) { r.createdAt = *tm })
			} else {
				patch = append(patch, func(r *subRow) { r.updatedAt = *tm })
			}
		case "deletedat":
			tm, err := colTime(col, v, dt3)
			if err != nil {
				return nil, err
			}
			patch = append(patch, func(r *subRow) { r.deletedAt = cloneTimePtr(tm) })
		case "delid", "recvseqid", "readseqid":
			n, err := colInt(col, v)
			if err != nil {
				return nil, err
			}
			switch col {
			case "delid":
				patch = append(patch, func(r *subRow) { r.delID = n })
			case "recvseqid":
				patch = append(patch, func(r *subRow) { r.recvSeqID = n })
			case "readseqid":
				patch = append(patch, func(r *subRow) { r.readSeqID = n })
			}
		case "modewant", "modegiven":
			s, err := colStr(col, v)
			if err != nil {
				return nil, err
			}
			if len(s) > 8 {
				return nil, errSQL(1406, "Data too long for column '"+col+"'")
			}
			if col == "modewant" {
				patch = append(patch, func(r *subRow) { r.modeWant = s })
			} else {
				patch = append(patch, func(r *subRow) { r.modeGiven = s })
			}
		case "private":
			b, err := colJSON(col, v)
			if err != nil {
				return nil, err
			}
			patch = append(patch, func(r *subRow) { r.private = b })
		default:
			return nil, errUnknownColumn(col)
		}
	}
	return patch, nil
}

// extractTags is extractTags of the MySQL adapter: if Tags field is updated,
// get the tags so tags table can be updated too.
func extractTags(update map[string]any) []string {
	var tags []string

	if val := update["Tags"]; val != nil {
		tags, _ = val.(t.StringSlice)
	}

	return []string(tags)
}

// likeMatch implements SQL LIKE with '%', '_' and backslash escapes
// (byte-wise, case-sensitive).
func likeMatch(pattern, s string) bool {
	p, v := []rune(pattern), []rune(s)
	var rec func(i, j int) bool
	rec = func(i, j int) bool {
		for i < len(p) {
			switch p[i] {
			case '%':
				for k := j; k <= len(v); k++ {
					if rec(i+1, k) {
						return true
					}
				}
				return false
			case '_':
				if j >= len(v) {
					return false
				}
			case '\\':
				if i+1 < len(p) {
					i++
				}
				if j >= len(v) || v[j] != p[i] {
					return false
				}
			default:
				if j >= len(v) || v[j] != p[i] {
					return false
				}
			}
			i++
			j++
		}
		return j == len(v)
	}
	return rec(0, 0)
}
