package memverif

import "sync"

// Call hooks: a harness callback run at the entry of a counted adapter method, on the
// goroutine that makes the call, BEFORE the call is counted, before the fault plan is
// applied and before the adapter is locked (other goroutines can use the adapter while
// the callback blocks). Used by drivers to hold a store call open and run other
// requests "while the database call is in flight" deterministically.

var (
	hookMu sync.Mutex
	hooks  = map[string]func(){}
)

// SetHook installs fn for the adapter method `name` (e.g. "TopicDelete"); nil removes it.
func SetHook(name string, fn func()) {
	hookMu.Lock()
	defer hookMu.Unlock()
	if fn == nil {
		delete(hooks, name)
	} else {
		hooks[name] = fn
	}
}

func runHook(name string) {
	hookMu.Lock()
	fn := hooks[name]
	hookMu.Unlock()
	if fn != nil {
		fn()
	}
}
