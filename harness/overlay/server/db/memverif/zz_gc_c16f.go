package memverif

import (
	"sync"
	"time"
)

// GcCallC16f is one call of FileDeleteUnused as the adapter received it: the bound, the limit and
// the time of the call (C16 part f: the cut-off that largeFileRunGarbageCollection passes).
type GcCallC16f struct {
	OlderThan time.Time
	Limit     int
	At        time.Time
}

var (
	gcMuC16f    sync.Mutex
	gcOnC16f    bool
	gcCallsC16f []GcCallC16f
)

// RecordGcC16f switches the recording on (clearing the list) or off.
func RecordGcC16f(on bool) {
	gcMuC16f.Lock()
	defer gcMuC16f.Unlock()
	gcOnC16f = on
	if on {
		gcCallsC16f = nil
	}
}

// GcCallsC16f returns the calls recorded so far.
func GcCallsC16f() []GcCallC16f {
	gcMuC16f.Lock()
	defer gcMuC16f.Unlock()
	return append([]GcCallC16f(nil), gcCallsC16f...)
}

func noteGcC16f(olderThan time.Time, limit int) {
	gcMuC16f.Lock()
	defer gcMuC16f.Unlock()
	if gcOnC16f {
		gcCallsC16f = append(gcCallsC16f, GcCallC16f{OlderThan: olderThan, Limit: limit, At: time.Now()})
	}
}
