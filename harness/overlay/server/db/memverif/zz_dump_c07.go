//go:build verif

package memverif

import (
	t "github.com/tinode/chat/server/store/types"
)

// DumpSubsC07 returns the subscription rows stored under a topic name, whether or not a topic
// row exists ('me' and 'fnd' have none).  Added for the C07 driver; read-only.
func DumpSubsC07(name string) []SubDump {
	a := theAdapter
	a.mu.Lock()
	defer a.mu.Unlock()
	var res []SubDump
	for k, s := range a.db.subs {
		if k.topic != name {
			continue
		}
		res = append(res, SubDump{User: s.uid, Want: parseMode(s.modeWant), Given: parseMode(s.modeGiven),
			Read: s.readSeqID, Recv: s.recvSeqID, DelId: s.delID, Deleted: s.deletedAt != nil})
	}
	return res
}

var _ = t.ZeroUid
