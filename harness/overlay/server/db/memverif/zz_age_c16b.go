//go:build verif

package memverif

import "time"

// AgeFilesC16b moves the updatedat column of every upload record back by d: the passage of time
// for the garbage collector (largeFileRunGarbageCollection collects what was not updated for an hour).
func AgeFilesC16b(d time.Duration) {
	a := theAdapter
	a.mu.Lock()
	defer a.mu.Unlock()
	for _, f := range a.db.files {
		f.updatedAt = f.updatedAt.Add(-d)
	}
}
