//go:build verif

package memverif

import (
	"hash/fnv"
	"sort"
	"strconv"
	"time"

	"github.com/tinode/chat/server/auth"
	t "github.com/tinode/chat/server/store/types"
)

// ---------------------------------------------------------------------------
// Tag tables.

// addTags is addTags of the MySQL adapter for table usertags (top == "") or
// topictags (top != ""). The parent row must exist (foreign key).
func (a *adapter) addTags(uid t.Uid, top string, tags []string, ignoreDups bool) error {
	if len(tags) == 0 {
		return nil
	}
	table := a.db.usertags
	tname := "usertags"
	if top != "" {
		table = a.db.topictags
		tname = "topictags"
	}
	for _, tag := range tags {
		dup := false
		for _, r := range table {
			if r.uid == uid && r.top == top && r.tag == tag {
				dup = true
				break
			}
		}
		if dup {
			// The failed INSERT still consumes an AUTO_INCREMENT value.
			a.nextID(tname)
			if ignoreDups {
				continue
			}
			return t.ErrDuplicate
		}
		if top == "" {
			if _, ok := a.db.users[uid]; !ok {
				return errForeignKey(tname, "userid")
			}
		} else if _, ok := a.db.topics[top]; !ok {
			return errForeignKey(tname, "topic")
		}
		id := a.nextID(tname)
		ins(a, table, id, &tagRow{rid: id, uid: uid, top: top, tag: tag})
	}
	return nil
}

func (a *adapter) removeTags(uid t.Uid, top string, tags []string) {
	if len(tags) == 0 {
		return
	}
	table := a.db.usertags
	if top != "" {
		table = a.db.topictags
	}
	for id, r := range table {
		if r.uid != uid || r.top != top {
			continue
		}
		for _, tag := range tags {
			if r.tag == tag {
				del(a, table, id)
				break
			}
		}
	}
}

func (a *adapter) removeAllTags(uid t.Uid, top string) {
	table := a.db.usertags
	if top != "" {
		table = a.db.topictags
	}
	for id, r := range table {
		if r.uid == uid && r.top == top {
			del(a, table, id)
		}
	}
}

// ---------------------------------------------------------------------------
// Users.

// UserCreate creates a new user.
func (a *adapter) UserCreate(user *t.User) (err error) {
	if err = a.begin("UserCreate"); err != nil {
		return err
	}
	defer a.end(&err)

	uid := user.Uid()
	access, err := driverValue(user.Access)
	if err != nil {
		return err
	}
	tags, err := driverValue(user.Tags)
	if err != nil {
		return err
	}
	if _, ok := a.db.users[uid]; ok {
		return errDupEntry("users.PRIMARY", decStr(uid))
	}
	accessJSON, _ := access.([]byte)
	tagsJSON, _ := tags.([]byte)
	ins(a, a.db.users, uid, &userRow{
		uid:       uid,
		createdAt: dt3(user.CreatedAt),
		updatedAt: dt3(user.UpdatedAt),
		state:     user.State,
		access:    accessJSON,
		public:    toJSON(user.Public),
		trusted:   toJSON(user.Trusted),
		tags:      tagsJSON,
	})

	// Save user's tags to a separate table to make user findable.
	return a.addTags(uid, "", user.Tags, false)
}

// scanUser is a StructScan of "SELECT * FROM users" into t.User.
func scanUser(r *userRow, user *t.User) error {
	user.Id = decStr(r.uid)
	user.CreatedAt = r.createdAt
	user.UpdatedAt = r.updatedAt
	user.State = r.state
	user.StateAt = cloneTimePtr(r.stateAt)
	if r.access == nil {
		return errSQL(0, "sql: Scan error on column 'access': NULL")
	}
	if err := user.Access.Scan(cloneBytes(r.access)); err != nil {
		return err
	}
	user.LastSeen = cloneTimePtr(r.lastSeen)
	user.UserAgent = r.userAgent
	user.Public = fromJSON(r.public)
	user.Trusted = fromJSON(r.trusted)
	if err := user.Tags.Scan(anyBytes(r.tags)); err != nil {
		return err
	}
	return nil
}

// anyBytes converts a nullable column to the value passed to sql.Scanner.
func anyBytes(b []byte) any {
	if b == nil {
		return nil
	}
	return cloneBytes(b)
}

// UserGet fetches a single user by user id. If user is not found it returns (nil, nil)
func (a *adapter) UserGet(uid t.Uid) (_ *t.User, err error) {
	if err = a.begin("UserGet"); err != nil {
		return nil, err
	}
	defer a.end(&err)

	r, ok := a.db.users[uid]
	if !ok || r.state == t.StateDeleted {
		// User does not exist or marked as soft-deleted.
		return nil, nil
	}
	var user t.User
	if err = scanUser(r, &user); err != nil {
		return nil, err
	}
	user.SetUid(uid)
	return &user, nil
}

// UserGetAll returns user records for the given list of ids, deleted users excluded.
func (a *adapter) UserGetAll(ids ...t.Uid) (_ []t.User, err error) {
	if err = a.begin("UserGetAll"); err != nil {
		return nil, err
	}
	defer a.end(&err)

	if len(ids) == 0 {
		// sqlx.In fails on an empty slice, the query text is empty.
		return nil, errSQL(1065, "Query was empty")
	}
	want := map[t.Uid]bool{}
	for _, id := range ids {
		want[id] = true
	}
	rows := sorted(a.db.users,
		func(r *userRow) bool { return want[r.uid] && r.state != t.StateDeleted },
		func(x, y *userRow) bool { return lessUid(x.uid, y.uid) })

	users := []t.User{}
	for _, r := range rows {
		var user t.User
		if err = scanUser(r, &user); err != nil {
			return nil, err
		}
		user.SetUid(r.uid)
		users = append(users, user)
	}
	return users, nil
}

// deleteLinksWhere removes filemsglinks rows (ON DELETE CASCADE).
func (a *adapter) deleteLinksWhere(cond func(*linkRow) bool) {
	for id, l := range a.db.links {
		if cond(l) {
			del(a, a.db.links, id)
		}
	}
}

// deleteMessagesOfTopic removes all messages of a topic and, by cascade,
// their attachment links.
func (a *adapter) deleteMessagesOfTopic(topic string) {
	gone := map[int64]bool{}
	for k, m := range a.db.msgs {
		if k.topic == topic {
			gone[m.id] = true
			del(a, a.db.msgs, k)
		}
	}
	if len(gone) > 0 {
		a.deleteLinksWhere(func(l *linkRow) bool { return l.msgID != 0 && gone[l.msgID] })
	}
}

// deleteTopicRow removes the topics row and, by cascade, links to the topic.
func (a *adapter) deleteTopicRow(topic string) {
	if _, ok := a.db.topics[topic]; !ok {
		return
	}
	del(a, a.db.topics, topic)
	a.deleteLinksWhere(func(l *linkRow) bool { return l.topic != "" && l.topic == topic })
}

// subsDelForUser marks user's subscriptions as deleted or removes them.
func (a *adapter) subsDelForUser(user t.Uid, hard bool) {
	if hard {
		for k := range a.db.subs {
			if k.uid == user {
				del(a, a.db.subs, k)
			}
		}
		return
	}
	now := t.TimeNow()
	for _, s := range a.db.subs {
		if s.uid == user && s.deletedAt == nil {
			mod(a, s)
			s.updatedAt = now
			s.deletedAt = timePtr(now)
		}
	}
}

// deviceDelete removes one or all (deviceID == "") devices of the user.
func (a *adapter) deviceDelete(uid t.Uid, deviceID string) error {
	count := 0
	for hash, d := range a.db.devices {
		if d.uid == uid && (deviceID == "" || hash == deviceHasher(deviceID)) {
			del(a, a.db.devices, hash)
			count++
		}
	}
	if count == 0 {
		return t.ErrNotFound
	}
	return nil
}

// UserDelete deletes specified user: wipes completely (hard-delete) or marks as deleted.
func (a *adapter) UserDelete(uid t.Uid, hard bool) (err error) {
	if err = a.begin("UserDelete"); err != nil {
		return err
	}
	defer a.end(&err)

	now := t.TimeNow()
	db := a.db

	if hard {
		// Delete user's devices. ErrNotFound = user has no devices.
		a.deviceDelete(uid, "")

		// Delete user's subscriptions in all topics.
		a.subsDelForUser(uid, true)

		// Delete records of messages soft-deleted for the user.
		for id, d := range db.dellog {
			if d.deletedFor == uid {
				del(a, db.dellog, id)
			}
		}

		// Topics where the user is the owner (topics.owner = decoded uid; for
		// the zero uid this is every topic without an owner).
		owned := map[string]bool{}
		for name, tr := range db.topics {
			if tr.owner == uid {
				owned[name] = true
			}
		}
		// First delete all messages in those topics.
		for id, d := range db.dellog {
			if owned[d.topic] {
				del(a, db.dellog, id)
			}
		}
		for name := range owned {
			a.deleteMessagesOfTopic(name)
		}
		// Delete all subscriptions (rows whose topic column equals the topic name).
		for k := range db.subs {
			if owned[k.topic] {
				del(a, db.subs, k)
			}
		}
		// Delete topic tags.
		for id, tg := range db.topictags {
			if owned[tg.top] {
				del(a, db.topictags, id)
			}
		}
		// And finally delete the topics.
		for name := range owned {
			a.deleteTopicRow(name)
		}

		// Delete user's authentication records.
		for id, r := range db.auth {
			if r.uid == uid {
				del(a, db.auth, id)
			}
		}
		// Delete all credentials.
		for id, c := range db.creds {
			if c.uid == uid {
				del(a, db.creds, id)
			}
		}
		a.removeAllTags(uid, "")

		if _, ok := db.users[uid]; ok {
			del(a, db.users, uid)
			// filemsglinks.userid ON DELETE CASCADE
			a.deleteLinksWhere(func(l *linkRow) bool { return !l.user.IsZero() && l.user == uid })
		}
		return nil
	}

	// Disable all user's subscriptions. That includes p2p subscriptions. No need to delete them.
	a.subsDelForUser(uid, false)

	// Disable all subscriptions to topics where the user is the owner
	// (all rows, including those already deleted).
	for _, s := range db.subs {
		if tr, ok := db.topics[s.topic]; ok && tr.owner == uid {
			mod(a, s)
			s.updatedAt = now
			s.deletedAt = timePtr(now)
		}
	}
	// Disable group topics where the user is the owner.
	for _, tr := range db.topics {
		if tr.owner == uid {
			mod(a, tr)
			tr.updatedAt = now
			tr.touchedAt = timePtr(now)
			tr.state = t.StateDeleted
			tr.stateAt = timePtr(now)
		}
	}
	// Disable p2p topics with the user (p2p topic's owner is 0).
	for _, tr := range db.topics {
		if !tr.owner.IsZero() {
			continue
		}
		if _, ok := db.subs[subKey{tr.name, uid}]; ok {
			mod(a, tr)
			tr.updatedAt = now
			tr.touchedAt = timePtr(now)
			tr.state = t.StateDeleted
			tr.stateAt = timePtr(now)
		}
	}
	// Disable the other user's subscription to a disabled p2p topic
	// (every subscription of every p2p topic the user is subscribed to).
	p2p := map[string]bool{}
	for k := range db.subs {
		if k.uid == uid && len(k.topic) >= 3 && k.topic[:3] == "p2p" {
			p2p[k.topic] = true
		}
	}
	for _, s := range db.subs {
		if p2p[s.topic] {
			mod(a, s)
			s.updatedAt = now
			s.deletedAt = timePtr(now)
		}
	}
	// Disable user.
	if u, ok := db.users[uid]; ok {
		mod(a, u)
		u.updatedAt = now
		u.state = t.StateDeleted
		u.stateAt = timePtr(now)
	}
	return nil
}

// topicStateForUser is called by UserUpdate when the update contains state change.
func (a *adapter) topicStateForUser(uid t.Uid, now time.Time, update any) error {
	state, ok := update.(t.ObjState)
	if !ok {
		return t.ErrMalformed
	}

	if now.IsZero() {
		now = t.TimeNow()
	}
	now = dt3(now)

	// Change state of all topics where the user is the owner.
	for _, tr := range a.db.topics {
		if tr.owner == uid && tr.state != t.StateDeleted {
			mod(a, tr)
			tr.state = state
			tr.stateAt = timePtr(now)
		}
	}
	// Change state of p2p topics with the user (p2p topic's owner is 0)
	for _, tr := range a.db.topics {
		if !tr.owner.IsZero() || tr.state == t.StateDeleted {
			continue
		}
		if _, ok := a.db.subs[subKey{tr.name, uid}]; ok {
			mod(a, tr)
			tr.state = state
			tr.stateAt = timePtr(now)
		}
	}
	// Subscriptions don't need to be updated:
	// subscriptions of a disabled user are not disabled and still can be manipulated.
	return nil
}

// UserUpdate updates user object.
func (a *adapter) UserUpdate(uid t.Uid, update map[string]any) (err error) {
	if err = a.begin("UserUpdate"); err != nil {
		return err
	}
	defer a.end(&err)

	patch, err := userPatch(update)
	if err != nil {
		return err
	}
	if u, ok := a.db.users[uid]; ok {
		mod(a, u)
		for _, set := range patch {
			set(u)
		}
	}

	if state, ok := update["State"]; ok {
		now, _ := update["StateAt"].(time.Time)
		if err = a.topicStateForUser(uid, now, state); err != nil {
			return err
		}
	}

	// Tags are also stored in a separate table
	if tags := extractTags(update); tags != nil {
		// First delete all user tags
		a.removeAllTags(uid, "")
		// Now insert new tags
		if err = a.addTags(uid, "", tags, false); err != nil {
			return err
		}
	}
	return nil
}

// UserUpdateTags adds or resets user's tags
func (a *adapter) UserUpdateTags(uid t.Uid, add, remove, reset []string) (_ []string, err error) {
	if err = a.begin("UserUpdateTags"); err != nil {
		return nil, err
	}
	defer a.end(&err)

	if reset != nil {
		// Delete all tags first if resetting.
		a.removeAllTags(uid, "")
		add = reset
		remove = nil
	}

	// Now insert new tags. Ignore duplicates if resetting.
	// (As in the MySQL adapter duplicates are in fact ignored when NOT resetting.)
	if err = a.addTags(uid, "", add, reset == nil); err != nil {
		return nil, err
	}

	// Delete tags.
	a.removeTags(uid, "", remove)

	// SELECT tag FROM usertags WHERE userid=?: served by the unique index
	// (userid, tag), i.e. ordered by tag.
	var allTags []string
	for _, r := range a.db.usertags {
		if r.uid == uid {
			allTags = append(allTags, r.tag)
		}
	}
	sort.Strings(allTags)

	if u, ok := a.db.users[uid]; ok {
		v, _ := driverValue(t.StringSlice(allTags))
		mod(a, u)
		u.tags, _ = v.([]byte)
	}
	return allTags, nil
}

// UserGetByCred returns user ID for the given validated credential.
func (a *adapter) UserGetByCred(method, value string) (_ t.Uid, err error) {
	if err = a.begin("UserGetByCred"); err != nil {
		return t.ZeroUid, err
	}
	defer a.end(&err)

	synth := method + ":" + value
	for _, c := range a.db.creds {
		if c.synthetic == synth {
			return c.uid, nil
		}
	}
	return t.ZeroUid, nil
}

// UserUnreadCount returns the total number of unread messages in all topics with
// the R permission. If read fails, the counts are still returned with the original
// user IDs but with the unread count undefined and non-nil error.
func (a *adapter) UserUnreadCount(ids ...t.Uid) (_ map[t.Uid]int, err error) {
	counts := make(map[t.Uid]int, len(ids))
	for _, id := range ids {
		// Ensure all original uids are always present.
		counts[id] = 0
	}
	if err = a.begin("UserUnreadCount"); err != nil {
		return counts, err
	}
	defer a.end(&err)

	if len(ids) == 0 {
		return counts, errSQL(1065, "Query was empty")
	}

	for _, s := range a.db.subs {
		if _, ok := counts[s.uid]; !ok || s.deletedAt != nil {
			continue
		}
		tr, ok := a.db.topics[s.topic]
		if !ok || tr.state == t.StateDeleted {
			continue
		}
		if !hasMode(s.modeWant, 'R') || !hasMode(s.modeGiven, 'R') {
			continue
		}
		counts[s.uid] += tr.seqID - s.readSeqID
	}
	return counts, nil
}

// hasMode is INSTR(mode, 'X')>0.
func hasMode(mode string, flag byte) bool {
	for i := 0; i < len(mode); i++ {
		if mode[i] == flag {
			return true
		}
	}
	return false
}

// UserGetUnvalidated returns a list of uids which have never logged in, have no
// validated credentials and haven't been updated since lastUpdatedBefore.
func (a *adapter) UserGetUnvalidated(lastUpdatedBefore time.Time, limit int) (_ []t.Uid, err error) {
	if err = a.begin("UserGetUnvalidated"); err != nil {
		return nil, err
	}
	defer a.end(&err)

	if limit < 0 {
		return nil, errSQL(1064, "You have an error in your SQL syntax (negative LIMIT)")
	}
	done := map[t.Uid]int{}
	for _, c := range a.db.creds {
		if c.done {
			done[c.uid]++
		}
	}
	rows := sorted(a.db.users,
		func(u *userRow) bool {
			return u.lastSeen == nil && u.updatedAt.Before(lastUpdatedBefore) && done[u.uid] == 0
		},
		func(x, y *userRow) bool {
			if !x.updatedAt.Equal(y.updatedAt) {
				return x.updatedAt.Before(y.updatedAt)
			}
			return lessUid(x.uid, y.uid)
		})
	var uids []t.Uid
	for i, u := range rows {
		if i >= limit {
			break
		}
		uids = append(uids, u.uid)
	}
	return uids, nil
}

// ---------------------------------------------------------------------------
// Authentication records.

// AuthAddRecord adds user's authentication record.
func (a *adapter) AuthAddRecord(uid t.Uid, scheme, unique string, authLvl auth.Level,
	secret []byte, expires time.Time) (err error) {
	if err = a.begin("AuthAddRecord"); err != nil {
		return err
	}
	defer a.end(&err)

	var exp *time.Time
	if !expires.IsZero() {
		exp = timePtr(dt0(expires))
	}
	for _, r := range a.db.auth {
		if r.uname == unique || (r.uid == uid && r.scheme == scheme) {
			a.nextID("auth")
			return t.ErrDuplicate
		}
	}
	if _, ok := a.db.users[uid]; !ok {
		return errForeignKey("auth", "userid")
	}
	id := a.nextID("auth")
	ins(a, a.db.auth, id, &authRow{
		rid: id, uname: unique, uid: uid, scheme: scheme, authLvl: int(authLvl),
		secret: append([]byte{}, secret...), expires: exp,
	})
	return nil
}

// AuthDelScheme deletes an existing authentication scheme for the user.
func (a *adapter) AuthDelScheme(user t.Uid, scheme string) (err error) {
	if err = a.begin("AuthDelScheme"); err != nil {
		return err
	}
	defer a.end(&err)

	for id, r := range a.db.auth {
		if r.uid == user && r.scheme == scheme {
			del(a, a.db.auth, id)
		}
	}
	return nil
}

// AuthDelAllRecords deletes all authentication records for the user.
func (a *adapter) AuthDelAllRecords(user t.Uid) (_ int, err error) {
	if err = a.begin("AuthDelAllRecords"); err != nil {
		return 0, err
	}
	defer a.end(&err)

	count := 0
	for id, r := range a.db.auth {
		if r.uid == user {
			del(a, a.db.auth, id)
			count++
		}
	}
	return count, nil
}

// AuthUpdRecord updates user's authentication unique, secret, auth level.
func (a *adapter) AuthUpdRecord(uid t.Uid, scheme, unique string, authLvl auth.Level,
	secret []byte, expires time.Time) (err error) {
	if err = a.begin("AuthUpdRecord"); err != nil {
		return err
	}
	defer a.end(&err)

	var row *authRow
	for _, r := range a.db.auth {
		if r.uid == uid && r.scheme == scheme {
			row = r
			break
		}
	}
	if row == nil {
		return t.ErrNotFound
	}
	upd := *row
	upd.authLvl = int(authLvl)
	if unique != "" {
		upd.uname = unique
	}
	if len(secret) > 0 {
		upd.secret = append([]byte{}, secret...)
	}
	if !expires.IsZero() {
		upd.expires = timePtr(dt0(expires))
	}
	if upd.uname != row.uname {
		for _, r := range a.db.auth {
			if r != row && r.uname == upd.uname {
				return t.ErrDuplicate
			}
		}
	}
	// RowsAffected of MySQL counts CHANGED rows: an update which changes
	// nothing is reported as ErrNotFound.
	changed := upd.authLvl != row.authLvl || upd.uname != row.uname ||
		string(upd.secret) != string(row.secret) ||
		(upd.expires == nil) != (row.expires == nil) ||
		(upd.expires != nil && !upd.expires.Equal(*row.expires))
	if !changed {
		return t.ErrNotFound
	}
	mod(a, row)
	*row = upd
	return nil
}

// AuthGetRecord retrieves user's authentication record
func (a *adapter) AuthGetRecord(uid t.Uid, scheme string) (_ string, _ auth.Level, _ []byte, _ time.Time, err error) {
	var expires time.Time
	if err = a.begin("AuthGetRecord"); err != nil {
		return "", 0, nil, expires, err
	}
	defer a.end(&err)

	for _, r := range a.db.auth {
		if r.uid == uid && r.scheme == scheme {
			if r.expires != nil {
				expires = *r.expires
			}
			return r.uname, auth.Level(r.authLvl), cloneBytes(r.secret), expires, nil
		}
	}
	// Nothing found - use standard error.
	return "", 0, nil, expires, t.ErrNotFound
}

// AuthGetUniqueRecord retrieves user's authentication record
func (a *adapter) AuthGetUniqueRecord(unique string) (_ t.Uid, _ auth.Level, _ []byte, _ time.Time, err error) {
	var expires time.Time
	if err = a.begin("AuthGetUniqueRecord"); err != nil {
		return t.ZeroUid, 0, nil, expires, err
	}
	defer a.end(&err)

	for _, r := range a.db.auth {
		if r.uname == unique {
			if r.expires != nil {
				expires = *r.expires
			}
			return r.uid, auth.Level(r.authLvl), cloneBytes(r.secret), expires, nil
		}
	}
	// Nothing found - clear the error
	return t.ZeroUid, 0, nil, expires, nil
}

// ---------------------------------------------------------------------------
// Credentials.

func (a *adapter) credBySynthetic(synth string) *credRow {
	for _, c := range a.db.creds {
		if c.synthetic == synth {
			return c
		}
	}
	return nil
}

// CredUpsert adds or updates a validation record. Returns true if inserted, false if updated.
// 1. if credential is validated:
// 1.1 Hard-delete unconfirmed equivalent record, if exists.
// 1.2 Insert new. Report error if duplicate.
// 2. if credential is not validated:
// 2.1 Check if validated equivalent exist. If so, report an error.
// 2.2 Soft-delete all unvalidated records of the same method.
// 2.3 Undelete existing credential. Return if successful.
// 2.4 Insert new credential record.
func (a *adapter) CredUpsert(cred *t.Credential) (_ bool, err error) {
	if err = a.begin("CredUpsert"); err != nil {
		return false, err
	}
	defer a.end(&err)

	now := t.TimeNow()
	userID := t.ParseUid(cred.User)

	// Enforce uniqueness: if credential is confirmed, "method:value" must be unique.
	// if credential is not yet confirmed, "userid:method:value" is unique.
	synth := cred.Method + ":" + cred.Value

	if !cred.Done {
		// Check if this credential is already validated.
		if a.credBySynthetic(synth) != nil {
			return false, t.ErrDuplicate
		}
		// We are going to insert new record.
		synth = cred.User + ":" + synth

		// Adding new unvalidated credential. Deactivate all unvalidated records of this user and method.
		for _, c := range a.db.creds {
			if c.uid == userID && c.method == cred.Method && !c.done {
				mod(a, c)
				c.deletedAt = timePtr(now)
			}
		}
		// Assume that the record exists and try to update it: undelete, update timestamp and response value.
		if c := a.credBySynthetic(synth); c != nil {
			upd := *c
			upd.updatedAt = dt3(cred.UpdatedAt)
			upd.deletedAt = nil
			upd.resp = cred.Resp
			upd.done = false
			changed := !upd.updatedAt.Equal(c.updatedAt) || c.deletedAt != nil || upd.resp != c.resp || c.done
			if changed {
				// If record was updated, then all is fine.
				mod(a, c)
				*c = upd
				return false, nil
			}
		}
	} else {
		// Hard-deleting unconformed record if it exists.
		if c := a.credBySynthetic(cred.User + ":" + synth); c != nil {
			del(a, a.db.creds, c.rid)
		}
	}
	// Add new record.
	if a.credBySynthetic(synth) != nil {
		a.nextID("credentials")
		return true, t.ErrDuplicate
	}
	if _, ok := a.db.users[userID]; !ok {
		return true, errForeignKey("credentials", "userid")
	}
	id := a.nextID("credentials")
	ins(a, a.db.creds, id, &credRow{
		rid: id, createdAt: dt3(cred.CreatedAt), updatedAt: dt3(cred.UpdatedAt),
		method: cred.Method, value: cred.Value, synthetic: synth, uid: userID,
		resp: cred.Resp, done: cred.Done,
	})
	return true, nil
}

// CredDel deletes either credentials of the given user. If method is blank all
// credentials are removed. If value is blank all credentials of the given the
// method are removed.
func (a *adapter) CredDel(uid t.Uid, method, value string) (err error) {
	if err = a.begin("CredDel"); err != nil {
		return err
	}
	defer a.end(&err)

	match := func(c *credRow) bool {
		if c.uid != uid {
			return false
		}
		if method != "" {
			if c.method != method {
				return false
			}
			if value != "" && c.value != value {
				return false
			}
		}
		return true
	}

	if method == "" {
		// Case 1: hard-delete all records.
		count := 0
		for id, c := range a.db.creds {
			if match(c) {
				del(a, a.db.creds, id)
				count++
			}
		}
		if count == 0 {
			return t.ErrNotFound
		}
		return nil
	}

	// Case 2.1: delete it if it's validated or if there were no attempts at validation.
	count := 0
	for id, c := range a.db.creds {
		if match(c) && (c.done || c.retries == 0) {
			del(a, a.db.creds, id)
			count++
		}
	}
	if count > 0 {
		return nil
	}

	// Case 2.2: the MySQL adapter soft-deletes the remaining records, then
	// reports ErrNotFound unconditionally (count >= 0), which makes CredDel
	// roll the soft-deletion back. Net effect: nothing changes.
	return t.ErrNotFound
}

// CredConfirm marks given credential method as confirmed.
func (a *adapter) CredConfirm(uid t.Uid, method string) (err error) {
	if err = a.begin("CredConfirm"); err != nil {
		return err
	}
	defer a.end(&err)

	now := t.TimeNow()
	count := 0
	rows := sorted(a.db.creds,
		func(c *credRow) bool { return c.uid == uid && c.method == method && c.deletedAt == nil && !c.done },
		func(x, y *credRow) bool { return x.rid < y.rid })
	for _, c := range rows {
		synth := c.method + ":" + c.value
		if other := a.credBySynthetic(synth); other != nil && other != c {
			// The statement is rolled back by a.end.
			return t.ErrDuplicate
		}
		mod(a, c)
		c.updatedAt = now
		c.done = true
		c.synthetic = synth
		count++
	}
	if count < 1 {
		return t.ErrNotFound
	}
	return nil
}

// CredFail increments failure count of the given validation method.
func (a *adapter) CredFail(uid t.Uid, method string) (err error) {
	if err = a.begin("CredFail"); err != nil {
		return err
	}
	defer a.end(&err)

	now := t.TimeNow()
	for _, c := range a.db.creds {
		if c.uid == uid && c.method == method && !c.done {
			mod(a, c)
			c.updatedAt = now
			c.retries++
		}
	}
	return nil
}

func credFromRow(c *credRow, user string) t.Credential {
	var cred t.Credential
	cred.CreatedAt = c.createdAt
	cred.UpdatedAt = c.updatedAt
	cred.Method = c.method
	cred.Value = c.value
	cred.Resp = c.resp
	cred.Done = c.done
	cred.Retries = c.retries
	cred.User = user
	return cred
}

// CredGetActive returns currently active unvalidated credential of the given user and method.
func (a *adapter) CredGetActive(uid t.Uid, method string) (_ *t.Credential, err error) {
	if err = a.begin("CredGetActive"); err != nil {
		return nil, err
	}
	defer a.end(&err)

	rows := sorted(a.db.creds,
		func(c *credRow) bool { return c.uid == uid && c.deletedAt == nil && c.method == method && !c.done },
		func(x, y *credRow) bool { return x.rid < y.rid })
	if len(rows) == 0 {
		return nil, nil
	}
	cred := credFromRow(rows[0], uid.String())
	return &cred, nil
}

// CredGetAll returns credential records for the given user and method, all or validated only.
func (a *adapter) CredGetAll(uid t.Uid, method string, validatedOnly bool) (_ []t.Credential, err error) {
	if err = a.begin("CredGetAll"); err != nil {
		return nil, err
	}
	defer a.end(&err)

	rows := sorted(a.db.creds,
		func(c *credRow) bool {
			return c.uid == uid && c.deletedAt == nil && (method == "" || c.method == method) &&
				(!validatedOnly || c.done)
		},
		func(x, y *credRow) bool { return x.rid < y.rid })
	var credentials []t.Credential
	user := uid.String()
	for _, c := range rows {
		credentials = append(credentials, credFromRow(c, user))
	}
	return credentials, nil
}

// ---------------------------------------------------------------------------
// Devices.

func deviceHasher(deviceID string) string {
	// Generate custom key as [64-bit hash of device id] to ensure predictable
	// length of the key
	hasher := fnv.New64()
	hasher.Write([]byte(deviceID))
	return strconv.FormatUint(uint64(hasher.Sum64()), 16)
}

// DeviceUpsert creates or updates a device record.
func (a *adapter) DeviceUpsert(uid t.Uid, def *t.DeviceDef) (err error) {
	if err = a.begin("DeviceUpsert"); err != nil {
		return err
	}
	defer a.end(&err)

	hash := deviceHasher(def.DeviceId)
	// Ensure uniqueness of the device ID: delete all records of the device ID
	del(a, a.db.devices, hash)

	// Actually add/update DeviceId for the new user
	if _, ok := a.db.users[uid]; !ok {
		return errForeignKey("devices", "userid")
	}
	id := a.nextID("devices")
	ins(a, a.db.devices, hash, &deviceRow{
		rid: id, uid: uid, hash: hash, deviceID: def.DeviceId, platform: def.Platform,
		lastSeen: dt0(def.LastSeen), lang: def.Lang,
	})
	return nil
}

// DeviceGetAll returns all devices for a given set of users.
func (a *adapter) DeviceGetAll(uids ...t.Uid) (_ map[t.Uid][]t.DeviceDef, _ int, err error) {
	if err = a.begin("DeviceGetAll"); err != nil {
		return nil, 0, err
	}
	defer a.end(&err)

	if len(uids) == 0 {
		return nil, 0, errSQL(1065, "Query was empty")
	}
	want := map[t.Uid]bool{}
	for _, uid := range uids {
		want[uid] = true
	}
	rows := sorted(a.db.devices,
		func(d *deviceRow) bool { return want[d.uid] },
		func(x, y *deviceRow) bool { return x.rid < y.rid })

	result := make(map[t.Uid][]t.DeviceDef)
	count := 0
	for _, d := range rows {
		result[d.uid] = append(result[d.uid], t.DeviceDef{
			DeviceId: d.deviceID,
			Platform: d.platform,
			LastSeen: d.lastSeen,
			Lang:     d.lang,
		})
		count++
	}
	return result, count, nil
}

// DeviceDelete deletes a device record (all devices of the user if deviceID is empty).
func (a *adapter) DeviceDelete(uid t.Uid, deviceID string) (err error) {
	if err = a.begin("DeviceDelete"); err != nil {
		return err
	}
	defer a.end(&err)

	return a.deviceDelete(uid, deviceID)
}
