#!/bin/sh
# Builds and runs the memverif self-test and checks that the whole server test
# binary links with the adapter. Nothing is written to the tinode tree: the
# package exists only in a `go test -overlay` file map.
#
# `go test ./db/memverif/` cannot be used directly: go test starts the test
# binary in the package directory, which exists only in the overlay
# ("chdir /repo/server/db/memverif: no such file or directory"). The binary is
# therefore built with -c and started from the build directory.
#
# usage: selftest.sh [-race] [test binary flags, e.g. -test.v -test.run TestMessages]
set -e
HERE=$(cd "$(dirname "$0")" && pwd)
ROOT=$(cd "$HERE/../../../../.." && pwd)
REPO=${VERIF_REPO:-/repo}
BUILD=$ROOT/build
mkdir -p "$BUILD"
export GOFLAGS=-mod=mod GOPROXY=off GOSUMDB=off GOTOOLCHAIN=local

RACE=
if [ "$1" = "-race" ]; then RACE=-race; shift; fi

OV=$BUILD/ov_mem.json
{
  echo '{"Replace": {'
  for f in "$HERE"/*.go; do
    printf '  "%s/server/db/memverif/%s": "%s",\n' "$REPO" "$(basename "$f")" "$f"
  done
  printf '  "%s/server/zz_verif_mem_test.go": "%s"\n' "$REPO" "$ROOT/harness/overlay/server/zz_verif_mem_test.go"
  echo '}}'
} > "$OV"

cd "$REPO/server"
go test $RACE -c -o "$BUILD/memverif.test" -vet=off -tags verif -overlay "$OV" ./db/memverif/
(cd "$BUILD" && ./memverif.test -test.count=1 "$@")
go test -c -o "$BUILD/x.test" -vet=off -tags verif -overlay "$OV" .
echo "server test binary with memverif: $BUILD/x.test"
