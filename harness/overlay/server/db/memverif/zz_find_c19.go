package memverif

import "sync"

// Log of the arguments of FindUsers / FindTopics (C19 search layer): what the server hands
// to the store when a 'fnd' query is executed. Kept apart from the call log (CallLog holds
// method names only and is compared by other checks). Recorded at the entry of the call,
// before the fault plan is applied.

// FindCallC19 is one recorded call.
type FindCallC19 struct {
	Method     string // "FindUsers" | "FindTopics"
	Req        [][]string
	Opt        []string
	ActiveOnly bool
}

var (
	findMuC19  sync.Mutex
	findLogC19 []FindCallC19
)

func noteFindC19(method string, req [][]string, opt []string, activeOnly bool) {
	c := FindCallC19{Method: method, ActiveOnly: activeOnly}
	for _, g := range req {
		c.Req = append(c.Req, append([]string{}, g...))
	}
	c.Opt = append([]string{}, opt...)
	findMuC19.Lock()
	if len(findLogC19) >= 4096 {
		// drivers that never read the log must not grow it without bound
		findLogC19 = append(findLogC19[:0], findLogC19[2048:]...)
	}
	findLogC19 = append(findLogC19, c)
	findMuC19.Unlock()
}

// FindLogC19 returns the calls recorded since the last ResetFindLogC19.
func FindLogC19() []FindCallC19 {
	findMuC19.Lock()
	defer findMuC19.Unlock()
	return append([]FindCallC19{}, findLogC19...)
}

// ResetFindLogC19 clears the log.
func ResetFindLogC19() {
	findMuC19.Lock()
	findLogC19 = nil
	findMuC19.Unlock()
}
