//go:build verif

package memverif

import (
	"sort"
	"time"

	t "github.com/tinode/chat/server/store/types"
)

// Structured dump of the fileuploads / filemsglinks tables for the C16 driver.
type FileDump struct {
	Id       t.Uid
	User     t.Uid
	Status   int
	Mime     string
	Size     int64
	Location string
	Updated  time.Time
}

// LinkDump: exactly one of MsgId / Topic / User is set.
type LinkDump struct {
	File     t.Uid
	MsgId    int64
	MsgTopic string // topic and seq of the message the link points to ("" if the row is gone)
	MsgSeq   int
	Topic    string
	User     t.Uid
}

// DumpFiles returns the upload records ordered by decoded id (= table order).
func DumpFiles() []FileDump {
	a := theAdapter
	a.mu.Lock()
	defer a.mu.Unlock()
	var res []FileDump
	for _, f := range a.db.files {
		res = append(res, FileDump{Id: f.uid, User: f.user, Status: f.status, Mime: f.mimeType, Size: f.size,
			Location: f.location, Updated: f.updatedAt})
	}
	sort.Slice(res, func(i, j int) bool { return lessUid(res[i].Id, res[j].Id) })
	return res
}

// DumpLinks returns the link rows in row-id order.
func DumpLinks() []LinkDump {
	a := theAdapter
	a.mu.Lock()
	defer a.mu.Unlock()
	type row struct {
		rid int64
		l   LinkDump
	}
	var rows []row
	for _, l := range a.db.links {
		d := LinkDump{File: l.file, MsgId: l.msgID, Topic: l.topic, User: l.user}
		if l.msgID != 0 {
			for _, m := range a.db.msgs {
				if m.id == l.msgID {
					d.MsgTopic, d.MsgSeq = m.topic, m.seqID
					break
				}
			}
		}
		rows = append(rows, row{l.rid, d})
	}
	sort.Slice(rows, func(i, j int) bool { return rows[i].rid < rows[j].rid })
	var res []LinkDump
	for _, r := range rows {
		res = append(res, r.l)
	}
	return res
}
