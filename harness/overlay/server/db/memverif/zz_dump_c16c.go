//go:build verif

package memverif

import t "github.com/tinode/chat/server/store/types"

// DumpUsersC16c returns the ids of the rows of the users table (C16: is an account left behind by a
// refused {acc user="new"}?).
func DumpUsersC16c() []t.Uid {
	a := theAdapter
	a.mu.Lock()
	defer a.mu.Unlock()
	var res []t.Uid
	for id := range a.db.users {
		res = append(res, id)
	}
	return res
}
