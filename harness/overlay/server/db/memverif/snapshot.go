//go:build verif

package memverif

import (
	"encoding/hex"
	"encoding/json"
	"sort"
	"strconv"
	"strings"

	t "github.com/tinode/chat/server/store/types"
)

// canon renders a JSON column canonically (object keys sorted by
// encoding/json); NULL and JSON null are both "null".
func canon(b []byte) string {
	if b == nil {
		return "null"
	}
	var v any
	if err := json.Unmarshal(b, &v); err != nil {
		return "!" + strconv.Quote(string(b))
	}
	out, err := json.Marshal(v)
	if err != nil {
		return "!" + strconv.Quote(string(b))
	}
	return string(out)
}

func uidStr(uid t.Uid) string {
	if uid.IsZero() {
		return "-"
	}
	return uid.String()
}

func q(s string) string {
	return strconv.Quote(s)
}

func b2s(b bool) string {
	if b {
		return "true"
	}
	return "false"
}

// accessStr renders a DefaultAccess column as "auth=... anon=...".
func accessStr(b []byte) string {
	if b == nil {
		return "auth=null anon=null"
	}
	var raw struct {
		Auth *string
		Anon *string
	}
	if err := json.Unmarshal(b, &raw); err != nil {
		return "auth=! anon=!"
	}
	f := func(p *string) string {
		if p == nil {
			return "null"
		}
		if *p == "" {
			return `""`
		}
		return *p
	}
	return "auth=" + f(raw.Auth) + " anon=" + f(raw.Anon)
}

func modeStr(m string) string {
	if m == "" {
		return `""`
	}
	return m
}

func tagsOf(rows map[int64]*tagRow, uid t.Uid, top string) string {
	var tags []string
	for _, r := range rows {
		if r.uid == uid && r.top == top {
			tags = append(tags, r.tag)
		}
	}
	sort.Strings(tags)
	out, _ := json.Marshal(tags)
	if tags == nil {
		return "[]"
	}
	return string(out)
}

// msgRef renders the message a link points to as topic:seqid.
func (a *adapter) msgRef(id int64) string {
	for _, m := range a.db.msgs {
		if m.id == id {
			return m.topic + ":" + strconv.Itoa(m.seqID)
		}
	}
	return "?" + strconv.FormatInt(id, 10)
}

func (a *adapter) msgTopic(id int64) string {
	for _, m := range a.db.msgs {
		if m.id == id {
			return m.topic
		}
	}
	return ""
}

// dump writes the tables. If topic != "" only rows of that topic are written
// (the topic row, subscriptions under the topic's grp and chn names, messages,
// dellog, links to the topic or to its messages).
func (a *adapter) dump(topic string) string {
	db := a.db
	all := topic == ""
	alt := ""
	if !all && len(topic) >= 3 {
		switch topic[:3] {
		case "grp":
			alt = t.GrpToChn(topic)
		case "chn":
			alt = t.ChnToGrp(topic)
		}
	}
	isTopic := func(name string) bool {
		return all || name == topic || (alt != "" && name == alt)
	}

	var sb strings.Builder
	section := func(name string, lines []string) {
		sort.Strings(lines)
		sb.WriteString("[" + name + "]\n")
		for _, l := range lines {
			sb.WriteString(l)
			sb.WriteByte('\n')
		}
	}

	var lines []string

	if all {
		lines = nil
		for _, u := range db.users {
			lines = append(lines, "user id="+uidStr(u.uid)+
				" state="+u.state.String()+
				" tags="+canon(u.tags)+
				" tagidx="+tagsOf(db.usertags, u.uid, "")+
				" "+accessStr(u.access)+
				" public="+canon(u.public)+
				" trusted="+canon(u.trusted)+
				" lastseen="+b2s(u.lastSeen != nil)+
				" ua="+q(u.userAgent))
		}
		section("users", lines)
	}

	lines = nil
	for _, r := range db.topics {
		if !isTopic(r.name) {
			continue
		}
		lines = append(lines, "topic name="+r.name+
			" owner="+uidStr(r.owner)+
			" seqid="+strconv.Itoa(r.seqID)+
			" delid="+strconv.Itoa(r.delID)+
			" state="+r.state.String()+
			" "+accessStr(r.access)+
			" tags="+canon(r.tags)+
			" tagidx="+tagsOf(db.topictags, t.ZeroUid, r.name)+
			" usebt="+b2s(r.useBt)+
			" public="+canon(r.public)+
			" trusted="+canon(r.trusted))
	}
	section("topics", lines)

	lines = nil
	for _, s := range db.subs {
		if !isTopic(s.topic) {
			continue
		}
		lines = append(lines, "sub topic="+s.topic+
			" user="+uidStr(s.uid)+
			" deleted="+b2s(s.deletedAt != nil)+
			" want="+modeStr(s.modeWant)+
			" given="+modeStr(s.modeGiven)+
			" delid="+strconv.Itoa(s.delID)+
			" recv="+strconv.Itoa(s.recvSeqID)+
			" read="+strconv.Itoa(s.readSeqID)+
			" private="+canon(s.private))
	}
	section("subscriptions", lines)

	// Messages: sorted by topic, then numerically by seqid.
	msgs := sorted(db.msgs,
		func(m *msgRow) bool { return isTopic(m.topic) },
		func(x, y *msgRow) bool {
			if x.topic != y.topic {
				return x.topic < y.topic
			}
			return x.seqID < y.seqID
		})
	sb.WriteString("[messages]\n")
	for _, m := range msgs {
		sb.WriteString("msg topic=" + m.topic +
			" seq=" + strconv.Itoa(m.seqID) +
			" from=" + uidStr(m.from) +
			" delid=" + strconv.Itoa(m.delID) +
			" deleted=" + b2s(m.deletedAt != nil) +
			" head=" + canon(m.head) +
			" content=" + canon(m.content) + "\n")
	}

	dl := sorted(db.dellog,
		func(d *dellogRow) bool { return isTopic(d.topic) },
		func(x, y *dellogRow) bool {
			if x.topic != y.topic {
				return x.topic < y.topic
			}
			if x.delID != y.delID {
				return x.delID < y.delID
			}
			if x.deletedFor != y.deletedFor {
				return uidStr(x.deletedFor) < uidStr(y.deletedFor)
			}
			if x.low != y.low {
				return x.low < y.low
			}
			if x.hi != y.hi {
				return x.hi < y.hi
			}
			return x.rid < y.rid
		})
	sb.WriteString("[dellog]\n")
	for _, d := range dl {
		sb.WriteString("dellog topic=" + d.topic +
			" for=" + uidStr(d.deletedFor) +
			" delid=" + strconv.Itoa(d.delID) +
			" low=" + strconv.Itoa(d.low) +
			" hi=" + strconv.Itoa(d.hi) + "\n")
	}

	if all {
		lines = nil
		for _, f := range db.files {
			lines = append(lines, "file id="+uidStr(f.uid)+
				" user="+uidStr(f.user)+
				" status="+strconv.Itoa(f.status)+
				" mime="+q(f.mimeType)+
				" size="+strconv.FormatInt(f.size, 10)+
				" location="+q(f.location))
		}
		section("files", lines)
	}

	lines = nil
	for _, l := range db.links {
		var target string
		switch {
		case l.msgID != 0:
			if !all && !isTopic(a.msgTopic(l.msgID)) {
				continue
			}
			target = "msg=" + a.msgRef(l.msgID)
		case l.topic != "":
			if !isTopic(l.topic) {
				continue
			}
			target = "topic=" + l.topic
		default:
			if !all {
				continue
			}
			target = "user=" + uidStr(l.user)
		}
		lines = append(lines, "link file="+uidStr(l.file)+" "+target)
	}
	section("links", lines)

	if !all {
		return sb.String()
	}

	lines = nil
	for _, r := range db.kv {
		lines = append(lines, "kv key="+q(r.key)+" value="+q(r.value))
	}
	section("pcache", lines)

	lines = nil
	for _, r := range db.auth {
		lines = append(lines, "auth user="+uidStr(r.uid)+
			" scheme="+q(r.scheme)+
			" uname="+q(r.uname)+
			" lvl="+strconv.Itoa(r.authLvl)+
			" secret="+hex.EncodeToString(r.secret)+
			" expires="+b2s(r.expires != nil))
	}
	section("auth", lines)

	lines = nil
	for _, c := range db.creds {
		lines = append(lines, "cred user="+uidStr(c.uid)+
			" method="+q(c.method)+
			" value="+q(c.value)+
			" done="+b2s(c.done)+
			" deleted="+b2s(c.deletedAt != nil)+
			" retries="+strconv.Itoa(c.retries)+
			" resp="+q(c.resp)+
			" synthetic="+q(c.synthetic))
	}
	section("credentials", lines)

	lines = nil
	for _, d := range db.devices {
		lines = append(lines, "device user="+uidStr(d.uid)+
			" id="+q(d.deviceID)+
			" platform="+q(d.platform)+
			" lang="+q(d.lang))
	}
	section("devices", lines)

	return sb.String()
}

// Snapshot returns a deterministic canonical text dump of all tables: one
// line per row, rows sorted by key, no timestamps (only booleans such as
// "deleted").
func Snapshot() string {
	a := theAdapter
	a.mu.Lock()
	defer a.mu.Unlock()
	return a.dump("")
}

// SnapshotTopic is Snapshot restricted to the rows of one topic: the topic
// row, its subscriptions (for a group topic under both the grp and the chn
// name), messages, dellog and attachment links.
func SnapshotTopic(name string) string {
	a := theAdapter
	a.mu.Lock()
	defer a.mu.Unlock()
	if name == "" {
		return ""
	}
	return a.dump(name)
}
