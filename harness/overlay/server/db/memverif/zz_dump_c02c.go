//go:build verif

package memverif

// DumpSubsC02c: the stored subscription rows whose topic column is `name` (also names without a
// topics row, e.g. chnXXX), for the C02 fan-out driver (stored grants = the authoritative ones).
func DumpSubsC02c(name string) []SubDump {
	a := theAdapter
	a.mu.Lock()
	defer a.mu.Unlock()
	var res []SubDump
	for k, s := range a.db.subs {
		if k.topic != name {
			continue
		}
		res = append(res, SubDump{User: s.uid, Want: parseMode(s.modeWant), Given: parseMode(s.modeGiven),
			Read: s.readSeqID, Recv: s.recvSeqID, DelId: s.delID, Deleted: s.deletedAt != nil})
	}
	return res
}
