//go:build verif

package memverif

import "sort"

// DumpSubsPrivC08x returns the subscription rows stored under a topic name (grpXXX or chnXXX: the rows of channel
// readers live under the chn name, which has no topics row) with their private column.  Added for the C08 channel
// driver (zz_verif_c08x_test.go); read-only.
func DumpSubsPrivC08x(name string) []SubDescDump {
	a := theAdapter
	a.mu.Lock()
	defer a.mu.Unlock()
	var res []SubDescDump
	for k, s := range a.db.subs {
		if k.topic != name {
			continue
		}
		res = append(res, SubDescDump{User: s.uid, Rid: s.rid, Want: parseMode(s.modeWant), Given: parseMode(s.modeGiven),
			Private: c08DecodeAny(s.private), Deleted: s.deletedAt != nil})
	}
	sort.Slice(res, func(i, j int) bool { return res[i].Rid < res[j].Rid })
	return res
}
