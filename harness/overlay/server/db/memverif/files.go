//go:build verif

package memverif

import (
	"errors"
	"strconv"
	"strings"
	"time"

	t "github.com/tinode/chat/server/store/types"
)

func itoa(i int) string {
	return strconv.Itoa(i)
}

// ---------------------------------------------------------------------------
// File uploads.

// FileStartUpload initializes a file upload
func (a *adapter) FileStartUpload(fd *t.FileDef) (err error) {
	if err = a.begin("FileStartUpload"); err != nil {
		return err
	}
	defer a.end(&err)

	var user t.Uid
	if fd.User != "" {
		user = t.ParseUid(fd.User)
	}
	id := fd.Uid()
	if _, ok := a.db.files[id]; ok {
		return errDupEntry("fileuploads.PRIMARY", decStr(id))
	}
	ins(a, a.db.files, id, &fileRow{
		uid:       id,
		createdAt: dt3(fd.CreatedAt),
		updatedAt: dt3(fd.UpdatedAt),
		user:      user,
		status:    fd.Status,
		mimeType:  fd.MimeType,
		size:      fd.Size,
		location:  fd.Location,
	})
	return nil
}

// FileFinishUpload marks file upload as completed, successfully or otherwise.
// As in the MySQL adapter the caller's fd is amended and returned.
func (a *adapter) FileFinishUpload(fd *t.FileDef, success bool, size int64) (_ *t.FileDef, err error) {
	if err = a.begin("FileFinishUpload"); err != nil {
		return nil, err
	}
	defer a.end(&err)

	now := t.TimeNow()
	id := fd.Uid()
	if success {
		if r, ok := a.db.files[id]; ok {
			mod(a, r)
			r.updatedAt = now
			r.status = t.UploadCompleted
			r.size = size
		}

		fd.Status = t.UploadCompleted
		fd.Size = size
	} else {
		// Deleting the record: there is no value in keeping it in the DB.
		if _, ok := a.db.files[id]; ok {
			del(a, a.db.files, id)
			// filemsglinks.fileid ON DELETE CASCADE
			a.deleteLinksWhere(func(l *linkRow) bool { return l.file == id })
		}

		fd.Status = t.UploadFailed
		fd.Size = 0
	}
	fd.UpdatedAt = now

	return fd, nil
}

// FileGet fetches a record of a specific file
func (a *adapter) FileGet(fid string) (_ *t.FileDef, err error) {
	if err = a.begin("FileGet"); err != nil {
		return nil, err
	}
	defer a.end(&err)

	id := t.ParseUid(fid)
	if id.IsZero() {
		return nil, t.ErrMalformed
	}

	r, ok := a.db.files[id]
	if !ok {
		return nil, nil
	}

	var fd t.FileDef
	fd.Id = r.uid.String()
	fd.CreatedAt = r.createdAt
	fd.UpdatedAt = r.updatedAt
	fd.User = r.user.String()
	fd.Status = r.status
	fd.MimeType = r.mimeType
	fd.Size = r.size
	fd.Location = r.location
	return &fd, nil
}

// FileDeleteUnused deletes file upload records which have no links, optionally
// only those updated before olderThan, at most limit (if positive) records.
// Returns the non-empty locations of the removed records.
func (a *adapter) FileDeleteUnused(olderThan time.Time, limit int) (_ []string, err error) {
	noteGcC16f(olderThan, limit) // zz_gc_c16f.go: records the arguments when a driver asked for it
	if err = a.begin("FileDeleteUnused"); err != nil {
		return nil, err
	}
	defer a.end(&err)

	used := map[t.Uid]bool{}
	for _, l := range a.db.links {
		used[l.file] = true
	}
	// Garbage collecting entries which lack references.
	rows := sorted(a.db.files,
		func(f *fileRow) bool {
			return !used[f.uid] && (olderThan.IsZero() || f.updatedAt.Before(olderThan))
		},
		func(x, y *fileRow) bool { return lessUid(x.uid, y.uid) })
	if limit > 0 && len(rows) > limit {
		rows = rows[:limit]
	}

	var locations []string
	for _, f := range rows {
		if f.location != "" {
			locations = append(locations, f.location)
		}
		del(a, a.db.files, f.uid)
	}
	return locations, nil
}

// FileLinkAttachments connects given topic or message to the file record IDs from the list.
func (a *adapter) FileLinkAttachments(topic string, userID, msgID t.Uid, fids []string) (err error) {
	if err = a.begin("FileLinkAttachments"); err != nil {
		return err
	}
	defer a.end(&err)

	if len(fids) == 0 || (topic == "" && msgID.IsZero() && userID.IsZero()) {
		return t.ErrMalformed
	}
	now := t.TimeNow()

	const (
		byMsg = iota
		byTopic
		byUser
	)
	var linkBy int
	if !msgID.IsZero() {
		linkBy = byMsg
	} else if topic != "" {
		linkBy = byTopic
		// Only one attachment per topic is permitted at this time.
		fids = fids[0:1]
	} else {
		linkBy = byUser
		// Only one attachment per user is permitted at this time.
		fids = fids[0:1]
	}

	// Decoded ids
	var dids []t.Uid
	for _, fid := range fids {
		id := t.ParseUid(fid)
		if id.IsZero() {
			return t.ErrMalformed
		}
		dids = append(dids, id)
	}

	// Unlink earlier uploads on the same topic or user allowing them to be garbage-collected.
	if msgID.IsZero() {
		a.deleteLinksWhere(func(l *linkRow) bool {
			if linkBy == byTopic {
				return l.topic != "" && l.topic == topic
			}
			return !l.user.IsZero() && l.user == userID
		})
	}

	// Foreign keys of the parent object.
	switch linkBy {
	case byMsg:
		found := false
		for _, m := range a.db.msgs {
			if m.id == int64(msgID) {
				found = true
				break
			}
		}
		if !found {
			return errForeignKey("filemsglinks", "msgid")
		}
	case byTopic:
		if _, ok := a.db.topics[topic]; !ok {
			return errForeignKey("filemsglinks", "topic")
		}
	case byUser:
		if _, ok := a.db.users[userID]; !ok {
			return errForeignKey("filemsglinks", "userid")
		}
	}

	for _, id := range dids {
		rid := a.nextID("filemsglinks")
		if _, ok := a.db.files[id]; !ok {
			return errForeignKey("filemsglinks", "fileid")
		}
		l := &linkRow{rid: rid, createdAt: now, file: id}
		switch linkBy {
		case byMsg:
			l.msgID = int64(msgID)
		case byTopic:
			l.topic = topic
		case byUser:
			l.user = userID
		}
		ins(a, a.db.links, rid, l)
	}
	return nil
}

// ---------------------------------------------------------------------------
// Persistent cache (table kvmeta, which also holds the 'version' record).

// PCacheGet reads a persistet cache entry.
func (a *adapter) PCacheGet(key string) (_ string, err error) {
	if err = a.begin("PCacheGet"); err != nil {
		return "", err
	}
	defer a.end(&err)

	if r, ok := a.db.kv[key]; ok {
		return r.value, nil
	}
	return "", t.ErrNotFound
}

// PCacheUpsert creates or updates a persistent cache entry.
func (a *adapter) PCacheUpsert(key string, value string, failOnDuplicate bool) (err error) {
	if err = a.begin("PCacheUpsert"); err != nil {
		return err
	}
	defer a.end(&err)

	if strings.Contains(key, "%") {
		// Do not allow % in keys: it interferes with LIKE query.
		return t.ErrMalformed
	}

	if _, ok := a.db.kv[key]; ok {
		if failOnDuplicate {
			return t.ErrDuplicate
		}
		// REPLACE
		del(a, a.db.kv, key)
	}
	now := t.TimeNow()
	ins(a, a.db.kv, key, &kvRow{key: key, createdAt: &now, value: value})
	return nil
}

// PCacheDelete deletes one persistent cache entry.
func (a *adapter) PCacheDelete(key string) (err error) {
	if err = a.begin("PCacheDelete"); err != nil {
		return err
	}
	defer a.end(&err)

	del(a, a.db.kv, key)
	return nil
}

// PCacheExpire expires old entries with the given key prefix.
func (a *adapter) PCacheExpire(keyPrefix string, olderThan time.Time) (err error) {
	if err = a.begin("PCacheExpire"); err != nil {
		return err
	}
	defer a.end(&err)

	if keyPrefix == "" {
		return t.ErrMalformed
	}

	// `key` LIKE 'prefix%' AND createdat<?
	for key, r := range a.db.kv {
		if r.createdAt != nil && r.createdAt.Before(olderThan) && likeMatch(keyPrefix+"%", key) {
			del(a, a.db.kv, key)
		}
	}
	return nil
}

// ---------------------------------------------------------------------------
// Search by tags.

// tagQuery evaluates the common part of FindUsers/FindTopics:
//
//	SELECT ..., COUNT(*) AS matches FROM parent LEFT JOIN tags WHERE tag IN (all tags)
//	GROUP BY parent HAVING <every non-empty req group has a matching tag>
//
// matched maps a parent key to its tag rows which are IN (all tags).
func tagQuery[K comparable](tags map[int64]*tagRow, keyOf func(*tagRow) K,
	req [][]string, opt []string) (matches map[K]int, index map[string]struct{}, err error) {

	index = make(map[string]struct{})
	allReq := t.FlattenDoubleSlice(req)
	for _, tag := range append(allReq, opt...) {
		index[tag] = struct{}{}
	}
	if len(allReq)+len(opt) == 0 {
		return nil, nil, errors.New("memverif: tag search without tags (the MySQL adapter would panic: negative Repeat count)")
	}

	found := map[K][]string{}
	for _, r := range tags {
		if _, ok := index[r.tag]; ok {
			k := keyOf(r)
			found[k] = append(found[k], r.tag)
		}
	}

	matches = map[K]int{}
	for k, tagsOf := range found {
		ok := true
		for _, reqDisjunction := range req {
			if len(reqDisjunction) == 0 {
				continue
			}
			// At least one of the tags must be present.
			hit := false
			for _, want := range reqDisjunction {
				for _, have := range tagsOf {
					if want == have {
						hit = true
					}
				}
			}
			if !hit {
				ok = false
				break
			}
		}
		if ok {
			matches[k] = len(tagsOf)
		}
	}
	return matches, index, nil
}

// FindUsers returns a list of users who match given tags, such as "email:jdoe@example.com" or "tel:+18003287448".
// Searching the 'users.Tags' for the given tags using respective index.
func (a *adapter) FindUsers(uid t.Uid, req [][]string, opt []string, activeOnly bool) (_ []t.Subscription, err error) {
	noteFindC19("FindUsers", req, opt, activeOnly) // zz_find_c19.go: argument log, no effect on the call
	if err = a.begin("FindUsers"); err != nil {
		return nil, err
	}
	defer a.end(&err)

	matches, index, err := tagQuery(a.db.usertags, func(r *tagRow) t.Uid { return r.uid }, req, opt)
	if err != nil {
		return nil, err
	}

	// Get users matched by tags, sort by number of matches from high to low.
	rows := sorted(a.db.users,
		func(u *userRow) bool {
			if activeOnly && u.state != t.StateOK {
				return false
			}
			return matches[u.uid] > 0
		},
		func(x, y *userRow) bool {
			if matches[x.uid] != matches[y.uid] {
				return matches[x.uid] > matches[y.uid]
			}
			return lessUid(x.uid, y.uid)
		})
	if len(rows) > a.maxResults {
		rows = rows[:a.maxResults]
	}

	var access t.DefaultAccess
	var userTags t.StringSlice
	var sub t.Subscription
	var subs []t.Subscription
	for _, u := range rows {
		sub.CreatedAt = u.createdAt
		sub.UpdatedAt = u.updatedAt
		if u.access == nil {
			return nil, errSQL(0, "sql: Scan error on column 'access': NULL")
		}
		if err = access.Scan(cloneBytes(u.access)); err != nil {
			return nil, err
		}
		if err = userTags.Scan(anyBytes(u.tags)); err != nil {
			return nil, err
		}

		if u.uid == uid {
			// Skip the callee
			continue
		}
		sub.User = u.uid.String()
		sub.SetPublic(fromJSON(u.public))
		sub.SetTrusted(fromJSON(u.trusted))
		sub.SetDefaultAccess(access.Auth, access.Anon)
		foundTags := make([]string, 0, 1)
		for _, tag := range userTags {
			if _, ok := index[tag]; ok {
				foundTags = append(foundTags, tag)
			}
		}
		sub.Private = foundTags
		subs = append(subs, sub)
	}
	return subs, nil
}

// FindTopics returns a list of topics with matching tags.
// Searching the 'topics.Tags' for the given tags using respective index.
func (a *adapter) FindTopics(req [][]string, opt []string, activeOnly bool) (_ []t.Subscription, err error) {
	noteFindC19("FindTopics", req, opt, activeOnly) // zz_find_c19.go
	if err = a.begin("FindTopics"); err != nil {
		return nil, err
	}
	defer a.end(&err)

	matches, index, err := tagQuery(a.db.topictags, func(r *tagRow) string { return r.top }, req, opt)
	if err != nil {
		return nil, err
	}

	rows := sorted(a.db.topics,
		func(r *topicRow) bool {
			if activeOnly && r.state != t.StateOK {
				return false
			}
			return matches[r.name] > 0
		},
		func(x, y *topicRow) bool {
			if matches[x.name] != matches[y.name] {
				return matches[x.name] > matches[y.name]
			}
			return x.name < y.name
		})
	if len(rows) > a.maxResults {
		rows = rows[:a.maxResults]
	}

	var access t.DefaultAccess
	var topicTags t.StringSlice
	var sub t.Subscription
	var subs []t.Subscription
	for _, r := range rows {
		sub.Topic = r.name
		sub.CreatedAt = r.createdAt
		sub.UpdatedAt = r.updatedAt
		if r.access == nil {
			return nil, errSQL(0, "sql: Scan error on column 'access': NULL")
		}
		if err = access.Scan(cloneBytes(r.access)); err != nil {
			return nil, err
		}
		if err = topicTags.Scan(anyBytes(r.tags)); err != nil {
			return nil, err
		}

		if r.useBt {
			sub.Topic = t.GrpToChn(sub.Topic)
		}
		sub.SetPublic(fromJSON(r.public))
		sub.SetTrusted(fromJSON(r.trusted))
		sub.SetDefaultAccess(access.Auth, access.Anon)
		foundTags := make([]string, 0, 1)
		for _, tag := range topicTags {
			if _, ok := index[tag]; ok {
				foundTags = append(foundTags, tag)
			}
		}
		sub.Private = foundTags
		subs = append(subs, sub)
	}
	return subs, nil
}
