//go:build verif

// C16 tie between the file/link SQL of the REAL MySQL adapter and the store contract the C16
// driver runs above (memverif / coq/Sys/Files.v).  A recording database/sql driver hands every
// statement text and its arguments, exactly as they reach the driver, to tools/props/c16.py,
// which executes them on an SQL engine (python's sqlite3, tables with the foreign keys of
// adapter.go:526-555) over enumerated small tables and evaluates the GC / link laws on the
// result.  The rows a SELECT returns to the adapter are given by the caller (second pass).
// Added to the build by -overlay only (-tags "mysql verif"); nothing is written to /repo.
package mysql

import (
	"bufio"
	"context"
	"database/sql"
	"database/sql/driver"
	"encoding/json"
	"fmt"
	"io"
	"os"
	"strconv"
	"sync"
	"testing"
	"time"

	"github.com/jmoiron/sqlx"
	"github.com/tinode/chat/server/store"
	t "github.com/tinode/chat/server/store/types"
)

const c16TimeFmt = "2006-01-02T15:04:05.000Z"

type c16Stmt struct {
	Kind string `json:"kind"` // BEGIN COMMIT ROLLBACK EXEC QUERY
	Q    string `json:"q,omitempty"`
	Args []any  `json:"args,omitempty"`
}

type c16Rec struct {
	mu    sync.Mutex
	stmts []c16Stmt
	rows  [][]driver.Value // answer to the next SELECT fu.id,fu.location
}

var c16rec = &c16Rec{}

func (r *c16Rec) add(s c16Stmt) {
	r.mu.Lock()
	r.stmts = append(r.stmts, s)
	r.mu.Unlock()
}

func c16Args(args []driver.NamedValue) []any {
	var res []any
	for _, a := range args {
		switch v := a.Value.(type) {
		case time.Time:
			res = append(res, map[string]string{"time": v.UTC().Format(c16TimeFmt)})
		case []byte:
			res = append(res, string(v))
		default:
			res = append(res, v)
		}
	}
	return res
}

type c16Conn struct{}

func (c *c16Conn) Prepare(q string) (driver.Stmt, error) {
	return nil, fmt.Errorf("verif c16: Prepare not expected: %s", q)
}
func (c *c16Conn) Close() error { return nil }
func (c *c16Conn) Begin() (driver.Tx, error) {
	return c.BeginTx(context.Background(), driver.TxOptions{})
}
func (c *c16Conn) BeginTx(ctx context.Context, opts driver.TxOptions) (driver.Tx, error) {
	c16rec.add(c16Stmt{Kind: "BEGIN"})
	return c16Tx{}, nil
}
func (c *c16Conn) CheckNamedValue(*driver.NamedValue) error { return nil }
func (c *c16Conn) ExecContext(ctx context.Context, q string, args []driver.NamedValue) (driver.Result, error) {
	c16rec.add(c16Stmt{Kind: "EXEC", Q: q, Args: c16Args(args)})
	return driver.RowsAffected(1), nil
}
func (c *c16Conn) QueryContext(ctx context.Context, q string, args []driver.NamedValue) (driver.Rows, error) {
	c16rec.add(c16Stmt{Kind: "QUERY", Q: q, Args: c16Args(args)})
	c16rec.mu.Lock()
	rows := c16rec.rows
	c16rec.mu.Unlock()
	return &c16Rows{cols: []string{"id", "location"}, data: rows}, nil
}

type c16Tx struct{}

func (c16Tx) Commit() error   { c16rec.add(c16Stmt{Kind: "COMMIT"}); return nil }
func (c16Tx) Rollback() error { c16rec.add(c16Stmt{Kind: "ROLLBACK"}); return nil }

type c16Rows struct {
	cols []string
	data [][]driver.Value
	i    int
}

func (r *c16Rows) Columns() []string { return r.cols }
func (r *c16Rows) Close() error      { return nil }
func (r *c16Rows) Next(dest []driver.Value) error {
	if r.i >= len(r.data) {
		return io.EOF
	}
	copy(dest, r.data[r.i])
	r.i++
	return nil
}

type c16Connector struct{}

func (c16Connector) Connect(context.Context) (driver.Conn, error) { return &c16Conn{}, nil }
func (c16Connector) Driver() driver.Driver                        { return c16Driver{} }

type c16Driver struct{}

func (c16Driver) Open(string) (driver.Conn, error) { return &c16Conn{}, nil }

// one request line (JSON) of tools/props/c16.py
type c16Call struct {
	Op    string  `json:"op"`    // ids | gc | link | finish
	N     int     `json:"n"`     // ids: how many file ids
	Older string  `json:"older"` // gc: bound in c16TimeFmt, "" = zero time
	Limit int     `json:"limit"` // gc
	Rows  [][]any `json:"rows"`  // gc: rows the SELECT returns: [decoded id as decimal text, location]
	Kind  string  `json:"kind"`  // link: msg | topic | user
	Topic string  `json:"topic"`
	Uid   uint64  `json:"uid"`   // link: user / message id (plain numbers, non-zero)
	Files []int   `json:"files"` // link / finish: indices into the ids of this run
	Ok    bool    `json:"ok"`    // finish
}

type c16Answer struct {
	Stmts  []c16Stmt `json:"stmts"`
	Err    string    `json:"err,omitempty"`
	Ret    []string  `json:"ret,omitempty"`    // gc: locations handed to the media handler
	Ids    []int64   `json:"ids,omitempty"`    // ids: decoded (database) ids
	Panic  string    `json:"panic,omitempty"`
	Target any       `json:"target,omitempty"` // link: the decoded id of the user, when linking by user
}

func TestVerifC16Sql(tt *testing.T) {
	// The uid cipher (store.uGen) is initialised by store.Open before the adapter is opened; the
	// connection attempt itself is expected to fail (there is no server).
	_ = store.Store.Open(1, json.RawMessage(`{"uid_key":"la6YsO+bNX/+XIkOqc5Svw==","use_adapter":"mysql",`+
		`"adapters":{"mysql":{"dsn":"verif:verif@tcp(127.0.0.1:1)/verif?timeout=1s","database":"verif"}}}`))
	fin, err := os.Open(os.Getenv("VERIF_IN"))
	if err != nil {
		tt.Fatal(err)
	}
	defer fin.Close()
	fout, err := os.Create(os.Getenv("VERIF_OUT"))
	if err != nil {
		tt.Fatal(err)
	}
	defer fout.Close()
	enc := json.NewEncoder(fout)
	db := sql.OpenDB(c16Connector{})
	defer db.Close()
	a := &adapter{db: sqlx.NewDb(db, "mysql"), dbName: "tinode", maxResults: 100, maxMessageResults: 100, version: adpVersion}

	var fids []string
	in := bufio.NewScanner(fin)
	in.Buffer(make([]byte, 1<<20), 1<<26)
	for in.Scan() {
		var c c16Call
		if err := json.Unmarshal(in.Bytes(), &c); err != nil {
			tt.Fatal(err)
		}
		var ans c16Answer
		c16rec.mu.Lock()
		c16rec.stmts = nil
		c16rec.rows = nil
		for _, r := range c.Rows {
			ids, _ := r[0].(string) // decimal text: database ids do not fit a JSON number
			id, _ := strconv.ParseInt(ids, 10, 64)
			loc, _ := r[1].(string)
			c16rec.rows = append(c16rec.rows, []driver.Value{id, loc})
		}
		c16rec.mu.Unlock()
		func() {
			defer func() {
				if r := recover(); r != nil {
					ans.Panic = fmt.Sprint(r)
				}
			}()
			switch c.Op {
			case "ids":
				fids = nil
				for i := 0; i < c.N; i++ {
					s := store.Store.GetUidString()
					fids = append(fids, s)
					ans.Ids = append(ans.Ids, store.DecodeUid(t.ParseUid(s)))
				}
			case "gc":
				var older time.Time
				if c.Older != "" {
					older, _ = time.Parse(c16TimeFmt, c.Older)
				}
				ret, err := a.FileDeleteUnused(older, c.Limit)
				ans.Ret = ret
				if err != nil {
					ans.Err = err.Error()
				}
			case "link":
				var list []string
				for _, k := range c.Files {
					list = append(list, fids[k])
				}
				var err error
				switch c.Kind {
				case "msg":
					err = a.FileLinkAttachments("", t.ZeroUid, t.Uid(c.Uid), list)
				case "topic":
					err = a.FileLinkAttachments(c.Topic, t.ZeroUid, t.ZeroUid, list)
				case "user":
					err = a.FileLinkAttachments("", t.Uid(c.Uid), t.ZeroUid, list)
					ans.Target = store.DecodeUid(t.Uid(c.Uid))
				}
				if err != nil {
					ans.Err = err.Error()
				}
			case "finish":
				fd := &t.FileDef{ObjHeader: t.ObjHeader{Id: fids[c.Files[0]]}}
				if _, err := a.FileFinishUpload(fd, c.Ok, 10); err != nil {
					ans.Err = err.Error()
				}
			default:
				ans.Err = "unknown op " + c.Op
			}
		}()
		c16rec.mu.Lock()
		ans.Stmts = append([]c16Stmt{}, c16rec.stmts...)
		c16rec.mu.Unlock()
		enc.Encode(ans)
	}
}
