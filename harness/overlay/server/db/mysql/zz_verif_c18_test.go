//go:build verif

// C18 dynamic validation of the txir translator: a fake database/sql driver
// records what reaches the driver (BEGIN, every statement, COMMIT, ROLLBACK) and
// fails the k-th statement (or Begin / Commit); every transactional method of the
// real MySQL adapter is run for every failing position.  Added to the build by
// -overlay only (-tags "mysql verif"); nothing is written to /repo.
package mysql

import (
	"context"
	"database/sql"
	"database/sql/driver"
	"encoding/json"
	"errors"
	"fmt"
	"io"
	"os"
	"strings"
	"sync"
	"testing"
	"time"

	"github.com/jmoiron/sqlx"
	t "github.com/tinode/chat/server/store/types"
)

type vScenario struct {
	failAt     int // statement index to fail, -1 none
	failBegin  bool
	failCommit bool
	affected   int64
	getRow     bool // SELECT done ... returns a row
	fileRows   bool // SELECT fu.id ... returns a row
}

type vState struct {
	mu     sync.Mutex
	sc     vScenario
	events []string
	n      int
}

var vst = &vState{}

var errInjected = errors.New("verif: injected failure")

func (s *vState) op(kind string) error {
	s.mu.Lock()
	defer s.mu.Unlock()
	k := s.n
	s.n++
	if k == s.sc.failAt {
		s.events = append(s.events, fmt.Sprintf("%sFAIL %d", kind, k))
		return errInjected
	}
	s.events = append(s.events, fmt.Sprintf("%s %d", kind, k))
	return nil
}

func (s *vState) ev(e string) {
	s.mu.Lock()
	s.events = append(s.events, e)
	s.mu.Unlock()
}

type vDriver struct{}

func (vDriver) Open(name string) (driver.Conn, error) { return &vConn{}, nil }

type vConn struct{}

func (c *vConn) Prepare(q string) (driver.Stmt, error) {
	if err := vst.op("PREPARE"); err != nil {
		return nil, err
	}
	return &vStmt{q: q}, nil
}
func (c *vConn) Close() error              { return nil }
func (c *vConn) Begin() (driver.Tx, error) { return c.BeginTx(context.Background(), driver.TxOptions{}) }
func (c *vConn) BeginTx(ctx context.Context, opts driver.TxOptions) (driver.Tx, error) {
	if vst.sc.failBegin {
		vst.ev("BEGINFAIL")
		return nil, errInjected
	}
	vst.ev("BEGIN")
	return &vTx{}, nil
}
func (c *vConn) CheckNamedValue(*driver.NamedValue) error { return nil }
func (c *vConn) ExecContext(ctx context.Context, q string, args []driver.NamedValue) (driver.Result, error) {
	if err := vst.op("EXEC"); err != nil {
		return nil, err
	}
	return driver.RowsAffected(vst.sc.affected), nil
}
func (c *vConn) QueryContext(ctx context.Context, q string, args []driver.NamedValue) (driver.Rows, error) {
	if err := vst.op("QUERY"); err != nil {
		return nil, err
	}
	return vRowsFor(q), nil
}

type vTx struct{}

func (vTx) Commit() error {
	if vst.sc.failCommit {
		vst.ev("COMMITFAIL")
		return errInjected
	}
	vst.ev("COMMIT")
	return nil
}
func (vTx) Rollback() error { vst.ev("ROLLBACK"); return nil }

type vStmt struct{ q string }

func (s *vStmt) Close() error  { return nil }
func (s *vStmt) NumInput() int { return -1 }
func (s *vStmt) Exec(args []driver.Value) (driver.Result, error) {
	if err := vst.op("STMTEXEC"); err != nil {
		return nil, err
	}
	return driver.RowsAffected(vst.sc.affected), nil
}
func (s *vStmt) Query(args []driver.Value) (driver.Rows, error) {
	if err := vst.op("STMTQUERY"); err != nil {
		return nil, err
	}
	return vRowsFor(s.q), nil
}

type vRows struct {
	cols []string
	data [][]driver.Value
	i    int
}

func (r *vRows) Columns() []string { return r.cols }
func (r *vRows) Close() error      { return nil }
func (r *vRows) Next(dest []driver.Value) error {
	if r.i >= len(r.data) {
		return io.EOF
	}
	copy(dest, r.data[r.i])
	r.i++
	return nil
}

func vRowsFor(q string) driver.Rows {
	switch {
	case strings.Contains(q, "SELECT done"):
		if vst.sc.getRow {
			return &vRows{cols: []string{"done"}, data: [][]driver.Value{{true}}}
		}
		return &vRows{cols: []string{"done"}}
	case strings.Contains(q, "SELECT tag"):
		return &vRows{cols: []string{"tag"}, data: [][]driver.Value{{"a"}, {"b"}}}
	case strings.Contains(q, "SELECT fu.id"):
		if vst.sc.fileRows {
			return &vRows{cols: []string{"id", "location"}, data: [][]driver.Value{{int64(1), "loc1"}, {int64(2), ""}}}
		}
		return &vRows{cols: []string{"id", "location"}}
	}
	return &vRows{cols: []string{"x"}}
}

func init() { sql.Register("verifc18", vDriver{}) }

type vCase struct {
	fn, name string
	sc       vScenario
	run      func(a *adapter) error
}

func vCases() []vCase {
	sub := func(topic string) *t.Subscription { return &t.Subscription{Topic: topic} }
	base := vScenario{failAt: -1, affected: 1}
	zero := vScenario{failAt: -1, affected: 0}
	withGet := vScenario{failAt: -1, affected: 1, getRow: true}
	files := vScenario{failAt: -1, affected: 1, fileRows: true}
	var cs []vCase
	add := func(fn, name string, sc vScenario, run func(a *adapter) error) {
		cs = append(cs, vCase{fn, name, sc, run})
	}
	add("UserCreate", "two-tags", base, func(a *adapter) error { return a.UserCreate(&t.User{Tags: []string{"a", "b"}}) })
	add("UserCreate", "no-tags", base, func(a *adapter) error { return a.UserCreate(&t.User{}) })
	add("UserDelete", "hard", base, func(a *adapter) error { return a.UserDelete(t.ZeroUid, true) })
	add("UserDelete", "hard-nothing-found", zero, func(a *adapter) error { return a.UserDelete(t.ZeroUid, true) })
	add("UserDelete", "soft", base, func(a *adapter) error { return a.UserDelete(t.ZeroUid, false) })
	add("UserUpdate", "public", base, func(a *adapter) error { return a.UserUpdate(t.ZeroUid, map[string]any{"Public": "x"}) })
	add("UserUpdate", "state", base, func(a *adapter) error {
		return a.UserUpdate(t.ZeroUid, map[string]any{"State": t.StateSuspended, "StateAt": time.Now()})
	})
	add("UserUpdate", "tags", base, func(a *adapter) error {
		return a.UserUpdate(t.ZeroUid, map[string]any{"Tags": t.StringSlice{"a", "b"}})
	})
	add("UserUpdateTags", "add-remove", base, func(a *adapter) error {
		_, err := a.UserUpdateTags(t.ZeroUid, []string{"a"}, []string{"b"}, nil)
		return err
	})
	add("UserUpdateTags", "reset", base, func(a *adapter) error {
		_, err := a.UserUpdateTags(t.ZeroUid, nil, nil, []string{"c", "d"})
		return err
	})
	add("TopicCreate", "tags", base, func(a *adapter) error {
		return a.TopicCreate(&t.Topic{ObjHeader: t.ObjHeader{Id: "grpX"}, Tags: []string{"a"}})
	})
	add("TopicCreateP2P", "plain", base, func(a *adapter) error { return a.TopicCreateP2P(sub("p2pAB"), sub("p2pAB")) })
	add("TopicShare", "two", base, func(a *adapter) error { return a.TopicShare([]*t.Subscription{sub("grpX"), sub("grpX")}) })
	add("TopicShare", "none", base, func(a *adapter) error { return a.TopicShare(nil) })
	add("TopicDelete", "hard", base, func(a *adapter) error { return a.TopicDelete("grpX", false, true) })
	add("TopicDelete", "hard-chan", base, func(a *adapter) error { return a.TopicDelete("grpX", true, true) })
	add("TopicDelete", "soft", base, func(a *adapter) error { return a.TopicDelete("grpX", false, false) })
	add("TopicUpdate", "public", base, func(a *adapter) error { return a.TopicUpdate("grpX", map[string]any{"Public": "x"}) })
	add("TopicUpdate", "tags", base, func(a *adapter) error {
		return a.TopicUpdate("grpX", map[string]any{"Tags": t.StringSlice{"a"}})
	})
	add("SubsUpdate", "all", base, func(a *adapter) error { return a.SubsUpdate("grpX", t.ZeroUid, map[string]any{"Private": "x"}) })
	add("SubsDelete", "found", base, func(a *adapter) error { return a.SubsDelete("grpX", t.ZeroUid) })
	add("SubsDelete", "not-found", zero, func(a *adapter) error { return a.SubsDelete("grpX", t.ZeroUid) })
	add("SubsDelForUser", "hard", base, func(a *adapter) error { return a.SubsDelForUser(t.ZeroUid, true) })
	add("SubsDelForUser", "soft", base, func(a *adapter) error { return a.SubsDelForUser(t.ZeroUid, false) })
	add("MessageDeleteList", "whole-topic", base, func(a *adapter) error { return a.MessageDeleteList("grpX", nil) })
	add("MessageDeleteList", "one-range-hard", base, func(a *adapter) error {
		return a.MessageDeleteList("grpX", &t.DelMessage{Topic: "grpX", DelId: 1, SeqIdRanges: []t.Range{{Low: 1, Hi: 4}}})
	})
	add("MessageDeleteList", "two-ranges-hard", base, func(a *adapter) error {
		return a.MessageDeleteList("grpX", &t.DelMessage{Topic: "grpX", DelId: 1, SeqIdRanges: []t.Range{{Low: 1, Hi: 3}, {Low: 7}}})
	})
	add("DeviceUpsert", "plain", base, func(a *adapter) error { return a.DeviceUpsert(t.ZeroUid, &t.DeviceDef{DeviceId: "d"}) })
	add("DeviceDelete", "all", base, func(a *adapter) error { return a.DeviceDelete(t.ZeroUid, "") })
	add("DeviceDelete", "one-not-found", zero, func(a *adapter) error { return a.DeviceDelete(t.ZeroUid, "d") })
	cred := func(done bool) *t.Credential { return &t.Credential{Method: "email", Value: "a@b", Done: done} }
	add("CredUpsert", "unconfirmed-updated", base, func(a *adapter) error { _, err := a.CredUpsert(cred(false)); return err })
	add("CredUpsert", "unconfirmed-inserted", zero, func(a *adapter) error { _, err := a.CredUpsert(cred(false)); return err })
	add("CredUpsert", "unconfirmed-duplicate", withGet, func(a *adapter) error { _, err := a.CredUpsert(cred(false)); return err })
	add("CredUpsert", "confirmed", base, func(a *adapter) error { _, err := a.CredUpsert(cred(true)); return err })
	add("CredDel", "all", base, func(a *adapter) error { return a.CredDel(t.ZeroUid, "", "") })
	add("CredDel", "all-none", zero, func(a *adapter) error { return a.CredDel(t.ZeroUid, "", "") })
	add("CredDel", "method-deleted", base, func(a *adapter) error { return a.CredDel(t.ZeroUid, "email", "a@b") })
	add("CredDel", "method-softdeleted", zero, func(a *adapter) error { return a.CredDel(t.ZeroUid, "email", "") })
	add("FileFinishUpload", "success", base, func(a *adapter) error { _, err := a.FileFinishUpload(&t.FileDef{}, true, 10); return err })
	add("FileFinishUpload", "failure", base, func(a *adapter) error { _, err := a.FileFinishUpload(&t.FileDef{}, false, 0); return err })
	add("FileDeleteUnused", "two-files", files, func(a *adapter) error { _, err := a.FileDeleteUnused(time.Now(), 10); return err })
	add("FileDeleteUnused", "no-files", base, func(a *adapter) error { _, err := a.FileDeleteUnused(time.Time{}, 0); return err })
	return cs
}

type vOut struct {
	Func   string   `json:"func"`
	Case   string   `json:"case"`
	Fail   string   `json:"fail"`
	Events []string `json:"events"`
	Err    string   `json:"err"`
	Stmts  int      `json:"stmts"`
	Hit    bool     `json:"fault_hit"`
	Skip   string   `json:"skip,omitempty"`
}

func vRunOne(c vCase, sc vScenario, fail string) (out vOut) {
	vst.mu.Lock()
	vst.sc = sc
	vst.events = nil
	vst.n = 0
	vst.mu.Unlock()
	db := sql.OpenDB(vConnector{})
	a := &adapter{db: sqlx.NewDb(db, "mysql"), dbName: "tinode", maxResults: 100, maxMessageResults: 100, version: adpVersion}
	out = vOut{Func: c.fn, Case: c.name, Fail: fail}
	func() {
		defer func() {
			if r := recover(); r != nil {
				out.Err = fmt.Sprint("PANIC ", r)
			}
		}()
		if err := c.run(a); err != nil {
			out.Err = err.Error()
		}
	}()
	db.Close()
	vst.mu.Lock()
	out.Events = append([]string{}, vst.events...)
	out.Stmts = vst.n
	vst.mu.Unlock()
	for _, e := range out.Events {
		if strings.Contains(e, "FAIL") {
			out.Hit = true
		}
	}
	return out
}

type vConnector struct{}

func (vConnector) Connect(context.Context) (driver.Conn, error) { return &vConn{}, nil }
func (vConnector) Driver() driver.Driver                        { return vDriver{} }

func TestVerifC18(tt *testing.T) {
	f, err := os.Create(os.Getenv("VERIF_OUT"))
	if err != nil {
		tt.Fatal(err)
	}
	defer f.Close()
	enc := json.NewEncoder(f)
	for _, c := range vCases() {
		ok := vRunOne(c, c.sc, "none")
		enc.Encode(ok)
		for k := 0; k < ok.Stmts; k++ {
			sc := c.sc
			sc.failAt = k
			enc.Encode(vRunOne(c, sc, fmt.Sprintf("statement %d", k)))
		}
		sc := c.sc
		sc.failBegin = true
		enc.Encode(vRunOne(c, sc, "begin"))
		sc = c.sc
		sc.failCommit = true
		enc.Encode(vRunOne(c, sc, "commit"))
	}
	enc.Encode(vOut{Func: "FileLinkAttachments", Skip: "needs non-zero file ids, i.e. the store's uid cipher (store.uGen), which only store.Open initialises; not reachable from package mysql"})
}
