//go:build verif

// C13 session-store driver (TestVerifC13Evict; python side tools/props/c13evict.py, model coq/Sys/EvictStoreC13.v).
//
// "all other sessions keep being served ... every request is answered" for the requests that terminate a user's
// sessions.  Unlike the population of TestVerifFuzz, every session here is created by the REAL
// globals.sessionStore.NewSession and stays in the store:
//
//	ws  a websocket-like session (NewSession with a typed nil *websocket.Conn; the driver's drain loop vSess.loop
//	    stands in for the write loop of hdl_websock.go); it can be STALLED (the drain loop is stopped: nobody reads
//	    send / stop / detach, as with a client that stopped reading) and resumed
//	lp  a LONG POLLING session, created, fed and polled through the real serveLongPoll (hdl_longpoll.go) with
//	    httptest requests: a request is a POST (readOnce -> dispatchRaw under sess.lock), a poll is a GET (writeOnce);
//	    BETWEEN POLLS NOBODY READS send / stop / detach
//
// Input (VERIF_IN):
//
//	scn <name>                      tear down, rebuild: users u1 u2 u3 (auth), u4 (bystander), ur (root); session `by`
//	new <sess> ws|lp                a new connection
//	req <sess> <hex>                a client frame; @U1@ @U2@ @U3@ @U4@ @UR@ are replaced by the user ids, @T1@ .. @TR@ by
//	                                a login token of that user (base64)
//	poll <sess>                     lp: the client polls until nothing more comes
//	stall <sess> | resume <sess>    ws: the client stops / resumes reading
//	disc <sess>                     ws: the client closes the connection (read loop ends: cleanUp(false))
//	end
//
// After every operation: a websocket whose write loop has taken a stop notice is closed (cleanUp(false), what the read
// loop does when the write loop closes the socket); the server must come to rest; the BYSTANDER PROBE: the bystander's
// {get me desc} is answered, SessionStore.Get of its sid returns, a NEW long-polling connection is accepted (real
// serveLongPoll: NewSession), says {hi}, polls the answer and is removed (Delete) - each under a deadline; then the
// state of the store for every named session (cached, in lru, len(stop), user, root) and of the users table.
//
// A request whose dispatch does not return while every other goroutine of the process is parked is a HANG (reported
// with the innermost frames of the blocked goroutine); the probe is then run once more to show who else is not served,
// and the process exits (the python side restarts it after the scenario).
package main

import (
	"bufio"
	"bytes"
	"context"
	"crypto/hmac"
	"crypto/md5"
	"encoding/base64"
	"encoding/json"
	"fmt"
	"net/http/httptest"
	"os"
	"runtime"
	"strings"
	"testing"
	"time"

	"github.com/gorilla/websocket"
	"github.com/tinode/chat/server/auth"
	"github.com/tinode/chat/server/db/memverif"
	"github.com/tinode/chat/server/store"
	"github.com/tinode/chat/server/store/types"
)

type vcevSessC13 struct {
	name    string
	lp      bool
	vs      *vSess // ws: the drain loop; lp: only the frame buffer is used
	s       *Session
	stalled bool
	cleaned bool
}

type vcevDrvC13 struct {
	t      *testing.T
	sess   map[string]*vcevSessC13
	order  []string
	users  map[string]types.Uid
	uorder []string
	names  map[string]string
	apikey string
	emit   func(format string, a ...any)
}

func vcevKeyC13() string {
	data := make([]byte, apikeyVersion+apikeyAppID+apikeySequence+apikeyWho)
	data[0] = 1
	h := hmac.New(md5.New, globals.apiKeySalt)
	h.Write(data)
	return base64.URLEncoding.EncodeToString(h.Sum(data))
}

// one HTTP request to the long-polling endpoint, through the real handler
func (d *vcevDrvC13) lpCall(ctx context.Context, sid string, body []byte) *httptest.ResponseRecorder {
	url := "/v0/channels/lp?apikey=" + d.apikey
	if sid != "" {
		url += "&sid=" + sid
	}
	method := "GET"
	var req = httptest.NewRequest(method, url, nil)
	if body != nil {
		req = httptest.NewRequest("POST", url, bytes.NewReader(body))
	}
	req.RemoteAddr = "127.0.0.1:5555"
	if ctx != nil {
		req = req.WithContext(ctx)
	}
	rec := httptest.NewRecorder()
	serveLongPoll(rec, req)
	return rec
}

func vcevDecodeC13(b []byte) []*ServerComMessage {
	var res []*ServerComMessage
	dec := json.NewDecoder(bytes.NewReader(b))
	for {
		var m ServerComMessage
		if err := dec.Decode(&m); err != nil {
			break
		}
		res = append(res, &m)
	}
	return res
}

// the lock of the session store, with a deadline (the store may be wedged)
func vcevLockC13(d time.Duration) bool {
	deadline := time.Now().Add(d)
	for {
		if globals.sessionStore.lock.TryLock() {
			return true
		}
		if time.Now().After(deadline) {
			return false
		}
		time.Sleep(200 * time.Microsecond)
	}
}

func (d *vcevDrvC13) newLP() (*Session, string) {
	rec := d.lpCall(nil, "", nil)
	fr := vcevDecodeC13(rec.Body.Bytes())
	if rec.Code != 201 || len(fr) != 1 || fr[0].Ctrl == nil {
		return nil, fmt.Sprintf("http %d %s", rec.Code, rec.Body.String())
	}
	pm, _ := fr[0].Ctrl.Params.(map[string]any)
	sid, _ := pm["sid"].(string)
	if sid == "" {
		return nil, "no sid in " + rec.Body.String()
	}
	if !vcevLockC13(5 * time.Second) {
		return nil, "store locked"
	}
	s := globals.sessionStore.sessCache[sid]
	globals.sessionStore.lock.Unlock()
	if s == nil {
		return nil, "new session not in the store"
	}
	return s, ""
}

func (d *vcevDrvC13) newSession(name, kind string) string {
	if d.sess[name] != nil {
		return "exists"
	}
	cs := &vcevSessC13{name: name, lp: kind == "lp"}
	if cs.lp {
		s, err := d.newLP()
		if s == nil {
			return "FAIL " + strings.ReplaceAll(err, " ", "_")
		}
		cs.s = s
		cs.vs = &vSess{s: s, done: make(chan bool)}
	} else {
		s, _ := globals.sessionStore.NewSession((*websocket.Conn)(nil), "")
		s.remoteAddr = "127.0.0.1:5555"
		cs.s = s
		cs.vs = &vSess{s: s, idx: len(d.sess), done: make(chan bool)}
		go cs.vs.loop()
	}
	d.sess[name] = cs
	d.order = append(d.order, name)
	return "ok"
}

// the client polls until nothing more comes; frames are added to the session's buffer
func (d *vcevDrvC13) poll(cs *vcevSessC13) string {
	s := cs.s
	n := 0
	for i := 0; i < 600; i++ {
		if len(s.send)+len(s.stop)+len(s.detach) == 0 {
			break
		}
		ctx, cancel := context.WithCancel(context.Background())
		ch := make(chan *httptest.ResponseRecorder, 1)
		go func() { ch <- d.lpCall(ctx, s.sid, nil) }()
		var rec *httptest.ResponseRecorder
		deadline := time.Now().Add(20 * time.Second)
		for rec == nil {
			select {
			case rec = <-ch:
			case <-time.After(500 * time.Microsecond):
				if len(s.send)+len(s.stop)+len(s.detach) == 0 || time.Now().After(deadline) {
					cancel()
					rec = <-ch
				}
			}
		}
		cancel()
		if rec.Code == 403 {
			// "invalid or expired session id": the store does not know the session any more
			return fmt.Sprintf("gone n=%d", n)
		}
		fr := vcevDecodeC13(rec.Body.Bytes())
		n += len(fr)
		cs.vs.mu.Lock()
		cs.vs.frames = append(cs.vs.frames, fr...)
		cs.vs.mu.Unlock()
	}
	return fmt.Sprintf("ok n=%d", n)
}

// ---- hang detection ----

// every goroutine other than the caller is parked, and the one running the guarded call is parked in a channel send or
// on a mutex: nothing in the process can wake it.  Returns the innermost frames of that goroutine, "" if not stuck.
func vcevStuckC13() string {
	buf := make([]byte, 1<<21)
	n := runtime.Stack(buf, true)
	blocks := strings.Split(string(buf[:n]), "\n\n")
	site := ""
	for i, b := range blocks {
		if i == 0 {
			continue // the caller
		}
		m := vGoroutineHdr.FindStringSubmatch(b)
		if m == nil {
			continue
		}
		state := m[2]
		if k := strings.Index(state, ","); k >= 0 {
			state = state[:k]
		}
		blocked := false
		switch state {
		case "select", "chan receive", "sleep", "IO wait", "sync.Cond.Wait", "select (no cases)",
			"chan receive (nil chan)", "finalizer wait", "GC worker (idle)", "GC sweep wait", "GC scavenge wait",
			"syscall", "force gc (idle)", "debug call", "timer goroutine (idle)", "sync.WaitGroup.Wait":
		case "chan send", "sync.Mutex.Lock", "semacquire", "sync.RWMutex.Lock", "sync.RWMutex.RLock", "chan send (nil chan)":
			blocked = true
		default:
			return ""
		}
		if strings.Contains(b, "vcevGuardC13") {
			if !blocked {
				return ""
			}
			site = vfSite(b)
		}
	}
	return site
}

type vcevResC13 struct {
	panicMsg string
	site     string
	hang     string
}

func vcevGuardC13(f func()) vcevResC13 {
	ch := make(chan vcevResC13, 1)
	go func() {
		defer func() {
			if r := recover(); r != nil {
				buf := make([]byte, 1<<16)
				ch <- vcevResC13{panicMsg: fmt.Sprint(r), site: vfSite(string(buf[:runtime.Stack(buf, false)]))}
			}
		}()
		f()
		ch <- vcevResC13{}
	}()
	start := time.Now()
	stuck := 0
	for {
		select {
		case r := <-ch:
			return r
		case <-time.After(50 * time.Millisecond):
		}
		if time.Since(start) < 200*time.Millisecond {
			continue
		}
		if site := vcevStuckC13(); site != "" {
			stuck++
			if stuck >= 30 { // 1.5 s of a process in which nothing can run
				return vcevResC13{hang: site}
			}
		} else {
			stuck = 0
		}
		if time.Since(start) > 60*time.Second {
			return vcevResC13{hang: "timeout"}
		}
	}
}

// f under a plain deadline (used by the probe: the caller may be waiting for a mutex that is never released)
func vcevWithinC13(d time.Duration, f func()) bool {
	ch := make(chan bool, 1)
	go func() {
		defer func() { recover(); ch <- true }()
		f()
	}()
	select {
	case <-ch:
		return true
	case <-time.After(d):
		return false
	}
}

// ---- population ----

func (d *vcevDrvC13) subst(raw []byte) []byte {
	if !bytes.Contains(raw, []byte("@")) {
		return raw
	}
	return vfPlace.ReplaceAllFunc(raw, func(m []byte) []byte {
		if v, ok := d.names[string(m)]; ok {
			return []byte(v)
		}
		return m
	})
}

func (d *vcevDrvC13) setup() {
	d.sess = map[string]*vcevSessC13{}
	d.order = nil
	d.users = map[string]types.Uid{}
	d.names = map[string]string{}
	d.uorder = []string{"u1", "u2", "u3", "u4", "ur"}
	th := store.Store.GetAuthHandler("token")
	for i, un := range d.uorder {
		u := &types.User{}
		u.Access.Auth = types.ModeCAuth
		u.Access.Anon = types.ModeNone
		u.Public = map[string]any{"fn": un}
		if _, err := store.Users.Create(u, nil); err != nil {
			d.t.Fatal("user create: ", err)
		}
		d.users[un] = u.Uid()
		lvl := auth.LevelAuth
		if un == "ur" {
			lvl = auth.LevelRoot
		}
		// log-ins use the token scheme (an HMAC check; the basic scheme's bcrypt would dominate the run time)
		tok, _, err := th.GenSecret(&auth.Rec{Uid: u.Uid(), AuthLevel: lvl, Lifetime: auth.Duration(time.Hour)})
		if err != nil {
			d.t.Fatal("token: ", err)
		}
		ph := fmt.Sprint(i + 1)
		if un == "ur" {
			ph = "R"
		}
		d.names["@U"+ph+"@"] = u.Uid().UserId()
		d.names["@T"+ph+"@"] = base64.StdEncoding.EncodeToString(tok)
	}
	// the bystander: a websocket of u4, attached to me
	d.newSession("by", "ws")
	by := d.sess["by"]
	for _, m := range []string{`{"hi":{"id":"h","ver":"0.22"}}`, `{"login":{"id":"l","scheme":"token","secret":"` + d.names["@T4@"] + `"}}`,
		`{"sub":{"id":"s","topic":"me"}}`} {
		by.s.dispatchRaw([]byte(m))
		if h := vfQuiet(); h != "" {
			d.t.Fatal("population setup: ", h)
		}
	}
	for _, f := range by.vs.take() {
		if f.Ctrl != nil && f.Ctrl.Code >= 300 {
			d.t.Fatalf("population setup: bystander -> ctrl %d %s", f.Ctrl.Code, f.Ctrl.Text)
		}
	}
}

func (d *vcevDrvC13) teardown() {
	for _, name := range d.order {
		cs := d.sess[name]
		if !cs.lp && !cs.stalled {
			select {
			case <-cs.vs.done:
			default:
				cs.s.stop <- nil
				<-cs.vs.done
			}
		}
		globals.sessionStore.Delete(cs.s)
		if !cs.cleaned {
			cs.s.cleanUp(true)
		}
	}
	vfQuiet()
	for _, name := range vfAllTopics() {
		if name != "sys" {
			globals.hub.unreg <- &topicUnreg{rcptTo: name}
		}
	}
	vfQuiet()
	memverif.Reset()
}

// a websocket whose write loop has taken a stop notice: the write loop closes the socket, the read loop ends
func (d *vcevDrvC13) closeStopped() []string {
	var res []string
	for _, name := range d.order {
		cs := d.sess[name]
		if cs.lp || cs.stalled || cs.cleaned {
			continue
		}
		select {
		case <-cs.vs.done:
			cs.s.cleanUp(false)
			cs.cleaned = true
			res = append(res, name)
		default:
		}
	}
	return res
}

// afterHang: a request is known to be blocked for good; only the session store is probed, under a short deadline
func (d *vcevDrvC13) probe(afterHang bool) string {
	by := d.sess["by"]
	by.vs.takeAll()
	wait := 10 * time.Second
	if afterHang {
		wait = 2 * time.Second
	} else {
		if !vcevWithinC13(wait, func() { by.s.dispatchRaw([]byte(`{"get":{"id":"probe","topic":"me","what":"desc"}}`)) }) {
			return "FAIL bystander-request-hangs"
		}
		if h := vfQuiet(); h != "" {
			return "FAIL " + strings.ReplaceAll(h, " ", "_")
		}
		fr, _ := by.vs.takeAll()
		ok := false
		for _, f := range fr {
			if f.Meta != nil && f.Meta.Id == "probe" && f.Meta.Desc != nil {
				ok = true
			}
		}
		if !ok {
			return "FAIL bystander-request-unanswered_" + vfFrames(fr, nil)
		}
	}
	// an existing connection's next long-poll request / a gRPC or websocket lookup: SessionStore.Get
	var got *Session
	if !vcevWithinC13(wait, func() { got = globals.sessionStore.Get(by.s.sid) }) {
		return "FAIL SessionStore.Get-hangs"
	}
	if got != by.s {
		return "FAIL bystander-session-lost-from-the-store"
	}
	// a new connection
	var ns *Session
	msg := ""
	if !vcevWithinC13(10*time.Second, func() { ns, msg = d.newLP() }) {
		return "FAIL new-connection-hangs(SessionStore.NewSession)"
	}
	if ns == nil {
		return "FAIL new-connection-refused_" + strings.ReplaceAll(msg, " ", "_")
	}
	pc := &vcevSessC13{name: "probe", lp: true, s: ns, vs: &vSess{s: ns, done: make(chan bool)}}
	res := ""
	if !vcevWithinC13(10*time.Second, func() {
		rec := d.lpCall(nil, ns.sid, []byte(`{"hi":{"id":"probehi","ver":"0.22"}}`))
		if rec.Code != 200 {
			res = fmt.Sprintf("FAIL new-connection-hi-http-%d", rec.Code)
			return
		}
		d.poll(pc)
	}) {
		return "FAIL new-connection-request-hangs"
	}
	if res != "" {
		return res
	}
	hi := false
	for _, f := range pc.vs.take() {
		if f.Ctrl != nil && f.Ctrl.Id == "probehi" && f.Ctrl.Code < 300 {
			hi = true
		}
	}
	if !hi {
		return "FAIL new-connection-hi-unanswered"
	}
	// the connection goes away
	if !vcevWithinC13(10*time.Second, func() { globals.sessionStore.Delete(ns); ns.cleanUp(true) }) {
		return "FAIL disconnect-hangs(SessionStore.Delete)"
	}
	return "ok"
}

func (d *vcevDrvC13) userName(uid types.Uid) string {
	if uid.IsZero() {
		return "-"
	}
	for _, un := range d.uorder {
		if d.users[un] == uid {
			return un
		}
	}
	return "?"
}

func (d *vcevDrvC13) emitState() {
	ss := globals.sessionStore
	if !vcevLockC13(3 * time.Second) {
		d.emit("S LOCKED")
		// without the lock: only what does not need it
		for _, name := range d.order {
			cs := d.sess[name]
			d.emit("X %s stop=%d uid=%s", name, len(cs.s.stop), d.userName(cs.s.uid))
		}
		return
	}
	for _, name := range d.order {
		cs := d.sess[name]
		cached, inlru := 0, 0
		if ss.sessCache[cs.s.sid] == cs.s {
			cached = 1
		}
		if cs.s.lpTracker != nil {
			for e := ss.lru.Front(); e != nil; e = e.Next() {
				if e == cs.s.lpTracker {
					inlru = 1
				}
			}
		}
		d.emit("S %s cached=%d lru=%d stop=%d uid=%s root=%s", name, cached, inlru, len(cs.s.stop), d.userName(cs.s.uid), vB2s(cs.s.authLvl == auth.LevelRoot))
	}
	ss.lock.Unlock()
	for _, un := range d.uorder {
		st := "none"
		if u, err := store.Users.Get(d.users[un]); err == nil && u != nil {
			st = u.State.String()
		}
		d.emit("U %s %s", un, st)
	}
}

func (d *vcevDrvC13) emitFrames() {
	for _, name := range d.order {
		cs := d.sess[name]
		fr, raw := cs.vs.takeAll()
		if len(fr)+len(raw) > 0 {
			d.emit("F %s %s", name, vfFrames(fr, raw))
		}
	}
}

func vcevStC13(s *Session) string {
	b := func(x bool) string {
		if x {
			return "1"
		}
		return "0"
	}
	return "v" + b(s.ver != 0) + "u" + b(!s.uid.IsZero()) + "r" + b(s.authLvl == auth.LevelRoot)
}

func TestVerifC13Evict(t *testing.T) {
	fin, err := os.Open(os.Getenv("VERIF_IN"))
	if err != nil {
		t.Fatal(err)
	}
	defer fin.Close()
	fout, err := os.Create(os.Getenv("VERIF_OUT"))
	if err != nil {
		t.Fatal(err)
	}
	defer fout.Close()
	d := &vcevDrvC13{t: t}
	d.emit = func(format string, a ...any) { fmt.Fprintf(fout, format+"\n", a...) }
	vInitServer(t)
	globals.maxSubscriberCount = 32
	globals.apiKeySalt = []byte("T713/rYYgW7g4m3vG6zGRh7+FM1t0T8j13koXScOAj4=")
	globals.defaultCountryCode = "US"
	globals.immutableTagNS = map[string]bool{}
	globals.maskedTagNS = map[string]bool{}
	for name, conf := range map[string]string{
		"token": `{"expire_in":1209600,"serial_num":1,"key":"wfaY2RgF2S1OQI/ZlK+LSrp1KB2jwAdGAIHQ7JZn+Kc="}`,
	} {
		if ah := store.Store.GetAuthHandler(name); ah != nil && !ah.IsInitialized() {
			if err := ah.Init(json.RawMessage(conf), name); err != nil {
				t.Fatal("auth init ", name, ": ", err)
			}
		}
	}
	d.apikey = vcevKeyC13()
	if valid, _ := checkAPIKey(d.apikey); !valid {
		t.Fatal("driver: the generated API key is not accepted")
	}

	in := bufio.NewScanner(fin)
	in.Buffer(make([]byte, 1<<20), 1<<26)
	n := 0
	active := false
	for in.Scan() {
		w := strings.Fields(in.Text())
		if len(w) == 0 {
			continue
		}
		switch w[0] {
		case "scn":
			if active {
				d.teardown()
			}
			d.setup()
			active = true
			d.emit("scn %s", w[1])
			continue
		case "end":
			d.emit("end")
			continue
		}
		n++
		d.emit("begin %d", n)
		d.emit("op %s", strings.Join(w, " "))
		for _, cs := range d.sess {
			cs.vs.takeAll()
		}
		fatal := false
		switch w[0] {
		case "new":
			d.emit("R %s", d.newSession(w[1], w[2]))
		case "poll":
			cs := d.sess[w[1]]
			if cs == nil || !cs.lp {
				d.emit("R nosuch")
				break
			}
			res := ""
			r := vcevGuardC13(func() { res = d.poll(cs) })
			if r.hang != "" {
				d.emit("R HANG:%s", r.hang)
				fatal = true
			} else if r.panicMsg != "" {
				d.emit("R PANIC:%s:%s", r.site, vfHexS(r.panicMsg))
			} else {
				d.emit("R %s", res)
			}
		case "stall":
			cs := d.sess[w[1]]
			if cs == nil || cs.lp || cs.stalled || cs.cleaned {
				d.emit("R refused")
				break
			}
			select {
			case <-cs.vs.done:
				d.emit("R refused")
			default:
				cs.s.stop <- nil
				<-cs.vs.done
				cs.stalled = true
				d.emit("R ok")
			}
		case "resume":
			cs := d.sess[w[1]]
			if cs == nil || cs.lp || !cs.stalled {
				d.emit("R refused")
				break
			}
			cs.stalled = false
			cs.vs.done = make(chan bool)
			go cs.vs.loop()
			d.emit("R ok")
		case "disc":
			cs := d.sess[w[1]]
			if cs == nil || cs.lp || cs.cleaned {
				d.emit("R refused")
				break
			}
			r := vcevGuardC13(func() { cs.s.cleanUp(false) })
			cs.cleaned = true
			if r.hang != "" {
				d.emit("R HANG:%s", r.hang)
				fatal = true
			} else if r.panicMsg != "" {
				d.emit("R PANIC:%s:%s", r.site, vfHexS(r.panicMsg))
			} else {
				d.emit("R ok")
			}
		case "req":
			cs := d.sess[w[1]]
			if cs == nil {
				d.emit("R nosuch")
				break
			}
			raw := d.subst(vUnhex(w[2]))
			dec, id, topic := vfDecode(raw)
			st := vcevStC13(cs.s)
			head := fmt.Sprintf("dec=%s id=%s topic=%s st=%s", dec, vfHexS(id), vfHexS(topic), st)
			if !cs.lp {
				dead := cs.cleaned
				if !cs.stalled {
					select {
					case <-cs.vs.done:
						dead = true
					default:
					}
				}
				if dead {
					d.emit("R %s res=dead", head)
					break
				}
			}
			code := 0
			r := vcevGuardC13(func() {
				if cs.lp {
					code = d.lpCall(nil, cs.s.sid, raw).Code
				} else {
					cs.s.dispatchRaw(raw)
				}
			})
			switch {
			case r.hang != "":
				d.emit("R %s res=HANG:%s", head, r.hang)
				fatal = true
			case r.panicMsg != "":
				d.emit("R %s res=PANIC:%s:%s", head, r.site, vfHexS(r.panicMsg))
			case cs.lp && code == 403:
				d.emit("R %s res=gone", head)
			case cs.lp && code != 200:
				d.emit("R %s res=http%d", head, code)
			default:
				d.emit("R %s res=ok", head)
			}
		default:
			t.Fatal("unknown op " + w[0])
		}
		if fatal {
			// who else is not served?
			d.emit("P %s", d.probe(true))
			d.emitState()
			os.Exit(3)
		}
		if h := vfQuiet(); h != "" {
			d.emit("Q %s", strings.ReplaceAll(h, " ", "_"))
			os.Exit(3)
		}
		if cl := d.closeStopped(); len(cl) > 0 {
			if h := vfQuiet(); h != "" {
				d.emit("Q %s", strings.ReplaceAll(h, " ", "_"))
				os.Exit(3)
			}
			d.emit("C %s", strings.Join(cl, ","))
		}
		d.emitFrames()
		d.emit("P %s", d.probe(false))
		d.emitState()
	}
	if active {
		d.teardown()
	}
	d.emit("done")
}
