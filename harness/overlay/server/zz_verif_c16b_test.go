//go:build verif

// C16 driver, part b: publishes with attachment lists from senders of EVERY mode shape through the
// real session / hub / topic code and the real messagesMapper.Save above memverif - group
// subscribers that write without reading (by want or by given), readers+writers, readers that
// cannot write, the owner, a root session on behalf of another user, posts to 'sys' by users
// without a subscription - with memverif's log of adapter calls, optional failure of the k-th
// adapter call, ageing of the upload records and the garbage collector's own call.
// Lines (same VERIF_IN / VERIF_OUT stream as zz_verif_c16_test.go; the model runner is
// harness/runner/r_c16.ml):
//
//	SYSLOAD                                   what newHub() does at start: the 'sys' topic is loaded
//	MEMBER <t> <owner> <u> <want> <given|->   {sub topic=<t> set.sub.mode=<want>} by u, then (given != -)
//	                                          {set topic=<t> sub{user=u mode=<given>}} by the owner
//	PUBX <sess> <as> <t|sys> <k|-> <tpls>     {pub} with extra.attachments by the session of user <sess>, on
//	                                          behalf of <as> when different (root only); k: the k-th adapter
//	                                          call of the request is made to fail
//	AGE <hours>                               every upload record becomes <hours> older
package main

import (
	"strconv"
	"strings"
	"time"

	"github.com/tinode/chat/server/db/memverif"
	"github.com/tinode/chat/server/store/types"
)

func (d *c16Drv) c16bTopicName(w string) string {
	if w == "sys" {
		return "sys"
	}
	k, _ := strconv.Atoi(w)
	return d.topics[k]
}

// the name the session of user u uses for topic tn: a p2p topic is addressed by the other party's user id
func (d *c16Drv) c16bWire(u int, tn string) string {
	if strings.HasPrefix(tn, "p2p") {
		if u1, u2, err := types.ParseP2P(tn); err == nil {
			if u1 == d.users[u] {
				return u2.UserId()
			}
			return u1.UserId()
		}
	}
	return tn
}

// the session of user u is attached to topic tn (a {sub} without parameters keeps the modes)
func (d *c16Drv) c16bAttach(u int, tn string) string {
	if tn == "sys" || d.sess[u] == nil || d.sess[u].s.getSub(tn) != nil {
		return ""
	}
	id := d.nextID()
	if c := d.send(u, id, `{"sub":{"id":"`+id+`","topic":"`+d.c16bWire(u, tn)+`"}}`); c == nil || c.Code >= 300 {
		return "attach-" + c16Code(c)
	}
	return ""
}

// The message row of a publish is stored but the topic's cached lastID was not advanced (Save returned an
// error after MessageSave): let the topic be unloaded and loaded again, as after an idle period.
func (d *c16Drv) c16bReload(tn string) {
	if tn == "sys" {
		if t := globals.hub.topicGet("sys"); t != nil {
			globals.hub.unreg <- &topicUnreg{rcptTo: "sys"}
			vWaitQuiet(d.topicNames())
		}
		globals.hub.join <- &ClientComMessage{RcptTo: "sys", Original: "sys"}
		vWaitQuiet(append(d.topicNames(), "sys"))
		return
	}
	var att []int
	for u, vs := range d.sess {
		if vs.s.getSub(tn) != nil {
			att = append(att, u)
			id := d.nextID()
			d.send(u, id, `{"leave":{"id":"`+id+`","topic":"`+d.c16bWire(u, tn)+`"}}`)
		}
	}
	if t := globals.hub.topicGet(tn); t != nil {
		globals.hub.unreg <- &topicUnreg{rcptTo: tn}
		vWaitQuiet(d.topicNames())
	}
	for _, u := range att {
		d.c16bAttach(u, tn)
	}
}

func c16bSubRow(tn string, uid types.Uid) (memverif.SubDump, bool) {
	for _, s := range memverif.DumpTopic(tn).Subs {
		if s.User == uid && !s.Deleted {
			return s, true
		}
	}
	return memverif.SubDump{}, false
}

func (d *c16Drv) c16bLine(w []string) (string, bool) {
	at := func(i int) int { v, _ := strconv.Atoi(w[i]); return v }
	switch w[0] {
	case "SYSLOAD":
		// newHub() loads 'sys' when the process starts; load it again only if it was unloaded
		if globals.hub.topicGet("sys") == nil {
			globals.hub.join <- &ClientComMessage{RcptTo: "sys", Original: "sys"}
			vWaitQuiet([]string{"sys"})
		}
		if globals.hub.topicGet("sys") == nil {
			return "SYSLOAD failed", true
		}
		return "SYSLOAD ok", true
	case "AGE":
		memverif.AgeFilesC16b(time.Duration(at(1)) * time.Hour)
		return "AGE ok", true
	case "P2P":
		u1, u2 := at(2), at(3)
		tn := d.users[u1].P2PName(d.users[u2])
		d.topics[at(1)] = tn
		id := d.nextID()
		c := d.send(u1, id, `{"sub":{"id":"`+id+`","topic":"`+d.users[u2].UserId()+`","set":{"sub":{"mode":"`+w[4]+`"}}}}`)
		id2 := d.nextID()
		c2 := d.send(u2, id2, `{"sub":{"id":"`+id2+`","topic":"`+d.users[u1].UserId()+`","set":{"sub":{"mode":"`+w[5]+`"}}}}`)
		res := "P2P ok"
		if c == nil || c.Code >= 300 || c2 == nil || c2.Code >= 300 {
			res = "P2P " + c16Code(c) + "/" + c16Code(c2)
		}
		side := ""
		for _, u := range []int{u1, u2} {
			if s, ok := c16bSubRow(tn, d.users[u]); ok {
				side += " want=" + strconv.Itoa(int(s.Want)) + " given=" + strconv.Itoa(int(s.Given))
			}
		}
		return res + " |" + side, true
	case "MEMBER":
		tn := d.topics[at(1)]
		owner, u := at(2), at(3)
		id := d.nextID()
		c := d.send(u, id, `{"sub":{"id":"`+id+`","topic":"`+tn+`","set":{"sub":{"mode":"`+w[4]+`"}}}}`)
		ok := c != nil && c.Code < 300
		codes := c16Code(c)
		if w[5] != "-" {
			id2 := d.nextID()
			c2 := d.send(owner, id2, `{"set":{"id":"`+id2+`","topic":"`+tn+`","sub":{"user":"`+d.users[u].UserId()+`","mode":"`+w[5]+`"}}}`)
			// 304: the mode given is already the one asked for
			ok = ok && c2 != nil && (c2.Code < 300 || c2.Code == 304)
			codes += "/" + c16Code(c2)
		}
		res := "MEMBER ok"
		if !ok {
			res = "MEMBER " + codes
		}
		side := ""
		if s, ok := c16bSubRow(tn, d.users[u]); ok {
			side = " want=" + strconv.Itoa(int(s.Want)) + " given=" + strconv.Itoa(int(s.Given))
		}
		return res + " |" + side, true
	case "PUBX":
		sess, as := at(1), at(2)
		tn := d.c16bTopicName(w[3])
		if tn == "" || d.sess[sess] == nil {
			return "PUBX driver-no-topic-or-session", true
		}
		if e := d.c16bAttach(sess, tn); e != "" {
			return "PUBX driver-" + e, true
		}
		seqs := map[int]bool{}
		for _, m := range memverif.DumpTopic(tn).Msgs {
			seqs[m.Seq] = true
		}
		id := d.nextID()
		extra := ""
		urls := d.expandList(w[6])
		opts := ""
		if strings.Contains(w[5], "n") {
			opts += `,"noecho":true`
		}
		if strings.Contains(w[5], "h") {
			opts += `,"head":{"mime":"text/x-drafty","sender":"usrAAAAAAAAAAB"}`
		}
		if len(urls) > 0 || as != sess {
			var parts []string
			if len(urls) > 0 {
				parts = append(parts, `"attachments":`+vJSON(urls))
			}
			if as != sess {
				parts = append(parts, `"obo":"`+d.users[as].UserId()+`"`)
			}
			extra = `,"extra":{` + strings.Join(parts, ",") + `}`
		}
		memverif.ResetCallLog()
		if w[4] != "-" {
			memverif.SetFault(at(4), false)
		}
		c := d.send(sess, id, `{"pub":{"id":"`+id+`","topic":"`+d.c16bWire(sess, tn)+`","content":"x"`+opts+`}`+extra+`}`)
		memverif.ClearFault()
		var calls []string
		for _, n := range memverif.CallLog() {
			failed := strings.HasSuffix(n, "!fail")
			switch strings.TrimSuffix(n, "!fail") {
			case "TopicUpdateOnMessage":
				calls = append(calls, "T")
			case "MessageSave":
				calls = append(calls, "M")
			case "SubsUpdate":
				calls = append(calls, "S")
			case "FileLinkAttachments":
				calls = append(calls, "L")
			default:
				continue
			}
			if failed {
				calls[len(calls)-1] += "!"
			}
		}
		saved, seq := "0", 0
		for _, m := range memverif.DumpTopic(tn).Msgs {
			if !seqs[m.Seq] {
				saved, seq = "1", m.Seq
			}
		}
		marked := "0"
		side := ""
		if s, ok := c16bSubRow(tn, d.users[as]); ok {
			if saved == "1" && s.Read == seq && s.Recv == seq {
				marked = "1"
			}
			side = " want=" + strconv.Itoa(int(s.Want)) + " given=" + strconv.Itoa(int(s.Given))
		}
		if saved == "1" {
			d.pubs = append(d.pubs, c16Pub{tn, seq})
		}
		res := "code" + c16Code(c)
		if c != nil {
			switch c.Code {
			case 202:
				res = "accepted"
			case 403:
				res = "denied"
			case 500:
				res = "failed"
			}
		}
		if saved == "1" && res != "accepted" {
			d.c16bReload(tn)
		}
		cl := strings.Join(calls, ",")
		if cl == "" {
			cl = "-"
		}
		return "PUBX saved=" + saved + " res=" + res + " marked=" + marked + " calls=" + cl + " | code=" + c16Code(c) + side, true
	}
	return "", false
}
