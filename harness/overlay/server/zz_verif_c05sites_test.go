//go:build verif

// C05 layer 3: the request handlers that INTERPRET a client-supplied default-access mode text.
//
// Every line of VERIF_IN is one self-contained scenario run against the REAL hub, topics, sessions
// and store mappers above memverif (helpers of zz_verif_topic_test.go: vInitServer, vNewSession,
// vWaitQuiet), one client request at a time through Session.dispatchRaw with quiescence after each;
// the answer line of VERIF_OUT carries what the handler left behind:
//
//	SD <me|grp> <att> <auth> <anon> <E|P> <tok> <tok>
//	    a user whose stored default access is auth/anon ('me') or who owns a group topic whose stored
//	    default access is auth/anon; att=1: the session subscribes first (replySetDesc), att=0: it does
//	    not (hub: replyOfflineTopicSetSub); then {set topic desc:{defacs:{auth,anon}}}
//	    -> SD code= pre= precache= predesc= store= cache= desc= redesc=
//	       (stored row before/after, Topic.accessAuth/accessAnon before/after, {get desc} defacs
//	        before/after, and {get desc} again after the topic was unloaded and loaded from the store)
//	NG <chan> <A|E|P> <tok> <tok>    {sub topic=new|nch set:{desc:{defacs}}} by a fresh user
//	    -> NG code= store= cache= desc= redesc=
//	AC <A|E|P> <tok> <tok> [basic]   {acc user=new desc:{defacs}} from an anonymous session (scheme basic, or an
//	                                 authenticator of this driver that accepts everything)
//	    -> AC code= store= cache= desc=      (users row; then the new user's 'me' topic and its {get desc})
//	PP <u1auth> <A|E|P> <tok> <tok>  {sub topic=usrB set:{desc:{defacs}}} by user A whose own default
//	    auth access is u1auth: the permissions GIVEN to B in the new p2p topic
//	    -> PP code= store= cache=
//
//	SS <grp|p2p> <set|sub|other|off> <af> <want> <given> <tok>
//	    user U holds an EXISTING subscription want/given on a group topic owned by H (default auth access af)
//	    or on a p2p topic with H; set: U attaches, then {set sub:{mode}}; sub: U's attaching {sub} carries
//	    set:{sub:{mode}}; other: H attaches and sends {set sub:{user:U,mode}}; off: U, not attached, sends
//	    {set sub:{mode}} (hub: replyOfflineTopicSetSub)
//	    -> SS code= att= pre=<want>/<given> store=<want>/<given> cache=<want>/<given>|-
//	       (att: the requesting session was attached when the request was sent; pre: the stored row then)
//
// A text token is "_" (the JSON key is absent), "-" (the empty string) or the hex bytes of the text;
// the defacs token is A (no desc / no set at all), E (desc without defacs), P (defacs object present).
// Nothing is written to /repo.
package main

import (
	"bufio"
	"encoding/base64"
	"encoding/json"
	"fmt"
	"os"
	"strconv"
	"strings"
	"testing"
	"time"

	"github.com/tinode/chat/server/auth"
	"github.com/tinode/chat/server/store"
	"github.com/tinode/chat/server/store/types"
)

// {acc user=new} needs an authenticator; "basic" hashes the password with bcrypt (~0.1 s per account), so
// most account scenarios use this one, which accepts every secret and stores nothing.  The code under
// observation (the defacs block of replyCreateUser) does not depend on the authenticator.
type c05sFakeAuth struct {
	auth.AuthHandler
}

func (c05sFakeAuth) IsUnique(secret []byte, remoteAddr string) (bool, error) { return true, nil }

func (c05sFakeAuth) AddRecord(rec *auth.Rec, secret []byte, remoteAddr string) (*auth.Rec, error) {
	rec.AuthLevel = auth.LevelAuth
	return rec, nil
}

type c05sDrv struct {
	n    int
	hang string
}

func c05sMode(s string) types.AccessMode {
	n, _ := strconv.Atoi(s)
	return types.AccessMode(n)
}

// the "desc" member of the request (with a leading comma), "" when there is none
func c05sDesc(d, a, n string) string {
	switch d {
	case "A":
		return ""
	case "E":
		return `,"desc":{}`
	}
	var fs []string
	for _, p := range [][2]string{{"auth", a}, {"anon", n}} {
		switch p[1] {
		case "_":
		case "-":
			fs = append(fs, `"`+p[0]+`":""`)
		default:
			fs = append(fs, `"`+p[0]+`":`+vJSON(string(vUnhex(p[1]))))
		}
	}
	return `,"desc":{"defacs":{` + strings.Join(fs, ",") + `}}`
}

func c05sSet(d, a, n string) string {
	desc := c05sDesc(d, a, n)
	if desc == "" {
		return ""
	}
	return `,"set":{` + desc[1:] + `}`
}

func c05sPair(a, n types.AccessMode) string { return fmt.Sprintf("%d/%d", uint(a), uint(n)) }

func (d *c05sDrv) quiet(topics ...string) {
	if h := vWaitQuiet(topics); h != "" && d.hang == "" {
		d.hang = strings.ReplaceAll(h, " ", "_")
	}
}

func (d *c05sDrv) id() string {
	d.n++
	return "c5s" + strconv.Itoa(d.n)
}

// one request, quiescence, the frames it produced on this session
func (d *c05sDrv) req(vs *vSess, msg string, topics ...string) []*ServerComMessage {
	vs.s.dispatchRaw([]byte(msg))
	d.quiet(topics...)
	return vs.take()
}

func c05sCtrl(fs []*ServerComMessage, id string) *MsgServerCtrl {
	for _, m := range fs {
		if m.Ctrl != nil && m.Ctrl.Id == id {
			return m.Ctrl
		}
	}
	return nil
}

func c05sCode(c *MsgServerCtrl) int {
	if c == nil {
		return 0
	}
	return c.Code
}

func (d *c05sDrv) sub(vs *vSess, topic, set string, topics ...string) *MsgServerCtrl {
	id := d.id()
	return c05sCtrl(d.req(vs, `{"sub":{"id":"`+id+`","topic":"`+topic+`"`+set+`}}`, topics...), id)
}

// {get what=desc}: the defacs of the answer as <hex auth>:<hex anon>, "none" when there is none
func (d *c05sDrv) getDesc(vs *vSess, topic string, topics ...string) string {
	id := d.id()
	for _, m := range d.req(vs, `{"get":{"id":"`+id+`","topic":"`+topic+`","what":"desc"}}`, topics...) {
		if m.Meta != nil && m.Meta.Id == id && m.Meta.Desc != nil && m.Meta.Desc.DefaultAcs != nil {
			return vHex([]byte(m.Meta.Desc.DefaultAcs.Auth)) + ":" + vHex([]byte(m.Meta.Desc.DefaultAcs.Anon))
		}
	}
	return "none"
}

func c05sCache(name string) string {
	if t := globals.hub.topicGet(name); t != nil {
		return c05sPair(t.accessAuth, t.accessAnon)
	}
	return "-"
}

func c05sStoredUser(uid types.Uid) string {
	if u, err := store.Users.Get(uid); err == nil && u != nil {
		return c05sPair(u.Access.Auth, u.Access.Anon)
	}
	return "-"
}

func c05sStoredTopic(name string) string {
	if t, err := store.Topics.Get(name); err == nil && t != nil {
		return c05sPair(t.Access.Auth, t.Access.Anon)
	}
	return "-"
}

func (d *c05sDrv) unload(name string) {
	d.quiet(name)
	if t := globals.hub.topicGet(name); t != nil {
		globals.hub.unreg <- &topicUnreg{rcptTo: name}
	}
	d.quiet(name)
}

func (d *c05sDrv) drop(vs *vSess, topics ...string) {
	vs.s.cleanUp(true)
	<-vs.done
	for _, n := range topics {
		d.unload(n)
	}
}

func (d *c05sDrv) newUser(a, n types.AccessMode) types.Uid {
	u := &types.User{}
	u.Access.Auth = a
	u.Access.Anon = n
	if _, err := store.Users.Create(u, nil); err != nil {
		panic("user create: " + err.Error())
	}
	return u.Uid()
}

func (d *c05sDrv) tail(s string) string {
	if d.hang != "" {
		s += " hang=" + d.hang
		d.hang = ""
	}
	return s
}

func (d *c05sDrv) setDesc(w []string) string {
	cat, att := w[1], w[2] == "1"
	ca, cn := c05sMode(w[3]), c05sMode(w[4])
	var uid types.Uid
	var name, addr string
	stored := func() string { return c05sStoredUser(uid) }
	if cat == "me" {
		uid = d.newUser(ca, cn)
		name, addr = uid.UserId(), "me"
	} else {
		uid = d.newUser(types.ModeCAuth, types.ModeNone)
		d.n++
		name = "grpVerifS" + strconv.Itoa(d.n) + "x" + strconv.FormatInt(time.Now().UnixNano()%1000000, 36)
		addr = name
		stopic := &types.Topic{
			ObjHeader: types.ObjHeader{Id: name, CreatedAt: types.TimeNow()},
			Access:    types.DefaultAccess{Auth: ca, Anon: cn},
		}
		stopic.GiveAccess(uid, types.ModeCFull, types.ModeCFull)
		if err := store.Topics.Create(stopic, uid, nil); err != nil {
			panic("topic create: " + err.Error())
		}
		stored = func() string { return c05sStoredTopic(name) }
	}
	vs := vNewSession(d.n, uid, auth.LevelAuth)
	predesc, desc, redesc := "none", "none", "none"
	if att {
		d.sub(vs, addr, "", name)
		predesc = d.getDesc(vs, addr, name)
	}
	pre, precache := stored(), c05sCache(name)
	id := d.id()
	code := c05sCode(c05sCtrl(d.req(vs, `{"set":{"id":"`+id+`","topic":"`+addr+`"`+c05sDesc(w[5], w[6], w[7])+`}}`, name), id))
	post, cache := stored(), c05sCache(name)
	if att {
		desc = d.getDesc(vs, addr, name)
		// what a later session is told once the topic has been unloaded and is built from the store again
		lid := d.id()
		d.req(vs, `{"leave":{"id":"`+lid+`","topic":"`+addr+`"}}`, name)
		d.unload(name)
		d.sub(vs, addr, "", name)
		redesc = d.getDesc(vs, addr, name)
	}
	d.drop(vs, name)
	return d.tail(fmt.Sprintf("SD code=%d pre=%s precache=%s predesc=%s store=%s cache=%s desc=%s redesc=%s",
		code, pre, precache, predesc, post, cache, desc, redesc))
}

func (d *c05sDrv) newGrp(w []string) string {
	uid := d.newUser(types.ModeCAuth, types.ModeNone)
	d.n++
	vs := vNewSession(d.n, uid, auth.LevelAuth)
	addr := "new"
	if w[1] == "1" {
		addr = "nch"
	}
	code := c05sCode(d.sub(vs, addr+"c5s"+strconv.Itoa(d.n), c05sSet(w[2], w[3], w[4])))
	name := ""
	vs.s.subsLock.RLock()
	for k := range vs.s.subs {
		name = k
	}
	vs.s.subsLock.RUnlock()
	if name == "" {
		d.drop(vs)
		return d.tail(fmt.Sprintf("NG code=%d store=- cache=- desc=none redesc=none", code))
	}
	d.quiet(name)
	post, cache := c05sStoredTopic(name), c05sCache(name)
	desc := d.getDesc(vs, name, name)
	lid := d.id()
	d.req(vs, `{"leave":{"id":"`+lid+`","topic":"`+name+`"}}`, name)
	d.unload(name)
	d.sub(vs, name, "", name)
	redesc := d.getDesc(vs, name, name)
	d.drop(vs, name)
	return d.tail(fmt.Sprintf("NG code=%d store=%s cache=%s desc=%s redesc=%s", code, post, cache, desc, redesc))
}

func (d *c05sDrv) acc(w []string) string {
	d.n++
	anon := vNewSession(d.n, types.ZeroUid, auth.LevelNone)
	id := d.id()
	secret := base64.StdEncoding.EncodeToString([]byte("c05s" + strconv.Itoa(d.n) + "x" +
		strconv.FormatInt(time.Now().UnixNano()%100000000, 36) + ":password" + strconv.Itoa(d.n)))
	scheme := "c05sfake"
	if len(w) > 4 && w[4] == "basic" {
		scheme = "basic"
	}
	c := c05sCtrl(d.req(anon, `{"acc":{"id":"`+id+`","user":"new","scheme":"`+scheme+`","secret":"`+secret+`","login":false`+
		c05sDesc(w[1], w[2], w[3])+`}}`), id)
	anon.s.cleanUp(true)
	<-anon.done
	var uid types.Uid
	if c != nil {
		if p, ok := c.Params.(map[string]any); ok {
			if s, ok := p["user"].(string); ok {
				uid = types.ParseUserId(s)
			}
		}
	}
	if uid.IsZero() {
		return d.tail(fmt.Sprintf("AC code=%d store=- cache=- desc=none", c05sCode(c)))
	}
	post := c05sStoredUser(uid)
	name := uid.UserId()
	vs := vNewSession(d.n, uid, auth.LevelAuth)
	d.sub(vs, "me", "", name)
	cache := c05sCache(name)
	desc := d.getDesc(vs, "me", name)
	d.drop(vs, name)
	return d.tail(fmt.Sprintf("AC code=%d store=%s cache=%s desc=%s", c05sCode(c), post, cache, desc))
}

func (d *c05sDrv) p2p(w []string) string {
	u1 := d.newUser(c05sMode(w[1]), types.ModeNone)
	u2 := d.newUser(types.ModeCAuth, types.ModeNone)
	d.n++
	vs := vNewSession(d.n, u1, auth.LevelAuth)
	name := u1.P2PName(u2)
	code := c05sCode(d.sub(vs, u2.UserId(), c05sSet(w[2], w[3], w[4]), name))
	post, cache := "-", "-"
	if s, err := store.Subs.Get(name, u2, false); err == nil && s != nil {
		post = strconv.Itoa(int(s.ModeGiven))
	}
	if t := globals.hub.topicGet(name); t != nil {
		if pud, ok := t.perUser[u2]; ok {
			cache = strconv.Itoa(int(pud.modeGiven))
		}
	}
	d.drop(vs, name, u1.UserId(), u2.UserId())
	return d.tail(fmt.Sprintf("PP code=%d store=%s cache=%s", code, post, cache))
}

func c05sSubMode(tok string) string {
	switch tok {
	case "_":
		return ""
	case "-":
		return `"mode":""`
	}
	return `"mode":` + vJSON(string(vUnhex(tok)))
}

func (d *c05sDrv) subMode(w []string) string {
	cat, route := w[1], w[2]
	want, given := c05sMode(w[4]), c05sMode(w[5])
	u := d.newUser(types.ModeCAuth, types.ModeNone)
	h := d.newUser(types.ModeCAuth, types.ModeNone)
	d.n++
	var name, addrU, addrH string
	if cat == "p2p" {
		name = u.P2PName(h)
		addrU, addrH = h.UserId(), u.UserId()
		if err := store.Topics.CreateP2P(
			&types.Subscription{User: u.String(), Topic: name, ModeWant: want, ModeGiven: given},
			&types.Subscription{User: h.String(), Topic: name, ModeWant: types.ModeCP2P, ModeGiven: types.ModeCP2P}); err != nil {
			panic("p2p create: " + err.Error())
		}
	} else {
		name = "grpVerifT" + strconv.Itoa(d.n) + "x" + strconv.FormatInt(time.Now().UnixNano()%1000000, 36)
		addrU, addrH = name, name
		stopic := &types.Topic{
			ObjHeader: types.ObjHeader{Id: name, CreatedAt: types.TimeNow()},
			Access:    types.DefaultAccess{Auth: c05sMode(w[3]), Anon: types.ModeNone},
		}
		stopic.GiveAccess(h, types.ModeCFull, types.ModeCFull)
		if err := store.Topics.Create(stopic, h, nil); err != nil {
			panic("topic create: " + err.Error())
		}
		if err := store.Subs.Create(&types.Subscription{User: u.String(), Topic: name, ModeWant: want, ModeGiven: given}); err != nil {
			panic("sub create: " + err.Error())
		}
	}
	row := func() string {
		if s, err := store.Subs.Get(name, u, false); err == nil && s != nil {
			return c05sPair(s.ModeWant, s.ModeGiven)
		}
		return "-"
	}
	topics := []string{name, u.UserId(), h.UserId()}
	vu := vNewSession(d.n, u, auth.LevelAuth)
	vh := vNewSession(d.n+100000, h, auth.LevelAuth)
	vs, addr, user := vu, addrU, ""
	switch route {
	case "set":
		d.sub(vu, addrU, "", topics...)
	case "other":
		d.sub(vh, addrH, "", topics...)
		vs, addr, user = vh, addrH, `"user":"`+u.UserId()+`"`
	}
	pre := row()
	att := 0
	if vs.s.getSub(name) != nil {
		att = 1
	}
	id := d.id()
	var members []string
	for _, m := range []string{user, c05sSubMode(w[6])} {
		if m != "" {
			members = append(members, m)
		}
	}
	body := strings.Join(members, ",")
	var fs []*ServerComMessage
	if route == "sub" {
		fs = d.req(vs, `{"sub":{"id":"`+id+`","topic":"`+addr+`","set":{"sub":{`+body+`}}}}`, topics...)
	} else {
		fs = d.req(vs, `{"set":{"id":"`+id+`","topic":"`+addr+`","sub":{`+body+`}}}`, topics...)
	}
	code := c05sCode(c05sCtrl(fs, id))
	post, cache := row(), "-"
	if t := globals.hub.topicGet(name); t != nil {
		if pud, ok := t.perUser[u]; ok && !pud.deleted {
			cache = c05sPair(pud.modeWant, pud.modeGiven)
		}
	}
	vu.s.cleanUp(true)
	<-vu.done
	d.drop(vh, topics...)
	return d.tail(fmt.Sprintf("SS code=%d att=%d pre=%s store=%s cache=%s", code, att, pre, post, cache))
}

func (d *c05sDrv) handle(w []string) (res string) {
	defer func() {
		if r := recover(); r != nil {
			res = strings.ReplaceAll(fmt.Sprintf("PANIC %v", r), "\n", " ")
		}
	}()
	switch {
	case w[0] == "SD" && len(w) == 8:
		return d.setDesc(w)
	case w[0] == "NG" && len(w) == 5:
		return d.newGrp(w)
	case w[0] == "AC" && (len(w) == 4 || len(w) == 5):
		return d.acc(w)
	case w[0] == "PP" && len(w) == 5:
		return d.p2p(w)
	case w[0] == "SS" && len(w) == 7:
		return d.subMode(w)
	}
	return "?"
}

func TestVerifC05Sites(t *testing.T) {
	vInitServer(t)
	// the authenticators {acc user=new scheme=basic} needs, initialised as main.go does from the config
	for name, conf := range map[string]string{
		"token": `{"expire_in":1209600,"serial_num":1,"key":"wfaY2RgF2S1OQI/ZlK+LSrp1KB2jwAdGAIHQ7JZn+Kc="}`,
		"basic": `{"add_to_tags":false,"min_login_length":3,"min_password_length":3}`,
	} {
		hdl := store.Store.GetLogicalAuthHandler(name)
		if hdl == nil {
			t.Fatal("no authenticator " + name)
		}
		if !hdl.IsInitialized() {
			if err := hdl.Init(json.RawMessage(conf), name); err != nil {
				t.Fatal(err)
			}
		}
	}
	globals.authValidators = nil
	if store.Store.GetLogicalAuthHandler("c05sfake") == nil {
		store.RegisterAuthScheme("c05sfake", c05sFakeAuth{})
	}
	fin, err := os.Open(os.Getenv("VERIF_IN"))
	if err != nil {
		t.Fatal(err)
	}
	defer fin.Close()
	fout, err := os.Create(os.Getenv("VERIF_OUT"))
	if err != nil {
		t.Fatal(err)
	}
	defer fout.Close()
	out := bufio.NewWriterSize(fout, 1<<20)
	defer out.Flush()
	in := bufio.NewScanner(fin)
	in.Buffer(make([]byte, 1<<20), 1<<26)
	d := &c05sDrv{}
	for in.Scan() {
		w := strings.Fields(in.Text())
		if len(w) == 0 {
			continue
		}
		out.WriteString(d.handle(w))
		out.WriteByte('\n')
	}
}
