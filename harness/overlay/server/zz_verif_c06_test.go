//go:build verif

// C06 driver for the owner-only requests of a group topic: {del what=topic},
// {set desc public|trusted|defacs}, {set tags}.  One request line = one fresh topic
// above memverif with an owner, an administrator (JRWPASD, no O), a user holding a
// pending ownership offer (O in given only) and a stranger; the named actor sends the
// request through Session.dispatchRaw with the topic loaded or not and the actor's
// session attached or not.  The answer line classifies what the REAL server did:
//   all <code>   the topic was deleted for everybody / the shared description, default
//                access or tags changed
//   own <code>   only the actor's own subscription was deleted
//   none <code>  nothing changed
// Line protocol of zz_verif_lines_test.go (VERIF_PROP=c06):
//   gate <deltopic|public|trusted|defacs|defacso|tags> <owner|admin|pending|stranger> <loaded 0|1> <attached 0|1> <root 0|1>
package main

import (
	"fmt"
	"reflect"
	"strconv"
	"sync/atomic"
	"testing"
	"time"

	"github.com/tinode/chat/server/auth"
	"github.com/tinode/chat/server/store"
	"github.com/tinode/chat/server/store/types"
)

var c06Count int64

func c06User(acc types.AccessMode) types.Uid {
	u := &types.User{}
	u.Access.Auth = acc
	u.Access.Anon = types.ModeNone
	if _, err := store.Users.Create(u, nil); err != nil {
		panic("c06: user create: " + err.Error())
	}
	return u.Uid()
}

func c06Gate(w []string) string {
	if len(w) != 6 || w[0] != "gate" {
		return "?"
	}
	vInitServer(&testing.T{})
	kind, actor := w[1], w[2]
	loaded, attached, root := w[3] == "1", w[4] == "1", w[5] == "1"
	n := atomic.AddInt64(&c06Count, 1)
	tn := "grpC06v" + strconv.FormatInt(n, 10) + "x" + strconv.FormatInt(time.Now().UnixNano()%1000000, 36)

	owner := c06User(types.ModeCAuth)
	admin := c06User(types.ModeCAuth)
	pending := c06User(types.ModeCAuth)
	stranger := c06User(types.ModeCAuth)
	now := types.TimeNow()
	stopic := &types.Topic{
		ObjHeader: types.ObjHeader{Id: tn, CreatedAt: now},
		Access:    types.DefaultAccess{Auth: types.ModeCPublic, Anon: types.ModeNone},
		Public:    map[string]any{"fn": "before"},
		Tags:      []string{"oldtag"},
	}
	stopic.GiveAccess(owner, types.ModeCFull, types.ModeCFull)
	if err := store.Topics.Create(stopic, owner, nil); err != nil {
		panic("c06: topic create: " + err.Error())
	}
	noO := types.ModeCFull &^ types.ModeOwner
	for _, s := range []*types.Subscription{
		{User: admin.String(), Topic: tn, ModeWant: noO, ModeGiven: noO},
		{User: pending.String(), Topic: tn, ModeWant: noO, ModeGiven: types.ModeCFull},
	} {
		if err := store.Subs.Create(s); err != nil {
			panic("c06: sub create: " + err.Error())
		}
	}
	uids := map[string]types.Uid{"owner": owner, "admin": admin, "pending": pending, "stranger": stranger}
	au, ok := uids[actor]
	if !ok {
		return "?"
	}
	lvl := auth.LevelAuth
	if root {
		lvl = auth.LevelRoot
	}
	as := vNewSession(1, au, lvl)
	// the other party keeps the topic loaded when the actor is not attached
	ou := owner
	if actor == "owner" {
		ou = admin
	}
	os := vNewSession(2, ou, auth.LevelAuth)
	topics := []string{tn}
	if attached {
		as.s.dispatchRaw([]byte(`{"sub":{"id":"att","topic":"` + tn + `"}}`))
	} else if loaded {
		os.s.dispatchRaw([]byte(`{"sub":{"id":"att","topic":"` + tn + `"}}`))
	}
	if h := vWaitQuiet(topics); h != "" {
		return "hang-setup " + h
	}
	as.take()
	os.take()
	isLoaded := globals.hub.topicGet(tn) != nil
	isAttached := as.s.getSub(tn) != nil
	subBefore, _ := store.Subs.Get(tn, au, false)

	var req string
	switch kind {
	case "deltopic":
		req = `{"del":{"id":"req","topic":"` + tn + `","what":"topic","hard":true}}`
	case "public":
		req = `{"set":{"id":"req","topic":"` + tn + `","desc":{"public":{"fn":"after"}}}}`
	case "trusted":
		req = `{"set":{"id":"req","topic":"` + tn + `","desc":{"trusted":{"verified":true}}}}`
	case "defacs":
		req = `{"set":{"id":"req","topic":"` + tn + `","desc":{"defacs":{"auth":"JRWP"}}}}`
	case "defacso":
		req = `{"set":{"id":"req","topic":"` + tn + `","desc":{"defacs":{"auth":"JRWPO"}}}}`
	case "tags":
		req = `{"set":{"id":"req","topic":"` + tn + `","tags":["newtag"]}}`
	default:
		return "?"
	}
	as.s.dispatchRaw([]byte(req))
	hang := vWaitQuiet(topics)
	code := 0
	for _, m := range as.take() {
		if m.Ctrl != nil && m.Ctrl.Id == "req" && code == 0 {
			code = m.Ctrl.Code
		}
	}
	class := "none"
	st, err := store.Topics.Get(tn)
	if err != nil {
		panic("c06: topic get: " + err.Error())
	}
	if st == nil {
		class = "all"
	} else {
		pub, _ := st.Public.(map[string]any)
		changed := pub == nil || pub["fn"] != "before" || st.Trusted != nil ||
			st.Access.Auth != types.ModeCPublic || st.Access.Anon != types.ModeNone ||
			!reflect.DeepEqual([]string(st.Tags), []string{"oldtag"})
		// the cached copy must not change either
		if t := globals.hub.topicGet(tn); t != nil {
			tp, _ := t.public.(map[string]any)
			if tp == nil || tp["fn"] != "before" || t.trusted != nil || t.accessAuth != types.ModeCPublic ||
				!reflect.DeepEqual(t.tags, []string{"oldtag"}) {
				changed = true
			}
		}
		if changed {
			class = "all"
		} else if subAfter, _ := store.Subs.Get(tn, au, false); subBefore != nil && subAfter == nil {
			class = "own"
		}
	}
	// every other subscription must be as before unless the topic is gone
	others := ""
	if st != nil {
		for name, u := range uids {
			if u == au || name == "stranger" {
				continue
			}
			if s, _ := store.Subs.Get(tn, u, false); s == nil {
				others = " lost=" + name
			}
		}
	}
	as.s.cleanUp(true)
	<-as.done
	os.s.cleanUp(true)
	<-os.done
	vWaitQuiet(topics)
	if t := globals.hub.topicGet(tn); t != nil {
		globals.hub.unreg <- &topicUnreg{rcptTo: tn}
	}
	vWaitQuiet(topics)
	if hang != "" {
		return "hang " + hang
	}
	return fmt.Sprintf("%s %d loaded=%s attached=%s%s", class, code, vB2s(isLoaded), vB2s(isAttached), others)
}

func init() {
	verifHandlers["c06"] = c06Gate
}
