//go:build verif

// C17 gate driver: the inter-node entry points that carry a ring signature, on REAL
// Cluster / ClusterNode / Hub / SessionStore / Topic values, several nodes in one process.
//
// Every node has its own Cluster (ring built by the real Cluster.rehash), its own Hub (topics
// map + the join / routeCli / routeSrv queues, drained by the driver) and its own SessionStore;
// the process globals (globals.cluster / hub / sessionStore) are pointed at the acting node
// before every call.  Honest traffic is made by the real senders: routeToTopicMaster (through
// the real p2mSender queue and ClusterNode.proxyToMaster), topicProxyGone,
// routeToTopicIntraCluster (ClusterNode.route); ClusterNode.endpoint is a real rpc.Client over
// a codec that captures the request body and answers at once, so the request is "on the wire"
// until the script delivers it, possibly many events (rehashes of either side) later, by calling
// the real entry point of the receiver: Cluster.TopicMaster / Cluster.Route / Cluster.TopicProxy.
// The write loop a stop message schedules (globals.cluster.proxyEventQueue is nil here) is run
// by the driver right after the call that queued the stop.
//
// request:  X <node,node,...> <event> ...
//   R:<i>:<list|*|->                     c.rehash at node i (* = nil: all configured nodes, - = empty list)
//   T:<i>:<topic>:<flags c,s,p|->        hub of i gets the topic (isChan, supd != nil, isProxy/proxy channel)
//   t:<i>:<topic>                        hub of i loses the topic
//   S:<i>:<reqtype>:<topic>:<orig|->:<sess 0|1>    routeToTopicMaster at i (orig: CliMsg.Original, - = no CliMsg)
//   G:<i>:<topic>                        topicProxyGone at i
//   U:<i>:<topic>:<srv 0|1>:<sess 0|1>   routeToTopicIntraCluster at i
//   F:q:<to>:<node>:<sig>:<reqtype>:<rcpt>:<orig|->:<sess>:<gone>   a ClusterReq from nowhere
//   F:r:<to>:<node>:<sig>:<srv>:<sess>                               a ClusterRoute from nowhere
//   F:p:<to>:<rcpt>:<srv>                                            a ClusterResp from nowhere
//        sig: #<hex> raw bytes | =<list> signature of the ring of that list | one of ^ < > % + list:
//        that signature with its last byte changed / cut / one byte added / letter case flipped
//   D:<k>:<full 0|1>                     the k-th message on the wire reaches its entry point
//                                        (full: the bounded queues of the receiver have no room)
//   X:<k>                                the k-th message on the wire is lost
// answer: 'I <sig hex of the initial ring>', then per event, separated by '|':
//   R <sig hex> | . | S <to> <sig hex> <owner> | N <owner> | F <sig hex> | L |
//   D rej=<0|1> dst=<queue|-> r500=<0|1> ms=<0|1> store=<n> nm=<n> cur=<sig hex of the receiver> [PANIC|HANG]
package main

import (
	"container/list"
	"encoding/hex"
	"fmt"
	"io"
	"net/rpc"
	"sort"
	"strings"
	"sync"
	"time"

	"github.com/tinode/chat/server/store/types"
)

func init() { verifHandlers["c17x"] = c17xGate }

type c17xCaptured struct {
	method string
	body   any
}

type c17xCodec struct {
	mu     sync.Mutex
	got    []c17xCaptured
	respCh chan uint64
	closed chan struct{}
	once   sync.Once
}

func (k *c17xCodec) WriteRequest(r *rpc.Request, body any) error {
	k.mu.Lock()
	k.got = append(k.got, c17xCaptured{r.ServiceMethod, body})
	k.mu.Unlock()
	k.respCh <- r.Seq
	return nil
}

func (k *c17xCodec) ReadResponseHeader(r *rpc.Response) error {
	select {
	case seq := <-k.respCh:
		r.Seq = seq
		return nil
	case <-k.closed:
		return io.EOF
	}
}

func (k *c17xCodec) ReadResponseBody(body any) error { return nil }

func (k *c17xCodec) Close() error {
	k.once.Do(func() { close(k.closed) })
	return nil
}

func (k *c17xCodec) take() []c17xCaptured {
	k.mu.Lock()
	defer k.mu.Unlock()
	g := k.got
	k.got = nil
	return g
}

type c17xNode struct {
	name   string
	cl     *Cluster
	hub    *Hub
	ss     *SessionStore
	codecs map[string]*c17xCodec
	topics map[string]*Topic
}

type c17xFlying struct {
	to     string
	method string
	body   any
}

var c17xSentinelCli = &ClientComMessage{Id: "verif-sentinel"}
var c17xSentinelSrv = &ServerComMessage{Id: "verif-sentinel"}

func c17xList(s string) []string {
	switch s {
	case "*":
		return nil
	case "-":
		return []string{}
	}
	return strings.Split(s, ",")
}

func c17xHexSig(s string) string {
	if s == "" {
		return "-"
	}
	return hex.EncodeToString([]byte(s))
}

// signature of the ring Cluster.rehash builds from the list
func c17xSigOf(lst []string) string {
	c := &Cluster{thisNodeName: "scratch", nodes: map[string]*ClusterNode{}}
	c.rehash(lst)
	return c.ring.Signature()
}

func c17xForgeSig(spec string) string {
	if spec == "" {
		return ""
	}
	kind, arg := spec[0], spec[1:]
	if kind == '#' {
		return string(vUnhex(arg))
	}
	sig := c17xSigOf(c17xList(arg))
	b := []byte(sig)
	switch kind {
	case '=':
	case '^':
		if len(b) > 0 {
			b[len(b)-1] ^= 1
		}
	case '<':
		if len(b) > 0 {
			b = b[:len(b)-1]
		}
	case '>':
		b = append(b, '!')
	case '%':
		changed := false
		for i, c := range b {
			if c >= 'a' && c <= 'z' {
				b[i] = c - 32
				changed = true
			} else if c >= 'A' && c <= 'Z' {
				b[i] = c + 32
				changed = true
			}
		}
		if !changed && len(b) > 0 {
			b[0] ^= 1
		}
	default:
		panic("driver: bad signature spec " + spec)
	}
	return string(b)
}

func (nd *c17xNode) activate() {
	globals.cluster = nd.cl
	globals.hub = nd.hub
	globals.sessionStore = nd.ss
}

func (nd *c17xNode) msessCount() int {
	n := 0
	for _, p := range nd.cl.nodes {
		p.lock.Lock()
		n += len(p.msess)
		p.lock.Unlock()
	}
	return n
}

// drain the send queues of the multiplexing sessions (count {ctrl 500}), then run the write
// loop of every session that has a stop message pending
func (nd *c17xNode) settleSessions() (r500 int) {
	nd.ss.lock.Lock()
	var all []*Session
	for _, s := range nd.ss.sessCache {
		all = append(all, s)
	}
	nd.ss.lock.Unlock()
	sort.Slice(all, func(i, j int) bool { return all[i].sid < all[j].sid })
	for _, s := range all {
		for len(s.send) > 0 {
			m := <-s.send
			if sm, ok := m.(*ServerComMessage); ok && sm != nil && sm.Ctrl != nil && sm.Ctrl.Code == 500 {
				r500++
			}
		}
		if len(s.stop) > 0 {
			s.clusterWriteLoop(s.proxiedTopic)
		}
	}
	return r500
}

func c17xDrainCli(ch chan *ClientComMessage) int {
	n := 0
	for len(ch) > 0 {
		if m := <-ch; m != c17xSentinelCli {
			n++
		}
	}
	return n
}

func c17xGate(w []string) string {
	if len(w) < 2 || w[0] != "X" {
		return "?"
	}
	oldCl, oldHub, oldSS := globals.cluster, globals.hub, globals.sessionStore
	defer func() { globals.cluster, globals.hub, globals.sessionStore = oldCl, oldHub, oldSS }()

	names := strings.Split(w[1], ",")
	nodes := map[string]*c17xNode{}
	for _, name := range names {
		nd := &c17xNode{name: name, codecs: map[string]*c17xCodec{}, topics: map[string]*Topic{}}
		nd.cl = &Cluster{thisNodeName: name, fingerprint: 1, nodes: map[string]*ClusterNode{}}
		for _, other := range names {
			if other == name {
				continue
			}
			codec := &c17xCodec{respCh: make(chan uint64, 16), closed: make(chan struct{})}
			nd.codecs[other] = codec
			nd.cl.nodes[other] = &ClusterNode{name: other, done: make(chan bool, 1), msess: map[string]struct{}{},
				p2mSender: make(chan *ClusterReq, clusterProxyToMasterBuffer), rpcDone: make(chan *rpc.Call, 64),
				endpoint: rpc.NewClientWithCodec(codec), connected: true}
		}
		nd.cl.rehash(nil)
		nd.hub = &Hub{topics: &sync.Map{}, join: make(chan *ClientComMessage, 1), routeCli: make(chan *ClientComMessage, 1),
			routeSrv: make(chan *ServerComMessage, 1)}
		nd.ss = &SessionStore{lru: list.New(), lifeTime: time.Hour, sessCache: map[string]*Session{}}
		nodes[name] = nd
	}
	defer func() {
		for _, nd := range nodes {
			for _, p := range nd.cl.nodes {
				p.endpoint.Close()
			}
		}
	}()

	var flight []c17xFlying
	out := []string{"I " + c17xHexSig(nodes[names[0]].cl.ring.Signature())}
	msgSeq := 0
	uid := types.Uid(42)

	// what the real senders put on the wire of node nd during the last call
	collect := func(nd *c17xNode) (string, string, bool) {
		// requests queued by proxyToMasterAsync: what p2mSenderLoop does with them
		for _, peer := range names {
			p := nd.cl.nodes[peer]
			if p == nil {
				continue
			}
			for len(p.p2mSender) > 0 {
				req := <-p.p2mSender
				p.proxyToMaster(req)
			}
		}
		to, sig, found := "", "", false
		for _, peer := range names {
			k := nd.codecs[peer]
			if k == nil {
				continue
			}
			for _, c := range k.take() {
				flight = append(flight, c17xFlying{to: peer, method: c.method, body: c.body})
				to, found = peer, true
				switch b := c.body.(type) {
				case *ClusterReq:
					sig = b.Signature
				case *ClusterRoute:
					sig = b.Signature
				}
			}
		}
		return to, sig, found
	}

	for _, ev := range w[2:] {
		f := strings.Split(ev, ":")
		switch f[0] {
		case "R":
			nd := nodes[f[1]]
			if nd == nil {
				out = append(out, ".")
				break
			}
			nd.activate()
			nd.cl.rehash(c17xList(f[2]))
			out = append(out, "R "+c17xHexSig(nd.cl.ring.Signature()))
		case "T":
			nd := nodes[f[1]]
			if nd == nil {
				out = append(out, ".")
				break
			}
			t := &Topic{name: f[2], meta: make(chan *ClientComMessage, 1), unreg: make(chan *ClientComMessage, 4)}
			if strings.Contains(f[3], "c") {
				t.isChan = true
			}
			if strings.Contains(f[3], "s") {
				t.supd = make(chan *sessionUpdate, 4)
			}
			if strings.Contains(f[3], "p") {
				t.isProxy = true
				t.proxy = make(chan *ClusterResp, 4)
			}
			if _, had := nd.topics[f[2]]; had {
				nd.hub.topicDel(f[2])
			}
			nd.hub.topicPut(f[2], t)
			nd.topics[f[2]] = t
			out = append(out, ".")
		case "t":
			nd := nodes[f[1]]
			if nd != nil {
				if _, had := nd.topics[f[2]]; had {
					nd.hub.topicDel(f[2])
					delete(nd.topics, f[2])
				}
			}
			out = append(out, ".")
		case "S", "G", "U":
			nd := nodes[f[1]]
			if nd == nil {
				out = append(out, ".")
				break
			}
			nd.activate()
			msgSeq++
			var err error
			var topic string
			switch f[0] {
			case "S":
				topic = f[3]
				var cli *ClientComMessage
				if f[4] != "-" {
					cli = &ClientComMessage{Id: fmt.Sprint("m", msgSeq), Original: f[4], RcptTo: topic,
						AsUser: uid.UserId(), Timestamp: time.Now()}
				}
				var sess *Session
				if f[5] == "1" {
					sess = &Session{sid: "sess-" + nd.name, uid: uid, userAgent: "ua", subs: map[string]*Subscription{}}
				}
				err = nd.cl.routeToTopicMaster(ProxyReqType(vAtoi(f[2])), cli, topic, sess)
			case "G":
				topic = f[2]
				err = nd.cl.topicProxyGone(topic)
			case "U":
				topic = f[2]
				var srv *ServerComMessage
				if f[3] == "1" {
					srv = &ServerComMessage{Id: fmt.Sprint("m", msgSeq), RcptTo: topic}
				}
				var sess *Session
				if f[4] == "1" {
					sess = &Session{sid: "sess-" + nd.name, uid: uid, subs: map[string]*Subscription{}}
				}
				err = nd.cl.routeToTopicIntraCluster(topic, srv, sess)
			}
			owner := nd.cl.ring.Get(topic)
			to, sig, found := collect(nd)
			if err != nil || !found {
				out = append(out, "N "+vHex([]byte(owner)))
			} else {
				out = append(out, "S "+to+" "+c17xHexSig(sig)+" "+vHex([]byte(owner)))
			}
		case "F":
			var sig string
			switch f[1] {
			case "q":
				sig = c17xForgeSig(f[4])
				req := &ClusterReq{Node: f[3], Signature: sig, Fingerprint: 1, ReqType: ProxyReqType(vAtoi(f[5])), RcptTo: f[6],
					Gone: f[9] == "1"}
				msgSeq++
				if f[7] != "-" {
					req.CliMsg = &ClientComMessage{Id: fmt.Sprint("m", msgSeq), Original: f[7], RcptTo: f[6],
						AsUser: uid.UserId(), Timestamp: time.Now()}
				}
				if f[8] == "1" {
					req.Sess = &ClusterSess{Uid: uid, UserAgent: "ua", Sid: "sess-" + f[3]}
				}
				flight = append(flight, c17xFlying{to: f[2], method: "Cluster.TopicMaster", body: req})
			case "r":
				sig = c17xForgeSig(f[4])
				rt := &ClusterRoute{Node: f[3], Signature: sig, Fingerprint: 1}
				msgSeq++
				if f[5] == "1" {
					rt.SrvMsg = &ServerComMessage{Id: fmt.Sprint("m", msgSeq)}
				}
				if f[6] == "1" {
					rt.Sess = &ClusterSess{Sid: "sess-" + f[3]}
				}
				flight = append(flight, c17xFlying{to: f[2], method: "Cluster.Route", body: rt})
			case "p":
				rp := &ClusterResp{RcptTo: f[3], OrigSid: "*"}
				msgSeq++
				if f[4] == "1" {
					rp.SrvMsg = &ServerComMessage{Id: fmt.Sprint("m", msgSeq), AsUser: uid.UserId()}
				}
				flight = append(flight, c17xFlying{to: f[2], method: "Cluster.TopicProxy", body: rp})
			default:
				return "bad event " + ev
			}
			out = append(out, "F "+c17xHexSig(sig))
		case "X":
			k := int(vAtoi(f[1]))
			if k < len(flight) {
				flight = append(append([]c17xFlying{}, flight[:k]...), flight[k+1:]...)
			}
			out = append(out, ".")
		case "D":
			k := int(vAtoi(f[1]))
			full := f[2] == "1"
			if k >= len(flight) {
				out = append(out, ".")
				break
			}
			fl := flight[k]
			flight = append(append([]c17xFlying{}, flight[:k]...), flight[k+1:]...)
			nd := nodes[fl.to]
			if nd == nil {
				out = append(out, "L")
				break
			}
			nd.activate()
			cur := nd.cl.ring.Signature()
			if full {
				nd.hub.join <- c17xSentinelCli
				nd.hub.routeCli <- c17xSentinelCli
				nd.hub.routeSrv <- c17xSentinelSrv
				for _, t := range nd.topics {
					t.meta <- c17xSentinelCli
				}
			}
			rejected := false
			panicked := ""
			done := make(chan struct{})
			go func() {
				defer close(done)
				defer func() {
					if r := recover(); r != nil {
						panicked = fmt.Sprint(r)
					}
				}()
				switch b := fl.body.(type) {
				case *ClusterReq:
					nd.cl.TopicMaster(b, &rejected)
				case *ClusterRoute:
					nd.cl.Route(b, &rejected)
				case *ClusterResp:
					nd.cl.TopicProxy(b, &rejected)
				}
			}()
			hang := false
			select {
			case <-done:
			case <-time.After(20 * time.Second):
				hang = true
			}
			if hang {
				out = append(out, "D HANG")
				return strings.Join(out, "|")
			}
			// where did it go
			var dst []string
			if c17xDrainCli(nd.hub.join) > 0 {
				dst = append(dst, "join")
			}
			if c17xDrainCli(nd.hub.routeCli) > 0 {
				dst = append(dst, "bcast")
			}
			for len(nd.hub.routeSrv) > 0 {
				if m := <-nd.hub.routeSrv; m != c17xSentinelSrv {
					dst = append(dst, "routesrv")
				}
			}
			var tnames []string
			for tn := range nd.topics {
				tnames = append(tnames, tn)
			}
			sort.Strings(tnames)
			for _, tn := range tnames {
				t := nd.topics[tn]
				if c17xDrainCli(t.meta) > 0 {
					dst = append(dst, "meta")
				}
				if c17xDrainCli(t.unreg) > 0 {
					dst = append(dst, "leave")
				}
				for t.supd != nil && len(t.supd) > 0 {
					if su := <-t.supd; su.userAgent != "" {
						dst = append(dst, "ua")
					} else {
						dst = append(dst, "bg")
					}
				}
				for t.proxy != nil && len(t.proxy) > 0 {
					<-t.proxy
					dst = append(dst, "proxy")
				}
			}
			r500 := nd.settleSessions()
			ms := false
			if b, ok := fl.body.(*ClusterReq); ok {
				msid := b.RcptTo
				if b.CliMsg != nil && types.IsChannel(b.CliMsg.Original) {
					msid = b.CliMsg.Original
				}
				msid += "-" + b.Node
				nd.ss.lock.Lock()
				_, ms = nd.ss.sessCache[msid]
				nd.ss.lock.Unlock()
			}
			nd.ss.lock.Lock()
			storeN := len(nd.ss.sessCache)
			nd.ss.lock.Unlock()
			d := "-"
			if len(dst) > 0 {
				d = strings.Join(dst, "+")
			}
			res := fmt.Sprintf("D rej=%s dst=%s r500=%d ms=%s store=%d nm=%d cur=%s", vB2s(rejected), d, r500, vB2s(ms), storeN,
				nd.msessCount(), c17xHexSig(cur))
			if panicked != "" {
				res += " PANIC"
			}
			out = append(out, res)
		default:
			return "bad event " + ev
		}
	}
	return strings.Join(out, "|")
}
