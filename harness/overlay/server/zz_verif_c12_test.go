//go:build verif

// C12 driver for checkAPIKey (package main, server/api_key.go).
//   K <salt hex> <api key bytes hex>  ->  K valid <isRoot> | K refused | K panic <text>
// followed by " | " and, when the key decodes to at least 8 bytes, the HMAC-MD5
// of the first 8 decoded bytes under the salt, computed by the driver
// (mac=<salt>:<data>:<mac>), which the model runner uses as its MAC function.
package main

import (
	"crypto/hmac"
	"crypto/md5"
	"encoding/base64"
	"fmt"
	"io"
	"strings"

	"github.com/tinode/chat/server/logs"
)

func init() { verifHandlers["c12"] = verifC12 }

func verifC12(w []string) string {
	if w[0] != "K" {
		return "?"
	}
	logs.Init(io.Discard, "stdFlags")
	salt := vUnhex(w[1])
	key := string(vUnhex(w[2]))
	globals.apiKeySalt = salt
	aux := ""
	if data, err := base64.URLEncoding.DecodeString(key); err == nil && len(data) >= 8 {
		h := hmac.New(md5.New, salt)
		h.Write(data[:8])
		aux = "mac=" + vHex(salt) + ":" + vHex(data[:8]) + ":" + vHex(h.Sum(nil))
	}
	res := func() (res string) {
		defer func() {
			if r := recover(); r != nil {
				res = "K panic " + strings.ReplaceAll(strings.ReplaceAll(fmt.Sprint(r), " ", "_"), "|", "/")
			}
		}()
		valid, root := checkAPIKey(key)
		if !valid {
			return "K refused"
		}
		return "K valid " + vB2s(root)
	}()
	return res + " | " + aux
}
