//go:build verif

// C01 description-options driver: histories on a REAL group topic (hub, topic goroutine, sessions,
// store mappers above memverif) in which description queries carry OPTIONS:
//   {get what=desc desc={ims: T [limit|user]}}, {sub get={what=desc desc={ims: T}}},
// and the owner's {set desc={public: n}} moves the topic's metadata timestamp t.updated.
// Same scenario head, same base requests and the same canonical blocks as the topic-history driver
// (zz_verif_topic_test.go, whose vScn / op / emitStore / emitCache / vWaitQuiet / vNewSession are reused);
// the model runner harness/runner/r_c01i.ml prints the same blocks from coq/Sys/TopicImsC01.v.
//
// New requests (tools/props/c01ims.py):
//   op <N|Fk|Ck> getdesci <sess> <ims> <bad>          bad: 0 | 1 (desc.limit given) | 2 (desc.user given)
//   op <N|Fk|Ck> subdesc  <sess> <mode hex|-> <bkg> <ims> <bad>
//   op <N|Fk|Ck> setpub   <sess> <n>
// <ims>: a absent | z zero time | o year 2001 | j one millisecond before t.updated   (all BEFORE the last update)
//        e exactly t.updated | n now (never before t.updated) | f one hour ahead         (all NOT BEFORE it)
// t.updated is read at quiescence from the loaded topic, or from the stored row when the topic is not loaded.
// A {meta desc} answering one of the new requests is rendered with created=0|1 (desc.created present) and
// pub=<n|0> (desc.public) after the usual fields.
package main

import (
	"bufio"
	"fmt"
	"os"
	"sort"
	"strconv"
	"strings"
	"testing"
	"time"

	"github.com/tinode/chat/server/auth"
	"github.com/tinode/chat/server/db/memverif"
	"github.com/tinode/chat/server/store"
	"github.com/tinode/chat/server/store/types"
)

// the topic's current metadata timestamp
func c01iUpdatedOf(topic string) time.Time {
	if t := globals.hub.topicGet(topic); t != nil {
		return t.updated
	}
	if st, err := store.Topics.Get(topic); err == nil && st != nil {
		return st.UpdatedAt
	}
	return time.Now().UTC()
}

// the "ims" member for an ims kind ("" for kind a = absent)
func c01iImsOf(topic, kind string) string {
	upd := c01iUpdatedOf(topic)
	var ts *time.Time
	switch kind {
	case "z":
		t := time.Time{}
		ts = &t
	case "o":
		t := time.Date(2001, 1, 1, 0, 0, 0, 0, time.UTC)
		ts = &t
	case "j":
		t := upd.Add(-time.Millisecond)
		ts = &t
	case "e":
		t := upd
		ts = &t
	case "n":
		t := time.Now().UTC().Round(time.Millisecond)
		if t.Before(upd) {
			t = upd
		}
		ts = &t
	case "f":
		t := time.Now().UTC().Add(time.Hour)
		ts = &t
	}
	if ts == nil {
		return ""
	}
	return `"ims":` + vJSON(ts)
}

// the desc options object for an ims kind ("" = no options object at all)
func c01iOpts(sc *vScn, kind, bad string) string {
	var parts []string
	if ims := c01iImsOf(sc.topic, kind); ims != "" {
		parts = append(parts, ims)
	}
	switch bad {
	case "1":
		parts = append(parts, `"limit":1`)
	case "2":
		parts = append(parts, `"user":"`+sc.uids[1].UserId()+`"`)
	}
	if len(parts) == 0 {
		return ""
	}
	return `,"desc":{` + strings.Join(parts, ",") + `}`
}

func c01iFrame(sc *vScn, m *ServerComMessage) string {
	if m.Meta != nil && m.Meta.Desc != nil {
		d := m.Meta.Desc
		created := "0"
		if d.CreatedAt != nil {
			created = "1"
		}
		pub := "0"
		if d.Public != nil {
			pub = vNum(d.Public)
		}
		return sc.frame(m) + " created=" + created + " pub=" + pub
	}
	return sc.frame(m)
}

// one of the new requests: same prologue / epilogue as vScn.op
func c01iOp(sc *vScn, w []string) {
	flt, kind, a := w[0], w[1], w[2:]
	if kind != "getdesci" && kind != "subdesc" && kind != "setpub" {
		sc.op(w)
		return
	}
	sc.opi++
	fmt.Fprintf(sc.out, "op %d\n", sc.opi)
	memverif.ClearFault()
	memverif.ResetCallLog()
	tn := sc.topic
	id := fmt.Sprintf("%d", sc.opi)
	si, _ := strconv.Atoi(a[0])
	// the options are built before the fault is armed (reading the stored row is the driver's own call)
	var req string
	switch kind {
	case "getdesci":
		req = `{"get":{"id":"` + id + `","topic":"` + tn + `","what":"desc"` + c01iOpts(sc, a[1], a[2]) + `}}`
	case "subdesc":
		set := ""
		if a[1] != "-" {
			set = `,"set":{"sub":{"mode":` + vJSON(vHexStr(a[1])) + `}}`
		}
		sc.sess[si].s.background = a[2] == "1"
		req = `{"sub":{"id":"` + id + `","topic":"` + tn + `"` + set + `,"get":{"what":"desc"` + c01iOpts(sc, a[3], a[4]) + `}}}`
	case "setpub":
		req = `{"set":{"id":"` + id + `","topic":"` + tn + `","desc":{"public":` + a[1] + `}}}`
	}
	memverif.ResetCallLog()
	if flt != "N" {
		k, _ := strconv.Atoi(flt[1:])
		memverif.SetFault(k, flt[0] == 'C')
	}
	sc.send(si, req)
	hang := vWaitQuiet([]string{tn})
	sc.emitPush()
	idxs := make([]int, 0, len(sc.sess))
	for i := range sc.sess {
		idxs = append(idxs, i)
	}
	sort.Ints(idxs)
	for _, i := range idxs {
		for _, m := range sc.sess[i].take() {
			fmt.Fprintf(sc.out, "S%d %s\n", i, c01iFrame(sc, m))
		}
	}
	calls := memverif.CallLog()
	if flt != "N" && flt[0] == 'C' {
		sc.restart()
		if h2 := vWaitQuiet([]string{tn}); h2 != "" {
			hang = h2
		}
	}
	if hang != "" {
		fmt.Fprintln(sc.out, hang)
	}
	fmt.Fprintf(sc.out, "calls %d\n", len(calls))
	fmt.Fprintf(sc.out, "calllog %s\n", strings.Join(calls, " "))
	memverif.ClearFault()
	if globals.hub.topicGet(sc.topic) == nil {
		fmt.Fprintln(sc.out, "loaded 0")
	} else {
		fmt.Fprintln(sc.out, "loaded 1")
	}
	sc.emitStore()
	sc.emitCache()
}

func TestVerifC01i(t *testing.T) {
	vInitServer(t)
	fin, err := os.Open(os.Getenv("VERIF_IN"))
	if err != nil {
		t.Fatal(err)
	}
	defer fin.Close()
	fout, err := os.Create(os.Getenv("VERIF_OUT"))
	if err != nil {
		t.Fatal(err)
	}
	defer fout.Close()
	out := bufio.NewWriterSize(fout, 1<<20)
	defer out.Flush()
	in := bufio.NewScanner(fin)
	in.Buffer(make([]byte, 1<<20), 1<<26)
	var sc *vScn
	scnCount := 0
	for in.Scan() {
		w := strings.Fields(in.Text())
		if len(w) == 0 {
			continue
		}
		switch w[0] {
		case "scn":
			scnCount++
			kv := vKV(w[2:])
			sc = &vScn{id: w[1], uids: map[int]types.Uid{}, uidIdx: map[types.Uid]int{}, sess: map[int]*vSess{},
				sessUser: map[int]int{}, out: out}
			sc.topic = "grpVerifI" + strconv.Itoa(scnCount) + "x" + strconv.FormatInt(time.Now().UnixNano()%1000000, 36)
			sc.gen = scnCount
			sc.pending(kv)
			fmt.Fprintf(out, "scn %s\n", w[1])
		case "user":
			kv := vKV(w[2:])
			i, _ := strconv.Atoi(w[1])
			acc, _ := strconv.Atoi(kv["acc"])
			u := &types.User{}
			u.Access.Auth = types.AccessMode(acc)
			u.Access.Anon = types.ModeNone
			if _, err := store.Users.Create(u, nil); err != nil {
				t.Fatal("user create: ", err)
			}
			sc.uids[i] = u.Uid()
			sc.uidIdx[u.Uid()] = i
			sc.maybeCreateTopic(t, i)
		case "subrow":
			kv := vKV(w[2:])
			i, _ := strconv.Atoi(w[1])
			want, _ := strconv.Atoi(kv["want"])
			given, _ := strconv.Atoi(kv["given"])
			if err := store.Subs.Create(&types.Subscription{User: sc.uids[i].String(), Topic: sc.topic,
				ModeWant: types.AccessMode(want), ModeGiven: types.AccessMode(given)}); err != nil {
				t.Fatal("sub create: ", err)
			}
		case "sess":
			si, _ := strconv.Atoi(w[1])
			ui, _ := strconv.Atoi(w[2])
			sc.sessUser[si] = ui
			sc.sess[si] = vNewSession(si, sc.uids[ui], auth.LevelAuth)
		case "op":
			c01iOp(sc, w[1:])
		case "end":
			sc.finish()
			fmt.Fprintln(out, "end")
			out.Flush()
		}
	}
}
