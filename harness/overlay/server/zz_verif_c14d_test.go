//go:build verif

// C14, store faults inside the life-cycle bursts (round s14d).
//
// A request line of the C14 driver may end with `fault=<AdapterMethod>` (e.g. `fault=TopicDelete`): the FIRST
// call of that store adapter method made after the session's read loop has started to handle the request fails
// with memverif.ErrInjected and has no effect (memverif.SetHook runs on the calling goroutine at the entry of
// the method, before the call is counted; the hook arms SetFault(1) for exactly that call and removes itself).
// The method is addressed by name, not by a call count, so the fault cannot land on another store call.  At the
// quiescence that ends the burst the driver prints
//
//	fault <session> <rid> <method> fired=<0|1>
//
// and clears whatever is left of the plan.  The generator puts a faulted request alone in its burst.
package main

import (
	"fmt"
	"sync"
	"sync/atomic"

	"github.com/tinode/chat/server/db/memverif"
)

type lcFaultRecC14d struct {
	si     int
	rid    string
	method string
	fired  int32
}

var (
	lcFaultMuC14d   sync.Mutex
	lcFaultListC14d []*lcFaultRecC14d
)

func lcArmFaultC14d(ls *lcSess, r lcReq) {
	rec := &lcFaultRecC14d{si: ls.idx, rid: r.rid, method: r.fault}
	lcFaultMuC14d.Lock()
	lcFaultListC14d = append(lcFaultListC14d, rec)
	lcFaultMuC14d.Unlock()
	method := r.fault
	memverif.SetHook(method, func() {
		if atomic.CompareAndSwapInt32(&rec.fired, 0, 1) {
			memverif.SetHook(method, nil)
			memverif.SetFault(1, false)
		}
	})
}

// lcReportFaultsC14d: called at the quiescence that ends a burst.
func lcReportFaultsC14d(sc *lcScn) {
	lcFaultMuC14d.Lock()
	recs := lcFaultListC14d
	lcFaultListC14d = nil
	lcFaultMuC14d.Unlock()
	for _, rec := range recs {
		memverif.SetHook(rec.method, nil)
		fmt.Fprintf(sc.out, "fault %d %s %s fired=%d\n", rec.si, rec.rid, rec.method, atomic.LoadInt32(&rec.fired))
	}
	if len(recs) > 0 {
		memverif.ClearFault()
	}
}
