//go:build verif

// C08 (s08c) permission-branch driver: the topic-history driver of zz_verif_topic_test.go (same
// scenario lines, same canonical blocks, every helper reused) plus one setup line
//
//	ghost <n>      user number n gets a well-formed user id that is in NO table (an id allocated by
//	               store.Store.GetUid without creating the user), so that {set sub user=<n>} reaches
//	               the "user not found" branch of Topic.anotherUserSub.
//
// Scenario file VERIF_IN, blocks to VERIF_OUT (tools/props/c08.py).
package main

import (
	"bufio"
	"fmt"
	"os"
	"strconv"
	"strings"
	"testing"
	"time"

	"github.com/tinode/chat/server/auth"
	"github.com/tinode/chat/server/store"
	"github.com/tinode/chat/server/store/types"
)

func TestVerifC08cPerm(t *testing.T) {
	vInitServer(t)
	fin, err := os.Open(os.Getenv("VERIF_IN"))
	if err != nil {
		t.Fatal(err)
	}
	defer fin.Close()
	fout, err := os.Create(os.Getenv("VERIF_OUT"))
	if err != nil {
		t.Fatal(err)
	}
	defer fout.Close()
	out := bufio.NewWriterSize(fout, 1<<20)
	defer out.Flush()
	in := bufio.NewScanner(fin)
	in.Buffer(make([]byte, 1<<20), 1<<26)
	var c08cScn *vScn
	c08cCount := 0
	c08cOwner, c08cOwnerGiven := 0, 0
	for in.Scan() {
		w := strings.Fields(in.Text())
		if len(w) == 0 {
			continue
		}
		switch w[0] {
		case "scn":
			c08cCount++
			kv := vKV(w[2:])
			c08cScn = &vScn{id: w[1], uids: map[int]types.Uid{}, uidIdx: map[types.Uid]int{}, sess: map[int]*vSess{},
				sessUser: map[int]int{}, out: out}
			c08cScn.topic = "grpVerifC08c" + strconv.Itoa(c08cCount) + "x" + strconv.FormatInt(time.Now().UnixNano()%1000000, 36)
			c08cScn.gen = c08cCount
			c08cScn.pending(kv)
			c08cOwner, _ = strconv.Atoi(kv["owner"])
			c08cOwnerGiven, _ = strconv.Atoi(kv["ownergiven"])
			fmt.Fprintf(out, "scn %s\n", w[1])
		case "user":
			kv := vKV(w[2:])
			i, _ := strconv.Atoi(w[1])
			acc, _ := strconv.Atoi(kv["acc"])
			u := &types.User{}
			u.Access.Auth = types.AccessMode(acc)
			u.Access.Anon = types.ModeNone
			if _, err := store.Users.Create(u, nil); err != nil {
				t.Fatal("user create: ", err)
			}
			c08cScn.uids[i] = u.Uid()
			c08cScn.uidIdx[u.Uid()] = i
			c08cScn.maybeCreateTopic(t, i)
			if i == c08cOwner && c08cOwnerGiven != int(types.ModeCFull) {
				// store.Topics.Create always grants the owner everything; a smaller grant (another approver has
				// taken bits other than O and J away) is written the way anotherUserSub writes it
				if err := store.Subs.Update(c08cScn.topic, u.Uid(), map[string]any{"ModeGiven": types.AccessMode(c08cOwnerGiven)}); err != nil {
					t.Fatal("owner grant: ", err)
				}
			}
		case "ghost":
			i, _ := strconv.Atoi(w[1])
			u := store.Store.GetUid()
			c08cScn.uids[i] = u
			c08cScn.uidIdx[u] = i
		case "subrow":
			kv := vKV(w[2:])
			i, _ := strconv.Atoi(w[1])
			want, _ := strconv.Atoi(kv["want"])
			given, _ := strconv.Atoi(kv["given"])
			if err := store.Subs.Create(&types.Subscription{User: c08cScn.uids[i].String(), Topic: c08cScn.topic,
				ModeWant: types.AccessMode(want), ModeGiven: types.AccessMode(given)}); err != nil {
				t.Fatal("sub create: ", err)
			}
		case "sess":
			si, _ := strconv.Atoi(w[1])
			ui, _ := strconv.Atoi(w[2])
			c08cScn.sessUser[si] = ui
			c08cScn.sess[si] = vNewSession(si, c08cScn.uids[ui], auth.LevelAuth)
		case "op":
			c08cScn.op(w[1:])
		case "end":
			c08cScn.finish()
			fmt.Fprintln(out, "end")
			out.Flush()
		}
	}
}
