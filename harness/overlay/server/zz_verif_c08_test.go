//go:build verif

// C08, description part: histories of {sub}/{leave}/{set desc}/{set tags}/{get desc}/{get tags}/
// unload/restart with store faults against the REAL hub, topic goroutine, sessions and store
// mappers above memverif, one request at a time through Session.dispatchRaw, quiescence after
// each; after every request the frames, the adapter call count, the stored description columns
// and the cached Topic fields are printed in the format of the model runner
// (harness/runner/r_c08desc.ml).  Helpers of zz_verif_topic_test.go are reused.
package main

import (
	"bufio"
	"fmt"
	"os"
	"sort"
	"strconv"
	"strings"
	"testing"
	"time"

	"github.com/tinode/chat/server/auth"
	"github.com/tinode/chat/server/db/memverif"
	"github.com/tinode/chat/server/store"
	"github.com/tinode/chat/server/store/types"
)

type c08dScn struct {
	*vScn
	root map[int]bool
}

// content tokens: 0 = null, 1 = the string "␡", n >= 2 = the JSON number n
func c08dTokJSON(tok string) string {
	switch tok {
	case "0":
		return "null"
	case "1":
		return `"` + nullValue + `"`
	}
	return tok
}

func c08dTokVal(tok string) any {
	switch tok {
	case "0":
		return nil
	case "1":
		return nullValue
	}
	n, _ := strconv.Atoi(tok)
	return float64(n)
}

func c08dTokOf(v any) string {
	switch x := v.(type) {
	case nil:
		return "0"
	case float64:
		return strconv.Itoa(int(x))
	case int:
		return strconv.Itoa(x)
	case string:
		if x == nullValue {
			return "1"
		}
		return "?" + x
	}
	return fmt.Sprintf("?%v", v)
}

// tag tokens, see tag_norm in coq/Sys/TopicDesc.v
func c08dTagSpell(t int) string {
	switch {
	case t >= 100:
		return " " + strings.ToUpper(c08dTagSpell(t-100)) + " "
	case t == 0:
		return nullValue
	case t == 1:
		return "x"
	case t < 10:
		return fmt.Sprintf("rst:%02d", t)
	}
	return fmt.Sprintf("t%02d", t)
}

func c08dTagTok(s string) string {
	switch {
	case s == nullValue:
		return "0"
	case s == "x":
		return "1"
	case len(s) == 6 && strings.HasPrefix(s, "rst:"):
		n, err := strconv.Atoi(s[4:])
		if err == nil {
			return strconv.Itoa(n)
		}
	case len(s) == 3 && s[0] == 't':
		n, err := strconv.Atoi(s[1:])
		if err == nil {
			return strconv.Itoa(n)
		}
	}
	return "?" + s
}

func c08dTagList(csv string) []string {
	res := []string{}
	if csv == "-" || csv == "" {
		return res
	}
	for _, p := range strings.Split(csv, ",") {
		n, _ := strconv.Atoi(p)
		res = append(res, c08dTagSpell(n))
	}
	return res
}

func c08dTagsStr(tags []string) string {
	if len(tags) == 0 {
		return "-"
	}
	var ts []string
	for _, s := range tags {
		ts = append(ts, c08dTagTok(s))
	}
	return strings.Join(ts, ",")
}

func c08dModeArg(a string) string {
	switch a {
	case "-":
		return ""
	case "X":
		return "J!"
	}
	n, _ := strconv.Atoi(a)
	return types.AccessMode(n).String()
}

func (sc *c08dScn) frame(m *ServerComMessage) string {
	switch {
	case m.Ctrl != nil:
		res := "ctrl " + strconv.Itoa(m.Ctrl.Code)
		if p, ok := m.Ctrl.Params.(map[string]any); ok {
			if v, ok := p["acs"]; ok {
				if a, ok := v.(*MsgAccessMode); ok {
					res += " acs=" + a.Want + "/" + a.Given
				} else if a, ok := v.(MsgAccessMode); ok {
					res += " acs=" + a.Want + "/" + a.Given
				}
			}
			if v, ok := p["unsub"]; ok {
				res += " unsub=" + vNum(v)
			}
		}
		return res
	case m.Meta != nil && m.Meta.Desc != nil:
		d := m.Meta.Desc
		acs, mode := "-", "N"
		if d.Acs != nil {
			if d.Acs.Want != "" || d.Acs.Given != "" {
				acs = d.Acs.Want + "/" + d.Acs.Given
			}
			mode = d.Acs.Mode
		}
		defacs := "-"
		if d.DefaultAcs != nil {
			defacs = d.DefaultAcs.Auth + "/" + d.DefaultAcs.Anon
		}
		return fmt.Sprintf("desc acs=%s mode=%s defacs=%s pub=%s tru=%s priv=%s", acs, mode, defacs,
			c08dTokOf(d.Public), c08dTokOf(d.Trusted), c08dTokOf(d.Private))
	case m.Meta != nil && m.Meta.Tags != nil:
		return "tags " + c08dTagsStr(m.Meta.Tags)
	case m.Pres != nil:
		return "pres what=" + m.Pres.What
	}
	return sc.vScn.frame(m)
}

func (sc *c08dScn) emitFrames() {
	for {
		select {
		case <-globals.usersUpdate:
			continue
		default:
		}
		break
	}
	idxs := make([]int, 0, len(sc.sess))
	for i := range sc.sess {
		idxs = append(idxs, i)
	}
	sort.Ints(idxs)
	for _, i := range idxs {
		for _, m := range sc.sess[i].take() {
			fmt.Fprintf(sc.out, "S%d %s\n", i, sc.frame(m))
		}
	}
}

func (sc *c08dScn) emitStore() {
	d := memverif.DumpTopicDesc(sc.topic)
	if !d.Exists {
		fmt.Fprintf(sc.out, "store topic absent\n")
		return
	}
	fmt.Fprintf(sc.out, "store topic auth=%s anon=%s pub=%s tru=%s tags=%s owner=%d\n", vModeStr(d.Auth), vModeStr(d.Anon),
		c08dTokOf(d.Public), c08dTokOf(d.Trusted), c08dTagsStr(d.Tags), sc.uidIdx[d.Owner])
	fmt.Fprintf(sc.out, "store tagidx %s\n", c08dTagsStr(d.TagIdx))
	for i, s := range d.Subs {
		fmt.Fprintf(sc.out, "store sub %02d user=%d %s/%s priv=%s deleted=%s\n", i, sc.uidIdx[s.User], vModeStr(s.Want), vModeStr(s.Given),
			c08dTokOf(s.Private), vB2s(s.Deleted))
	}
}

func (sc *c08dScn) emitCache() {
	t := globals.hub.topicGet(sc.topic)
	if t == nil {
		return
	}
	fmt.Fprintf(sc.out, "cache topic auth=%s anon=%s pub=%s tru=%s tags=%s owner=%d\n", vModeStr(t.accessAuth), vModeStr(t.accessAnon),
		c08dTokOf(t.public), c08dTokOf(t.trusted), c08dTagsStr(t.tags), sc.uidIdx[t.owner])
	var lines []string
	for uid, p := range t.perUser {
		lines = append(lines, fmt.Sprintf("cache user %d %s/%s priv=%s", sc.uidIdx[uid], vModeStr(p.modeWant), vModeStr(p.modeGiven), c08dTokOf(p.private)))
	}
	sort.Strings(lines)
	var sl []string
	for s, pssd := range t.sessions {
		for i, vs := range sc.sess {
			if vs.s == s {
				sl = append(sl, fmt.Sprintf("cache sess %d user=%d", i, sc.uidIdx[pssd.uid]))
			}
		}
	}
	sort.Strings(sl)
	for _, l := range append(lines, sl...) {
		fmt.Fprintln(sc.out, l)
	}
}

func (sc *c08dScn) lvl(i int) auth.Level {
	if sc.root[i] {
		return auth.LevelRoot
	}
	return auth.LevelAuth
}

func (sc *c08dScn) restart() {
	for _, vs := range sc.sess {
		vs.s.cleanUp(true)
		<-vs.done
	}
	vWaitQuiet([]string{sc.topic})
	if t := globals.hub.topicGet(sc.topic); t != nil {
		globals.hub.unreg <- &topicUnreg{rcptTo: sc.topic}
	}
	vWaitQuiet([]string{sc.topic})
	for i := range sc.sess {
		sc.sess[i] = vNewSession(i, sc.uids[sc.sessUser[i]], sc.lvl(i))
	}
}

func (sc *c08dScn) op(w []string) {
	sc.opi++
	fmt.Fprintf(sc.out, "op %d\n", sc.opi)
	flt, kind, a := w[0], w[1], w[2:]
	memverif.ClearFault()
	memverif.ResetCallLog()
	if flt != "N" {
		k, _ := strconv.Atoi(flt[1:])
		memverif.SetFault(k, flt[0] == 'C')
	}
	tn := sc.topic
	id := fmt.Sprintf("%d", sc.opi)
	at := func(i int) int { v, _ := strconv.Atoi(a[i]); return v }
	switch kind {
	case "sub":
		set := ""
		if a[1] != "0" {
			set = `,"set":{"desc":{"private":` + c08dTokJSON(a[1]) + `}}`
		}
		sc.send(at(0), `{"sub":{"id":"`+id+`","topic":"`+tn+`"`+set+`}}`)
	case "leave":
		unsub := ""
		if a[1] == "1" {
			unsub = `,"unsub":true`
		}
		sc.send(at(0), `{"leave":{"id":"`+id+`","topic":"`+tn+`"`+unsub+`}}`)
	case "setdesc":
		var fields []string
		if a[1] != "-" {
			p := strings.Split(a[1], ":")
			var df []string
			if s := c08dModeArg(p[0]); s != "" {
				df = append(df, `"auth":`+vJSON(s))
			}
			if s := c08dModeArg(p[1]); s != "" {
				df = append(df, `"anon":`+vJSON(s))
			}
			fields = append(fields, `"defacs":{`+strings.Join(df, ",")+`}`)
		}
		for i, nm := range []string{"public", "trusted", "private"} {
			if a[2+i] != "0" {
				fields = append(fields, `"`+nm+`":`+c08dTokJSON(a[2+i]))
			}
		}
		sc.send(at(0), `{"set":{"id":"`+id+`","topic":"`+tn+`","desc":{`+strings.Join(fields, ",")+`}}}`)
	case "settags":
		sc.send(at(0), `{"set":{"id":"`+id+`","topic":"`+tn+`","tags":`+vJSON(c08dTagList(a[1]))+`}}`)
	case "getdesc":
		sc.send(at(0), `{"get":{"id":"`+id+`","topic":"`+tn+`","what":"desc"}}`)
	case "gettags":
		sc.send(at(0), `{"get":{"id":"`+id+`","topic":"`+tn+`","what":"tags"}}`)
	case "unload":
		if t := globals.hub.topicGet(tn); t != nil && len(t.sessions) == 0 {
			// what the kill timer does: handleTopicTimeout -> hub.unreg
			globals.hub.unreg <- &topicUnreg{rcptTo: tn}
		}
	case "restart":
		sc.restart()
	}
	hang := vWaitQuiet([]string{tn})
	sc.emitFrames()
	calls := memverif.CallLog()
	if flt != "N" && flt[0] == 'C' {
		// the process died: in-memory state is gone
		sc.restart()
		if h2 := vWaitQuiet([]string{tn}); h2 != "" {
			hang = h2
		}
	}
	if hang != "" {
		fmt.Fprintln(sc.out, hang)
	}
	fmt.Fprintf(sc.out, "calls %d\n", len(calls))
	fmt.Fprintf(sc.out, "calllog %s\n", strings.Join(calls, " "))
	memverif.ClearFault()
	if globals.hub.topicGet(sc.topic) == nil {
		fmt.Fprintln(sc.out, "loaded 0")
	} else {
		fmt.Fprintln(sc.out, "loaded 1")
	}
	sc.emitStore()
	sc.emitCache()
}

func TestVerifC08Desc(t *testing.T) {
	vInitServer(t)
	globals.maxTagCount = 4
	globals.immutableTagNS = map[string]bool{"rst": true}
	globals.maskedTagNS = map[string]bool{}
	fin, err := os.Open(os.Getenv("VERIF_IN"))
	if err != nil {
		t.Fatal(err)
	}
	defer fin.Close()
	fout, err := os.Create(os.Getenv("VERIF_OUT"))
	if err != nil {
		t.Fatal(err)
	}
	defer fout.Close()
	out := bufio.NewWriterSize(fout, 1<<20)
	defer out.Flush()
	in := bufio.NewScanner(fin)
	in.Buffer(make([]byte, 1<<20), 1<<26)
	var sc *c08dScn
	scnCount := 0
	for in.Scan() {
		w := strings.Fields(in.Text())
		if len(w) == 0 {
			continue
		}
		switch w[0] {
		case "scn":
			scnCount++
			kv := vKV(w[2:])
			sc = &c08dScn{vScn: &vScn{id: w[1], uids: map[int]types.Uid{}, uidIdx: map[types.Uid]int{}, sess: map[int]*vSess{},
				sessUser: map[int]int{}, out: out}, root: map[int]bool{}}
			sc.topic = "grpVerifD" + strconv.Itoa(scnCount) + "x" + strconv.FormatInt(time.Now().UnixNano()%1000000, 36)
			sc.gen = scnCount
			authM, _ := strconv.Atoi(kv["auth"])
			anonM, _ := strconv.Atoi(kv["anon"])
			stopic := &types.Topic{
				ObjHeader: types.ObjHeader{Id: sc.topic, CreatedAt: types.TimeNow()},
				Access:    types.DefaultAccess{Auth: types.AccessMode(authM), Anon: types.AccessMode(anonM)},
				Public:    c08dTokVal(kv["pub"]),
				Trusted:   c08dTokVal(kv["tru"]),
			}
			if tl := c08dTagList(kv["tags"]); len(tl) > 0 {
				stopic.Tags = tl
			}
			if err := store.Topics.Create(stopic, types.ZeroUid, nil); err != nil {
				t.Fatal("topic create: ", err)
			}
			fmt.Fprintf(out, "scn %s\n", w[1])
		case "user":
			i, _ := strconv.Atoi(w[1])
			u := &types.User{}
			u.Access.Auth = types.ModeCAuth
			u.Access.Anon = types.ModeNone
			if _, err := store.Users.Create(u, nil); err != nil {
				t.Fatal("user create: ", err)
			}
			sc.uids[i] = u.Uid()
			sc.uidIdx[u.Uid()] = i
		case "subrow":
			kv := vKV(w[2:])
			i, _ := strconv.Atoi(w[1])
			want, _ := strconv.Atoi(kv["want"])
			given, _ := strconv.Atoi(kv["given"])
			if err := store.Subs.Create(&types.Subscription{User: sc.uids[i].String(), Topic: sc.topic,
				ModeWant: types.AccessMode(want), ModeGiven: types.AccessMode(given), Private: c08dTokVal(kv["priv"])}); err != nil {
				t.Fatal("sub create: ", err)
			}
			if kv["deleted"] == "1" {
				if err := store.Subs.Delete(sc.topic, sc.uids[i]); err != nil {
					t.Fatal("sub delete: ", err)
				}
			}
		case "sess":
			si, _ := strconv.Atoi(w[1])
			ui, _ := strconv.Atoi(w[2])
			sc.sessUser[si] = ui
			sc.root[si] = len(w) > 3 && w[3] == "1"
			sc.sess[si] = vNewSession(si, sc.uids[ui], sc.lvl(si))
		case "op":
			sc.op(w[1:])
		case "end":
			sc.finish()
			fmt.Fprintln(out, "end")
			out.Flush()
		}
	}
}
