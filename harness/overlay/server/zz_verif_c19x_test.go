//go:build verif

// C19 stateful tag driver: scenarios of {set what=tags} / {get what=tags} on REAL 'me' and
// group topics (hub, topic goroutines, sessions, store mappers above memverif) with
// globals.immutableTagNS / maxTagCount configured per scenario; creation of group topics
// ({sub topic=new set.tags}) and accounts ({acc user=new tags}) with tags; unload / reload;
// server-side tag changes (store.Users.UpdateTags, what a confirmed credential does); one
// injected store failure.  One scenario per request line (handler "c19x" of the line
// driver); the answer holds, per request, the reply and the stored row / cached Topic.tags
// of every tag holder - the text printed by harness/runner/r_c19.ml from coq/Sys/TagState.v.
//
//   TS <namespaces> <maxTagCount> <holders> <requests>
//   holders  : id.kind(m|g).owner.tags ; ...            requests : r/r/...
//   requests : s.h.who.fail.tags  g.h.who  u.h  n.h.who.tags  a.h.tags.authtags  v.h.add.remove
//   answer   : TS reply|id.kind.owner.stored.cached;... / ...   (cached "~" = topic not loaded)
//
// Helpers of zz_verif_topic_test.go (vInitServer, vNewSession, vWaitQuiet) and of
// zz_verif_c19_test.go (list coding) are reused.
package main

import (
	"encoding/json"
	"fmt"
	"sort"
	"strconv"
	"strings"
	"sync"
	"time"

	"github.com/tinode/chat/server/auth"
	"github.com/tinode/chat/server/db/memverif"
	"github.com/tinode/chat/server/store"
	"github.com/tinode/chat/server/store/types"
)

// fake authenticator of scheme "verifx": AddRecord appends the tags listed in the secret
// (one per line) to rec.Tags, as auth/basic appends "basic:<login>" when add_to_tags is on.
type c19xAuth struct{}

func (c19xAuth) Init(json.RawMessage, string) error { return nil }
func (c19xAuth) IsInitialized() bool                { return true }
func (c19xAuth) AddRecord(rec *auth.Rec, secret []byte, remoteAddr string) (*auth.Rec, error) {
	if len(secret) > 0 {
		rec.Tags = append(rec.Tags, strings.Split(string(secret), "\n")...)
	}
	rec.AuthLevel = auth.LevelAuth
	return rec, nil
}
func (c19xAuth) UpdateRecord(rec *auth.Rec, secret []byte, remoteAddr string) (*auth.Rec, error) {
	return nil, types.ErrUnsupported
}
func (c19xAuth) Authenticate(secret []byte, remoteAddr string) (*auth.Rec, []byte, error) {
	return nil, nil, types.ErrUnsupported
}
func (c19xAuth) AsTag(string) string                          { return "" }
func (c19xAuth) IsUnique([]byte, string) (bool, error)         { return true, nil }
func (c19xAuth) GenSecret(*auth.Rec) ([]byte, time.Time, error) { return nil, time.Time{}, types.ErrUnsupported }
func (c19xAuth) DelRecords(types.Uid) error                   { return nil }
func (c19xAuth) RestrictedTags() ([]string, error)            { return nil, nil }
func (c19xAuth) GetResetParams(types.Uid) (map[string]interface{}, error) {
	return nil, nil
}
func (c19xAuth) GetRealName() string { return "verifx" }

var c19xOnce sync.Once
var c19xSeq int

func c19xSetup() {
	vInitServer(nil)
	c19xOnce.Do(func() {
		// replyCreateUser asks the token authenticator for a temporary secret
		if hdl := store.Store.GetLogicalAuthHandler("token"); hdl != nil && !hdl.IsInitialized() {
			conf := `{"expire_in":1209600,"serial_num":1,"key":"wfaY2RgF2S1OQI/ZlK+LSrp1KB2jwAdGAIHQ7JZn+Kc="}`
			if err := hdl.Init(json.RawMessage(conf), "token"); err != nil {
				panic("token init: " + err.Error())
			}
		}
		store.RegisterAuthScheme("verifx", c19xAuth{})
		globals.maskedTagNS = map[string]bool{}
		globals.authValidators = nil
		globals.validators = nil
	})
}

type c19xHolder struct {
	id    int
	kind  string
	owner int
	name  string // the hub's topic name: usrXXX / grpXXX
}

type c19xScn struct {
	users   map[int]types.Uid
	sess    map[int]*vSess
	holders map[int]*c19xHolder
	ids     []int
	n       int
}

func c19xDrainUsers() {
	for {
		select {
		case <-globals.usersUpdate:
		default:
			return
		}
	}
}

func (sc *c19xScn) quiet() string {
	var names []string
	for _, h := range sc.holders {
		names = append(names, h.name)
	}
	r := vWaitQuiet(names)
	c19xDrainUsers()
	return r
}

func (sc *c19xScn) user(i int, tags []string, withTags bool) types.Uid {
	if u, ok := sc.users[i]; ok {
		return u
	}
	u := &types.User{}
	u.Access.Auth = types.ModeCAuth
	u.Access.Anon = types.ModeNone
	if withTags {
		u.Tags = tags
	}
	if _, err := store.Users.Create(u, nil); err != nil {
		panic("user create: " + err.Error())
	}
	sc.users[i] = u.Uid()
	sc.sess[i] = vNewSession(i, u.Uid(), auth.LevelAuth)
	return u.Uid()
}

// name by which the session addresses the holder's topic
func (h *c19xHolder) addr() string {
	if h.kind == "m" {
		return "me"
	}
	return h.name
}

// one client request; the frames it produced on that session
func (sc *c19xScn) request(si int, msg string) ([]*ServerComMessage, string) {
	vs := sc.sess[si]
	vs.take()
	vs.s.dispatchRaw([]byte(msg))
	hang := sc.quiet()
	return vs.take(), hang
}

func (sc *c19xScn) nextID() string {
	sc.n++
	return "r" + strconv.Itoa(sc.n)
}

func (sc *c19xScn) attach(si int, h *c19xHolder) {
	if sc.sess[si].s.getSub(h.name) != nil {
		return
	}
	sc.request(si, `{"sub":{"id":"`+sc.nextID()+`","topic":"`+h.addr()+`"}}`)
}

func (sc *c19xScn) unload(h *c19xHolder) {
	idxs := make([]int, 0, len(sc.sess))
	for i := range sc.sess {
		idxs = append(idxs, i)
	}
	sort.Ints(idxs)
	for _, i := range idxs {
		if sc.sess[i].s.getSub(h.name) != nil {
			sc.request(i, `{"leave":{"id":"`+sc.nextID()+`","topic":"`+h.addr()+`"}}`)
		}
	}
	if t := globals.hub.topicGet(h.name); t != nil {
		// what the idle timer does: handleTopicTimeout -> hub.unreg
		globals.hub.unreg <- &topicUnreg{rcptTo: h.name}
		sc.quiet()
	}
}

// the reply to request id among the frames
func c19xReply(frames []*ServerComMessage, id string) string {
	for _, m := range frames {
		if m.Ctrl != nil && m.Ctrl.Id == id {
			added, removed := 0, 0
			if p, ok := m.Ctrl.Params.(map[string]any); ok {
				if v, ok := p["added"].(int); ok {
					added = v
				}
				if v, ok := p["removed"].(int); ok {
					removed = v
				}
			}
			return fmt.Sprintf("c%d.%d.%d", m.Ctrl.Code, added, removed)
		}
		if m.Meta != nil && m.Meta.Id == id && m.Meta.Tags != nil {
			return "t" + c19Fmt(m.Meta.Tags, ",")
		}
	}
	return "n"
}

func c19xCtrl(frames []*ServerComMessage, id string) *MsgServerCtrl {
	for _, m := range frames {
		if m.Ctrl != nil && m.Ctrl.Id == id {
			return m.Ctrl
		}
	}
	return nil
}

func (sc *c19xScn) state() string {
	var parts []string
	for _, id := range sc.ids {
		h := sc.holders[id]
		if h == nil {
			continue
		}
		var stored []string
		if h.kind == "m" {
			if u, err := store.Users.Get(sc.users[h.owner]); err == nil && u != nil {
				stored = u.Tags
			} else {
				stored = []string{"?"}
			}
		} else {
			if t, err := store.Topics.Get(h.name); err == nil && t != nil {
				stored = t.Tags
			} else {
				stored = []string{"?"}
			}
		}
		cached := "~"
		if t := globals.hub.topicGet(h.name); t != nil {
			cached = c19Fmt(t.tags, ",")
		}
		parts = append(parts, fmt.Sprintf("%d.%s.%d.%s.%s", h.id, h.kind, h.owner, c19Fmt(stored, ","), cached))
	}
	return strings.Join(parts, ";")
}

func (sc *c19xScn) addHolder(h *c19xHolder) {
	sc.holders[h.id] = h
	sc.ids = append(sc.ids, h.id)
	sort.Ints(sc.ids)
}

func c19xTagsJSON(l string) string {
	return vJSON(c19List(l))
}

func (sc *c19xScn) op(s string) string {
	f := strings.Split(s, ".")
	at := func(i int) int { return int(vAtoi(f[i])) }
	hang := ""
	reply := "n"
	switch f[0] {
	case "s": // s.h.who.fail.tags
		h := sc.holders[at(1)]
		if h == nil {
			break
		}
		sc.attach(at(2), h)
		if f[3] == "1" {
			memverif.SetFault(1, false)
		}
		id := sc.nextID()
		var frames []*ServerComMessage
		frames, hang = sc.request(at(2), `{"set":{"id":"`+id+`","topic":"`+h.addr()+`","tags":`+c19xTagsJSON(f[4])+`}}`)
		memverif.ClearFault()
		reply = c19xReply(frames, id)
	case "g": // g.h.who
		h := sc.holders[at(1)]
		if h == nil {
			break
		}
		sc.attach(at(2), h)
		id := sc.nextID()
		var frames []*ServerComMessage
		frames, hang = sc.request(at(2), `{"get":{"id":"`+id+`","topic":"`+h.addr()+`","what":"tags"}}`)
		reply = c19xReply(frames, id)
	case "u": // u.h
		if h := sc.holders[at(1)]; h != nil {
			sc.unload(h)
		}
	case "n": // n.h.who.tags
		if sc.holders[at(1)] != nil {
			break
		}
		set := ""
		if f[3] != "nil" {
			set = `,"set":{"tags":` + c19xTagsJSON(f[3]) + `}`
		}
		id := sc.nextID()
		c19xSeq++
		var frames []*ServerComMessage
		frames, hang = sc.request(at(2), `{"sub":{"id":"`+id+`","topic":"new`+strconv.Itoa(c19xSeq)+`"`+set+`}}`)
		reply = c19xReply(frames, id)
		if c := c19xCtrl(frames, id); c != nil && c.Code == 200 {
			sc.addHolder(&c19xHolder{id: at(1), kind: "g", owner: at(2), name: c.Topic})
		}
	case "a": // a.h.tags.authtags
		if sc.holders[at(1)] != nil {
			break
		}
		acc := map[string]any{"id": "", "user": "new", "scheme": "verifx"}
		if l := c19List(f[3]); len(l) > 0 {
			acc["secret"] = []byte(strings.Join(l, "\n"))
		}
		if f[2] != "nil" {
			acc["tags"] = c19List(f[2])
		}
		id := sc.nextID()
		acc["id"] = id
		anon := vNewSession(1000+at(1), types.ZeroUid, auth.LevelNone)
		anon.s.dispatchRaw([]byte(vJSON(map[string]any{"acc": acc})))
		hang = sc.quiet()
		frames := anon.take()
		anon.s.cleanUp(true)
		<-anon.done
		reply = c19xReply(frames, id)
		if c := c19xCtrl(frames, id); c != nil && c.Code == 201 {
			if p, ok := c.Params.(map[string]any); ok {
				if us, ok := p["user"].(string); ok {
					uid := types.ParseUserId(us)
					sc.users[at(1)] = uid
					sc.sess[at(1)] = vNewSession(at(1), uid, auth.LevelAuth)
					sc.addHolder(&c19xHolder{id: at(1), kind: "m", owner: at(1), name: uid.UserId()})
				}
			}
		}
	case "v": // v.h.add.remove : store.Users.UpdateTags while the 'me' topic is not loaded
		h := sc.holders[at(1)]
		if h == nil || h.kind != "m" {
			break
		}
		sc.unload(h)
		if _, err := store.Users.UpdateTags(sc.users[h.owner], c19List(f[2]), c19List(f[3]), nil); err != nil {
			reply = "e" + err.Error()
		}
	}
	if hang != "" {
		return "HANG|" + sc.state()
	}
	return reply + "|" + sc.state()
}

func (sc *c19xScn) finish() {
	memverif.ClearFault()
	for _, id := range sc.ids {
		sc.unload(sc.holders[id])
	}
	for _, vs := range sc.sess {
		vs.s.cleanUp(true)
		<-vs.done
	}
	sc.quiet()
}

func c19xRun(w []string) string {
	c19xSetup()
	memverif.Reset()
	globals.immutableTagNS = c19NS(w[1])
	globals.maxTagCount = int(vAtoi(w[2]))
	sc := &c19xScn{users: map[int]types.Uid{}, sess: map[int]*vSess{}, holders: map[int]*c19xHolder{}}
	defer sc.finish()
	// the two ordinary accounts; more when a holder names them
	type hspec struct {
		id, owner int
		kind      string
		tags      []string
	}
	var specs []hspec
	if w[3] != "-" {
		for _, s := range strings.Split(w[3], ";") {
			f := strings.Split(s, ".")
			specs = append(specs, hspec{int(vAtoi(f[0])), int(vAtoi(f[2])), f[1], c19List(f[3])})
		}
	}
	for _, sp := range specs {
		if sp.kind == "m" {
			uid := sc.user(sp.owner, sp.tags, true)
			sc.addHolder(&c19xHolder{id: sp.id, kind: "m", owner: sp.owner, name: uid.UserId()})
		}
	}
	for i := 1; i <= 2; i++ {
		sc.user(i, nil, false)
	}
	full := types.ModeJoin | types.ModeRead | types.ModeWrite | types.ModePres | types.ModeShare
	for _, sp := range specs {
		if sp.kind != "g" {
			continue
		}
		owner := sc.user(sp.owner, nil, false)
		c19xSeq++
		name := "grpVerifC19x" + strconv.Itoa(c19xSeq)
		now := types.TimeNow()
		stopic := &types.Topic{
			ObjHeader: types.ObjHeader{Id: name, CreatedAt: now},
			Access:    types.DefaultAccess{Auth: full, Anon: types.ModeNone},
			Tags:      sp.tags,
		}
		stopic.GiveAccess(owner, types.ModeCFull, types.ModeCFull)
		if err := store.Topics.Create(stopic, owner, nil); err != nil {
			panic("topic create: " + err.Error())
		}
		for i, u := range sc.users {
			if i != sp.owner {
				if err := store.Subs.Create(&types.Subscription{User: u.String(), Topic: name, ModeWant: full, ModeGiven: full}); err != nil {
					panic("sub create: " + err.Error())
				}
			}
		}
		sc.addHolder(&c19xHolder{id: sp.id, kind: "g", owner: sp.owner, name: name})
	}
	var outs []string
	if w[4] != "-" {
		for _, s := range strings.Split(w[4], "/") {
			outs = append(outs, sc.op(s))
		}
	}
	return "TS " + strings.Join(outs, "/")
}

func init() {
	verifHandlers["c19x"] = func(w []string) string {
		if len(w) == 5 && w[0] == "TS" {
			return c19xRun(w)
		}
		return "?"
	}
}
