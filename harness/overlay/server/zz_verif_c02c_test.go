//go:build verif

// C02 fan-out driver, part c02c: background sessions and store faults.
//
// Same scenario language and the same canonical blocks as zz_verif_c02_test.go (whose fScn, frame
// rendering, state dump, clog machinery are reused as they are), plus:
//
//	sess <s> <u> [r] [b]   b: the connection is a BACKGROUND session.  Session.background is a field of the
//	                       whole connection which the topic reads in subscriptionReply (online++ only when it
//	                       is not set), handleLeaveRequest (online-- only when it is not set), isOnline; it is
//	                       cleared by the connection's timer (hdl_websock.go:119-122 -> onBackgroundTimer ->
//	                       Topic.sessToForeground) and by Session.cleanUp.  In this code base nothing sets it for
//	                       an ordinary connection ({hi bkg:true} only arms the timer, session.go:790-792; the
//	                       only writer is the cluster proxy path, cluster.go:530), so the driver sets the field
//	                       when the connection object is created - before its first request.
//	op fg <s>              the connection's background timer fires: exactly the body of the bkgTimer case of the
//	                       write loop (background = false; onBackgroundTimer()).
//	op attm <s> <as> <spelling> <mode>   {sub set.sub.mode=<mode>}
//	fop <k> <kind> ...     the request <kind> ... with memverif.SetFault(k, false) armed while it is handled: the
//	                       k-th adapter call made from now fails (ErrInjected, no effect); the plan is cleared
//	                       at quiescence.
//
// Every block additionally carries (after the state lines of fScn.emitState):
//
//	calls <names>          the adapter calls made while the request was handled (memverif.CallLog)
//	O <u> <n>              perUser[u].online
//	B <s>                  the live connections of the scenario whose Session.background is set
//	R <u> want= given=     the live STORED subscription rows under the topic's own name (the authoritative grants)
//	C <u> want=            the live stored rows under the chnXXX name (channel readers; their grant is always JRP)
//
// all read at quiescence.  The model runner harness/runner/r_c02c.ml prints the same blocks.
package main

import (
	"bufio"
	"fmt"
	"io"
	"os"
	"sort"
	"strconv"
	"strings"
	"testing"

	"github.com/tinode/chat/server/db/memverif"
	"github.com/tinode/chat/server/logs"
	"github.com/tinode/chat/server/store"
	"github.com/tinode/chat/server/store/types"
)

type c02cScn struct {
	*fScn
	bkgDecl map[int]bool
}

// what fScn.emitState does not print: online counters, background flags, stored rows, adapter calls
func (sc *c02cScn) emitExtraC02c(calls []string) {
	cs := "-"
	if len(calls) > 0 {
		cs = strings.Join(calls, ",")
	}
	fmt.Fprintf(sc.out, "calls %s\n", cs)
	if t := globals.hub.topicGet(sc.topic); t != nil {
		var ol []string
		for uid, p := range t.perUser {
			i, ok := sc.uidIdx[uid]
			if !ok {
				i = 99
			}
			ol = append(ol, fmt.Sprintf("O %02d %d", i, p.online))
		}
		sort.Strings(ol)
		for _, l := range ol {
			fmt.Fprintln(sc.out, l)
		}
	}
	var bl []string
	for i, vs := range sc.sess {
		if vs != nil && !sc.dead[i] && vs.s.background {
			bl = append(bl, fmt.Sprintf("B %02d", i))
		}
	}
	sort.Strings(bl)
	for _, l := range bl {
		fmt.Fprintln(sc.out, l)
	}
	dump := func(tag, name string) {
		var rl []string
		for _, s := range memverif.DumpSubsC02c(name) {
			if s.Deleted {
				continue
			}
			i, ok := sc.uidIdx[s.User]
			if !ok {
				i = 99
			}
			if tag == "C" {
				rl = append(rl, fmt.Sprintf("%s %02d want=%s", tag, i, fMode(s.Want)))
			} else {
				rl = append(rl, fmt.Sprintf("%s %02d want=%s given=%s", tag, i, fMode(s.Want), fMode(s.Given)))
			}
		}
		sort.Strings(rl)
		for _, l := range rl {
			fmt.Fprintln(sc.out, l)
		}
	}
	dump("R", sc.topic)
	if sc.kind != "p2p" {
		dump("C", types.GrpToChn(sc.topic))
	}
}

func (sc *c02cScn) opC02c(w []string, fault int) {
	kind, a := w[0], w[1:]
	at := func(i int) int { v, _ := strconv.Atoi(a[i]); return v }
	si := at(0)
	_, known := sc.sessUser[si]
	memverif.ClearFault()
	memverif.ResetCallLog()
	if fault > 0 {
		memverif.SetFault(fault, false)
	}
	pass := w
	if known {
		switch kind {
		case "fg":
			// hdl_websock.go:119-122
			vs := sc.session(si)
			if vs.s.background {
				vs.s.background = false
				vs.s.onBackgroundTimer()
			}
			pass = []string{"nop", a[0]}
		case "attm":
			vs := sc.session(si)
			as, extra := sc.sessUser[si], ""
			if at(1) != 0 {
				as = at(1)
				extra = `,"extra":{"obo":"` + sc.uids[as].UserId() + `"}`
			}
			id := strconv.Itoa(sc.opi + 1)
			vs.s.dispatchRaw([]byte(`{"sub":{"id":"` + id + `","topic":"` + sc.cliName(as, a[2]) + `","set":{"sub":{"mode":"` + fMaskStr(a[3]) + `"}}}` + extra + `}`))
			pass = []string{"nop", a[0]}
		}
	}
	sc.op(pass)
	calls := memverif.CallLog()
	memverif.ClearFault()
	sc.emitExtraC02c(calls)
}

func TestVerifFanoutC02c(t *testing.T) {
	vInitServer(t)
	logs.Init(io.Discard, "stdFlags")
	globals.maxSubscriberCount = 128
	fin, err := os.Open(os.Getenv("VERIF_IN"))
	if err != nil {
		t.Fatal(err)
	}
	defer fin.Close()
	fout, err := os.Create(os.Getenv("VERIF_OUT"))
	if err != nil {
		t.Fatal(err)
	}
	defer fout.Close()
	out := bufio.NewWriterSize(fout, 1<<20)
	defer out.Flush()
	in := bufio.NewScanner(fin)
	in.Buffer(make([]byte, 1<<20), 1<<26)
	var sc *c02cScn
	for in.Scan() {
		w := strings.Fields(in.Text())
		if len(w) == 0 {
			continue
		}
		switch w[0] {
		case "scn":
			kv := vKV(w[2:])
			sc = &c02cScn{fScn: &fScn{id: w[1], kind: kv["kind"], out: out, uids: map[int]types.Uid{}, uidIdx: map[types.Uid]int{},
				sess: map[int]*vSess{}, sessUser: map[int]int{}, sessRoot: map[int]bool{}, dead: map[int]bool{}, clogged: map[int]bool{}},
				bkgDecl: map[int]bool{}}
			sc.defacs, _ = strconv.Atoi(kv["defacs"])
			n, _ := strconv.Atoi(kv["users"])
			for i := 1; i <= n; i++ {
				u := &types.User{}
				u.Access.Auth = types.ModeCAuth
				u.Access.Anon = types.ModeNone
				if _, err := store.Users.Create(u, nil); err != nil {
					t.Fatal("user create: ", err)
				}
				sc.uids[i] = u.Uid()
				sc.uidIdx[u.Uid()] = i
			}
			for len(globals.usersUpdate) > 0 {
				<-globals.usersUpdate
			}
			fmt.Fprintf(out, "scn %s\n", w[1])
		case "subrow":
			sc.rows = append(sc.rows, w[1:])
		case "mk":
			sc.mk(t)
		case "sess":
			si, _ := strconv.Atoi(w[1])
			ui, _ := strconv.Atoi(w[2])
			sc.sessUser[si] = ui
			for _, f := range w[3:] {
				if f == "r" {
					sc.sessRoot[si] = true
				}
				if f == "b" {
					sc.bkgDecl[si] = true
				}
			}
			if sc.bkgDecl[si] {
				// the connection object exists from now on, with the background flag set before its first request
				sc.session(si).s.background = true
			}
		case "op":
			sc.opC02c(w[1:], 0)
		case "fop":
			k, _ := strconv.Atoi(w[1])
			sc.opC02c(w[2:], k)
		case "end":
			memverif.ClearFault()
			sc.finish()
			fmt.Fprintln(out, "end")
			out.Flush()
		}
	}
}
