//go:build verif

// C01 concurrent-joins driver: two {sub} requests to a group topic that is NOT loaded, the second one taken by
// the real hub while the load started by the first one is still inside its first store read (the memverif call
// hook holds topicInit's goroutine at the entry of adp.TopicGet), then publishes from the sessions.
// Reuses vScn / vSess / vWaitQuiet / vInitServer of zz_verif_topic_test.go and the Save recorder c01bSpy of
// zz_verif_c01b_test.go (every number passed to store.Messages.Save with the outcome).
// Model: coq/Sys/HubJoinC01.v, runner harness/runner/r_c01j.ml, plugin tools/props/c01join.py.
//
//   op N join2 <s1> <s2>      both {sub}; when the topic is not loaded <s2>'s is handled while <s1>'s load is held
//   op N sub <s> - 0 | pub <s> <content> <noecho> | leave <s> 0     as in the topic-history driver
// After every request: `S0 saves <n:ok> ...` = the numbers passed to Save while it was handled.
package main

import (
	"bufio"
	"fmt"
	"os"
	"sort"
	"strconv"
	"strings"
	"sync"
	"testing"
	"time"

	"github.com/tinode/chat/server/auth"
	"github.com/tinode/chat/server/db/memverif"
	"github.com/tinode/chat/server/store"
	"github.com/tinode/chat/server/store/types"
)

func c01jJoin2(sc *vScn, a []string) {
	sc.opi++
	fmt.Fprintf(sc.out, "op %d\n", sc.opi)
	memverif.ClearFault()
	memverif.ResetCallLog()
	tn := sc.topic
	s1, _ := strconv.Atoi(a[0])
	s2, _ := strconv.Atoi(a[1])
	req := func(n int) string {
		return `{"sub":{"id":"` + strconv.Itoa(sc.opi) + "-" + strconv.Itoa(n) + `","topic":"` + tn + `"}}`
	}
	entered := make(chan struct{})
	release := make(chan struct{})
	held := false
	if globals.hub.topicGet(tn) == nil {
		var once sync.Once
		memverif.SetHook("TopicGet", func() {
			first := false
			once.Do(func() { first = true })
			if first {
				close(entered)
				<-release
			}
		})
		sc.send(s1, req(1))
		select {
		case <-entered:
			held = true
		case <-time.After(5 * time.Second):
		}
	} else {
		sc.send(s1, req(1))
	}
	// the second {sub}: taken by the hub while the first load is in its store read
	sc.send(s2, req(2))
	hang := vWaitQuiet([]string{tn})
	memverif.SetHook("TopicGet", nil)
	if held {
		close(release)
	}
	if h2 := vWaitQuiet([]string{tn}); h2 != "" {
		hang = h2
	}
	if held {
		fmt.Fprintln(sc.out, "S0 held 1")
	}
	c01jEmit(sc, hang)
}

func c01jEmit(sc *vScn, hang string) {
	sc.emitPush()
	idxs := make([]int, 0, len(sc.sess))
	for i := range sc.sess {
		idxs = append(idxs, i)
	}
	sort.Ints(idxs)
	for _, i := range idxs {
		for _, m := range sc.sess[i].take() {
			fmt.Fprintf(sc.out, "S%d %s\n", i, sc.frame(m))
		}
	}
	calls := memverif.CallLog()
	if hang != "" {
		fmt.Fprintln(sc.out, hang)
	}
	fmt.Fprintf(sc.out, "calls %d\n", len(calls))
	fmt.Fprintf(sc.out, "calllog %s\n", strings.Join(calls, " "))
	if globals.hub.topicGet(sc.topic) == nil {
		fmt.Fprintln(sc.out, "loaded 0")
	} else {
		fmt.Fprintln(sc.out, "loaded 1")
	}
	sc.emitStore()
	sc.emitCache()
}

func TestVerifC01j(t *testing.T) {
	vInitServer(t)
	spy := &c01bSpy{MessagesPersistenceInterface: store.Messages}
	store.Messages = spy
	fin, err := os.Open(os.Getenv("VERIF_IN"))
	if err != nil {
		t.Fatal(err)
	}
	defer fin.Close()
	fout, err := os.Create(os.Getenv("VERIF_OUT"))
	if err != nil {
		t.Fatal(err)
	}
	defer fout.Close()
	out := bufio.NewWriterSize(fout, 1<<20)
	defer out.Flush()
	in := bufio.NewScanner(fin)
	in.Buffer(make([]byte, 1<<20), 1<<26)
	var sc *vScn
	scnCount := 0
	for in.Scan() {
		w := strings.Fields(in.Text())
		if len(w) == 0 {
			continue
		}
		switch w[0] {
		case "scn":
			scnCount++
			kv := vKV(w[2:])
			sc = &vScn{id: w[1], uids: map[int]types.Uid{}, uidIdx: map[types.Uid]int{}, sess: map[int]*vSess{},
				sessUser: map[int]int{}, out: out}
			sc.topic = "grpVerifJ" + strconv.Itoa(scnCount) + "x" + strconv.FormatInt(time.Now().UnixNano()%1000000, 36)
			sc.gen = scnCount
			sc.pending(kv)
			spy.mu.Lock()
			spy.topic, spy.log = sc.topic, nil
			spy.mu.Unlock()
			fmt.Fprintf(out, "scn %s\n", w[1])
		case "user":
			kv := vKV(w[2:])
			i, _ := strconv.Atoi(w[1])
			acc, _ := strconv.Atoi(kv["acc"])
			u := &types.User{}
			u.Access.Auth = types.AccessMode(acc)
			u.Access.Anon = types.ModeNone
			if _, err := store.Users.Create(u, nil); err != nil {
				t.Fatal("user create: ", err)
			}
			sc.uids[i] = u.Uid()
			sc.uidIdx[u.Uid()] = i
			sc.maybeCreateTopic(t, i)
		case "subrow":
			kv := vKV(w[2:])
			i, _ := strconv.Atoi(w[1])
			want, _ := strconv.Atoi(kv["want"])
			given, _ := strconv.Atoi(kv["given"])
			if err := store.Subs.Create(&types.Subscription{User: sc.uids[i].String(), Topic: sc.topic,
				ModeWant: types.AccessMode(want), ModeGiven: types.AccessMode(given)}); err != nil {
				t.Fatal("sub create: ", err)
			}
		case "sess":
			si, _ := strconv.Atoi(w[1])
			ui, _ := strconv.Atoi(w[2])
			sc.sessUser[si] = ui
			sc.sess[si] = vNewSession(si, sc.uids[ui], auth.LevelAuth)
		case "op":
			if w[2] == "join2" {
				c01jJoin2(sc, w[3:])
			} else {
				sc.op(w[1:])
			}
			if l := spy.take(); len(l) > 0 {
				fmt.Fprintf(out, "S0 saves %s\n", strings.Join(l, " "))
			}
		case "end":
			sc.finish()
			fmt.Fprintln(out, "end")
			out.Flush()
		}
	}
}
