//go:build verif

// C05 layer 2: permission-change notifications and the parties that track permissions from them.
//
// Runs the scenarios of tools/props/c05.py (same format as the topic-history driver, whose helpers
// and op dispatcher are reused unchanged) against the REAL hub, group topic, 'me' topics and sessions,
// and adds to every per-request block:
//
//	X <frame>                 every frame a multiplexing session attached to the master topic received
//	                          (what cluster.go forwards to a proxy of the topic on another node), in order
//	proxy user <i> <W>/<G>    the perUser table of a proxy Topic after proxyMasterResponse (hence
//	                          updateAcsFromPresMsg) was fed those frames; the table is a copy of the
//	                          master's perUser at the moment the multiplexing session is attached
//	proxysnap                 the multiplexing session was (re)attached after this request (new snapshot)
//	meatt <sid>               session <sid> is attached to its user's 'me' topic after this request
//
// Extra requests (handled here, the shared dispatcher ignores the kind):
//
//	mesub <sid> / meleave <sid>     {sub topic=me} / {leave topic=me}
//	notify <tgt> <act> <ow> <og> <nw> <ng> <skip sid|0>
//	                                Topic.notifySubChange called directly on the loaded topic with these
//	                                arguments (the cache is not changed): direct differential test of the
//	                                function against Sys/AcsNotify.v over its whole parameter space
//
// Nothing is written to /repo.
package main

import (
	"bufio"
	"fmt"
	"os"
	"sort"
	"strconv"
	"strings"
	"testing"
	"time"

	"github.com/tinode/chat/server/auth"
	"github.com/tinode/chat/server/store"
	"github.com/tinode/chat/server/store/types"
)

type c5x struct {
	sc     *vScn
	tap    *vSess
	tapIn  *Topic
	proxy  *Topic
	kill   *time.Timer
	snap   bool
	tapSeq int
}

// the topic goroutine is parked (quiescence) whenever these run
func (c *c5x) removeTap() {
	if c.tapIn != nil && c.tap != nil {
		delete(c.tapIn.sessions, c.tap.s)
	}
	c.tapIn = nil
}

func (c *c5x) dropTap() {
	c.removeTap()
	if c.tap != nil {
		c.tap.s.cleanUp(true)
		<-c.tap.done
		c.tap = nil
	}
}

// attach a multiplexing session to the loaded master topic, as cluster.go does for a proxy topic of
// another node, and give the proxy the master's table
func (c *c5x) ensureTap() {
	t := globals.hub.topicGet(c.sc.topic)
	if t == nil {
		c.tapIn = nil
		return
	}
	if c.tapIn == t {
		if _, ok := t.sessions[c.tap.s]; ok {
			return
		}
	}
	if c.tap == nil {
		c.tapSeq++
		c.tap = vNewSession(9000+c.tapSeq, types.ZeroUid, auth.LevelNone)
		c.tap.s.proto = MULTIPLEX
		c.tap.s.proxiedTopic = t.name
	}
	t.sessions[c.tap.s] = perSessionData{muids: []types.Uid{types.ZeroUid}}
	c.tapIn = t
	c.proxy = &Topic{
		name:      t.name,
		xoriginal: t.xoriginal,
		cat:       t.cat,
		status:    topicStatusLoaded,
		isProxy:   true,
		owner:     t.owner,
		perUser:   make(map[types.Uid]perUserData),
		sessions:  make(map[*Session]perSessionData),
	}
	for uid, p := range t.perUser {
		c.proxy.perUser[uid] = perUserData{modeWant: p.modeWant, modeGiven: p.modeGiven}
	}
	c.snap = true
}

func (c *c5x) meTopics() []string {
	var res []string
	for _, u := range c.sc.uids {
		res = append(res, u.UserId())
	}
	sort.Strings(res)
	return res
}

func (c *c5x) quiet() string {
	return vWaitQuiet(append([]string{c.sc.topic}, c.meTopics()...))
}

func (c *c5x) op(w []string) {
	sc := c.sc
	kind, a := w[1], w[2:]
	at := func(i int) int { v, _ := strconv.Atoi(a[i]); return v }
	id := strconv.Itoa(sc.opi + 1)
	switch kind {
	case "unload", "restart":
		c.removeTap()
	case "mesub":
		sc.send(at(0), `{"sub":{"id":"`+id+`","topic":"me"}}`)
	case "meleave":
		sc.send(at(0), `{"leave":{"id":"`+id+`","topic":"me"}}`)
	case "notify":
		if t := globals.hub.topicGet(sc.topic); t != nil {
			skip := ""
			if vs := sc.sess[at(6)]; vs != nil {
				skip = vs.s.sid
			}
			t.notifySubChange(sc.uids[at(0)], sc.uids[at(1)], false,
				types.AccessMode(at(2)), types.AccessMode(at(3)), types.AccessMode(at(4)), types.AccessMode(at(5)), skip)
		}
	}
	// the shared dispatcher waits for quiescence of the whole process (every goroutine parked, hub queues
	// empty) before it reads the frames, so the 'me' topics have delivered by then
	sc.op(w)
	if c.tap != nil {
		killTimer := c.kill
		for _, m := range c.tap.take() {
			fmt.Fprintf(sc.out, "X %s\n", sc.frame(m))
			if c.proxy != nil && (m.Pres != nil || m.Data != nil || m.Info != nil) {
				// clusterWriteLoop: a broadcast of the master reaches the proxy topic as OrigSid "*"
				c.proxy.proxyMasterResponse(&ClusterResp{SrvMsg: m, OrigSid: "*", RcptTo: sc.topic}, killTimer)
			}
		}
	}
	c.snap = false
	c.ensureTap()
	if c.snap {
		fmt.Fprintln(sc.out, "proxysnap")
	}
	if c.proxy != nil && c.tapIn != nil {
		var lines []string
		for uid, p := range c.proxy.perUser {
			lines = append(lines, fmt.Sprintf("proxy user %d %s/%s", sc.uidIdx[uid], vModeStr(p.modeWant), vModeStr(p.modeGiven)))
		}
		sort.Strings(lines)
		for _, l := range lines {
			fmt.Fprintln(sc.out, l)
		}
	}
	var ml []string
	for _, u := range sc.uids {
		if mt := globals.hub.topicGet(u.UserId()); mt != nil {
			for s := range mt.sessions {
				for i, vs := range sc.sess {
					if vs.s == s {
						ml = append(ml, fmt.Sprintf("meatt %d", i))
					}
				}
			}
		}
	}
	sort.Strings(ml)
	for _, l := range ml {
		fmt.Fprintln(sc.out, l)
	}
}

func (c *c5x) finish() {
	c.quiet()
	c.dropTap()
	c.sc.finish()
	c.quiet()
	for _, n := range c.meTopics() {
		if t := globals.hub.topicGet(n); t != nil {
			globals.hub.unreg <- &topicUnreg{rcptTo: n}
		}
	}
	c.quiet()
}

func TestVerifC05x(t *testing.T) {
	vInitServer(t)
	fin, err := os.Open(os.Getenv("VERIF_IN"))
	if err != nil {
		t.Fatal(err)
	}
	defer fin.Close()
	fout, err := os.Create(os.Getenv("VERIF_OUT"))
	if err != nil {
		t.Fatal(err)
	}
	defer fout.Close()
	out := bufio.NewWriterSize(fout, 1<<20)
	defer out.Flush()
	in := bufio.NewScanner(fin)
	in.Buffer(make([]byte, 1<<20), 1<<26)
	var c *c5x
	scnCount := 0
	kill := time.NewTimer(time.Hour)
	defer kill.Stop()
	for in.Scan() {
		w := strings.Fields(in.Text())
		if len(w) == 0 {
			continue
		}
		switch w[0] {
		case "scn":
			scnCount++
			kv := vKV(w[2:])
			sc := &vScn{id: w[1], uids: map[int]types.Uid{}, uidIdx: map[types.Uid]int{}, sess: map[int]*vSess{},
				sessUser: map[int]int{}, out: out}
			sc.topic = "grpVerifA" + strconv.Itoa(scnCount) + "x" + strconv.FormatInt(time.Now().UnixNano()%1000000, 36)
			sc.gen = scnCount
			sc.pending(kv)
			c = &c5x{sc: sc, kill: kill}
			fmt.Fprintf(out, "scn %s\n", w[1])
		case "user":
			sc := c.sc
			kv := vKV(w[2:])
			i, _ := strconv.Atoi(w[1])
			acc, _ := strconv.Atoi(kv["acc"])
			u := &types.User{}
			u.Access.Auth = types.AccessMode(acc)
			u.Access.Anon = types.ModeNone
			if _, err := store.Users.Create(u, nil); err != nil {
				t.Fatal("user create: ", err)
			}
			sc.uids[i] = u.Uid()
			sc.uidIdx[u.Uid()] = i
			sc.maybeCreateTopic(t, i)
		case "subrow":
			sc := c.sc
			kv := vKV(w[2:])
			i, _ := strconv.Atoi(w[1])
			want, _ := strconv.Atoi(kv["want"])
			given, _ := strconv.Atoi(kv["given"])
			if err := store.Subs.Create(&types.Subscription{User: sc.uids[i].String(), Topic: sc.topic,
				ModeWant: types.AccessMode(want), ModeGiven: types.AccessMode(given)}); err != nil {
				t.Fatal("sub create: ", err)
			}
		case "sess":
			sc := c.sc
			si, _ := strconv.Atoi(w[1])
			ui, _ := strconv.Atoi(w[2])
			sc.sessUser[si] = ui
			sc.sess[si] = vNewSession(si, sc.uids[ui], auth.LevelAuth)
		case "op":
			c.op(w[1:])
		case "end":
			c.finish()
			fmt.Fprintln(out, "end")
			out.Flush()
		}
	}
}
