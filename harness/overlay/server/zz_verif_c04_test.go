//go:build verif

// C04 layer 1 driver: runs the REAL Topic.replyDelMsg (validation / clipping
// loop, sort, Normalize, count limit) on a bare topic and reports the ranges
// that arrive at store.Messages.DeleteList.
//
//	D lastID r,r,...   ->  D err            (request answered 400 malformed, store not called)
//	                       D <ranges>       (ranges handed to DeleteList; reply 200)
//
// A range is written low:hi, a list is comma-separated, "-" = empty list.
package main

import (
	"fmt"
	"strconv"
	"strings"

	"github.com/tinode/chat/server/store"
	"github.com/tinode/chat/server/store/types"
)

func init() { verifHandlers["c04"] = verifC04 }

// Fake of store.Messages: records what DeleteList receives.
type verifC04Msgs struct {
	calls  int
	topic  string
	delID  int
	user   types.Uid
	ranges []types.Range
}

func (m *verifC04Msgs) Save(msg *types.Message, attachmentURLs []string, readBySender bool) (error, bool) {
	panic("driver: unexpected Messages.Save")
}
func (m *verifC04Msgs) DeleteList(topic string, delID int, forUser types.Uid, ranges []types.Range) error {
	m.calls++
	m.topic, m.delID, m.user = topic, delID, forUser
	m.ranges = append([]types.Range(nil), ranges...)
	return nil
}
func (m *verifC04Msgs) GetAll(topic string, forUser types.Uid, opt *types.QueryOpt) ([]types.Message, error) {
	panic("driver: unexpected Messages.GetAll")
}
func (m *verifC04Msgs) GetDeleted(topic string, forUser types.Uid, opt *types.QueryOpt) ([]types.Range, int, error) {
	panic("driver: unexpected Messages.GetDeleted")
}

func verifC04Show(rs []types.Range) string {
	if len(rs) == 0 {
		return "-"
	}
	parts := make([]string, len(rs))
	for i, r := range rs {
		parts[i] = strconv.Itoa(r.Low) + ":" + strconv.Itoa(r.Hi)
	}
	return strings.Join(parts, ",")
}

func verifC04(w []string) string {
	if w[0] != "D" {
		return "?"
	}
	lastID := int(vAtoi(w[1]))
	var seq []MsgDelRange
	if w[2] != "-" {
		for _, p := range strings.Split(w[2], ",") {
			lh := strings.Split(p, ":")
			seq = append(seq, MsgDelRange{LowId: int(vAtoi(lh[0])), HiId: int(vAtoi(lh[1]))})
		}
	}
	fake := &verifC04Msgs{}
	saved := store.Messages
	store.Messages = fake
	defer func() { store.Messages = saved }()

	uid := types.Uid(7)
	// Reader + deleter, not a presencer: the soft-delete notification to the
	// user's other sessions is then skipped (no hub is needed).
	mode := types.ModeJoin | types.ModeRead | types.ModeWrite | types.ModeDelete
	topic := &Topic{
		name:    "grpVerifC04",
		cat:     types.TopicCatGrp,
		status:  topicStatusLoaded,
		lastID:  lastID,
		delID:   4,
		perUser: map[types.Uid]perUserData{uid: {modeWant: mode, modeGiven: mode}},
	}
	sess := &Session{sid: "sidC04", uid: uid, subs: make(map[string]*Subscription), send: make(chan any, 8)}
	msg := &ClientComMessage{
		Del:       &MsgClientDel{Id: "1", Topic: "grpVerifC04", What: "msg", DelSeq: seq},
		Id:        "1",
		Original:  "grpVerifC04",
		RcptTo:    "grpVerifC04",
		AsUser:    uid.UserId(),
		Timestamp: types.TimeNow(),
	}
	err := topic.replyDelMsg(sess, uid, false, msg)
	code := 0
	select {
	case m := <-sess.send:
		if sm, ok := m.(*ServerComMessage); ok && sm.Ctrl != nil {
			code = sm.Ctrl.Code
		}
	default:
	}
	if err != nil || code != 200 {
		if fake.calls != 0 || code != 400 {
			return fmt.Sprintf("D unexpected err=%v code=%d storecalls=%d", err, code, fake.calls)
		}
		return "D err"
	}
	if fake.calls != 1 || fake.delID != 5 || topic.delID != 5 || fake.user != uid || fake.topic != "grpVerifC04" {
		return fmt.Sprintf("D unexpected calls=%d delid=%d/%d user=%v topic=%s", fake.calls, fake.delID, topic.delID, fake.user, fake.topic)
	}
	return "D " + verifC04Show(fake.ranges)
}
