//go:build verif

// C17 part D: a client request dispatched by the REAL Session.dispatch on one of the real
// Cluster values of the election driver (zz_verif_c17_test.go), i.e. on a node whose
// failover state (leader, failCount of every peer, activeNodes) is the result of the real
// elections and the real sendHealthChecks calls of the script so far.
//
// event   R<i>:<kind>:<session>:<obo>:<shape>
//   kind     hi acc login sub leave pub get set del note none (none = no field set)
//   session  two letters: f fresh (no {hi}, anonymous), h {hi} done, u authenticated, a authenticated and
//            attached to a group topic and to 'me' (with a user agent), r = a with root level;
//            then the protocol w websocket, l long polling, g gRPC
//   obo      extra.obo: - absent, v a valid user id, x junk
//   shape    0..3 which topic / what the request addresses (the model does not look at it)
// answer (suffix of the observation)
//   #R:<init>,<reply codes>,<queues that received something>,<session changed>
//   init = msg.init || msg.sess != nil after dispatch returned (dispatch sets both right before it
//   calls the handler); reply codes joined by '.', '-' if none; queues joined by '+': join routeCli
//   hmeta unreg (hub), bcast done meta supd (attached topic), mbcast mdone mmeta msupd ('me').
package main

import (
	"strconv"
	"strings"
	"time"

	"github.com/tinode/chat/server/auth"
	"github.com/tinode/chat/server/store/types"
)

type c17bSubChans struct {
	bcast chan *ClientComMessage
	done  chan *ClientComMessage
	meta  chan *ClientComMessage
	supd  chan *sessionUpdate
}

func c17bNewSub() (*Subscription, *c17bSubChans) {
	ch := &c17bSubChans{bcast: make(chan *ClientComMessage, 8), done: make(chan *ClientComMessage, 8),
		meta: make(chan *ClientComMessage, 8), supd: make(chan *sessionUpdate, 8)}
	return &Subscription{broadcast: ch.bcast, done: ch.done, meta: ch.meta, supd: ch.supd}, ch
}

func (ch *c17bSubChans) drain(prefix string, out *[]string) {
	if len(ch.bcast) > 0 {
		*out = append(*out, prefix+"bcast")
	}
	if len(ch.done) > 0 {
		*out = append(*out, prefix+"done")
	}
	if len(ch.meta) > 0 {
		*out = append(*out, prefix+"meta")
	}
	if len(ch.supd) > 0 {
		*out = append(*out, prefix+"supd")
	}
}

const c17bAttached = "grpVerifC17bAAA"
const c17bOther = "grpVerifC17bBBB"

// signature of the ring Cluster.rehash builds from the list
func c17bSigOf(lst []string) string {
	c := &Cluster{thisNodeName: "scratch", nodes: map[string]*ClusterNode{}}
	c.rehash(append([]string{}, lst...))
	return c.ring.Signature()
}

func c17bDigits(names []string) string {
	var d []string
	for _, n := range names {
		d = append(d, n[1:])
	}
	// names are n0..n9: sort the digits
	for i := 1; i < len(d); i++ {
		for j := i; j > 0 && d[j] < d[j-1]; j-- {
			d[j], d[j-1] = d[j-1], d[j]
		}
	}
	return strings.Join(d, "")
}

func c17bRequest(kind string, shape int, self, peer types.Uid) *ClientComMessage {
	topic := []string{c17bAttached, c17bOther, "me", peer.UserId()}[shape%4]
	switch kind {
	case "hi":
		return &ClientComMessage{Hi: &MsgClientHi{Id: "1", Version: []string{"0.22", "", "junk", "0.22"}[shape%4], UserAgent: "verif/1.0"}}
	case "acc":
		return &ClientComMessage{Acc: &MsgClientAcc{Id: "1", User: peer.UserId(), TmpScheme: "zzz", TmpSecret: []byte("x")}}
	case "login":
		return &ClientComMessage{Login: &MsgClientLogin{Id: "1", Scheme: "zzz", Secret: []byte("x")}}
	case "sub":
		return &ClientComMessage{Sub: &MsgClientSub{Id: "1", Topic: topic}}
	case "leave":
		return &ClientComMessage{Leave: &MsgClientLeave{Id: "1", Topic: topic, Unsub: shape >= 2 && topic != "me"}}
	case "pub":
		if shape%4 == 2 {
			topic = "sys"
		}
		return &ClientComMessage{Pub: &MsgClientPub{Id: "1", Topic: topic, Content: "x"}}
	case "get":
		what := []string{"desc", "desc", "data", "junk"}[shape%4]
		return &ClientComMessage{Get: &MsgClientGet{Id: "1", Topic: topic, MsgGetQuery: MsgGetQuery{What: what}}}
	case "set":
		return &ClientComMessage{Set: &MsgClientSet{Id: "1", Topic: topic, MsgSetQuery: MsgSetQuery{Desc: &MsgSetDesc{Private: "x"}}}}
	case "del":
		if shape%4 == 1 {
			return &ClientComMessage{Del: &MsgClientDel{Id: "1", Topic: topic, What: "topic"}}
		}
		what := []string{"msg", "", "msg", "sub"}[shape%4]
		return &ClientComMessage{Del: &MsgClientDel{Id: "1", Topic: topic, What: what, User: peer.UserId(), DelSeq: []MsgDelRange{{LowId: 1, HiId: 2}}}}
	case "note":
		switch shape % 4 {
		case 0:
			return &ClientComMessage{Note: &MsgClientNote{Topic: topic, What: "read", SeqId: 5}}
		case 1:
			return &ClientComMessage{Note: &MsgClientNote{Topic: topic, What: "recv", SeqId: 3}}
		case 2:
			return &ClientComMessage{Note: &MsgClientNote{Topic: c17bAttached, What: "kp"}}
		default:
			return &ClientComMessage{Note: &MsgClientNote{Topic: c17bAttached, What: "data", Payload: []byte(`{"a":1}`)}}
		}
	}
	return &ClientComMessage{}
}

func c17bClientRequest(c *Cluster, spec string) string {
	f := strings.Split(spec, ":")
	if len(f) < 5 {
		return "#R:bad"
	}
	kind, sess, obo := f[1], f[2], f[3]
	shape := int(vAtoi(f[4]))
	self, peer := types.Uid(0x1234567), types.Uid(0x7654321)

	if globals.hub.join == nil {
		globals.hub.join = make(chan *ClientComMessage, 64)
		globals.hub.routeCli = make(chan *ClientComMessage, 64)
		globals.hub.meta = make(chan *ClientComMessage, 64)
		globals.hub.unreg = make(chan *topicUnreg, 64)
	}

	s := &Session{
		proto:        map[byte]SessionProto{'w': WEBSOCK, 'l': LPOLL, 'g': GRPC}[sess[1]],
		sid:          "c17b",
		subs:         make(map[string]*Subscription),
		send:         make(chan any, 64),
		stop:         make(chan any, 1),
		detach:       make(chan string, 64),
		inflightReqs: newBoundedWaitGroup(8),
		lastTouched:  time.Now(),
	}
	s.bkgTimer = time.NewTimer(time.Hour)
	s.bkgTimer.Stop()
	var topicCh, meCh *c17bSubChans
	switch sess[0] {
	case 'f':
	case 'h':
		s.ver = 22
	case 'u':
		s.ver, s.uid, s.authLvl = 22, self, auth.LevelAuth
	case 'a', 'r':
		s.ver, s.uid, s.authLvl, s.userAgent = 22, self, auth.LevelAuth, "verif/1.0"
		if sess[0] == 'r' {
			s.authLvl = auth.LevelRoot
		}
		var sub *Subscription
		sub, topicCh = c17bNewSub()
		s.subs[c17bAttached] = sub
		sub, meCh = c17bNewSub()
		s.subs[self.UserId()] = sub
	}
	before := [5]string{strconv.Itoa(s.ver), s.uid.String(), strconv.Itoa(int(s.authLvl)), s.userAgent, strconv.Itoa(len(s.subs))}

	msg := c17bRequest(kind, shape, self, peer)
	switch obo {
	case "v":
		msg.Extra = &MsgClientExtra{AsUser: self.UserId()}
	case "x":
		msg.Extra = &MsgClientExtra{AsUser: "junk"}
	}

	old := globals.cluster
	globals.cluster = c
	func() {
		defer func() { globals.cluster = old }()
		s.dispatch(msg)
	}()

	var codes []string
	for len(s.send) > 0 {
		switch v := (<-s.send).(type) {
		case *ServerComMessage:
			if v.Ctrl != nil {
				codes = append(codes, strconv.Itoa(v.Ctrl.Code))
			} else {
				codes = append(codes, "x")
			}
		case []*ServerComMessage:
			for _, m := range v {
				if m.Ctrl != nil {
					codes = append(codes, strconv.Itoa(m.Ctrl.Code))
				} else {
					codes = append(codes, "x")
				}
			}
		default:
			codes = append(codes, "x")
		}
	}
	var queues []string
	if len(globals.hub.join) > 0 {
		queues = append(queues, "join")
	}
	if len(globals.hub.routeCli) > 0 {
		queues = append(queues, "routeCli")
	}
	if len(globals.hub.meta) > 0 {
		queues = append(queues, "hmeta")
	}
	if len(globals.hub.unreg) > 0 {
		queues = append(queues, "unreg")
	}
	for len(globals.hub.join) > 0 {
		<-globals.hub.join
	}
	for len(globals.hub.routeCli) > 0 {
		<-globals.hub.routeCli
	}
	for len(globals.hub.meta) > 0 {
		<-globals.hub.meta
	}
	for len(globals.hub.unreg) > 0 {
		<-globals.hub.unreg
	}
	if topicCh != nil {
		topicCh.drain("", &queues)
		meCh.drain("m", &queues)
	}
	after := [5]string{strconv.Itoa(s.ver), s.uid.String(), strconv.Itoa(int(s.authLvl)), s.userAgent, strconv.Itoa(len(s.subs))}
	join := func(l []string, sep string) string {
		if len(l) == 0 {
			return "-"
		}
		return strings.Join(l, sep)
	}
	return "#R:" + vB2s(msg.init || msg.sess != nil) + "," + join(codes, ".") + "," + join(queues, "+") + "," + vB2s(before != after)
}
