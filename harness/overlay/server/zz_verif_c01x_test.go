//go:build verif

// C01 load-path driver: message-numbering histories on a REAL peer-to-peer topic and on the REAL
// 'sys' topic (hub.join -> topicInit -> initTopicP2P / initTopicSys, subscriptionReply,
// replyLeaveUnsub, saveAndBroadcastMessage, replyGetData, replyGetDesc) above memverif, one
// client request at a time through Session.dispatchRaw with sound quiescence after each, and
// prints the same canonical per-request blocks as the topic-history driver; the model runner
// harness/runner/r_c01x.ml prints them for the same scenario from coq/Sys/TopicLoad.v.
//
// Reuses vScn (frame rendering, emitFrames, emitStore, emitCache), vNewSession, vWaitQuiet,
// vInitServer, vKV of zz_verif_topic_test.go.
//
// Scenario lines (tools/props/c01.py):
//   scn <id> kind=p2p|sys exists=0|1 seqid=N delid=D
//   user <i> acc=<mode bits> root=0|1          users 1 and 2 are the parties of the p2p topic
//   subrow <i> want=<bits> given=<bits> deleted=0|1   stored subscription row (soft-deleted if deleted=1)
//   msg <seq> from=<i> content=<n>             stored message row
//   sess <si> <ui>
//   op <N|Fk|Ck> sub|subp|leave|pub|getdata|getdesc|unload|restart args
//   end
// The stored state is seeded through the store mappers before the first session is created
// (p2p: Topics.Create without owner + Subs.Create/Delete + Messages.Save + Topics.Update;
// sys: the singleton row is reset: messages removed, live subscriptions soft-deleted).
package main

import (
	"bufio"
	"fmt"
	"os"
	"strconv"
	"strings"
	"testing"

	"github.com/tinode/chat/server/auth"
	"github.com/tinode/chat/server/db/memverif"
	"github.com/tinode/chat/server/store"
	"github.com/tinode/chat/server/store/types"
)

type xSeedSub struct {
	user, want, given int
	deleted           bool
}

type xSeedMsg struct {
	seq, from int
	content   string
}

type xScn struct {
	*vScn
	kind    string
	exists  bool
	seqid   int
	delid   int
	root    map[int]bool
	subs    []xSeedSub
	msgs    []xSeedMsg
	started bool
}

func (sc *xScn) level(ui int) auth.Level {
	if sc.root[ui] {
		return auth.LevelRoot
	}
	return auth.LevelAuth
}

// the name a session of user ui uses for the scenario topic
func (sc *xScn) seen(ui int) string {
	if sc.kind == "sys" {
		return "sys"
	}
	if ui == 1 {
		return sc.uids[2].UserId()
	}
	return sc.uids[1].UserId()
}

func (sc *xScn) loadSys() {
	// what newHub() does at process start
	globals.hub.join <- &ClientComMessage{RcptTo: "sys", Original: "sys"}
	vWaitQuiet([]string{"sys"})
}

func (sc *xScn) unloadTopic() {
	vWaitQuiet([]string{sc.topic})
	if t := globals.hub.topicGet(sc.topic); t != nil {
		globals.hub.unreg <- &topicUnreg{rcptTo: sc.topic}
	}
	vWaitQuiet([]string{sc.topic})
}

func (sc *xScn) setup(t *testing.T) {
	if sc.started {
		return
	}
	sc.started = true
	must := func(what string, err error) {
		if err != nil {
			t.Fatal(what+": ", err)
		}
	}
	if sc.kind == "sys" {
		sc.topic = "sys"
		sc.unloadTopic()
		must("sys clear", store.Messages.DeleteList("sys", 0, types.ZeroUid, nil))
		old, err := store.Topics.GetSubs("sys", nil)
		must("sys subs", err)
		for i := range old {
			store.Subs.Delete("sys", types.ParseUid(old[i].User))
		}
	} else {
		sc.topic = sc.uids[1].P2PName(sc.uids[2])
		if sc.exists {
			must("topic create", store.Topics.Create(&types.Topic{ObjHeader: types.ObjHeader{Id: sc.topic}}, types.ZeroUid, nil))
		}
	}
	if sc.kind == "sys" || sc.exists {
		for _, r := range sc.subs {
			must("sub create", store.Subs.Create(&types.Subscription{User: sc.uids[r.user].String(), Topic: sc.topic,
				ModeWant: types.AccessMode(r.want), ModeGiven: types.AccessMode(r.given)}))
			if r.deleted {
				must("sub delete", store.Subs.Delete(sc.topic, sc.uids[r.user]))
			}
		}
		for _, m := range sc.msgs {
			c, _ := strconv.Atoi(m.content)
			err, _ := store.Messages.Save(&types.Message{SeqId: m.seq, Topic: sc.topic, From: sc.uids[m.from].String(), Content: c}, nil, false)
			must("msg save", err)
		}
		must("topic update", store.Topics.Update(sc.topic, map[string]any{"SeqId": sc.seqid, "DelId": sc.delid}))
	}
	if sc.kind == "sys" {
		sc.loadSys()
	}
	memverif.ClearFault()
	memverif.ResetCallLog()
}

// restart: all connections are gone and nothing is in memory; the hub of a new process loads 'sys'
func (sc *xScn) reboot() {
	for _, vs := range sc.sess {
		vs.s.cleanUp(true)
		<-vs.done
	}
	sc.unloadTopic()
	memverif.ClearFault()
	if sc.kind == "sys" {
		sc.loadSys()
	}
	for i := range sc.sess {
		sc.sess[i] = vNewSession(i, sc.uids[sc.sessUser[i]], sc.level(sc.sessUser[i]))
	}
}

func (sc *xScn) emitDeleted() {
	t := globals.hub.topicGet(sc.topic)
	if t == nil {
		return
	}
	var idx []int
	for uid, p := range t.perUser {
		if p.deleted {
			idx = append(idx, sc.uidIdx[uid])
		}
	}
	for i := 1; i <= 9; i++ {
		for _, j := range idx {
			if i == j {
				fmt.Fprintf(sc.out, "cache pdel %d\n", i)
			}
		}
	}
}

func (sc *xScn) xop(w []string) {
	sc.opi++
	fmt.Fprintf(sc.out, "op %d\n", sc.opi)
	flt, kind, a := w[0], w[1], w[2:]
	memverif.ClearFault()
	memverif.ResetCallLog()
	if flt != "N" {
		k, _ := strconv.Atoi(flt[1:])
		memverif.SetFault(k, flt[0] == 'C')
	}
	id := strconv.Itoa(sc.opi)
	at := func(i int) int { v, _ := strconv.Atoi(a[i]); return v }
	tn := ""
	if len(a) > 0 {
		tn = sc.seen(sc.sessUser[at(0)])
	}
	var calls []string
	switch kind {
	case "sub":
		sc.send(at(0), `{"sub":{"id":"`+id+`","topic":"`+tn+`"}}`)
	case "subp":
		// the same topic addressed by its p2pAAABBB name ('sys': no other name)
		sc.send(at(0), `{"sub":{"id":"`+id+`","topic":"`+sc.topic+`"}}`)
	case "leave":
		unsub := ""
		if a[1] == "1" {
			unsub = `,"unsub":true`
		}
		sc.send(at(0), `{"leave":{"id":"`+id+`","topic":"`+tn+`"`+unsub+`}}`)
	case "pub":
		ne := ""
		if a[2] == "1" {
			ne = `,"noecho":true`
		}
		sc.send(at(0), `{"pub":{"id":"`+id+`","topic":"`+tn+`","content":`+a[1]+ne+`}}`)
	case "getdata":
		sc.send(at(0), `{"get":{"id":"`+id+`","topic":"`+tn+`","what":"data"}}`)
	case "getdesc":
		sc.send(at(0), `{"get":{"id":"`+id+`","topic":"`+tn+`","what":"desc"}}`)
	case "unload":
		if sc.kind != "sys" {
			if t := globals.hub.topicGet(sc.topic); t != nil && len(t.sessions) == 0 {
				// what the kill timer does: handleTopicTimeout -> hub.unreg
				globals.hub.unreg <- &topicUnreg{rcptTo: sc.topic}
			}
		}
	case "restart":
		sc.reboot()
		memverif.ResetCallLog()
	}
	hang := vWaitQuiet([]string{sc.topic})
	sc.emitFrames()
	calls = memverif.CallLog()
	if flt != "N" && flt[0] == 'C' {
		// the process died: in-memory state is gone
		sc.reboot()
		if h2 := vWaitQuiet([]string{sc.topic}); h2 != "" {
			hang = h2
		}
	}
	if hang != "" {
		fmt.Fprintln(sc.out, hang)
	}
	fmt.Fprintf(sc.out, "calls %d\n", len(calls))
	fmt.Fprintf(sc.out, "calllog %s\n", strings.Join(calls, " "))
	memverif.ClearFault()
	if globals.hub.topicGet(sc.topic) == nil {
		fmt.Fprintln(sc.out, "loaded 0")
	} else {
		fmt.Fprintln(sc.out, "loaded 1")
	}
	sc.emitStore()
	sc.emitCache()
	sc.emitDeleted()
}

func (sc *xScn) xfinish() {
	memverif.ClearFault()
	for _, vs := range sc.sess {
		vs.s.cleanUp(true)
		<-vs.done
	}
	if sc.kind != "sys" {
		sc.unloadTopic()
	} else {
		vWaitQuiet([]string{"sys"})
	}
}

func TestVerifC01x(t *testing.T) {
	vInitServer(t)
	fin, err := os.Open(os.Getenv("VERIF_IN"))
	if err != nil {
		t.Fatal(err)
	}
	defer fin.Close()
	fout, err := os.Create(os.Getenv("VERIF_OUT"))
	if err != nil {
		t.Fatal(err)
	}
	defer fout.Close()
	out := bufio.NewWriterSize(fout, 1<<20)
	defer out.Flush()
	in := bufio.NewScanner(fin)
	in.Buffer(make([]byte, 1<<20), 1<<26)
	var sc *xScn
	num := func(kv map[string]string, k string) int { v, _ := strconv.Atoi(kv[k]); return v }
	for in.Scan() {
		w := strings.Fields(in.Text())
		if len(w) == 0 {
			continue
		}
		switch w[0] {
		case "scn":
			kv := vKV(w[2:])
			sc = &xScn{vScn: &vScn{id: w[1], uids: map[int]types.Uid{}, uidIdx: map[types.Uid]int{}, sess: map[int]*vSess{},
				sessUser: map[int]int{}, out: out}, kind: kv["kind"], exists: kv["exists"] == "1", seqid: num(kv, "seqid"),
				delid: num(kv, "delid"), root: map[int]bool{}}
			fmt.Fprintf(out, "scn %s\n", w[1])
		case "user":
			kv := vKV(w[2:])
			i, _ := strconv.Atoi(w[1])
			u := &types.User{}
			u.Access.Auth = types.AccessMode(num(kv, "acc"))
			u.Access.Anon = types.ModeNone
			if _, err := store.Users.Create(u, nil); err != nil {
				t.Fatal("user create: ", err)
			}
			sc.uids[i] = u.Uid()
			sc.uidIdx[u.Uid()] = i
			sc.root[i] = kv["root"] == "1"
		case "subrow":
			kv := vKV(w[2:])
			i, _ := strconv.Atoi(w[1])
			sc.subs = append(sc.subs, xSeedSub{i, num(kv, "want"), num(kv, "given"), kv["deleted"] == "1"})
		case "msg":
			kv := vKV(w[2:])
			i, _ := strconv.Atoi(w[1])
			sc.msgs = append(sc.msgs, xSeedMsg{i, num(kv, "from"), kv["content"]})
		case "sess":
			sc.setup(t)
			si, _ := strconv.Atoi(w[1])
			ui, _ := strconv.Atoi(w[2])
			sc.sessUser[si] = ui
			sc.sess[si] = vNewSession(si, sc.uids[ui], sc.level(ui))
		case "op":
			sc.setup(t)
			sc.xop(w[1:])
		case "end":
			sc.xfinish()
			fmt.Fprintln(out, "end")
			out.Flush()
		}
	}
}
