//go:build verif

// C03 driver: the topic-history driver (zz_verif_topic_test.go, reused as is) plus the events
// of coq/Sys/TopicLife.v:
//
//	op <flt> delbegin <sid>        {del what=topic hard} by the owner of the loaded topic; a memverif call
//	                               hook holds the hub goroutine at the entry of adapter.TopicDelete
//	op N delend                    the hook is released: the store call runs (with the fault plan of delbegin)
//	op <flt> suspend <user> <0|1>  {acc user state} from a root session
//	op N subme|subfnd <sid>        {sub topic=me|fnd}
//	op N pubme|pubfnd <sid> <content>
//	op <flt> pubsys <sid> <content>
//	op N p2psub|p2pleave <sid> <k>   {sub|leave topic=usrX} to the k-th peer-to-peer topic (X = the other party)
//	op <flt> p2ppub <sid> <k> <content> <noecho>
//	op N p2punload <k>               idle timeout of the k-th peer-to-peer topic
//
// and the head lines
//
//	sysrow <user>                                  the user has a live subscription row on 'sys' (he is in sys.perUser)
//	p2prow <k> <a> <b> wa= ga= wb= gb=             the k-th peer-to-peer topic: store.Topics.CreateP2P
//
// While the delete is held open only {pub} is served (by the topic goroutine, the hub is blocked
// inside the store call); any other op first releases the hook, exactly as TopicLife.xstep does.
// After every op the block gets extra lines: status bits of the loaded topic, suspended users,
// me/fnd attachments, the 'sys' topic (numbers relative to the start of the scenario).
package main

import (
	"bufio"
	"fmt"
	"os"
	"runtime"
	"sort"
	"strconv"
	"strings"
	"sync/atomic"
	"testing"
	"time"

	"github.com/tinode/chat/server/auth"
	"github.com/tinode/chat/server/db/memverif"
	"github.com/tinode/chat/server/store"
	"github.com/tinode/chat/server/store/types"
)

type x3Scn struct {
	*vScn
	admin    *vSess
	delSid   int    // != 0: the delete requested by this session is held open
	delFlt   string // fault plan of that request
	release  chan struct{}
	sysBase  int
	sysNames map[string]bool
	sysSubs  []int     // users with a subscription row on 'sys' created for this scenario
	sysDirty bool      // rows were added after 'sys' was loaded
	p2p      []c03xP2P // the peer-to-peer topics of the scenario
	c03ozRoots map[int]bool // sessions authenticated at level root (zz_verif_c03oz_test.go)
}

type c03xP2P struct {
	a, b int
	name string
}

// every topic of the scenario, for the quiescence check
func (x *x3Scn) c03xQuiet() []string {
	q := []string{x.topic, "sys"}
	for _, p := range x.p2p {
		q = append(q, p.name)
	}
	return q
}

// the peer of the session's user in the k-th peer-to-peer topic ("" if the user is not a party: for him the
// name usrX means another topic; no request is sent, the model ignores the event too)
func (x *x3Scn) c03xPeer(si, k int) (string, string) {
	if k < 1 || k > len(x.p2p) {
		return "", ""
	}
	p := x.p2p[k-1]
	switch x.sessUser[si] {
	case p.a:
		return x.uids[p.b].UserId(), p.name
	case p.b:
		return x.uids[p.a].UserId(), p.name
	}
	return "", ""
}

// nothing in memory survives a restart: the peer-to-peer topics go too (vScn.restart knows the group topic only)
func (x *x3Scn) c03xUnloadP2P() {
	for _, p := range x.p2p {
		if t := globals.hub.topicGet(p.name); t != nil {
			globals.hub.unreg <- &topicUnreg{rcptTo: p.name}
			vWaitQuiet(x.c03xQuiet())
		}
	}
}

// push receipts of a publish to 'sys', message numbers relative to the start of the scenario
func (x *x3Scn) c03xSysPush() {
	for {
		select {
		case req := <-globals.usersUpdate:
			if req == nil || req.PushRcpt == nil || req.PushRcpt.Payload.What != "msg" {
				continue
			}
			r := req.PushRcpt
			var to []int
			for uid := range r.To {
				to = append(to, x.uidIdx[uid])
			}
			sort.Ints(to)
			var ts []string
			for _, i := range to {
				ts = append(ts, strconv.Itoa(i))
			}
			fmt.Fprintf(x.out, "S0 push seq=%d from=%d to=%s\n", r.Payload.SeqId-x.sysBase, x.uidx(r.Payload.From), strings.Join(ts, ","))
		default:
			return
		}
	}
}

var xAdminUid types.Uid

func xReloadSys() {
	if t := globals.hub.topicGet("sys"); t != nil {
		globals.hub.unreg <- &topicUnreg{rcptTo: "sys"}
		vWaitQuiet([]string{"sys"})
	}
	globals.hub.join <- &ClientComMessage{RcptTo: "sys", Original: "sys"}
	vWaitQuiet([]string{"sys"})
}

// xWaitQuietWindow: quiescence while the hub goroutine is held inside the store call. Like vWaitQuiet,
// except that messages waiting in the hub's queues do not count: the hub cannot take them before the
// hook is released (a topic's deferred presence timer may put one there at any moment).
func xWaitQuietWindow(topics []string) string {
	deadline := time.Now().Add(20 * time.Second)
	okCount := 0
	why := ""
	for time.Now().Before(deadline) {
		runtime.Gosched()
		q, w := xQuiescentNoHub(topics)
		if q {
			okCount++
			if okCount >= 2 {
				return ""
			}
			continue
		}
		okCount = 0
		why = w
		time.Sleep(50 * time.Microsecond)
	}
	return "HANG " + why
}

func xQuiescentNoHub(topics []string) (bool, string) {
	buf := make([]byte, 1<<20)
	n := runtime.Stack(buf, true)
	first := true
	for _, m := range vGoroutineHdr.FindAllStringSubmatch(string(buf[:n]), -1) {
		if first {
			first = false
			continue
		}
		state := m[2]
		if i := strings.Index(state, ","); i >= 0 {
			state = state[:i]
		}
		switch state {
		case "select", "chan receive", "sleep", "IO wait", "sync.Cond.Wait", "select (no cases)",
			"chan receive (nil chan)", "finalizer wait", "GC worker (idle)", "GC sweep wait", "GC scavenge wait",
			"syscall", "force gc (idle)", "debug call", "timer goroutine (idle)", "sync.WaitGroup.Wait":
		default:
			return false, "goroutine " + m[1] + " " + state
		}
	}
	for _, name := range topics {
		if t := globals.hub.topicGet(name); t != nil {
			if len(t.reg)+len(t.unreg)+len(t.clientMsg)+len(t.serverMsg)+len(t.meta)+len(t.exit) > 0 {
				return false, "topic queues " + name
			}
		}
	}
	return true, ""
}

func (x *x3Scn) drain() {
	for _, vs := range x.sess {
		vs.take()
	}
	x.admin.take()
	for {
		select {
		case <-globals.usersUpdate:
		default:
			return
		}
	}
}

// closeWindow lets the hub finish the held delete. Returns a hang description or "".
func (x *x3Scn) closeWindow() string {
	if x.delSid == 0 {
		return ""
	}
	flt := x.delFlt
	memverif.ClearFault()
	if flt != "N" {
		k, _ := strconv.Atoi(flt[1:])
		memverif.SetFault(k, flt[0] == 'C')
	}
	memverif.SetHook("TopicDelete", nil)
	close(x.release)
	x.delSid = 0
	hang := vWaitQuiet(x.c03xQuiet())
	return hang
}

func (x *x3Scn) afterCrash() {
	x.restart()
	vWaitQuiet(x.c03xQuiet())
	memverif.ClearFault()
	x.c03xUnloadP2P()
	xReloadSys()
}

func (x *x3Scn) emitExtra() {
	out := x.out
	paused, ro := 0, 0
	if t := globals.hub.topicGet(x.topic); t != nil {
		st := atomic.LoadInt32(&t.status)
		if st&(topicStatusPaused|topicStatusMarkedDeleted) != 0 {
			paused = 1
		}
		if st&topicStatusReadOnly != 0 {
			ro = 1
		}
	}
	window := 0
	if x.delSid != 0 {
		window = 1 // the hub goroutine is inside store.Topics.Delete for this topic
	}
	fmt.Fprintf(out, "store xstatus paused=%d ro=%d window=%d\n", paused, ro, window)
	var susp, me, fnd []string
	idx := make([]int, 0, len(x.uids))
	for i := range x.uids {
		idx = append(idx, i)
	}
	sort.Ints(idx)
	for _, i := range idx {
		if u, err := store.Users.Get(x.uids[i]); err == nil && u != nil && u.State == types.StateSuspended {
			susp = append(susp, strconv.Itoa(i))
		}
	}
	sidx := make([]int, 0, len(x.sess))
	for i := range x.sess {
		sidx = append(sidx, i)
	}
	sort.Ints(sidx)
	for _, i := range sidx {
		s := x.sess[i].s
		if s.getSub(s.uid.UserId()) != nil {
			me = append(me, strconv.Itoa(i))
		}
		if s.getSub(s.uid.FndName()) != nil {
			fnd = append(fnd, strconv.Itoa(i))
		}
	}
	fmt.Fprintf(out, "store susp %s\n", strings.Join(susp, ","))
	fmt.Fprintf(out, "store me %s\n", strings.Join(me, ","))
	fmt.Fprintf(out, "store fnd %s\n", strings.Join(fnd, ","))
	d := memverif.DumpTopic("sys")
	lastid := -1
	if t := globals.hub.topicGet("sys"); t != nil {
		lastid = t.lastID - x.sysBase
	}
	fmt.Fprintf(out, "store sys seqid=%d lastid=%d\n", d.SeqId-x.sysBase, lastid)
	var ml []string
	for _, m := range d.Msgs {
		if m.Seq > x.sysBase {
			ml = append(ml, fmt.Sprintf("store sysmsg %05d from=%d content=%s", m.Seq-x.sysBase, x.uidIdx[m.From], m.Content))
		}
	}
	sort.Strings(ml)
	for _, l := range ml {
		fmt.Fprintln(out, l)
	}
	// the read-only bit and the subscribers of 'sys'
	sysro := 0
	var ssubs []string
	if t := globals.hub.topicGet("sys"); t != nil {
		if atomic.LoadInt32(&t.status)&topicStatusReadOnly != 0 {
			sysro = 1
		}
		var is []int
		for uid := range t.perUser {
			if i, ok := x.uidIdx[uid]; ok {
				is = append(is, i)
			}
		}
		sort.Ints(is)
		for _, i := range is {
			ssubs = append(ssubs, strconv.Itoa(i))
		}
	}
	fmt.Fprintf(out, "store sysro %d\n", sysro)
	fmt.Fprintf(out, "store syssubs %s\n", strings.Join(ssubs, ","))
	// loaded 'me' / 'fnd' topics that are read-only (never, on the unchanged code)
	var mf []string
	for _, i := range idx {
		if t := globals.hub.topicGet(x.uids[i].UserId()); t != nil && atomic.LoadInt32(&t.status)&topicStatusReadOnly != 0 {
			mf = append(mf, "m"+strconv.Itoa(i))
		}
		if t := globals.hub.topicGet(x.uids[i].FndName()); t != nil && atomic.LoadInt32(&t.status)&topicStatusReadOnly != 0 {
			mf = append(mf, "f"+strconv.Itoa(i))
		}
	}
	fmt.Fprintf(out, "store mefndro %s\n", strings.Join(mf, ","))
	// the peer-to-peer topics
	for k, p := range x.p2p {
		pd := memverif.DumpTopic(p.name)
		var pm []string
		sort.Slice(pd.Msgs, func(i, j int) bool { return pd.Msgs[i].Seq < pd.Msgs[j].Seq })
		for _, m := range pd.Msgs {
			pm = append(pm, fmt.Sprintf("%d:%d:%s", m.Seq, x.uidIdx[m.From], m.Content))
		}
		t := globals.hub.topicGet(p.name)
		if t == nil {
			fmt.Fprintf(out, "store p2p %d loaded=0 ro=0 seqid=%d lastid=-1 users=- sess= msgs=%s\n", k+1, pd.SeqId, strings.Join(pm, ","))
			continue
		}
		pro := 0
		if atomic.LoadInt32(&t.status)&topicStatusReadOnly != 0 {
			pro = 1
		}
		var us []string
		for uid, pu := range t.perUser {
			us = append(us, fmt.Sprintf("%d:%s/%s", x.uidIdx[uid], vModeStr(pu.modeWant), vModeStr(pu.modeGiven)))
		}
		sort.Strings(us)
		var ss []int
		for s := range t.sessions {
			for i, vs := range x.sess {
				if vs.s == s {
					ss = append(ss, i)
				}
			}
		}
		sort.Ints(ss)
		var sl []string
		for _, i := range ss {
			sl = append(sl, strconv.Itoa(i))
		}
		fmt.Fprintf(out, "store p2p %d loaded=1 ro=%d seqid=%d lastid=%d users=%s sess=%s msgs=%s\n", k+1, pro, pd.SeqId, t.lastID,
			strings.Join(us, ","), strings.Join(sl, ","), strings.Join(pm, ","))
	}
	x.c03ozEmit()
}

// own ops print the same block shape as vScn.op
func (x *x3Scn) tail(hang string, flt string) {
	sc := x.vScn
	sc.emitFrames()
	calls := memverif.CallLog()
	if flt != "N" && flt[0] == 'C' {
		// the process died: nothing in memory survives
		x.restart()
		vWaitQuiet(x.c03xQuiet())
		memverif.ClearFault()
		x.c03xUnloadP2P()
		xReloadSys()
	}
	if hang != "" {
		fmt.Fprintln(sc.out, hang)
	}
	fmt.Fprintf(sc.out, "calls %d\n", len(calls))
	fmt.Fprintf(sc.out, "calllog %s\n", strings.Join(calls, " "))
	memverif.ClearFault()
	if globals.hub.topicGet(sc.topic) == nil {
		fmt.Fprintln(sc.out, "loaded 0")
	} else {
		fmt.Fprintln(sc.out, "loaded 1")
	}
	sc.emitStore()
	sc.emitCache()
	x.emitExtra()
}

func (x *x3Scn) begin(flt string) string {
	sc := x.vScn
	sc.opi++
	fmt.Fprintf(sc.out, "op %d\n", sc.opi)
	memverif.ClearFault()
	memverif.ResetCallLog()
	if flt != "N" {
		k, _ := strconv.Atoi(flt[1:])
		memverif.SetFault(k, flt[0] == 'C')
	}
	return fmt.Sprintf("%d", sc.opi)
}

func (x *x3Scn) xop(w []string) {
	sc := x.vScn
	flt, kind, a := w[0], w[1], w[2:]
	// kind@obo: the request carries extra.obo (sub, leave, pub to the group topic)
	kind, obo, hasObo := c03ozSplitKind(kind)
	defer x.c03ozReflag()
	at := func(i int) int { v, _ := strconv.Atoi(a[i]); return v }
	quiet := x.c03xQuiet()
	if x.delSid != 0 && kind != "pub" && kind != "delend" {
		// the hub finishes the delete before anything else is handled; whatever that sends is not
		// part of this op's compared projection (frames are compared on pub ops only)
		dflt := x.delFlt
		x.closeWindow()
		if dflt != "N" && dflt[0] == 'C' {
			x.afterCrash()
		}
		memverif.ClearFault()
		x.drain()
	}
	switch kind {
	case "delbegin":
		id := x.begin("N")
		si := at(0)
		vs := sc.sess[si]
		t := globals.hub.topicGet(sc.topic)
		if vs != nil && t != nil && !vs.s.uid.IsZero() && t.owner == vs.s.uid {
			entered := make(chan struct{}, 1)
			x.release = make(chan struct{})
			rel := x.release
			memverif.SetHook("TopicDelete", func() {
				entered <- struct{}{}
				<-rel
			})
			sc.send(si, `{"del":{"id":"`+id+`","topic":"`+sc.topic+`","what":"topic","hard":true}}`)
			// either the hub reaches the store call (and is held there), or the request ends without it
			hang := "HANG delete neither reached the store nor ended"
			deadline := time.Now().Add(20 * time.Second)
			okCount := 0
			for time.Now().Before(deadline) {
				select {
				case <-entered:
					x.delSid, x.delFlt = si, flt
				default:
				}
				if x.delSid != 0 {
					hang = xWaitQuietWindow([]string{sc.topic})
					break
				}
				runtime.Gosched()
				if q, _ := vQuiescent(quiet); q {
					okCount++
					if okCount >= 3 && len(entered) == 0 {
						hang = ""
						break
					}
				} else {
					okCount = 0
				}
				time.Sleep(50 * time.Microsecond)
			}
			if x.delSid == 0 {
				memverif.SetHook("TopicDelete", nil)
			}
			x.tail(hang, "N")
		} else {
			x.tail("", "N")
		}
	case "delend":
		x.begin("N")
		dflt := "N"
		hang := ""
		if x.delSid != 0 {
			dflt = x.delFlt
			hang = x.closeWindow()
		}
		x.tail(hang, dflt)
	case "suspend":
		id := x.begin(flt)
		state := "ok"
		if a[1] == "1" {
			state = "susp"
		}
		x.admin.s.dispatchRaw([]byte(`{"acc":{"id":"` + id + `","user":"` + sc.uids[at(0)].UserId() + `","status":"` + state + `"}}`))
		hang := vWaitQuiet(quiet)
		for _, m := range x.admin.take() {
			if os.Getenv("VERIF_DEBUG") != "" {
				fmt.Fprintf(sc.out, "# admin %s\n", sc.frame(m))
			}
		}
		x.tail(hang, flt)
	case "subme", "subfnd":
		id := x.begin("N")
		sc.send(at(0), `{"sub":{"id":"`+id+`","topic":"`+kind[3:]+`"}}`)
		x.tail(vWaitQuiet(quiet), "N")
	case "pubme", "pubfnd", "pubsys":
		id := x.begin(flt)
		sc.send(at(0), `{"pub":{"id":"`+id+`","topic":"`+kind[3:]+`","content":`+a[1]+`}}`)
		hang := vWaitQuiet(quiet)
		if kind == "pubsys" {
			// message numbers of 'sys' are reported relative to the start of the scenario
			for _, vs := range sc.sess {
				vs.mu.Lock()
				for _, m := range vs.frames {
					if m.Ctrl != nil {
						if p, ok := m.Ctrl.Params.(map[string]any); ok {
							if v, ok := p["seq"].(int); ok {
								p["seq"] = v - x.sysBase
							}
						}
					}
					if m.Data != nil {
						m.Data.SeqId -= x.sysBase
					}
				}
				vs.mu.Unlock()
			}
			x.c03xSysPush()
		}
		x.tail(hang, flt)
	case "p2psub", "p2pleave":
		id := x.begin("N")
		if peer, _ := x.c03xPeer(at(0), at(1)); peer != "" {
			sc.send(at(0), `{"`+kind[3:]+`":{"id":"`+id+`","topic":"`+peer+`"}}`)
		}
		x.tail(vWaitQuiet(quiet), "N")
	case "p2ppub":
		peer, _ := x.c03xPeer(at(0), at(1))
		if peer == "" {
			// not a party: nothing is sent, nothing happens (whatever the fault plan says)
			x.begin("N")
			x.tail(vWaitQuiet(quiet), "N")
			return
		}
		id := x.begin(flt)
		ne := ""
		if a[3] == "1" {
			ne = `,"noecho":true`
		}
		sc.send(at(0), `{"pub":{"id":"`+id+`","topic":"`+peer+`","content":`+a[2]+ne+`}}`)
		x.tail(vWaitQuiet(quiet), flt)
	case "osetx":
		x.c03ozSetOp(flt, at(0), 0, at(1), a[2], a[3])
	case "p2posetx":
		x.c03ozSetOp(flt, at(0), at(1), 0, a[2], a[3])
	case "p2punload":
		x.begin("N")
		if k := at(0); k >= 1 && k <= len(x.p2p) {
			if t := globals.hub.topicGet(x.p2p[k-1].name); t != nil && len(t.sessions) == 0 {
				globals.hub.unreg <- &topicUnreg{rcptTo: x.p2p[k-1].name}
			}
		}
		x.tail(vWaitQuiet(quiet), "N")
	default:
		if x.delSid != 0 {
			// pub inside the window (the pending fault plan belongs to the delete): served by the topic
			// goroutine alone
			id := x.begin("N")
			ne := ""
			if a[2] == "1" {
				ne = `,"noecho":true`
			}
			extra := ""
			if hasObo {
				extra = (&c04xScn{vScn: sc, roots: x.c03ozRoots}).c04xExtra(obo)
			}
			sc.send(at(0), `{"pub":{"id":"`+id+`","topic":"`+sc.topic+`","content":`+a[1]+ne+`}`+extra+`}`)
			x.tail(xWaitQuietWindow([]string{sc.topic}), "N")
			return
		}
		if hasObo {
			(&c04xScn{vScn: sc, roots: x.c03ozRoots}).c04xOp(append([]string{flt, kind}, a...), obo)
		} else {
			sc.op(w)
		}
		if (flt != "N" && flt[0] == 'C') || kind == "restart" {
			x.c03xUnloadP2P()
			xReloadSys()
		}
		x.emitExtra()
	}
}

func (x *x3Scn) xfinish() {
	if x.delSid != 0 {
		x.closeWindow()
	}
	memverif.ClearFault()
	// un-suspend everybody: the accounts are never reused, but topics of later scenarios must not inherit anything
	for _, uid := range x.uids {
		if u, err := store.Users.Get(uid); err == nil && u != nil && u.State == types.StateSuspended {
			store.Users.UpdateState(uid, types.StateOK)
		}
	}
	x.admin.s.cleanUp(true)
	<-x.admin.done
	x.finish()
	vWaitQuiet(x.c03xQuiet())
	x.c03xUnloadP2P()
	// the subscribers of 'sys' of this scenario go with it
	for _, i := range x.sysSubs {
		store.Subs.Delete("sys", x.uids[i])
	}
	if len(x.sysSubs) > 0 {
		xReloadSys()
	}
}

func TestVerifC03x(t *testing.T) {
	vInitServer(t)
	fin, err := os.Open(os.Getenv("VERIF_IN"))
	if err != nil {
		t.Fatal(err)
	}
	defer fin.Close()
	fout, err := os.Create(os.Getenv("VERIF_OUT"))
	if err != nil {
		t.Fatal(err)
	}
	defer fout.Close()
	out := bufio.NewWriterSize(fout, 1<<20)
	defer out.Flush()
	in := bufio.NewScanner(fin)
	in.Buffer(make([]byte, 1<<20), 1<<26)
	if xAdminUid.IsZero() {
		u := &types.User{}
		u.Access.Auth = types.ModeCAuth
		u.Access.Anon = types.ModeNone
		if _, err := store.Users.Create(u, nil); err != nil {
			t.Fatal("admin create: ", err)
		}
		xAdminUid = u.Uid()
	}
	var x *x3Scn
	scnCount := 0
	for in.Scan() {
		w := strings.Fields(in.Text())
		if len(w) == 0 {
			continue
		}
		switch w[0] {
		case "scn":
			scnCount++
			kv := vKV(w[2:])
			sc := &vScn{id: w[1], uids: map[int]types.Uid{}, uidIdx: map[types.Uid]int{}, sess: map[int]*vSess{},
				sessUser: map[int]int{}, out: out}
			sc.topic = "grpVerix" + strconv.Itoa(scnCount) + "x" + strconv.FormatInt(int64(os.Getpid())%100000, 36)
			sc.gen = scnCount
			sc.pending(kv)
			xReloadSys()
			x = &x3Scn{vScn: sc, admin: vNewSession(9000+scnCount, xAdminUid, auth.LevelRoot), c03ozRoots: map[int]bool{}}
			x.sysBase = memverif.DumpTopic("sys").SeqId
			fmt.Fprintf(out, "scn %s\n", w[1])
		case "user":
			kv := vKV(w[2:])
			i, _ := strconv.Atoi(w[1])
			acc, _ := strconv.Atoi(kv["acc"])
			u := &types.User{}
			u.Access.Auth = types.AccessMode(acc)
			u.Access.Anon = types.ModeNone
			if _, err := store.Users.Create(u, nil); err != nil {
				t.Fatal("user create: ", err)
			}
			x.uids[i] = u.Uid()
			x.uidIdx[u.Uid()] = i
			x.maybeCreateTopic(t, i)
		case "subrow":
			kv := vKV(w[2:])
			i, _ := strconv.Atoi(w[1])
			want, _ := strconv.Atoi(kv["want"])
			given, _ := strconv.Atoi(kv["given"])
			if err := store.Subs.Create(&types.Subscription{User: x.uids[i].String(), Topic: x.topic,
				ModeWant: types.AccessMode(want), ModeGiven: types.AccessMode(given)}); err != nil {
				t.Fatal("sub create: ", err)
			}
		case "sysrow":
			i, _ := strconv.Atoi(w[1])
			if err := store.Subs.Create(&types.Subscription{User: x.uids[i].String(), Topic: "sys",
				ModeWant: types.ModeCSys, ModeGiven: types.ModeCSys}); err != nil {
				t.Fatal("sys sub create: ", err)
			}
			x.sysSubs = append(x.sysSubs, i)
			x.sysDirty = true
		case "p2prow":
			kv := vKV(w[4:])
			ia, _ := strconv.Atoi(w[2])
			ib, _ := strconv.Atoi(w[3])
			md := func(k string) types.AccessMode { v, _ := strconv.Atoi(kv[k]); return types.AccessMode(v) }
			name := x.uids[ia].P2PName(x.uids[ib])
			if err := store.Topics.CreateP2P(
				&types.Subscription{User: x.uids[ia].String(), Topic: name, ModeWant: md("wa"), ModeGiven: md("ga")},
				&types.Subscription{User: x.uids[ib].String(), Topic: name, ModeWant: md("wb"), ModeGiven: md("gb")}); err != nil {
				t.Fatal("p2p create: ", err)
			}
			x.p2p = append(x.p2p, c03xP2P{a: ia, b: ib, name: name})
		case "sess":
			si, _ := strconv.Atoi(w[1])
			ui, _ := strconv.Atoi(w[2])
			x.sessUser[si] = ui
			lvl := auth.LevelAuth
			if len(w) > 3 && w[3] == "r" {
				x.c03ozRoots[si] = true
				lvl = auth.LevelRoot
			}
			x.sess[si] = vNewSession(si, x.uids[ui], lvl)
		case "op":
			if x.sysDirty {
				// 'sys' was loaded before its rows of this scenario existed
				xReloadSys()
				x.sysDirty = false
			}
			x.xop(w[1:])
		case "end":
			x.xfinish()
			fmt.Fprintln(out, "end")
			out.Flush()
		}
	}
}
