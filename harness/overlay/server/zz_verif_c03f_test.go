//go:build verif

// C03 (s03f): creation of a peer-to-peer topic by {sub topic=usrX} from the creator's own session
// (auth or anon level) or from a ROOT session with extra.obo / extra.authlevel, followed by
// publishes by the same routes.  One scenario per input line, one answer line per scenario:
//
//	scn <id> A=<auth>,<anon> B=<auth>,<anon> la=<anon|auth> pre=<0..3> ra=<want>,<given> rb=<want>,<given> ops <sid>:<obo>:<xl>:<sub|pub> ...
//
// pre: 0 no topic; 1 topic with B's row only; 2 topic with A's row only; 3 both rows.
// sessions: 0 = A's own (level la), 1 and 3 = ROOT sessions of a third account, 2 = B's own (auth).
// obo: - | x (not a user id) | a | b; xl (extra.authlevel): - | anon | auth | root | junk.
// Per request: "<code> <seq> ex= seq= msgs= sa= sb= ld= last= ca= cb= att=" (the model runner
// r_c03f.ml prints the same for Sys/P2PCreateC03f.v).
package main

import (
	"bufio"
	"fmt"
	"os"
	"sort"
	"strconv"
	"strings"
	"testing"

	"github.com/tinode/chat/server/auth"
	"github.com/tinode/chat/server/db/memverif"
	"github.com/tinode/chat/server/store"
	"github.com/tinode/chat/server/store/types"
)

func c03fPair(s string) (types.AccessMode, types.AccessMode) {
	p := strings.Split(s, ",")
	a, _ := strconv.Atoi(p[0])
	b, _ := strconv.Atoi(p[1])
	return types.AccessMode(a), types.AccessMode(b)
}

func c03fRow(m1, m2 types.AccessMode) string { return fmt.Sprintf("%d/%d", int(m1), int(m2)) }

func c03fState(name string, ua, ub types.Uid, sess []*vSess) string {
	d := memverif.DumpTopic(name)
	sa, sb := "-", "-"
	for _, s := range d.Subs {
		if s.Deleted {
			continue
		}
		if s.User == ua {
			sa = c03fRow(s.Want, s.Given)
		} else if s.User == ub {
			sb = c03fRow(s.Want, s.Given)
		}
	}
	sort.Slice(d.Msgs, func(i, j int) bool { return d.Msgs[i].Seq < d.Msgs[j].Seq })
	var ms []string
	for _, m := range d.Msgs {
		who := "?"
		if m.From == ua {
			who = "a"
		} else if m.From == ub {
			who = "b"
		}
		ms = append(ms, fmt.Sprintf("%d:%s", m.Seq, who))
	}
	st := fmt.Sprintf("ex=%s seq=%d msgs=%s sa=%s sb=%s", vB2s(d.Exists), d.SeqId, strings.Join(ms, ","), sa, sb)
	t := globals.hub.topicGet(name)
	if t == nil {
		return st + " ld=0 last=0 ca=- cb=- att="
	}
	ca, cb := "-", "-"
	if p, ok := t.perUser[ua]; ok {
		ca = c03fRow(p.modeWant, p.modeGiven)
	}
	if p, ok := t.perUser[ub]; ok {
		cb = c03fRow(p.modeWant, p.modeGiven)
	}
	var at []string
	for i, vs := range sess {
		if pssd, ok := t.sessions[vs.s]; ok {
			who := "?"
			if pssd.uid == ua {
				who = "a"
			} else if pssd.uid == ub {
				who = "b"
			}
			at = append(at, fmt.Sprintf("%d:%s", i, who))
		}
	}
	return st + fmt.Sprintf(" ld=1 last=%d ca=%s cb=%s att=%s", t.lastID, ca, cb, strings.Join(at, ","))
}

func c03fScenario(t *testing.T, w []string) string {
	kv := map[string]string{}
	opsAt := len(w)
	for i, x := range w {
		if x == "ops" {
			opsAt = i
			break
		}
		if j := strings.Index(x, "="); j > 0 {
			kv[x[:j]] = x[j+1:]
		}
	}
	mk := func(defs string) types.Uid {
		u := &types.User{}
		if defs != "" {
			u.Access.Auth, u.Access.Anon = c03fPair(defs)
		}
		if _, err := store.Users.Create(u, nil); err != nil {
			t.Fatal("user create: ", err)
		}
		return u.Uid()
	}
	ua, ub, ur := mk(kv["A"]), mk(kv["B"]), mk("")
	name := ua.P2PName(ub)
	pre, _ := strconv.Atoi(kv["pre"])
	if pre > 0 {
		wa, ga := c03fPair(kv["ra"])
		wb, gb := c03fPair(kv["rb"])
		if err := store.Topics.CreateP2P(
			&types.Subscription{User: ua.String(), Topic: name, ModeWant: wa, ModeGiven: ga},
			&types.Subscription{User: ub.String(), Topic: name, ModeWant: wb, ModeGiven: gb}); err != nil {
			t.Fatal("p2p create: ", err)
		}
		if pre == 1 {
			if err := store.Subs.Delete(name, ua); err != nil {
				t.Fatal("sub delete: ", err)
			}
		} else if pre == 2 {
			if err := store.Subs.Delete(name, ub); err != nil {
				t.Fatal("sub delete: ", err)
			}
		}
	}
	la := auth.LevelAuth
	if kv["la"] == "anon" {
		la = auth.LevelAnon
	}
	sess := []*vSess{vNewSession(0, ua, la), vNewSession(1, ur, auth.LevelRoot), vNewSession(2, ub, auth.LevelAuth),
		vNewSession(3, ur, auth.LevelRoot)}
	quiet := []string{name}
	var res []string
	for k, o := range w[min(opsAt+1, len(w)):] {
		p := strings.Split(o, ":")
		si, _ := strconv.Atoi(p[0])
		// the acting user decides how the topic is addressed: usr<peer>
		acting := sess[si].s.uid
		extra := ""
		switch p[1] {
		case "x":
			extra = `"obo":"nobody"`
		case "a":
			extra = `"obo":"` + ua.UserId() + `"`
			acting = ua
		case "b":
			extra = `"obo":"` + ub.UserId() + `"`
			acting = ub
		}
		if p[2] != "-" {
			if extra != "" {
				extra += ","
			}
			extra += `"authlevel":"` + p[2] + `"`
		}
		if extra != "" {
			extra = `,"extra":{` + extra + `}`
		}
		peer := ub
		if acting == ub {
			peer = ua
		}
		id := fmt.Sprintf("q%d", k)
		for _, vs := range sess {
			vs.take()
		}
		if p[3] == "sub" {
			sess[si].s.dispatchRaw([]byte(`{"sub":{"id":"` + id + `","topic":"` + peer.UserId() + `"}` + extra + `}`))
		} else {
			sess[si].s.dispatchRaw([]byte(`{"pub":{"id":"` + id + `","topic":"` + peer.UserId() + `","content":7}` + extra + `}`))
		}
		hang := vWaitQuiet(quiet)
		code, seq := "none", "-"
		for _, m := range sess[si].take() {
			if m.Ctrl != nil && (m.Ctrl.Id == id || m.Ctrl.Id == "") {
				code = strconv.Itoa(m.Ctrl.Code)
				if pm, ok := m.Ctrl.Params.(map[string]any); ok {
					if v, ok := pm["seq"]; ok {
						seq = vNum(v)
					}
				}
			}
		}
		if hang != "" {
			code = "HANG"
		}
		res = append(res, code+" "+seq+" "+c03fState(name, ua, ub, sess))
	}
	// clean up: connections gone, topic out of memory
	for _, vs := range sess {
		vWaitQuiet(quiet)
		vs.s.cleanUp(true)
		<-vs.done
	}
	vWaitQuiet(quiet)
	if tt := globals.hub.topicGet(name); tt != nil {
		globals.hub.unreg <- &topicUnreg{rcptTo: name}
	}
	vWaitQuiet(quiet)
	return "scn " + w[1] + " | " + strings.Join(res, " | ")
}

func TestVerifC03fP2PCreate(t *testing.T) {
	vInitServer(t)
	fin, err := os.Open(os.Getenv("VERIF_IN"))
	if err != nil {
		t.Fatal(err)
	}
	defer fin.Close()
	fout, err := os.Create(os.Getenv("VERIF_OUT"))
	if err != nil {
		t.Fatal(err)
	}
	defer fout.Close()
	out := bufio.NewWriterSize(fout, 1<<20)
	defer out.Flush()
	in := bufio.NewScanner(fin)
	in.Buffer(make([]byte, 1<<20), 1<<26)
	for in.Scan() {
		w := strings.Fields(in.Text())
		if len(w) < 2 || w[0] != "scn" {
			continue
		}
		fmt.Fprintln(out, c03fScenario(t, w))
		out.Flush()
	}
}
