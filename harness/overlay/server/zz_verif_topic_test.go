//go:build verif

// Topic-history driver: runs scenarios (tools/props/topiclib.py) against the REAL hub,
// topic goroutines, sessions and store mappers above the in-memory adapter memverif,
// one client request at a time through Session.dispatchRaw, waiting for sound
// quiescence after each, and prints the canonical per-request blocks that the model
// runner (harness/runner/r_topic.ml) prints for the same scenario.
package main

import (
	"bufio"
	"encoding/json"
	"fmt"
	"io"
	"os"
	"regexp"
	"runtime"
	"sort"
	"strconv"
	"strings"
	"sync"
	"testing"
	"time"

	"github.com/tinode/chat/server/auth"
	"github.com/tinode/chat/server/db/memverif"
	"github.com/tinode/chat/server/logs"
	"github.com/tinode/chat/server/store"
	"github.com/tinode/chat/server/store/types"
)

// ---- sessions whose send/detach channels are drained by the driver ----

type vSess struct {
	s      *Session
	idx    int
	mu     sync.Mutex
	frames []*ServerComMessage
	raw    [][]byte
	done   chan bool
}

func (vs *vSess) loop() {
	s := vs.s
	for {
		select {
		case m, ok := <-s.send:
			if !ok {
				close(vs.done)
				return
			}
			vs.mu.Lock()
			switch v := m.(type) {
			case *ServerComMessage:
				vs.frames = append(vs.frames, v)
			case []*ServerComMessage:
				vs.frames = append(vs.frames, v...)
			case []byte:
				vs.raw = append(vs.raw, v)
			}
			vs.mu.Unlock()
		case topic := <-s.detach:
			s.delSub(topic)
		case data := <-s.stop:
			// hdl_websock.go writeLoop: the stop payload (e.g. the eviction notice) is written to the
			// socket, whatever is still queued on s.send is NOT; record it as the session's last frame
			if b, ok := data.([]byte); ok && len(b) > 0 {
				var m ServerComMessage
				if json.Unmarshal(b, &m) == nil {
					vs.mu.Lock()
					vs.frames = append(vs.frames, &m)
					vs.mu.Unlock()
				}
			}
			close(vs.done)
			return
		}
	}
}

func (vs *vSess) take() []*ServerComMessage {
	vs.mu.Lock()
	defer vs.mu.Unlock()
	f := vs.frames
	vs.frames = nil
	vs.raw = nil
	return f
}

func vNewSession(idx int, uid types.Uid, lvl auth.Level) *vSess {
	s := &Session{
		proto:        WEBSOCK,
		sid:          fmt.Sprintf("vs%d_%d", idx, time.Now().UnixNano()),
		uid:          uid,
		authLvl:      lvl,
		ver:          (0 << 8) | 22,
		userAgent:    "",
		subs:         make(map[string]*Subscription),
		send:         make(chan any, 4096),
		stop:         make(chan any, 1),
		detach:       make(chan string, 64),
		inflightReqs: newBoundedWaitGroup(1),
		lastTouched:  time.Now(),
	}
	s.bkgTimer = time.NewTimer(time.Hour)
	s.bkgTimer.Stop()
	vs := &vSess{s: s, idx: idx, done: make(chan bool)}
	go vs.loop()
	return vs
}

// ---- sound quiescence ----

var vGoroutineHdr = regexp.MustCompile(`(?m)^goroutine (\d+) \[([^\]]+)\]:`)

// vQuiescent: every goroutine other than the caller is parked in a state from which only
// new input can wake it, and the hub/topic queues are empty.
func vQuiescent(topics []string) (bool, string) {
	buf := make([]byte, 1<<20)
	n := runtime.Stack(buf, true)
	txt := string(buf[:n])
	first := true
	for _, m := range vGoroutineHdr.FindAllStringSubmatch(txt, -1) {
		if first {
			first = false // the calling goroutine
			continue
		}
		state := m[2]
		if i := strings.Index(state, ","); i >= 0 {
			state = state[:i]
		}
		switch state {
		case "select", "chan receive", "sleep", "IO wait", "sync.Cond.Wait", "select (no cases)",
			"chan receive (nil chan)", "finalizer wait", "GC worker (idle)", "GC sweep wait", "GC scavenge wait",
			"syscall", "force gc (idle)", "debug call", "timer goroutine (idle)", "sync.WaitGroup.Wait":
		default:
			return false, "goroutine " + m[1] + " " + state
		}
	}
	h := globals.hub
	if len(h.join)+len(h.routeCli)+len(h.routeSrv)+len(h.meta)+len(h.unreg)+len(h.userStatus) > 0 {
		return false, "hub queues"
	}
	for _, name := range topics {
		if t := h.topicGet(name); t != nil {
			if len(t.reg)+len(t.unreg)+len(t.clientMsg)+len(t.serverMsg)+len(t.meta)+len(t.exit) > 0 {
				return false, "topic queues " + name
			}
			if t.supd != nil && len(t.supd) > 0 {
				return false, "topic supd " + name
			}
		}
	}
	return true, ""
}

func vWaitQuiet(topics []string) string {
	deadline := time.Now().Add(20 * time.Second)
	okCount := 0
	why := ""
	for time.Now().Before(deadline) {
		runtime.Gosched()
		q, w := vQuiescent(topics)
		if q {
			okCount++
			if okCount >= 2 {
				return ""
			}
			continue
		}
		okCount = 0
		why = w
		time.Sleep(50 * time.Microsecond)
	}
	return "HANG " + why
}

// ---- scenario state ----

type vScn struct {
	id       string
	uids     map[int]types.Uid
	uidIdx   map[types.Uid]int
	topic    string
	sess     map[int]*vSess
	sessUser map[int]int
	opi      int
	out      *bufio.Writer
	gen      int
}

func (sc *vScn) uidx(userId string) int {
	u := types.ParseUserId(userId)
	if u.IsZero() {
		u = types.ParseUid(userId)
	}
	if i, ok := sc.uidIdx[u]; ok {
		return i
	}
	return 0
}

func vKV(ws []string) map[string]string {
	m := map[string]string{}
	for _, w := range ws {
		if i := strings.Index(w, "="); i >= 0 {
			m[w[:i]] = w[i+1:]
		}
	}
	return m
}

func vModeStr(m types.AccessMode) string {
	if m == types.ModeInvalid {
		return "-"
	}
	if m&types.ModeBitmask == 0 && m&types.ModeUnset != 0 {
		return ""
	}
	return (m & types.ModeBitmask).String()
}

func vIds(rs []MsgDelRange) string {
	var ids []string
	for _, r := range rs {
		if r.HiId == 0 {
			ids = append(ids, strconv.Itoa(r.LowId))
		} else {
			for i := r.LowId; i < r.HiId; i++ {
				ids = append(ids, strconv.Itoa(i))
			}
		}
	}
	return strings.Join(ids, ",")
}

func vNum(v any) string {
	switch x := v.(type) {
	case int:
		return strconv.Itoa(x)
	case float64:
		return strconv.Itoa(int(x))
	case string:
		return x
	case bool:
		if x {
			return "1"
		}
		return "0"
	}
	return fmt.Sprint(v)
}

// canonical rendering of one frame as seen by one session
func (sc *vScn) frame(m *ServerComMessage) string {
	switch {
	case m.Ctrl != nil:
		res := "ctrl " + strconv.Itoa(m.Ctrl.Code)
		var params map[string]any
		switch p := m.Ctrl.Params.(type) {
		case map[string]any:
			params = p
		case map[string]int:
			params = map[string]any{}
			for k, v := range p {
				params[k] = v
			}
		case map[string]string:
			params = map[string]any{}
			for k, v := range p {
				params[k] = v
			}
		}
		for _, k := range []string{"seq", "del", "what", "count"} {
			if v, ok := params[k]; ok {
				res += " " + k + "=" + vNum(v)
			}
		}
		if v, ok := params["acs"]; ok {
			if a, ok := v.(*MsgAccessMode); ok {
				res += " acs=" + a.Want + "/" + a.Given
			} else if a, ok := v.(MsgAccessMode); ok {
				res += " acs=" + a.Want + "/" + a.Given
			}
		}
		if v, ok := params["user"]; ok {
			res += " user=" + strconv.Itoa(sc.uidx(vNum(v)))
		}
		if v, ok := params["unsub"]; ok {
			res += " unsub=" + vNum(v)
		}
		return res
	case m.Data != nil:
		return fmt.Sprintf("data seq=%d from=%d content=%s", m.Data.SeqId, sc.uidx(m.Data.From), vNum(m.Data.Content))
	case m.Meta != nil:
		if m.Meta.Desc != nil {
			d := m.Meta.Desc
			acs := "-/-"
			if d.Acs != nil && (d.Acs.Want != "" || d.Acs.Given != "") {
				acs = d.Acs.Want + "/" + d.Acs.Given
			}
			return fmt.Sprintf("desc acs=%s seq=%d read=%d recv=%d del=%d", acs, d.SeqId, d.ReadSeqId, d.RecvSeqId, d.DelId)
		}
		if m.Meta.Sub != nil {
			var rows []string
			type row struct {
				u int
				s string
			}
			var rr []row
			for _, s := range m.Meta.Sub {
				acs := s.Acs.Want + "/" + s.Acs.Given
				if s.Acs.Want == "" && s.Acs.Given == "" && s.Acs.Mode == "" {
					acs = "-/-"
				}
				u := sc.uidx(s.User)
				rr = append(rr, row{u, fmt.Sprintf("%d:%s:%d:%d:%d", u, acs, s.ReadSeqId, s.RecvSeqId, s.DelId)})
			}
			sort.Slice(rr, func(i, j int) bool { return rr[i].u < rr[j].u })
			for _, r := range rr {
				rows = append(rows, r.s)
			}
			return "sub " + strings.Join(rows, " ")
		}
		if m.Meta.Del != nil {
			return fmt.Sprintf("del delid=%d ids=%s", m.Meta.Del.DelId, vIds(m.Meta.Del.DelSeq))
		}
		if m.Meta.Tags != nil {
			return "tags " + strings.Join(m.Meta.Tags, ",")
		}
		return "meta ?"
	case m.Info != nil:
		return fmt.Sprintf("info what=%s from=%d seq=%d", m.Info.What, sc.uidx(m.Info.From), m.Info.SeqId)
	case m.Pres != nil:
		p := m.Pres
		acs := ""
		if p.Acs != nil {
			acs = " dacs=" + p.Acs.Want + "/" + p.Acs.Given
		}
		src := p.Src
		if i := sc.uidx(p.Src); i != 0 {
			src = "u" + strconv.Itoa(i)
		} else if p.Src == sc.topic {
			src = "T"
		}
		return fmt.Sprintf("pres what=%s src=%s seq=%d del=%d ids=%s tgt=%d act=%d%s", p.What, src, p.SeqId, p.DelId,
			vIds(p.DelSeq), sc.uidx(p.AcsTarget), sc.uidx(p.AcsActor), acs)
	}
	return "frame ?"
}

// push receipts handed to the user cache by sendPush (what=msg only), rendered as frames of "session" 0
func (sc *vScn) emitPush() {
	for {
		select {
		case req := <-globals.usersUpdate:
			if req == nil || req.PushRcpt == nil || req.PushRcpt.Payload.What != "msg" {
				continue
			}
			r := req.PushRcpt
			var to []int
			for uid := range r.To {
				to = append(to, sc.uidIdx[uid])
			}
			sort.Ints(to)
			var ts []string
			for _, i := range to {
				ts = append(ts, strconv.Itoa(i))
			}
			ch := ""
			if r.Channel != "" {
				ch = " chan=" + r.Channel
			}
			fmt.Fprintf(sc.out, "S0 push seq=%d from=%d to=%s%s\n", r.Payload.SeqId, sc.uidx(r.Payload.From), strings.Join(ts, ","), ch)
		default:
			return
		}
	}
}

func (sc *vScn) emitFrames() {
	sc.emitPush()
	idxs := make([]int, 0, len(sc.sess))
	for i := range sc.sess {
		idxs = append(idxs, i)
	}
	sort.Ints(idxs)
	for _, i := range idxs {
		for _, m := range sc.sess[i].take() {
			fmt.Fprintf(sc.out, "S%d %s\n", i, sc.frame(m))
		}
	}
}

// the stored rows of the scenario topic, canonical (same text as r_topic.ml)
func (sc *vScn) emitStore() {
	d := memverif.DumpTopic(sc.topic)
	if !d.Exists {
		fmt.Fprintf(sc.out, "store topic absent\n")
		return
	}
	fmt.Fprintf(sc.out, "store topic seqid=%d delid=%d owner=%d\n", d.SeqId, d.DelId, sc.uidIdx[d.Owner])
	var lines []string
	for _, s := range d.Subs {
		lines = append(lines, fmt.Sprintf("store sub %d %s/%s read=%d recv=%d del=%d deleted=%s", sc.uidIdx[s.User],
			vModeStr(s.Want), vModeStr(s.Given), s.Read, s.Recv, s.DelId, vB2s(s.Deleted)))
	}
	sort.Strings(lines)
	var ml []string
	for _, m := range d.Msgs {
		ml = append(ml, fmt.Sprintf("store msg %05d from=%d content=%s delid=%d", m.Seq, sc.uidIdx[m.From], m.Content, m.DelId))
	}
	sort.Strings(ml)
	lines = append(lines, ml...)
	type key struct {
		delid int
		fu    int
	}
	sets := map[key]map[int]bool{}
	for _, r := range d.Dellog {
		k := key{r.DelId, sc.uidIdx[r.For]}
		if sets[k] == nil {
			sets[k] = map[int]bool{}
		}
		for i := r.Low; i < r.Hi; i++ {
			sets[k][i] = true
		}
	}
	var dl []string
	for k, set := range sets {
		var ids []int
		for i := range set {
			ids = append(ids, i)
		}
		sort.Ints(ids)
		var ss []string
		for _, i := range ids {
			ss = append(ss, strconv.Itoa(i))
		}
		dl = append(dl, fmt.Sprintf("store dellog %05d for=%d ids=%s", k.delid, k.fu, strings.Join(ss, ",")))
	}
	sort.Strings(dl)
	lines = append(lines, dl...)
	for _, l := range lines {
		fmt.Fprintln(sc.out, l)
	}
}

// cache of the loaded topic, read at quiescence (the topic goroutine is parked)
func (sc *vScn) emitCache() {
	t := globals.hub.topicGet(sc.topic)
	if t == nil {
		return
	}
	fmt.Fprintf(sc.out, "cache lastid=%d delid=%d owner=%d\n", t.lastID, t.delID, sc.uidIdx[t.owner])
	var lines []string
	for uid, p := range t.perUser {
		lines = append(lines, fmt.Sprintf("cache user %d %s/%s read=%d recv=%d del=%d online=%d", sc.uidIdx[uid],
			vModeStr(p.modeWant), vModeStr(p.modeGiven), p.readID, p.recvID, p.delID, p.online))
	}
	sort.Strings(lines)
	var sl []string
	for s, pssd := range t.sessions {
		for i, vs := range sc.sess {
			if vs.s == s {
				sl = append(sl, fmt.Sprintf("cache sess %d user=%d bkg=%s", i, sc.uidIdx[pssd.uid], vB2s(s.background)))
			}
		}
	}
	sort.Strings(sl)
	for _, l := range append(lines, sl...) {
		fmt.Fprintln(sc.out, l)
	}
}

func (sc *vScn) send(si int, msg string) {
	vs := sc.sess[si]
	if vs == nil {
		return
	}
	vs.s.dispatchRaw([]byte(msg))
}

func vHexStr(h string) string { return string(vUnhex(h)) }

func vJSON(v any) string {
	b, _ := json.Marshal(v)
	return string(b)
}

func (sc *vScn) op(w []string) {
	sc.opi++
	fmt.Fprintf(sc.out, "op %d\n", sc.opi)
	flt, kind, a := w[0], w[1], w[2:]
	memverif.ClearFault()
	memverif.ResetCallLog()
	if flt != "N" {
		k, _ := strconv.Atoi(flt[1:])
		memverif.SetFault(k, flt[0] == 'C')
	}
	tn := sc.topic
	id := fmt.Sprintf("%d", sc.opi)
	at := func(i int) int { v, _ := strconv.Atoi(a[i]); return v }
	switch kind {
	case "sub":
		set := ""
		if a[1] != "-" {
			set = `,"set":{"sub":{"mode":` + vJSON(vHexStr(a[1])) + `}}`
		}
		sc.sess[at(0)].s.background = a[2] == "1"
		bkg := ""
		if a[2] == "1" {
			bkg = `,"bkg":true`
		}
		_ = bkg
		sc.send(at(0), `{"sub":{"id":"`+id+`","topic":"`+tn+`"`+set+`}}`)
	case "leave":
		unsub := ""
		if a[1] == "1" {
			unsub = `,"unsub":true`
		}
		sc.send(at(0), `{"leave":{"id":"`+id+`","topic":"`+tn+`"`+unsub+`}}`)
	case "pub":
		ne := ""
		if a[2] == "1" {
			ne = `,"noecho":true`
		}
		sc.send(at(0), `{"pub":{"id":"`+id+`","topic":"`+tn+`","content":`+a[1]+ne+`}}`)
	case "note":
		sc.send(at(0), `{"note":{"topic":"`+tn+`","what":"`+a[1]+`","seq":`+a[2]+`}}`)
	case "getdata", "getdel":
		what := "data"
		if kind == "getdel" {
			what = "del"
		}
		opts := map[string]int{}
		if at(1) != 0 {
			opts["since"] = at(1)
		}
		if at(2) != 0 {
			opts["before"] = at(2)
		}
		if at(3) != 0 {
			opts["limit"] = at(3)
		}
		sc.send(at(0), `{"get":{"id":"`+id+`","topic":"`+tn+`","what":"`+what+`","`+what+`":`+vJSON(opts)+`}}`)
	case "getdesc":
		sc.send(at(0), `{"get":{"id":"`+id+`","topic":"`+tn+`","what":"desc"}}`)
	case "getsub":
		sc.send(at(0), `{"get":{"id":"`+id+`","topic":"`+tn+`","what":"sub"}}`)
	case "delmsg":
		var rs []map[string]int
		if a[2] != "-" {
			for _, p := range strings.Split(a[2], ",") {
				lh := strings.Split(p, ":")
				lo, _ := strconv.Atoi(lh[0])
				hi, _ := strconv.Atoi(lh[1])
				r := map[string]int{}
				if lo != 0 {
					r["low"] = lo
				}
				if hi != 0 {
					r["hi"] = hi
				}
				rs = append(rs, r)
			}
		}
		hard := ""
		if a[1] == "1" {
			hard = `,"hard":true`
		}
		sc.send(at(0), `{"del":{"id":"`+id+`","topic":"`+tn+`","what":"msg","delseq":`+vJSON(rs)+hard+`}}`)
	case "setsub":
		user := ""
		if at(1) != 0 {
			user = `"user":"` + sc.uids[at(1)].UserId() + `",`
		}
		sc.send(at(0), `{"set":{"id":"`+id+`","topic":"`+tn+`","sub":{`+user+`"mode":`+vJSON(vHexStr(a[2]))+`}}}`)
	case "delsub":
		sc.send(at(0), `{"del":{"id":"`+id+`","topic":"`+tn+`","what":"sub","user":"`+sc.uids[at(1)].UserId()+`"}}`)
	case "unload":
		if t := globals.hub.topicGet(tn); t != nil && len(t.sessions) == 0 {
			// what the kill timer does: handleTopicTimeout -> hub.unreg
			globals.hub.unreg <- &topicUnreg{rcptTo: tn}
		}
	case "restart":
		sc.restart()
	}
	hang := vWaitQuiet([]string{tn})
	sc.emitFrames()
	calls0 := memverif.CallLog()
	if flt != "N" && flt[0] == 'C' {
		// the process died: in-memory state is gone
		sc.restart()
		if h2 := vWaitQuiet([]string{tn}); h2 != "" {
			hang = h2
		}
	}
	if hang != "" {
		fmt.Fprintln(sc.out, hang)
	}
	calls := calls0
	fmt.Fprintf(sc.out, "calls %d\n", len(calls))
	fmt.Fprintf(sc.out, "calllog %s\n", strings.Join(calls, " "))
	memverif.ClearFault()
	t := globals.hub.topicGet(sc.topic)
	if t == nil {
		fmt.Fprintln(sc.out, "loaded 0")
	} else {
		fmt.Fprintln(sc.out, "loaded 1")
	}
	sc.emitStore()
	sc.emitCache()
}

// restart: all connections are gone and nothing is in memory; same session numbers come back as new connections
func (sc *vScn) restart() {
	for i, vs := range sc.sess {
		// Session.purgeChannels (for len(s.send) > 0 { <-s.send }) races with this connection's drain loop for the
		// last queued frame and then blocks for ever (a real defect of tinode, see findings/C14.md): let the loop
		// empty the queue first.  The previous cleanUp queues {pres off} on the remaining connections.
		vWaitQuiet([]string{sc.topic})
		vs.s.cleanUp(true)
		<-vs.done
		_ = i
	}
	vWaitQuiet([]string{sc.topic})
	if t := globals.hub.topicGet(sc.topic); t != nil {
		globals.hub.unreg <- &topicUnreg{rcptTo: sc.topic}
	}
	vWaitQuiet([]string{sc.topic})
	for i := range sc.sess {
		sc.sess[i] = vNewSession(i, sc.uids[sc.sessUser[i]], auth.LevelAuth)
	}
}

func (sc *vScn) finish() {
	memverif.ClearFault()
	for _, vs := range sc.sess {
		vWaitQuiet([]string{sc.topic})      // see restart(): purgeChannels races with the drain loop
		vs.s.cleanUp(true)
		<-vs.done
	}
	vWaitQuiet([]string{sc.topic})
	if t := globals.hub.topicGet(sc.topic); t != nil {
		globals.hub.unreg <- &topicUnreg{rcptTo: sc.topic}
	}
	vWaitQuiet([]string{sc.topic})
}

var vStoreOnce sync.Once

func vInitServer(t *testing.T) {
	vStoreOnce.Do(func() {
		// no log writes inside handlers: a goroutine blocked in write(2) would look parked ("syscall") to vQuiescent
		logs.Init(io.Discard, "stdFlags")
		cfg := `{"uid_key":"la6YsO+bNX/+XIkOqc5Svw==","use_adapter":"memverif","adapters":{"memverif":{}}}`
		if err := store.Store.Open(1, json.RawMessage(cfg)); err != nil {
			t.Fatal("store open: ", err)
		}
		globals.maxSubscriberCount = 4
		globals.maxMessageSize = 1 << 18
		globals.maxTagCount = 16
		globals.sessionStore = NewSessionStore(time.Hour)
		globals.usersUpdate = make(chan *UserCacheReq, 1<<16)
		globals.hub = newHub()
		vWaitQuiet(nil)
	})
}

func TestVerifTopic(t *testing.T) {
	vInitServer(t)
	fin, err := os.Open(os.Getenv("VERIF_IN"))
	if err != nil {
		t.Fatal(err)
	}
	defer fin.Close()
	fout, err := os.Create(os.Getenv("VERIF_OUT"))
	if err != nil {
		t.Fatal(err)
	}
	defer fout.Close()
	out := bufio.NewWriterSize(fout, 1<<20)
	defer out.Flush()
	in := bufio.NewScanner(fin)
	in.Buffer(make([]byte, 1<<20), 1<<26)
	var sc *vScn
	scnCount := 0
	for in.Scan() {
		w := strings.Fields(in.Text())
		if len(w) == 0 {
			continue
		}
		switch w[0] {
		case "scn":
			scnCount++
			kv := vKV(w[2:])
			sc = &vScn{id: w[1], uids: map[int]types.Uid{}, uidIdx: map[types.Uid]int{}, sess: map[int]*vSess{},
				sessUser: map[int]int{}, out: out}
			sc.topic = "grpVerif" + strconv.Itoa(scnCount) + "x" + strconv.FormatInt(time.Now().UnixNano()%1000000, 36)
			sc.gen = scnCount
			// the owner is created when its "user" line arrives; remember the topic parameters
			sc.pending(kv)
			fmt.Fprintf(out, "scn %s\n", w[1])
		case "user":
			kv := vKV(w[2:])
			i, _ := strconv.Atoi(w[1])
			acc, _ := strconv.Atoi(kv["acc"])
			u := &types.User{}
			u.Access.Auth = types.AccessMode(acc)
			u.Access.Anon = types.ModeNone
			if _, err := store.Users.Create(u, nil); err != nil {
				t.Fatal("user create: ", err)
			}
			sc.uids[i] = u.Uid()
			sc.uidIdx[u.Uid()] = i
			sc.maybeCreateTopic(t, i)
		case "subrow":
			kv := vKV(w[2:])
			i, _ := strconv.Atoi(w[1])
			want, _ := strconv.Atoi(kv["want"])
			given, _ := strconv.Atoi(kv["given"])
			if err := store.Subs.Create(&types.Subscription{User: sc.uids[i].String(), Topic: sc.topic,
				ModeWant: types.AccessMode(want), ModeGiven: types.AccessMode(given)}); err != nil {
				t.Fatal("sub create: ", err)
			}
		case "sess":
			si, _ := strconv.Atoi(w[1])
			ui, _ := strconv.Atoi(w[2])
			sc.sessUser[si] = ui
			sc.sess[si] = vNewSession(si, sc.uids[ui], auth.LevelAuth)
		case "op":
			sc.op(w[1:])
		case "end":
			sc.finish()
			fmt.Fprintln(out, "end")
			out.Flush()
		}
	}
}

var vPending = map[*vScn]map[string]string{}

func (sc *vScn) pending(kv map[string]string) { vPending[sc] = kv }

func (sc *vScn) maybeCreateTopic(t *testing.T, userIdx int) {
	kv := vPending[sc]
	if kv == nil {
		return
	}
	owner, _ := strconv.Atoi(kv["owner"])
	if owner != userIdx {
		return
	}
	delete(vPending, sc)
	authM, _ := strconv.Atoi(kv["auth"])
	anonM, _ := strconv.Atoi(kv["anon"])
	ow, _ := strconv.Atoi(kv["ownerwant"])
	og, _ := strconv.Atoi(kv["ownergiven"])
	now := types.TimeNow()
	stopic := &types.Topic{
		ObjHeader: types.ObjHeader{Id: sc.topic, CreatedAt: now},
		Access:    types.DefaultAccess{Auth: types.AccessMode(authM), Anon: types.AccessMode(anonM)},
	}
	stopic.GiveAccess(sc.uids[owner], types.AccessMode(ow), types.AccessMode(og))
	if err := store.Topics.Create(stopic, sc.uids[owner], nil); err != nil {
		t.Fatal("topic create: ", err)
	}
}
