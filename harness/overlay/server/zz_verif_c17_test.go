//go:build verif

// C17 election driver: several REAL Cluster values in one process.
//
// Every node runs the real Cluster.run loop in its own goroutine; health checks and
// vote requests reach it through the real RPC entry points Cluster.Health and
// Cluster.Vote (hence through the real channels).  A heartbeat tick is injected by
// calling what the ticker case calls with vote_after = 1: sendHealthChecks() when
// the node believes it is the leader, electLeader() otherwise (the real ticker is
// set to an hour).  ClusterNode.endpoint is a real rpc.Client over a scripted
// ClientCodec: outgoing Cluster.Vote / Cluster.Health calls are captured, and the
// script decides which are delivered, in which order, which are lost and which
// fail with an error.
//
// request:  one script per line:  <n> <failLimit> <event> <event> ...
//   T<i>:<delivered>:<ok>   tick at node i; if it is leader: digits of the peers that get the
//                           check / for which the call returns nil ('-' = none)
//   Q<c>,<t>,<m>  m's loop takes c's vote request of term t     P<c>,<t>,<m>  c takes m's reply
//   X<c>,<t>,<m>  request or reply lost                           E<c>,<t>,<m>  the call fails with an error
//   H<k> / D<k>   deliver / drop the k-th health check in flight
//   R<i>:<kind>:<session>:<obo>:<shape>   a client request dispatched by the real Session.dispatch on node i
//                 (zz_verif_c17b_test.go)
// answer:   after every event  "<term>,<leader>,<ring class>,<partitioned>,<active nodes>" per node,
//           nodes separated by ';', events by '|'.  A node whose run loop panicked ends the line with PANIC.
//           Suffix of a delivery: '#H:<to>,<leader>,<term>,<signature equals the receiver's before>,<nodes>,
//           <receiver's ring afterwards is the ring of these nodes>' ('#H:-' nothing delivered),
//           '#Q:<granted>,<term of the reply>' ('#Q:-' not delivered), '#R:...' see zz_verif_c17b_test.go.
package main

import (
	"errors"
	"fmt"
	"io"
	"net/rpc"
	"sort"
	"strconv"
	"strings"
	"sync"
	"time"

	"github.com/tinode/chat/server/logs"
)

func init() { verifHandlers["c17"] = c17Election }

var c17LogOnce sync.Once

type c17Resp struct {
	seq  uint64
	err  string
	vote ClusterVoteResponse
}

type c17Call struct {
	state int // 1 request in flight, 2 reply in flight, 3 finished
	seq   uint64
	codec *c17Codec
	req   ClusterVoteRequest
	resp  c17Resp
}

type c17H struct {
	to string
	h  *ClusterHealth
}

type c17Net struct {
	mu        sync.Mutex
	names     []string
	cl        map[string]*Cluster
	electing  map[string]chan struct{}
	calls     map[string]*c17Call
	hnet      []c17H
	delivered map[string]bool
	ok        map[string]bool
	panicked  map[string]string
	dirty     bool
}

type c17Codec struct {
	net      *c17Net
	from, to string
	respCh   chan c17Resp
	cur      c17Resp
	closed   chan struct{}
	once     sync.Once
}

func c17Key(c string, t int, m string) string { return c + "," + strconv.Itoa(t) + "," + m }

func (k *c17Codec) WriteRequest(r *rpc.Request, body any) error {
	k.net.mu.Lock()
	defer k.net.mu.Unlock()
	switch r.ServiceMethod {
	case "Cluster.Health":
		h := body.(*ClusterHealth)
		cp := &ClusterHealth{Leader: h.Leader, Term: h.Term, Signature: h.Signature, Nodes: append([]string{}, h.Nodes...)}
		if k.net.delivered[k.to] {
			k.net.hnet = append(k.net.hnet, c17H{to: k.to, h: cp})
		}
		if k.net.ok[k.to] {
			k.respCh <- c17Resp{seq: r.Seq}
		} else {
			k.respCh <- c17Resp{seq: r.Seq, err: "verif: call failed"}
			k.net.dirty = true
		}
	case "Cluster.Vote":
		v := body.(*ClusterVoteRequest)
		k.net.calls[c17Key(k.from, v.Term, k.to)] = &c17Call{state: 1, seq: r.Seq, codec: k, req: *v}
	default:
		k.respCh <- c17Resp{seq: r.Seq, err: "verif: unexpected call " + r.ServiceMethod}
	}
	return nil
}

func (k *c17Codec) ReadResponseHeader(r *rpc.Response) error {
	select {
	case x := <-k.respCh:
		k.cur = x
		r.Seq = x.seq
		r.Error = x.err
		return nil
	case <-k.closed:
		return io.EOF
	}
}

func (k *c17Codec) ReadResponseBody(body any) error {
	if v, ok := body.(*ClusterVoteResponse); ok && v != nil {
		*v = k.cur.vote
	}
	return nil
}

func (k *c17Codec) Close() error {
	k.once.Do(func() { close(k.closed) })
	return nil
}

func (nt *c17Net) connect(from string, n *ClusterNode) {
	codec := &c17Codec{net: nt, from: from, to: n.name, respCh: make(chan c17Resp, 64), closed: make(chan struct{})}
	n.lock.Lock()
	n.endpoint = rpc.NewClientWithCodec(codec)
	n.connected = true
	n.lock.Unlock()
}

// the transport is up again before every event (a failed call closes the endpoint)
func (nt *c17Net) reconnectAll() {
	if nt.dirty {
		// a failed call closes the endpoint; calls still pending on it then fail asynchronously
		// and their handler (handleRpcResponse) marks the node disconnected once more: let them finish
		vWaitQuiet(nil)
		nt.dirty = false
	}
	for _, name := range nt.names {
		for _, n := range nt.cl[name].nodes {
			n.lock.Lock()
			conn := n.connected
			n.lock.Unlock()
			if !conn {
				nt.connect(name, n)
			}
		}
	}
}

func c17Idx(s string) int { return int(vAtoi(s)) }

func (nt *c17Net) isElecting(name string) bool {
	ch := nt.electing[name]
	if ch == nil {
		return false
	}
	select {
	case <-ch:
		nt.electing[name] = nil
		return false
	default:
		return true
	}
}

// wait until the run loop of the node has handled everything sent to it so far: a vote
// request of term 0 is always answered "no" without any state change, after what precedes it
func (nt *c17Net) barrier(name string) bool {
	res := make(chan bool, 1)
	go func() {
		var resp ClusterVoteResponse
		nt.cl[name].Vote(&ClusterVoteRequest{Node: "barrier", Term: 0}, &resp)
		res <- true
	}()
	for i := 0; i < 30000; i++ {
		select {
		case <-res:
			return true
		case <-time.After(time.Millisecond):
			nt.mu.Lock()
			_, dead := nt.panicked[name]
			nt.mu.Unlock()
			if dead {
				return false
			}
		}
	}
	return false
}

func (nt *c17Net) observe() string {
	var parts []string
	classes := map[string]int{}
	for _, name := range nt.names {
		c := nt.cl[name]
		sig := c.ring.Signature()
		if _, ok := classes[sig]; !ok {
			classes[sig] = len(classes)
		}
		act := append([]string{}, c.fo.activeNodes...)
		sort.Strings(act)
		for i := range act {
			act[i] = act[i][1:]
		}
		leader := "-"
		if c.fo.leader != "" {
			leader = c.fo.leader[1:]
		}
		parts = append(parts, fmt.Sprintf("%d,%s,s%d,%s,%s", c.fo.term, leader, classes[sig], vB2s(c.isPartitioned()), strings.Join(act, "")))
	}
	return strings.Join(parts, ";")
}

func c17Election(w []string) string {
	n := c17Idx(w[0])
	failLimit := c17Idx(w[1])
	c17LogOnce.Do(func() {
		// no log writes inside handlers: a goroutine blocked in write(2) on the stderr pipe looks parked
		// ("syscall") to vQuiescent, and the observation would be taken before electLeader has finished
		logs.Init(io.Discard, "stdFlags")
	})
	if globals.hub == nil {
		globals.hub = &Hub{rehash: make(chan bool), topics: &sync.Map{}}
		go func() {
			for range globals.hub.rehash {
			}
		}()
	}
	nt := &c17Net{cl: map[string]*Cluster{}, electing: map[string]chan struct{}{}, calls: map[string]*c17Call{},
		delivered: map[string]bool{}, ok: map[string]bool{}, panicked: map[string]string{}}
	for i := 0; i < n; i++ {
		nt.names = append(nt.names, "n"+strconv.Itoa(i))
	}
	for _, name := range nt.names {
		c := &Cluster{thisNodeName: name, nodes: map[string]*ClusterNode{}}
		for _, other := range nt.names {
			if other != name {
				c.nodes[other] = &ClusterNode{name: other, done: make(chan bool, 1), msess: map[string]struct{}{}}
			}
		}
		if !c.failoverInit(&clusterFailoverConfig{Enabled: true, Heartbeat: 3600000, VoteAfter: 1, NodeFailAfter: failLimit}) {
			return "failoverInit refused"
		}
		nt.cl[name] = c
		for _, nd := range c.nodes {
			nt.connect(name, nd)
		}
		go func(c *Cluster, name string) {
			defer func() {
				if r := recover(); r != nil {
					nt.mu.Lock()
					nt.panicked[name] = fmt.Sprint(r)
					nt.mu.Unlock()
				}
			}()
			c.run()
		}(c, name)
	}
	defer func() {
		for _, name := range nt.names {
			c := nt.cl[name]
			nt.mu.Lock()
			_, dead := nt.panicked[name]
			nt.mu.Unlock()
			if !dead {
				select {
				case c.fo.done <- true:
				default:
				}
			}
			for _, nd := range c.nodes {
				select {
				case nd.done <- true:
				default:
				}
				nd.lock.Lock()
				if nd.endpoint != nil {
					nd.endpoint.Close()
				}
				nd.lock.Unlock()
			}
		}
	}()

	var out []string
	for _, ev := range w[2:] {
		nt.reconnectAll()
		kind, arg := ev[0], ev[1:]
		suffix := ""
		switch kind {
		case 'R':
			f := strings.Split(arg, ":")
			c := nt.cl["n"+f[0]]
			if c == nil {
				return "bad event " + ev
			}
			suffix = c17bClientRequest(c, arg)
		case 'T':
			f := strings.Split(arg, ":")
			name := "n" + f[0]
			if nt.isElecting(name) {
				break
			}
			c := nt.cl[name]
			nt.mu.Lock()
			nt.delivered, nt.ok = map[string]bool{}, map[string]bool{}
			for _, d := range f[1] {
				if d != '-' {
					nt.delivered["n"+string(d)] = true
				}
			}
			for _, d := range f[2] {
				if d != '-' {
					nt.ok["n"+string(d)] = true
				}
			}
			nt.mu.Unlock()
			if !nt.barrier(name) {
				break
			}
			if c.fo.leader == c.thisNodeName {
				// sendHealthChecks ranges over a map: the calls are made in random order, the
				// script fixes the outcome per peer, so the order does not matter
				nt.mu.Lock()
				before := len(nt.hnet)
				nt.mu.Unlock()
				c.sendHealthChecks()
				nt.mu.Lock()
				tail := nt.hnet[before:]
				sort.Slice(tail, func(i, j int) bool { return tail[i].to < tail[j].to })
				nt.mu.Unlock()
			} else {
				done := make(chan struct{})
				newTerm := c.fo.term + 1
				nt.electing[name] = done
				go func() {
					c.electLeader()
					close(done)
				}()
				// electLeader has issued all requests when every peer has a captured call
				for i := 0; i < 300000; i++ {
					nt.mu.Lock()
					cnt := 0
					for _, other := range nt.names {
						if cl := nt.calls[c17Key(name, newTerm, other)]; cl != nil {
							cnt++
						}
					}
					nt.mu.Unlock()
					if cnt == n-1 {
						break
					}
					time.Sleep(100 * time.Microsecond)
				}
			}
		case 'Q', 'P', 'X', 'E':
			f := strings.Split(arg, ",")
			cand, term, m := "n"+f[0], c17Idx(f[1]), "n"+f[2]
			nt.mu.Lock()
			call := nt.calls[c17Key(cand, term, m)]
			nt.mu.Unlock()
			if kind == 'Q' {
				suffix = "#Q:-"
			}
			if call == nil {
				break
			}
			switch kind {
			case 'Q':
				if call.state != 1 || nt.isElecting(m) {
					break
				}
				var resp ClusterVoteResponse
				req := call.req
				done := make(chan bool, 1)
				go func() { nt.cl[m].Vote(&req, &resp); done <- true }()
				select {
				case <-done:
				case <-time.After(30 * time.Second):
					return strings.Join(out, "|") + "|HANG vote"
				}
				call.resp = c17Resp{seq: call.seq, vote: resp}
				call.state = 2
				suffix = "#Q:" + vB2s(resp.Result) + "," + strconv.Itoa(resp.Term)
			case 'P':
				if call.state != 2 {
					break
				}
				call.state = 3
				if call.resp.err != "" {
					nt.dirty = true
				}
				call.codec.respCh <- call.resp
				// the reply reaches electLeader through two goroutines: wait until every goroutine is parked
				// again (sound quiescence, zz_verif_topic_test.go), i.e. until electLeader has counted it
				// and is waiting for the next reply, or has returned
				if w := vWaitQuiet(nil); w != "" {
					return strings.Join(out, "|") + "|" + strings.ReplaceAll(w, " ", "_")
				}
				nt.isElecting(cand)
			case 'X':
				if call.state == 1 || call.state == 2 {
					call.state = 3
				}
			case 'E':
				if call.state == 1 || call.state == 2 {
					call.state = 2
					call.resp = c17Resp{seq: call.seq, err: "verif: call failed"}
				}
			}
		case 'H', 'D':
			k := c17Idx(arg)
			if kind == 'H' {
				suffix = "#H:-"
			}
			nt.mu.Lock()
			if k >= len(nt.hnet) {
				nt.mu.Unlock()
				break
			}
			h := nt.hnet[k]
			if kind == 'H' && nt.isElecting(h.to) {
				nt.mu.Unlock()
				break
			}
			nt.hnet = append(append([]c17H{}, nt.hnet[:k]...), nt.hnet[k+1:]...)
			nt.mu.Unlock()
			if kind == 'H' {
				var unused bool
				sigBefore := nt.cl[h.to].ring.Signature()
				nt.cl[h.to].Health(h.h, &unused)
				nt.barrier(h.to)
				suffix = fmt.Sprintf("#H:%s,%s,%d,%s,%s,%s", h.to[1:], h.h.Leader[1:], h.h.Term, vB2s(h.h.Signature == sigBefore),
					c17bDigits(h.h.Nodes), vB2s(nt.cl[h.to].ring.Signature() == c17bSigOf(h.h.Nodes)))
			}
		default:
			return "bad event " + ev
		}
		nt.mu.Lock()
		var dead []string
		for name, what := range nt.panicked {
			dead = append(dead, name+": "+what)
		}
		nt.mu.Unlock()
		if len(dead) > 0 {
			sort.Strings(dead)
			out = append(out, "PANIC "+strings.ReplaceAll(strings.Join(dead, " / "), " ", "_"))
			return strings.Join(out, "|")
		}
		out = append(out, nt.observe()+suffix)
	}
	return strings.Join(out, "|")
}

var _ = errors.New
