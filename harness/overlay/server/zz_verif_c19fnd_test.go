//go:build verif

// C19 SEARCH driver (handler "c19f" of the line driver): the real rewriteTag /
// parseSearchQuery with the REAL validators (email, tel: add_to_tags) and the REAL basic
// authenticator (add_to_tags) configured, and whole search scenarios on a REAL 'fnd' topic
// (hub, topic goroutine, sessions, store mappers above memverif) - {set desc} stores the
// query, {get what=sub} runs it; memverif records the arguments of FindUsers / FindTopics.
// The answers are the text printed by harness/runner/r_c19.ml from coq/Sys/FndSearchC19.v.
//
//   CFG <letters>             first request of a process: which of e(mail) t(el) b(asic) index (add_to_tags)
//   O  <cc> <term>            -> O <email.PreCheck> <tel.PreCheck> <basic.AsTag> <other authenticators' AsTag>
//                                (each rewriter asked DIRECTLY, not through rewriteTag: the oracle
//                                 answers which instantiate the model's Section variables vals / auths)
//   WR <cc> <withLogin> <term>  -> WR <rewriteTag(term, cc, withLogin)>
//   QR <cc> <withLogin> <query> -> QR ok <and groups> <or list> | QR err
//   FS <masked ns> <own tags> <cc> <candidates> <requests>
//      candidates: id.kind(u|t).state(0 ok|1 suspended|2 deleted).tags ; ...
//      requests  : d.s.pub.priv ({set desc}; ~ = field absent)  g.s ({get what=sub})  u (unload)
//                  t (harness: Topic.tags := users.tags)         s: 1, 2 ordinary sessions, 3 root session
//      answer    : FS reply|calls|tags!pub1,pub2,pub3!priv / ...
//                  reply c<code> | m<found ids> | n ; calls U!req!opt!active&T!req!opt!active | -
//
// Helpers of zz_verif_topic_test.go (vInitServer, vNewSession, vWaitQuiet) and of
// zz_verif_c19_test.go (list coding) are reused.
package main

import (
	"encoding/json"
	"io"
	"log"
	"sort"
	"strconv"
	"strings"
	"sync"

	"github.com/tinode/chat/server/auth"
	"github.com/tinode/chat/server/db/memverif"
	"github.com/tinode/chat/server/logs"
	"github.com/tinode/chat/server/store"
	"github.com/tinode/chat/server/store/types"
)

var c19fndOnce sync.Once
var c19fndSeq int

// which rewriters are configured to index (add_to_tags) in this process: e = email validator,
// t = tel validator, b = basic authenticator.  Set by the request "CFG <letters>" before the
// first other request (auth/basic can be initialised once per process).
var c19fndCfg = "etb"

func c19fndSetup() {
	vInitServer(nil)
	c19fndOnce.Do(func() {
		globals.validators = map[string]credValidator{
			"email": {addToTags: strings.Contains(c19fndCfg, "e")},
			"tel":   {addToTags: strings.Contains(c19fndCfg, "t")},
		}
		basic := store.Store.GetAuthHandler("basic")
		if basic == nil {
			panic("c19fnd: basic authenticator is not registered")
		}
		if !basic.IsInitialized() {
			conf := `{"add_to_tags": false}`
			if strings.Contains(c19fndCfg, "b") {
				conf = `{"add_to_tags": true}`
			}
			if err := basic.Init(json.RawMessage(conf), "basic"); err != nil {
				panic("c19fnd: basic init: " + err.Error())
			}
		}
		globals.immutableTagNS = map[string]bool{"basic": true, "email": true, "tel": true}
		globals.authValidators = nil
		globals.plugins = nil
		// rewriteTag logs every invalid term
		logs.Warn = log.New(io.Discard, "", 0)
	})
}

// country code field of a request: "-" = none; a suffix "@cfg" only names the configuration of
// the process that serves the request (the model's oracle key)
func c19fndCC(s string) string {
	if i := strings.Index(s, "@"); i >= 0 {
		s = s[:i]
	}
	if s == "-" {
		return ""
	}
	return s
}

// the rewriters, each asked directly
func c19fndOracle(cc, term string) string {
	param := map[string]any{"countryCode": cc}
	ask := func(name string) string {
		v := store.Store.GetValidator(name)
		if v == nil {
			return ""
		}
		tag, _ := v.PreCheck(term, param)
		return tag
	}
	basic := ""
	other := ""
	names := store.Store.GetAuthNames()
	sort.Strings(names)
	for _, name := range names {
		h := store.Store.GetAuthHandler(name)
		if h == nil {
			continue
		}
		tag := h.AsTag(term)
		if name == "basic" {
			basic = tag
		} else if other == "" {
			other = tag
		}
	}
	return "O " + c19Str(ask("email")) + " " + c19Str(ask("tel")) + " " + c19Str(basic) + " " + c19Str(other)
}

func c19fndGroups(and [][]string) string {
	if len(and) == 0 {
		return "-"
	}
	groups := make([]string, len(and))
	for i, g := range and {
		groups[i] = c19Fmt(g, "+")
	}
	return strings.Join(groups, ";")
}

// ---- scenarios ----

type c19fndCand struct {
	id    int
	kind  string
	state int
	name  string // usrXXX / grpXXX as {meta sub} shows it
}

type c19fndScn struct {
	uid   types.Uid
	cc    string
	fnd   string
	sess  map[int]*vSess
	cands []*c19fndCand
	n     int
}

func (sc *c19fndScn) quiet() string {
	r := vWaitQuiet([]string{sc.fnd})
	c19xDrainUsers()
	return r
}

func (sc *c19fndScn) session(i int) *vSess {
	if vs, ok := sc.sess[i]; ok {
		return vs
	}
	lvl := auth.LevelAuth
	if i == 3 {
		lvl = auth.LevelRoot
	}
	vs := vNewSession(500+i, sc.uid, lvl)
	vs.s.countryCode = sc.cc
	sc.sess[i] = vs
	return vs
}

func (sc *c19fndScn) nextID() string {
	sc.n++
	return "f" + strconv.Itoa(sc.n)
}

func (sc *c19fndScn) request(si int, msg string) ([]*ServerComMessage, string) {
	vs := sc.session(si)
	vs.take()
	vs.s.dispatchRaw([]byte(msg))
	hang := sc.quiet()
	return vs.take(), hang
}

func (sc *c19fndScn) attach(si int) {
	if sc.session(si).s.getSub(sc.fnd) != nil {
		return
	}
	sc.request(si, `{"sub":{"id":"`+sc.nextID()+`","topic":"fnd"}}`)
}

func (sc *c19fndScn) unload() {
	idxs := make([]int, 0, len(sc.sess))
	for i := range sc.sess {
		idxs = append(idxs, i)
	}
	sort.Ints(idxs)
	for _, i := range idxs {
		if sc.sess[i].s.getSub(sc.fnd) != nil {
			sc.request(i, `{"leave":{"id":"`+sc.nextID()+`","topic":"fnd"}}`)
		}
	}
	if t := globals.hub.topicGet(sc.fnd); t != nil {
		// what the idle timer does: handleTopicTimeout -> hub.unreg
		globals.hub.unreg <- &topicUnreg{rcptTo: sc.fnd}
		sc.quiet()
	}
}

func c19fndQuery(v any) string {
	if v == nil {
		return "~"
	}
	if s, ok := v.(string); ok {
		return c19Str(s)
	}
	return "?"
}

// what the topic holds: tags ! public query of sessions 1,2,3 ! private query
func (sc *c19fndScn) state() string {
	tags := "-"
	pubs := []string{"~", "~", "~"}
	priv := "~"
	if t := globals.hub.topicGet(sc.fnd); t != nil {
		l := append([]string{}, t.tags...)
		sort.Strings(l)
		tags = c19Fmt(l, ",")
		if pm, ok := t.public.(map[string]any); ok {
			for i := 1; i <= 3; i++ {
				if vs, ok := sc.sess[i]; ok {
					if v, ok := pm[vs.s.sid]; ok {
						pubs[i-1] = c19fndQuery(v)
					}
				}
			}
		} else if t.public != nil {
			pubs[0] = "?"
		}
		priv = c19fndQuery(t.perUser[sc.uid].private)
	} else if sub, err := store.Subs.Get(sc.fnd, sc.uid, false); err == nil && sub != nil {
		priv = c19fndQuery(sub.Private)
	}
	return tags + "!" + strings.Join(pubs, ",") + "!" + priv
}

func c19fndCalls() string {
	var parts []string
	for _, c := range memverif.FindLogC19() {
		k := "U"
		if c.Method == "FindTopics" {
			k = "T"
		}
		parts = append(parts, k+"!"+c19fndGroups(c.Req)+"!"+c19Fmt(c.Opt, ",")+"!"+vB2s(c.ActiveOnly))
	}
	if len(parts) == 0 {
		return "-"
	}
	return strings.Join(parts, "&")
}

func (sc *c19fndScn) reply(frames []*ServerComMessage, id string) string {
	for _, m := range frames {
		if m.Ctrl != nil && m.Ctrl.Id == id {
			return "c" + strconv.Itoa(m.Ctrl.Code)
		}
		if m.Meta != nil && m.Meta.Id == id && m.Meta.Sub != nil {
			var ids []int
			var odd []string
			for _, s := range m.Meta.Sub {
				name := s.Topic
				if name == "" {
					name = s.User
				}
				found := false
				for _, c := range sc.cands {
					if c.name == name {
						ids = append(ids, c.id)
						found = true
					}
				}
				if !found {
					odd = append(odd, "?"+name)
				}
			}
			sort.Ints(ids)
			sort.Strings(odd)
			parts := make([]string, 0, len(ids)+len(odd))
			for _, i := range ids {
				parts = append(parts, strconv.Itoa(i))
			}
			parts = append(parts, odd...)
			return "m" + strings.Join(parts, ",")
		}
	}
	return "n"
}

func (sc *c19fndScn) op(s string) string {
	f := strings.Split(s, ".")
	hang := ""
	reply := "n"
	memverif.ResetFindLogC19()
	switch f[0] {
	case "d": // d.s.pub.priv
		si := int(vAtoi(f[1]))
		sc.attach(si)
		desc := map[string]any{}
		if f[2] != "~" {
			desc["public"] = string(vUnhex(strings.ReplaceAll(f[2], "_", "-")))
		}
		if f[3] != "~" {
			desc["private"] = string(vUnhex(strings.ReplaceAll(f[3], "_", "-")))
		}
		id := sc.nextID()
		memverif.ResetFindLogC19()
		var frames []*ServerComMessage
		frames, hang = sc.request(si, vJSON(map[string]any{"set": map[string]any{"id": id, "topic": "fnd", "desc": desc}}))
		reply = sc.reply(frames, id)
	case "g": // g.s
		si := int(vAtoi(f[1]))
		sc.attach(si)
		id := sc.nextID()
		memverif.ResetFindLogC19()
		var frames []*ServerComMessage
		frames, hang = sc.request(si, `{"get":{"id":"`+id+`","topic":"fnd","what":"sub"}}`)
		reply = sc.reply(frames, id)
	case "u":
		sc.unload()
		memverif.ResetFindLogC19()
	case "t":
		sc.attach(1)
		memverif.ResetFindLogC19()
		if t := globals.hub.topicGet(sc.fnd); t != nil {
			if u, err := store.Users.Get(sc.uid); err == nil && u != nil {
				t.tags = append([]string{}, u.Tags...)
			}
		}
	}
	calls := c19fndCalls()
	if hang != "" {
		return "HANG|" + calls + "|" + sc.state()
	}
	return reply + "|" + calls + "|" + sc.state()
}

func (sc *c19fndScn) finish() {
	sc.unload()
	for _, vs := range sc.sess {
		vs.s.cleanUp(true)
		<-vs.done
	}
	sc.quiet()
}

func c19fndRun(w []string) string {
	c19fndSetup()
	memverif.Reset()
	globals.maskedTagNS = c19NS(w[1])
	sc := &c19fndScn{sess: map[int]*vSess{}, cc: c19fndCC(w[3])}
	// the searching user
	me := &types.User{Tags: c19List(w[2])}
	me.Access.Auth = types.ModeCAuth
	me.Access.Anon = types.ModeNone
	if _, err := store.Users.Create(me, nil); err != nil {
		panic("c19fnd: user create: " + err.Error())
	}
	sc.uid = me.Uid()
	sc.fnd = sc.uid.FndName()
	sc.cands = append(sc.cands, &c19fndCand{id: 0, kind: "u", name: sc.uid.UserId()})
	defer sc.finish()
	states := []types.ObjState{types.StateOK, types.StateSuspended, types.StateDeleted}
	if w[4] != "-" {
		for _, s := range strings.Split(w[4], ";") {
			f := strings.Split(s, ".")
			cd := &c19fndCand{id: int(vAtoi(f[0])), kind: f[1], state: int(vAtoi(f[2]))}
			tags := c19List(f[3])
			if cd.kind == "u" {
				u := &types.User{Tags: tags, State: states[cd.state]}
				u.Access.Auth = types.ModeCAuth
				u.Access.Anon = types.ModeNone
				if _, err := store.Users.Create(u, nil); err != nil {
					panic("c19fnd: user create: " + err.Error())
				}
				cd.name = u.Uid().UserId()
			} else {
				c19fndSeq++
				cd.name = "grpVerifC19f" + strconv.Itoa(c19fndSeq)
				full := types.ModeJoin | types.ModeRead | types.ModeWrite | types.ModePres | types.ModeShare
				stopic := &types.Topic{
					ObjHeader: types.ObjHeader{Id: cd.name, CreatedAt: types.TimeNow()},
					Access:    types.DefaultAccess{Auth: full, Anon: types.ModeNone},
					Tags:      tags,
					State:     states[cd.state],
				}
				if err := store.Topics.Create(stopic, types.ZeroUid, nil); err != nil {
					panic("c19fnd: topic create: " + err.Error())
				}
			}
			sc.cands = append(sc.cands, cd)
		}
	}
	var outs []string
	if w[5] != "-" {
		for _, s := range strings.Split(w[5], "/") {
			outs = append(outs, sc.op(s))
		}
	}
	return "FS " + strings.Join(outs, "/")
}

func init() {
	verifHandlers["c19f"] = func(w []string) string {
		switch {
		case len(w) == 2 && w[0] == "CFG":
			c19fndCfg = w[1]
			return "CFG"
		case len(w) == 3 && w[0] == "O":
			c19fndSetup()
			return c19fndOracle(c19fndCC(w[1]), string(vUnhex(w[2])))
		case len(w) == 4 && w[0] == "WR":
			c19fndSetup()
			return "WR " + c19Str(rewriteTag(string(vUnhex(w[3])), c19fndCC(w[1]), w[2] == "1"))
		case len(w) == 4 && w[0] == "QR":
			c19fndSetup()
			and, or, err := parseSearchQuery(string(vUnhex(w[3])), c19fndCC(w[1]), w[2] == "1")
			if err != nil {
				return "QR err"
			}
			return "QR ok " + c19fndGroups(and) + " " + c19Fmt(or, ",")
		case len(w) == 6 && w[0] == "FS":
			return c19fndRun(w)
		}
		return "?"
	}
}
