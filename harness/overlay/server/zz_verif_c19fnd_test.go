//go:build verif

// C19 SEARCH driver (handler "c19f" of the line driver): the real rewriteTag /
// parseSearchQuery with the REAL validators (email, tel: add_to_tags) and the REAL basic
// authenticator (add_to_tags) configured, and whole search scenarios on a REAL 'fnd' topic
// (hub, topic goroutine, sessions, store mappers above memverif) - {set desc} stores the
// query, {get what=sub} runs it; memverif records the arguments of FindUsers / FindTopics.
// The answers are the text printed by harness/runner/r_c19.ml from coq/Sys/FndSearchC19.v.
//
//   CFG <letters>             first request of a process: which of e(mail) t(el) b(asic) index (add_to_tags)
//   O  <cc> <term>            -> O <email.PreCheck> <tel.PreCheck> <basic.AsTag> <other authenticators' AsTag>
//                                (each rewriter asked DIRECTLY, not through rewriteTag: the oracle
//                                 answers which instantiate the model's Section variables vals / auths)
//   WR <cc> <withLogin> <term>  -> WR <rewriteTag(term, cc, withLogin)>
//   QR <cc> <withLogin> <query> -> QR ok <and groups> <or list> | QR err
//   FS <masked ns> <own tags> <cc> <candidates> <requests> [anon]
//      candidates: id.kind(u|t).state(0 ok|1 suspended|2 deleted).tags ; ...
//      requests  : d.s.pub.priv ({set desc}; ~ = field absent)  g.s ({get what=sub})  u (unload)
//                  t (harness: Topic.tags := users.tags)
//                  s = <id> or <id>l<level>: session <id> of the searching user with sess.authLvl =
//                  <level> (any int: 0 none, 10 anon, 20 auth, 30 root, junk); a bare id means
//                  1, 2 -> 20 (auth), 3 -> 30 (root).  The level is assigned directly - except in
//                  an "anon" scenario (7th word): there the searching user is an account created by
//                  the REAL {acc user=new scheme=anonymous login=true} of the first level-10
//                  session, every other level-10 session logs in with the REAL {login scheme=token}
//                  using the token of that reply, and sess.authLvl is what the code assigned (a
//                  level other than the requested one is printed after the reply as ~lvl<n>)
//      answer    : FS reply|calls|tags!pub1,..,pubN!priv / ...     N = max(3, largest session id)
//                  reply c<code> | m<found ids> | n ; calls U!req!opt!active&T!req!opt!active | -
//
// Helpers of zz_verif_topic_test.go (vInitServer, vNewSession, vWaitQuiet) and of
// zz_verif_c19_test.go (list coding) are reused.
package main

import (
	"encoding/base64"
	"encoding/json"
	"io"
	"log"
	"sort"
	"strconv"
	"strings"
	"sync"

	"github.com/tinode/chat/server/auth"
	"github.com/tinode/chat/server/db/memverif"
	"github.com/tinode/chat/server/logs"
	"github.com/tinode/chat/server/store"
	"github.com/tinode/chat/server/store/types"
)

var c19fndOnce sync.Once
var c19fndSeq int

// which rewriters are configured to index (add_to_tags) in this process: e = email validator,
// t = tel validator, b = basic authenticator.  Set by the request "CFG <letters>" before the
// first other request (auth/basic can be initialised once per process).
var c19fndCfg = "etb"

func c19fndSetup() {
	vInitServer(nil)
	c19fndOnce.Do(func() {
		globals.validators = map[string]credValidator{
			"email": {addToTags: strings.Contains(c19fndCfg, "e")},
			"tel":   {addToTags: strings.Contains(c19fndCfg, "t")},
		}
		basic := store.Store.GetAuthHandler("basic")
		if basic == nil {
			panic("c19fnd: basic authenticator is not registered")
		}
		if !basic.IsInitialized() {
			conf := `{"add_to_tags": false}`
			if strings.Contains(c19fndCfg, "b") {
				conf = `{"add_to_tags": true}`
			}
			if err := basic.Init(json.RawMessage(conf), "basic"); err != nil {
				panic("c19fnd: basic init: " + err.Error())
			}
		}
		// for the "anon" scenarios: accounts created through the anonymous authenticator, sessions
		// logged in with the token authenticator (neither takes part in tag rewriting: AsTag = "")
		for name, conf := range map[string]string{
			"token":     `{"expire_in":1209600,"serial_num":1,"key":"wfaY2RgF2S1OQI/ZlK+LSrp1KB2jwAdGAIHQ7JZn+Kc="}`,
			"anonymous": `{}`,
		} {
			if h := store.Store.GetAuthHandler(name); h != nil && !h.IsInitialized() {
				if err := h.Init(json.RawMessage(conf), name); err != nil {
					panic("c19fnd: " + name + " init: " + err.Error())
				}
			}
		}
		globals.immutableTagNS = map[string]bool{"basic": true, "email": true, "tel": true}
		globals.authValidators = nil
		globals.plugins = nil
		// rewriteTag logs every invalid term
		logs.Warn = log.New(io.Discard, "", 0)
	})
}

// country code field of a request: "-" = none; a suffix "@cfg" only names the configuration of
// the process that serves the request (the model's oracle key)
func c19fndCC(s string) string {
	if i := strings.Index(s, "@"); i >= 0 {
		s = s[:i]
	}
	if s == "-" {
		return ""
	}
	return s
}

// the rewriters, each asked directly
func c19fndOracle(cc, term string) string {
	param := map[string]any{"countryCode": cc}
	ask := func(name string) string {
		v := store.Store.GetValidator(name)
		if v == nil {
			return ""
		}
		tag, _ := v.PreCheck(term, param)
		return tag
	}
	basic := ""
	other := ""
	names := store.Store.GetAuthNames()
	sort.Strings(names)
	for _, name := range names {
		h := store.Store.GetAuthHandler(name)
		if h == nil {
			continue
		}
		tag := h.AsTag(term)
		if name == "basic" {
			basic = tag
		} else if other == "" {
			other = tag
		}
	}
	return "O " + c19Str(ask("email")) + " " + c19Str(ask("tel")) + " " + c19Str(basic) + " " + c19Str(other)
}

func c19fndGroups(and [][]string) string {
	if len(and) == 0 {
		return "-"
	}
	groups := make([]string, len(and))
	for i, g := range and {
		groups[i] = c19Fmt(g, "+")
	}
	return strings.Join(groups, ";")
}

// ---- scenarios ----

type c19fndCand struct {
	id    int
	kind  string
	state int
	name  string // usrXXX / grpXXX as {meta sub} shows it
}

type c19fndScn struct {
	uid   types.Uid
	cc    string
	fnd   string
	sess  map[int]*vSess
	cands []*c19fndCand
	n     int
	nsess int    // the topic state shows the public queries of sessions 1..nsess
	anon  bool   // "anon" scenario: level-10 sessions get their level from the real code
	token []byte // of the {acc} reply
	real  map[int]auth.Level // sessions logged in by the real code -> the level it gave them
}

// a session reference of a request: <id> or <id>l<level>
func c19fndSessRefC19(s string) (int, auth.Level) {
	if i := strings.Index(s, "l"); i >= 0 {
		return int(vAtoi(s[:i])), auth.Level(vAtoi(s[i+1:]))
	}
	id := int(vAtoi(s))
	if id == 3 {
		return id, auth.LevelRoot
	}
	return id, auth.LevelAuth
}

// the largest session id named by the requests of a scenario (at least 3)
func c19fndMaxSessC19(ops string) int {
	n := 3
	for _, s := range strings.Split(ops, "/") {
		f := strings.Split(s, ".")
		if (f[0] == "d" || f[0] == "g") && len(f) > 1 {
			if id, _ := c19fndSessRefC19(f[1]); id > n {
				n = id
			}
		}
	}
	return n
}

// "anon" scenario, first level-10 session: the REAL account creation through the anonymous
// authenticator with login; the account becomes the searching user of the scenario
func (sc *c19fndScn) anonCreateC19(own []string) {
	vs := vNewSession(501, types.ZeroUid, auth.LevelNone)
	vs.s.countryCode = sc.cc
	vs.take()
	id := sc.nextID()
	vs.s.dispatchRaw([]byte(vJSON(map[string]any{"acc": map[string]any{"id": id, "user": "new", "scheme": "anonymous", "login": true}})))
	vWaitQuiet(nil)
	c19xDrainUsers()
	for _, m := range vs.take() {
		if m.Ctrl != nil && m.Ctrl.Id == id && m.Ctrl.Code < 300 {
			if p, ok := m.Ctrl.Params.(map[string]any); ok {
				if tok, ok := p["token"].([]byte); ok {
					sc.token = tok
				}
			}
		}
	}
	if vs.s.uid.IsZero() || sc.token == nil {
		panic("c19fnd: anonymous account creation with login failed")
	}
	sc.uid = vs.s.uid
	if len(own) > 0 {
		if _, err := store.Users.UpdateTags(sc.uid, nil, nil, own); err != nil {
			panic("c19fnd: tags of the anonymous account: " + err.Error())
		}
	}
	sc.sess[-1] = vs // given its id by the first request that names a level-10 session
}

// "anon" scenario, later level-10 sessions: the REAL {login scheme=token}
func (sc *c19fndScn) anonLoginC19(i int) *vSess {
	if vs, ok := sc.sess[-1]; ok {
		delete(sc.sess, -1)
		return vs
	}
	vs := vNewSession(500+i, types.ZeroUid, auth.LevelNone)
	vs.take()
	id := sc.nextID()
	vs.s.dispatchRaw([]byte(vJSON(map[string]any{"login": map[string]any{"id": id, "scheme": "token",
		"secret": base64.StdEncoding.EncodeToString(sc.token)}})))
	vWaitQuiet(nil)
	c19xDrainUsers()
	vs.take()
	if vs.s.uid != sc.uid {
		panic("c19fnd: token login of the anonymous account failed")
	}
	return vs
}

func (sc *c19fndScn) quiet() string {
	r := vWaitQuiet([]string{sc.fnd})
	c19xDrainUsers()
	return r
}

func (sc *c19fndScn) session(i int) *vSess {
	return sc.sess[i]
}

// the session of a request, at the level the request names: created on first use; the level of an
// existing session is re-assigned (a session may log in again); in an "anon" scenario a level-10
// session keeps the level which the real login gave it
func (sc *c19fndScn) sessionAt(ref string) (int, *vSess) {
	i, lvl := c19fndSessRefC19(ref)
	vs, ok := sc.sess[i]
	if !ok {
		if sc.anon && lvl == auth.LevelAnon {
			vs = sc.anonLoginC19(i)
			sc.real[i] = vs.s.authLvl
		} else {
			vs = vNewSession(500+i, sc.uid, lvl)
		}
		vs.s.countryCode = sc.cc
		sc.sess[i] = vs
	}
	if given, ok := sc.real[i]; ok && lvl == auth.LevelAnon {
		// (again) the level which the real login assigned, whatever was assigned directly in between
		vs.s.authLvl = given
	} else {
		vs.s.authLvl = lvl
	}
	return i, vs
}

// "" when the session holds the level which the request names
func (sc *c19fndScn) levelNote(ref string) string {
	i, lvl := c19fndSessRefC19(ref)
	if vs, ok := sc.sess[i]; ok && vs.s.authLvl != lvl {
		return "~lvl" + strconv.Itoa(int(vs.s.authLvl))
	}
	return ""
}

func (sc *c19fndScn) nextID() string {
	sc.n++
	return "f" + strconv.Itoa(sc.n)
}

func (sc *c19fndScn) request(si int, msg string) ([]*ServerComMessage, string) {
	vs := sc.session(si)
	vs.take()
	vs.s.dispatchRaw([]byte(msg))
	hang := sc.quiet()
	return vs.take(), hang
}

func (sc *c19fndScn) attach(si int) {
	if sc.session(si).s.getSub(sc.fnd) != nil {
		return
	}
	sc.request(si, `{"sub":{"id":"`+sc.nextID()+`","topic":"fnd"}}`)
}

func (sc *c19fndScn) unload() {
	idxs := make([]int, 0, len(sc.sess))
	for i := range sc.sess {
		idxs = append(idxs, i)
	}
	sort.Ints(idxs)
	for _, i := range idxs {
		if sc.sess[i].s.getSub(sc.fnd) != nil {
			sc.request(i, `{"leave":{"id":"`+sc.nextID()+`","topic":"fnd"}}`)
		}
	}
	if t := globals.hub.topicGet(sc.fnd); t != nil {
		// what the idle timer does: handleTopicTimeout -> hub.unreg
		globals.hub.unreg <- &topicUnreg{rcptTo: sc.fnd}
		sc.quiet()
	}
}

func c19fndQuery(v any) string {
	if v == nil {
		return "~"
	}
	if s, ok := v.(string); ok {
		return c19Str(s)
	}
	return "?"
}

// what the topic holds: tags ! public query of sessions 1,2,3 ! private query
func (sc *c19fndScn) state() string {
	tags := "-"
	pubs := make([]string, sc.nsess)
	for i := range pubs {
		pubs[i] = "~"
	}
	priv := "~"
	if t := globals.hub.topicGet(sc.fnd); t != nil {
		l := append([]string{}, t.tags...)
		sort.Strings(l)
		tags = c19Fmt(l, ",")
		if pm, ok := t.public.(map[string]any); ok {
			for i := 1; i <= sc.nsess; i++ {
				if vs, ok := sc.sess[i]; ok {
					if v, ok := pm[vs.s.sid]; ok {
						pubs[i-1] = c19fndQuery(v)
					}
				}
			}
		} else if t.public != nil {
			pubs[0] = "?"
		}
		priv = c19fndQuery(t.perUser[sc.uid].private)
	} else if sub, err := store.Subs.Get(sc.fnd, sc.uid, false); err == nil && sub != nil {
		priv = c19fndQuery(sub.Private)
	}
	return tags + "!" + strings.Join(pubs, ",") + "!" + priv
}

func c19fndCalls() string {
	var parts []string
	for _, c := range memverif.FindLogC19() {
		k := "U"
		if c.Method == "FindTopics" {
			k = "T"
		}
		parts = append(parts, k+"!"+c19fndGroups(c.Req)+"!"+c19Fmt(c.Opt, ",")+"!"+vB2s(c.ActiveOnly))
	}
	if len(parts) == 0 {
		return "-"
	}
	return strings.Join(parts, "&")
}

func (sc *c19fndScn) reply(frames []*ServerComMessage, id string) string {
	for _, m := range frames {
		if m.Ctrl != nil && m.Ctrl.Id == id {
			return "c" + strconv.Itoa(m.Ctrl.Code)
		}
		if m.Meta != nil && m.Meta.Id == id && m.Meta.Sub != nil {
			var ids []int
			var odd []string
			for _, s := range m.Meta.Sub {
				name := s.Topic
				if name == "" {
					name = s.User
				}
				found := false
				for _, c := range sc.cands {
					if c.name == name {
						ids = append(ids, c.id)
						found = true
					}
				}
				if !found {
					odd = append(odd, "?"+name)
				}
			}
			sort.Ints(ids)
			sort.Strings(odd)
			parts := make([]string, 0, len(ids)+len(odd))
			for _, i := range ids {
				parts = append(parts, strconv.Itoa(i))
			}
			parts = append(parts, odd...)
			return "m" + strings.Join(parts, ",")
		}
	}
	return "n"
}

func (sc *c19fndScn) op(s string) string {
	f := strings.Split(s, ".")
	hang := ""
	reply := "n"
	memverif.ResetFindLogC19()
	switch f[0] {
	case "d": // d.s.pub.priv
		si, _ := sc.sessionAt(f[1])
		sc.attach(si)
		desc := map[string]any{}
		if f[2] != "~" {
			desc["public"] = string(vUnhex(strings.ReplaceAll(f[2], "_", "-")))
		}
		if f[3] != "~" {
			desc["private"] = string(vUnhex(strings.ReplaceAll(f[3], "_", "-")))
		}
		id := sc.nextID()
		memverif.ResetFindLogC19()
		var frames []*ServerComMessage
		frames, hang = sc.request(si, vJSON(map[string]any{"set": map[string]any{"id": id, "topic": "fnd", "desc": desc}}))
		reply = sc.reply(frames, id)
	case "g": // g.s
		si, _ := sc.sessionAt(f[1])
		sc.attach(si)
		id := sc.nextID()
		memverif.ResetFindLogC19()
		var frames []*ServerComMessage
		frames, hang = sc.request(si, `{"get":{"id":"`+id+`","topic":"fnd","what":"sub"}}`)
		reply = sc.reply(frames, id) + sc.levelNote(f[1])
	case "u":
		sc.unload()
		memverif.ResetFindLogC19()
	case "t":
		if sc.session(1) == nil {
			sc.sessionAt("1")
		}
		sc.attach(1)
		memverif.ResetFindLogC19()
		if t := globals.hub.topicGet(sc.fnd); t != nil {
			if u, err := store.Users.Get(sc.uid); err == nil && u != nil {
				t.tags = append([]string{}, u.Tags...)
			}
		}
	}
	calls := c19fndCalls()
	if hang != "" {
		return "HANG|" + calls + "|" + sc.state()
	}
	return reply + "|" + calls + "|" + sc.state()
}

func (sc *c19fndScn) finish() {
	sc.unload()
	for _, vs := range sc.sess {
		vs.s.cleanUp(true)
		<-vs.done
	}
	sc.quiet()
}

func c19fndRun(w []string) string {
	c19fndSetup()
	memverif.Reset()
	globals.maskedTagNS = c19NS(w[1])
	sc := &c19fndScn{sess: map[int]*vSess{}, real: map[int]auth.Level{}, cc: c19fndCC(w[3]), nsess: c19fndMaxSessC19(w[5]),
		anon: len(w) == 7 && w[6] == "anon"}
	// the searching user
	if sc.anon {
		sc.anonCreateC19(c19List(w[2]))
	} else {
		me := &types.User{Tags: c19List(w[2])}
		me.Access.Auth = types.ModeCAuth
		me.Access.Anon = types.ModeNone
		if _, err := store.Users.Create(me, nil); err != nil {
			panic("c19fnd: user create: " + err.Error())
		}
		sc.uid = me.Uid()
	}
	sc.fnd = sc.uid.FndName()
	sc.cands = append(sc.cands, &c19fndCand{id: 0, kind: "u", name: sc.uid.UserId()})
	defer sc.finish()
	states := []types.ObjState{types.StateOK, types.StateSuspended, types.StateDeleted}
	if w[4] != "-" {
		for _, s := range strings.Split(w[4], ";") {
			f := strings.Split(s, ".")
			cd := &c19fndCand{id: int(vAtoi(f[0])), kind: f[1], state: int(vAtoi(f[2]))}
			tags := c19List(f[3])
			if cd.kind == "u" {
				u := &types.User{Tags: tags, State: states[cd.state]}
				u.Access.Auth = types.ModeCAuth
				u.Access.Anon = types.ModeNone
				if _, err := store.Users.Create(u, nil); err != nil {
					panic("c19fnd: user create: " + err.Error())
				}
				cd.name = u.Uid().UserId()
			} else {
				c19fndSeq++
				cd.name = "grpVerifC19f" + strconv.Itoa(c19fndSeq)
				full := types.ModeJoin | types.ModeRead | types.ModeWrite | types.ModePres | types.ModeShare
				stopic := &types.Topic{
					ObjHeader: types.ObjHeader{Id: cd.name, CreatedAt: types.TimeNow()},
					Access:    types.DefaultAccess{Auth: full, Anon: types.ModeNone},
					Tags:      tags,
					State:     states[cd.state],
				}
				if err := store.Topics.Create(stopic, types.ZeroUid, nil); err != nil {
					panic("c19fnd: topic create: " + err.Error())
				}
			}
			sc.cands = append(sc.cands, cd)
		}
	}
	var outs []string
	if w[5] != "-" {
		for _, s := range strings.Split(w[5], "/") {
			outs = append(outs, sc.op(s))
		}
	}
	return "FS " + strings.Join(outs, "/")
}

func init() {
	verifHandlers["c19f"] = func(w []string) string {
		switch {
		case len(w) == 2 && w[0] == "CFG":
			c19fndCfg = w[1]
			return "CFG"
		case len(w) == 3 && w[0] == "O":
			c19fndSetup()
			return c19fndOracle(c19fndCC(w[1]), string(vUnhex(w[2])))
		case len(w) == 4 && w[0] == "WR":
			c19fndSetup()
			return "WR " + c19Str(rewriteTag(string(vUnhex(w[3])), c19fndCC(w[1]), w[2] == "1"))
		case len(w) == 4 && w[0] == "QR":
			c19fndSetup()
			and, or, err := parseSearchQuery(string(vUnhex(w[3])), c19fndCC(w[1]), w[2] == "1")
			if err != nil {
				return "QR err"
			}
			return "QR ok " + c19fndGroups(and) + " " + c19Fmt(or, ",")
		case (len(w) == 6 || len(w) == 7) && w[0] == "FS":
			return c19fndRun(w)
		}
		return "?"
	}
}
