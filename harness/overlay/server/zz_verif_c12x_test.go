//go:build verif

// C12 driver, token RE-ISSUANCE on {login}: feeds {login} messages (scheme token / code / basic /
// unknown) through the REAL Session.dispatchRaw -> Session.login -> Session.onLogin on real
// sessions, with REAL token and code authenticators (fresh instances of the registered types,
// initialised through Init with the scenario's key / serial_num / expire_in) and the real basic
// authenticator above memverif (fixture of the C11 driver, zz_verif_c11_test.go, reused).
// The clock cannot be set: restricted / short-lived secrets are made by calling GenSecret of the
// scenario's token authenticator with a chosen Lifetime, exactly as user.go / topic.go do for their
// 24 h temporary tokens.  Every token handed back in a reply is kept in a slot and can be presented
// by a later {login} of the scenario (chains).  Nothing is written to /repo (added by -overlay).
//
// Input (VERIF_IN):   scn <id> key=<hex> serial=<n> expire_in=<s> code_expire_in=<s> vld=<0|1>
//                     iss <slot> who=<k> lvl=<n> feat=<n> lt=<ns>
//                     login <slot> sess=<new|i> sch=token src=<slot> [mut=flip:<bit>|trunc:<n>|raw:<hex>]
//                     login <slot> sess=<new|i> sch=code who=<k> guess=<ok|bad>
//                     login <slot> sess=<new|i> sch=basic who=<k> pw=<ok|bad>
//                     login <slot> sess=<new|i> sch=bogus
//                     reset <slot> who=<k> [known=0]          {login scheme=reset}: the REAL authSecretReset; the code
//                                                             it hands to the validator is kept in <slot>
//                     login <slot> sess=<new|i> sch=code src=<reset slot> guess=<ok|bad>
//                     acccred <slot> who=<k>                  {acc} adding a credential on a session of <k>: the temporary
//                                                             token replyUpdateUser hands to the validator -> <slot>
//                     accnew <slot>                           {acc user=new} with a credential: the temporary token
//                                                             replyCreateUser hands to the validator -> <slot>
//                     end
// Output (VERIF_OUT): scn <id>
//                     iss <slot> <ok|err> tok=<hex> exp=<ns> t0=<ns> t1=<ns> uid=<n>
//                     r <slot> code=<ctrl code> before=<uid>,<lvl> after=<uid>,<lvl> tok=<hex|-> exp=<ns|->
//                       t0=<ns> t1=<ns> ptok=<hex|-> uid=<n> [bexp=<ns|0>] [cexp=<ns>] user=<uid in params> panic=<0|text>
//                     reset <slot> code=<ctrl code> sent=<0|1> t0=<ns> t1=<ns> uid=<n> cexp=<ns>
//                     tmp <slot> code=<ctrl code> tok=<hex|-> t0=<ns> t1=<ns> uid=<n>
//                     end
package main

import (
	"bufio"
	"encoding/base64"
	"encoding/json"
	"fmt"
	"math/big"
	"os"
	"reflect"
	"strconv"
	"strings"
	"sync"
	"testing"
	"time"

	"golang.org/x/crypto/bcrypt"

	"github.com/tinode/chat/server/auth"
	"github.com/tinode/chat/server/store"
	"github.com/tinode/chat/server/store/types"
)

// store.Store with the "token" and "code" authenticators of the scenario in place of the
// registered singletons (which can be initialised only once per process)
type c12xStore struct {
	store.PersistentStorageInterface
	tok, code auth.AuthHandler
}

func (w *c12xStore) GetLogicalAuthHandler(name string) auth.AuthHandler {
	switch name {
	case "token":
		if w.tok != nil {
			return w.tok
		}
	case "code":
		if w.code != nil {
			return w.code
		}
	}
	return w.PersistentStorageInterface.GetLogicalAuthHandler(name)
}

func c12xFresh(name string) auth.AuthHandler {
	h := store.Store.GetAuthHandler(name)
	if h == nil {
		panic("driver: no auth handler " + name)
	}
	return reflect.New(reflect.TypeOf(h).Elem()).Interface().(auth.AuthHandler)
}

// credential validator that keeps what the server hands it: the temporary token of a validation
// request (replyCreateUser / replyUpdateUser) and the reset code of authSecretReset
type c12xVld struct{}

var c12xSent struct {
	tmpToken []byte
	code     []byte
	cred     string
	n        int
}

func (c12xVld) Init(string) error   { return nil }
func (c12xVld) IsInitialized() bool { return true }
func (c12xVld) PreCheck(cred string, params map[string]interface{}) (string, error) {
	return "c12xcred:" + cred, nil
}
func (c12xVld) Request(user types.Uid, cred, lang, resp string, tmpToken []byte) (bool, error) {
	c12xSent.tmpToken = append([]byte{}, tmpToken...)
	c12xSent.n++
	if _, err := store.Users.UpsertCred(&types.Credential{User: user.String(), Method: "c12xcred", Value: cred, Resp: "good"}); err != nil {
		return false, err
	}
	return true, nil
}
func (c12xVld) ResetSecret(cred, scheme, lang string, tmpToken []byte, params map[string]interface{}) error {
	c12xSent.code = append([]byte{}, tmpToken...)
	c12xSent.cred = cred
	c12xSent.n++
	return nil
}
func (c12xVld) Check(user types.Uid, resp string) (string, error) { return "", types.ErrCredentials }
func (c12xVld) Remove(types.Uid, string) error                     { return nil }
func (c12xVld) Delete(types.Uid) error                             { return nil }
func (c12xVld) TempAuthScheme() (string, error)                    { return "code", nil }

var c12x struct {
	once    sync.Once
	bexp    map[string]time.Time // expiry of the basic auth record of fixture accounts (zero = none)
	credSeq int
}

func c12xInit(t *testing.T) {
	c11Init(t)
	c12x.once.Do(func() {
		c12x.bexp = map[string]time.Time{}
		store.RegisterValidator("c12xcred", c12xVld{})
		// two more accounts whose password records expire in the future: the basic authenticator
		// reports the remaining validity as rec.Lifetime
		mk := func(key string, lvl auth.Level, d time.Duration, withCred bool) {
			u := &types.User{}
			u.Access.Auth = types.ModeCAuth
			u.Access.Anon = types.ModeNone
			if _, err := store.Users.Create(u, nil); err != nil {
				t.Fatal("user create: ", err)
			}
			hash, _ := bcrypt.GenerateFromPassword([]byte("pw"+key), bcrypt.MinCost)
			exp := time.Now().Add(d).UTC().Round(time.Millisecond)
			if err := store.Users.AddAuthRecord(u.Uid(), lvl, "basic", "acct"+key, hash, exp); err != nil {
				t.Fatal("auth record: ", err)
			}
			if withCred {
				if _, err := store.Users.UpsertCred(&types.Credential{User: u.Uid().String(), Method: "verifcred", Value: "u" + key, Resp: "good"}); err != nil {
					t.Fatal("cred: ", err)
				}
				if err := store.Users.ConfirmCred(u.Uid(), "verifcred"); err != nil {
					t.Fatal("cred confirm: ", err)
				}
			}
			c11.accts[key] = u.Uid()
			c11.idx[u.Uid()] = key
			c11.quiet = append(c11.quiet, u.Uid().UserId())
			// the expiry as the authenticator will read it (the adapter keeps whole seconds)
			if _, _, _, stored, err := store.Users.GetAuthUniqueRecord("basic", "acct"+key); err == nil {
				exp = stored
			}
			c12x.bexp[key] = exp
		}
		mk("8", auth.LevelAuth, 2*time.Hour, false)
		mk("9", auth.LevelAuth, 40*24*time.Hour, true)
	})
}

type c12xScn struct {
	out    *bufio.Writer
	saved  store.PersistentStorageInterface
	tok    auth.AuthHandler
	code   auth.AuthHandler
	slots  map[string][]byte
	codes  map[string][2]string // reset slot -> (code, credential "method:value")
	sess   []*vSess
	n      int
	broken string
}

func c12xWho(k string) types.Uid { return (&c11Scn{}).who(k) }

func c12xNs(t time.Time) string {
	if t.IsZero() {
		return "-"
	}
	// UnixNano() overflows beyond the years 1678..2262
	ns := new(big.Int).Mul(big.NewInt(t.Unix()), big.NewInt(1000000000))
	ns.Add(ns, big.NewInt(int64(t.Nanosecond())))
	return ns.String()
}

func (sc *c12xScn) start(kv map[string]string) {
	sc.slots = map[string][]byte{}
	serial, _ := strconv.Atoi(kv["serial"])
	expireIn, _ := strconv.ParseInt(kv["expire_in"], 10, 64)
	codeExpireIn, _ := strconv.ParseInt(kv["code_expire_in"], 10, 64)
	sc.tok = c12xFresh("token")
	conf := fmt.Sprintf(`{"key":"%s","serial_num":%d,"expire_in":%d}`,
		base64.StdEncoding.EncodeToString(vUnhex(kv["key"])), serial, expireIn)
	if err := sc.tok.Init(json.RawMessage(conf), "token"); err != nil {
		sc.broken = "token-init:" + strings.ReplaceAll(err.Error(), " ", "_")
		return
	}
	sc.code = c12xFresh("code")
	if err := sc.code.Init(json.RawMessage(fmt.Sprintf(`{"expire_in":%d,"max_retries":3,"code_length":6}`, codeExpireIn)), "code"); err != nil {
		sc.broken = "code-init:" + strings.ReplaceAll(err.Error(), " ", "_")
		return
	}
	sc.saved = store.Store
	store.Store = &c12xStore{PersistentStorageInterface: sc.saved, tok: sc.tok, code: sc.code}
	globals.validators = map[string]credValidator{"c12xcred": {}}
	if kv["vld"] == "1" {
		globals.authValidators = map[auth.Level][]string{auth.LevelAuth: {"verifcred"}, auth.LevelRoot: {"verifcred"}}
		globals.validators["verifcred"] = credValidator{requiredAuthLvl: []auth.Level{auth.LevelAuth, auth.LevelRoot}}
	}
	sc.codes = map[string][2]string{}
}

func (sc *c12xScn) finish() {
	for _, vs := range sc.sess {
		vs.s.cleanUp(true)
		<-vs.done
	}
	vWaitQuiet(c11.quiet)
	if sc.saved != nil {
		store.Store = sc.saved
	}
	globals.authValidators = nil
	globals.validators = nil
}

func (sc *c12xScn) issue(slot string, kv map[string]string) {
	if sc.broken != "" {
		fmt.Fprintf(sc.out, "iss %s broken %s\n", slot, sc.broken)
		return
	}
	uid := c12xWho(kv["who"])
	lvl, _ := strconv.Atoi(kv["lvl"])
	feat, _ := strconv.Atoi(kv["feat"])
	lt, _ := strconv.ParseInt(kv["lt"], 10, 64)
	t0 := time.Now().UnixNano()
	tk, exp, err := sc.tok.GenSecret(&auth.Rec{Uid: uid, AuthLevel: auth.Level(lvl), Features: auth.Feature(feat), Lifetime: auth.Duration(lt)})
	t1 := time.Now().UnixNano()
	if err != nil {
		fmt.Fprintf(sc.out, "iss %s err tok=- exp=- t0=%d t1=%d uid=%d\n", slot, t0, t1, uint64(uid))
		return
	}
	sc.slots[slot] = tk
	fmt.Fprintf(sc.out, "iss %s ok tok=%s exp=%s t0=%d t1=%d uid=%d\n", slot, vHex(tk), c12xNs(exp), t0, t1, uint64(uid))
}

func (sc *c12xScn) login(slot string, kv map[string]string) {
	if sc.broken != "" {
		fmt.Fprintf(sc.out, "r %s broken %s\n", slot, sc.broken)
		return
	}
	var vs *vSess
	if kv["sess"] == "new" || kv["sess"] == "" {
		vs = c11NewSession(22, types.ZeroUid, auth.LevelNone)
		sc.sess = append(sc.sess, vs)
	} else {
		i, _ := strconv.Atoi(kv["sess"])
		if i < 0 || i >= len(sc.sess) {
			vs = c11NewSession(22, types.ZeroUid, auth.LevelNone)
			sc.sess = append(sc.sess, vs)
		} else {
			vs = sc.sess[i]
		}
	}
	s := vs.s
	sc.n++
	var secret []byte
	extra := ""
	uid := types.ZeroUid
	ptok := "-"
	switch kv["sch"] {
	case "token":
		src := sc.slots[kv["src"]]
		secret = append([]byte{}, src...)
		mut := strings.Split(kv["mut"], ":")
		switch mut[0] {
		case "flip":
			if i, _ := strconv.Atoi(mut[1]); i/8 < len(secret) {
				secret[i/8] ^= 1 << uint(i%8)
			}
		case "trunc":
			if i, _ := strconv.Atoi(mut[1]); i < len(secret) {
				secret = secret[:i]
			}
		case "raw":
			secret = vUnhex(mut[1])
		}
		ptok = vHex(secret)
	case "code":
		if src, ok := kv["src"]; ok {
			// the code authSecretReset handed to the validator for this credential
			cc := sc.codes[src]
			code := []byte(cc[0])
			if kv["guess"] == "bad" && len(code) > 0 {
				if code[0] == '9' {
					code[0] = '0'
				} else {
					code[0]++
				}
			}
			secret = []byte(string(code) + ":" + cc[1])
			break
		}
		uid = c12xWho(kv["who"])
		c12x.credSeq++
		cred := "email:c12x" + kv["who"] + "x" + strconv.Itoa(c12x.credSeq) + "x" + strconv.FormatInt(time.Now().UnixNano()%1000000007, 36) + "@example.com"
		code, cexp, err := sc.code.GenSecret(&auth.Rec{Uid: uid, AuthLevel: auth.LevelAuth, Features: auth.FeatureNoLogin, Credential: cred})
		if err != nil {
			panic("driver: code GenSecret " + err.Error())
		}
		if kv["guess"] == "bad" {
			if code[0] == '9' {
				code[0] = '0'
			} else {
				code[0]++
			}
		}
		secret = []byte(string(code) + ":" + cred)
		extra = " cexp=" + c12xNs(cexp)
	case "basic":
		uid = c12xWho(kv["who"])
		pw := "pw" + kv["who"]
		if kv["pw"] == "bad" {
			pw += "x"
		}
		secret = []byte("acct" + kv["who"] + ":" + pw)
		if e, ok := c12x.bexp[kv["who"]]; ok {
			extra = " bexp=" + c12xNs(e)
		} else {
			extra = " bexp=0"
		}
	default:
		secret = []byte("whatever")
	}
	raw, _ := json.Marshal(&ClientComMessage{Login: &MsgClientLogin{Id: strconv.Itoa(sc.n), Scheme: kv["sch"], Secret: secret}})
	before := fmt.Sprintf("%d,%d", uint64(s.uid), int(s.authLvl))
	panicked := "0"
	t0 := time.Now().UnixNano()
	func() {
		defer func() {
			if r := recover(); r != nil {
				panicked = strings.ReplaceAll(fmt.Sprint(r), " ", "_")
			}
		}()
		s.dispatchRaw(raw)
	}()
	t1 := time.Now().UnixNano()
	if hang := vWaitQuiet(c11.quiet); hang != "" {
		panicked += ":" + strings.ReplaceAll(hang, " ", "_")
	}
	code, tok, exp, user := 0, "-", "-", "-"
	for _, f := range vs.take() {
		if f.Ctrl == nil {
			continue
		}
		code = f.Ctrl.Code
		if params, ok := f.Ctrl.Params.(map[string]any); ok {
			if b, ok := params["token"].([]byte); ok && len(b) > 0 {
				tok = vHex(b)
				sc.slots[slot] = b
			}
			if e, ok := params["expires"].(time.Time); ok {
				exp = c12xNs(e)
			}
			if u, ok := params["user"].(string); ok {
				user = strconv.FormatUint(uint64(types.ParseUserId(u)), 10)
			}
		}
	}
	fmt.Fprintf(sc.out, "r %s code=%d before=%s after=%d,%d tok=%s exp=%s t0=%d t1=%d ptok=%s uid=%d%s user=%s panic=%s\n",
		slot, code, before, uint64(s.uid), int(s.authLvl), tok, exp, t0, t1, ptok, uint64(uid), extra, user, panicked)
}

func (sc *c12xScn) dispatch(vs *vSess, m *ClientComMessage) (code int, params map[string]any, t0, t1 int64, panicked string) {
	raw, _ := json.Marshal(m)
	panicked = "0"
	t0 = time.Now().UnixNano()
	func() {
		defer func() {
			if r := recover(); r != nil {
				panicked = strings.ReplaceAll(fmt.Sprint(r), " ", "_")
			}
		}()
		vs.s.dispatchRaw(raw)
	}()
	t1 = time.Now().UnixNano()
	if hang := vWaitQuiet(c11.quiet); hang != "" {
		panicked += ":" + strings.ReplaceAll(hang, " ", "_")
	}
	for _, f := range vs.take() {
		if f.Ctrl != nil {
			code = f.Ctrl.Code
			params, _ = f.Ctrl.Params.(map[string]any)
		}
	}
	return
}

// {login scheme=reset secret="basic:c12xcred:<value>"} on a fresh session; the credential is a validated
// credential of <who> created for this op (known=0: nobody's)
func (sc *c12xScn) reset(slot string, kv map[string]string) {
	if sc.broken != "" {
		fmt.Fprintf(sc.out, "reset %s broken %s\n", slot, sc.broken)
		return
	}
	uid := c12xWho(kv["who"])
	c12x.credSeq++
	value := "r" + kv["who"] + "x" + strconv.Itoa(c12x.credSeq) + "x" + strconv.FormatInt(time.Now().UnixNano()%1000000007, 36)
	if kv["known"] != "0" {
		// an account that does not exist (any more) cannot own a credential: the reset is then one for an unknown credential
		if _, err := store.Users.UpsertCred(&types.Credential{User: uid.String(), Method: "c12xcred", Value: value, Resp: "good"}); err == nil {
			store.Users.ConfirmCred(uid, "c12xcred")
		}
	}
	vs := c11NewSession(22, types.ZeroUid, auth.LevelNone)
	sc.sess = append(sc.sess, vs)
	sc.n++
	before := c12xSent.n
	c12xSent.code, c12xSent.cred = nil, ""
	code, _, t0, t1, panicked := sc.dispatch(vs, &ClientComMessage{Login: &MsgClientLogin{Id: strconv.Itoa(sc.n), Scheme: "reset",
		Secret: []byte("basic:c12xcred:" + value)}})
	sent := 0
	if c12xSent.n > before && len(c12xSent.code) > 0 {
		sent = 1
		sc.codes[slot] = [2]string{string(c12xSent.code), "c12xcred:" + c12xSent.cred}
	}
	fmt.Fprintf(sc.out, "reset %s code=%d sent=%d t0=%d t1=%d uid=%d after=%d,%d panic=%s\n", slot, code, sent, t0, t1, uint64(uid),
		uint64(vs.s.uid), int(vs.s.authLvl), panicked)
}

// the temporary token handed to the validator by {acc}: adding a credential to the account of an
// authenticated session (replyUpdateUser), or creating an account with a credential (replyCreateUser)
func (sc *c12xScn) acc(slot string, kv map[string]string, create bool) {
	if sc.broken != "" {
		fmt.Fprintf(sc.out, "tmp %s broken %s\n", slot, sc.broken)
		return
	}
	c12x.credSeq++
	uniq := strconv.Itoa(c12x.credSeq) + "x" + strconv.FormatInt(time.Now().UnixNano()%1000000007, 36)
	var vs *vSess
	var m *ClientComMessage
	uid := types.ZeroUid
	sc.n++
	creds := []MsgCredClient{{Method: "c12xcred", Value: "a" + uniq}}
	if create {
		vs = c11NewSession(22, types.ZeroUid, auth.LevelNone)
		m = &ClientComMessage{Acc: &MsgClientAcc{Id: strconv.Itoa(sc.n), User: "new", Scheme: "basic",
			Secret: []byte("c12x" + uniq + ":secret" + uniq), Cred: creds}}
	} else {
		uid = c12xWho(kv["who"])
		vs = c11NewSession(22, uid, auth.LevelAuth)
		m = &ClientComMessage{Acc: &MsgClientAcc{Id: strconv.Itoa(sc.n), Cred: creds}}
	}
	sc.sess = append(sc.sess, vs)
	before := c12xSent.n
	c12xSent.tmpToken = nil
	code, params, t0, t1, panicked := sc.dispatch(vs, m)
	if create && params != nil {
		if u, ok := params["user"].(string); ok {
			uid = types.ParseUserId(u)
			c11.quiet = append(c11.quiet, u)
		}
	}
	tok := "-"
	if c12xSent.n > before && len(c12xSent.tmpToken) > 0 {
		tok = vHex(c12xSent.tmpToken)
		sc.slots[slot] = c12xSent.tmpToken
	}
	fmt.Fprintf(sc.out, "tmp %s code=%d tok=%s t0=%d t1=%d uid=%d panic=%s\n", slot, code, tok, t0, t1, uint64(uid), panicked)
}

func TestVerifC12x(t *testing.T) {
	c12xInit(t)
	fin, err := os.Open(os.Getenv("VERIF_IN"))
	if err != nil {
		t.Fatal(err)
	}
	defer fin.Close()
	fout, err := os.Create(os.Getenv("VERIF_OUT"))
	if err != nil {
		t.Fatal(err)
	}
	defer fout.Close()
	out := bufio.NewWriterSize(fout, 1<<20)
	defer out.Flush()
	in := bufio.NewScanner(fin)
	in.Buffer(make([]byte, 1<<20), 1<<26)
	var sc *c12xScn
	for in.Scan() {
		w := strings.Fields(in.Text())
		if len(w) == 0 {
			continue
		}
		switch w[0] {
		case "scn":
			sc = &c12xScn{out: out}
			sc.start(vKV(w[2:]))
			fmt.Fprintf(out, "scn %s\n", w[1])
		case "iss":
			sc.issue(w[1], vKV(w[2:]))
		case "login":
			sc.login(w[1], vKV(w[2:]))
		case "reset":
			sc.reset(w[1], vKV(w[2:]))
		case "acccred":
			sc.acc(w[1], vKV(w[2:]), false)
		case "accnew":
			sc.acc(w[1], vKV(w[2:]), true)
		case "end":
			sc.finish()
			fmt.Fprintln(out, "end")
			out.Flush()
		}
	}
}
