//go:build verif

// C11 driver, part x (who chooses head.sender): {sub} / {leave} / {pub} sequences through the
// REAL Session.dispatchRaw on sessions preset to any (ver, uid, authLvl) - root or not, on
// behalf or not, attached or not - to every topic kind incl. 'sys' (which needs no
// subscription), with forged / empty / non-string / absent head.sender.  Observed: the STORED
// message rows of memverif (from, head) of every candidate topic and the {data} frames at the
// publisher and at persistent observer sessions (a root subscriber of 'sys', subscribers of the
// group / p2p / channel topics).  Reuses the fixture and helpers of zz_verif_c11_test.go and
// zz_verif_topic_test.go.  Nothing is written to /repo (added by -overlay).
//
// Input (VERIF_IN):   scn <id> init=<ver>,<who>,<lvl>
//                     sub|leave|pub topic=<ref> [as=<ref> al=<hex>] [head=<spec>]
//                     end
// Output (VERIF_OUT): scn <id>
//                     r <ver>,<who>,<lvl>|<code>:<text>:<has-id>+...|<panic>|att=<0|1>|sys=<0|1>|stored=<topic>/<from>/<head>;..|data=<at>/<from>/<head>;..
//                     end
// head rendering: N (absent / nil) or <sender token or ->~<k=v,...> (keys: 1 mime, 2 priority)
package main

import (
	"bufio"
	"encoding/json"
	"fmt"
	"os"
	"sort"
	"strconv"
	"strings"
	"testing"

	"github.com/tinode/chat/server/auth"
	"github.com/tinode/chat/server/db/memverif"
	"github.com/tinode/chat/server/store"
	"github.com/tinode/chat/server/store/types"
)

var c11xFix struct {
	done   bool
	p2p    string
	chg    string
	cands  []string
	names  map[string]string
	obs    map[string]*vSess
	quiet  []string
}

func c11xInit(t *testing.T) {
	c11Init(t)
	if c11xFix.done {
		return
	}
	c11xFix.done = true
	alice, bob, root, anon := c11.accts["1"], c11.accts["2"], c11.accts["6"], c11.accts["7"]
	must := func(what string, err error) {
		if err != nil {
			t.Fatal(what+": ", err)
		}
	}
	// p2p topic alice <-> bob
	c11xFix.p2p = alice.P2PName(bob)
	must("p2p create", store.Topics.Create(&types.Topic{ObjHeader: types.ObjHeader{Id: c11xFix.p2p, CreatedAt: types.TimeNow()}}, types.ZeroUid, nil))
	for _, u := range []types.Uid{alice, bob} {
		must("p2p sub", store.Subs.Create(&types.Subscription{User: u.String(), Topic: c11xFix.p2p, ModeWant: types.ModeCP2P, ModeGiven: types.ModeCP2P}))
	}
	// channel-enabled group topic owned by alice
	c11xFix.chg = "grpVerifC11xCh"
	full := types.ModeJoin | types.ModeRead | types.ModeWrite | types.ModePres | types.ModeShare
	stopic := &types.Topic{ObjHeader: types.ObjHeader{Id: c11xFix.chg, CreatedAt: types.TimeNow()}, UseBt: true,
		Access: types.DefaultAccess{Auth: full, Anon: types.ModeJoin | types.ModeRead}}
	stopic.GiveAccess(alice, types.ModeCFull, types.ModeCFull)
	must("chn create", store.Topics.Create(stopic, alice, nil))
	for _, u := range []types.Uid{bob, root} {
		must("chn sub", store.Subs.Create(&types.Subscription{User: u.String(), Topic: c11xFix.chg, ModeWant: full, ModeGiven: full}))
	}
	c11xFix.names = map[string]string{c11.grp: "grp", c11xFix.p2p: "p2p", c11xFix.chg: "chg", "sys": "sys"}
	c11xFix.cands = []string{c11.grp, c11xFix.p2p, c11xFix.chg, "sys"}
	for _, k := range []string{"1", "2", "6", "7"} {
		u := c11.accts[k]
		c11xFix.names[u.UserId()] = "me" + k
		c11xFix.names[u.FndName()] = "fnd" + k
		c11xFix.cands = append(c11xFix.cands, u.UserId(), u.FndName())
	}
	c11xFix.quiet = append(append([]string{}, c11.quiet...), c11xFix.cands...)
	globals.maxSubscriberCount = 64

	// persistent observers
	c11xFix.obs = map[string]*vSess{}
	mk := func(name string, u types.Uid, lvl auth.Level, topics ...string) {
		vs := c11NewSession(5632, u, lvl)
		c11xFix.obs[name] = vs
		for i, tp := range topics {
			raw, _ := json.Marshal(map[string]any{"sub": map[string]any{"id": "o" + strconv.Itoa(i), "topic": tp}})
			vs.s.dispatchRaw(raw)
			vWaitQuiet(c11xFix.quiet)
			ok := false
			for _, f := range vs.take() {
				if f.Ctrl != nil && f.Ctrl.Code >= 200 && f.Ctrl.Code < 300 {
					ok = true
				}
			}
			if !ok {
				t.Fatal("observer ", name, " could not attach to ", tp)
			}
		}
	}
	_ = anon
	mk("oroot", root, auth.LevelRoot, "sys", c11.grp, c11xFix.chg)
	mk("obob", bob, auth.LevelAuth, alice.UserId(), c11.grp)
}

type c11xScn struct {
	c11Scn
}

func (sc *c11xScn) topicRefX(s string) string {
	switch s {
	case "p2p1":
		return c11.accts["1"].UserId() // as seen by bob
	case "p2p2":
		return c11.accts["2"].UserId() // as seen by alice
	case "chn":
		return types.GrpToChn(c11xFix.chg)
	case "chg":
		return c11xFix.chg
	case "nosuch":
		return "grpNoSuchC11x"
	case "empty":
		return ""
	}
	return sc.topicRef(s)
}

// header value tokens shared with tools/props/c11x.py
func (sc *c11xScn) valTok(v any) string {
	switch x := v.(type) {
	case string:
		if x == "" {
			return "1001"
		}
		u := types.ParseUserId(x)
		if u.IsZero() {
			if x == "usrJunk" {
				return "1000"
			}
			return "1999"
		}
		return sc.tok(u)
	case float64:
		return "1002"
	case map[string]any:
		return "1003"
	}
	return "1999"
}

func (sc *c11xScn) headStr(h map[string]any) string {
	if h == nil {
		return "N"
	}
	snd := "-"
	var others []string
	for k, v := range h {
		switch k {
		case "sender":
			snd = sc.valTok(v)
		case "mime":
			if v == "text/plain" {
				others = append(others, "1=1")
			} else {
				others = append(others, "1=?")
			}
		case "priority":
			if v == "2" {
				others = append(others, "2=2")
			} else {
				others = append(others, "2=?")
			}
		default:
			others = append(others, "9=9")
		}
	}
	sort.Strings(others)
	return snd + "~" + strings.Join(others, ",")
}

func (sc *c11xScn) buildHead(spec string) (map[string]any, bool) {
	if spec == "" || spec == "-" {
		return nil, false
	}
	h := map[string]any{}
	if spec == "e" {
		return h, true
	}
	for _, it := range strings.Split(spec, ",") {
		switch {
		case it == "m":
			h["mime"] = "text/plain"
		case it == "p":
			h["priority"] = "2"
		case strings.HasPrefix(it, "s:"):
			switch v := it[2:]; v {
			case "j":
				h["sender"] = "usrJunk"
			case "z":
				h["sender"] = ""
			case "n":
				h["sender"] = 123
			case "o":
				h["sender"] = map[string]any{"a": 1}
			default:
				h["sender"] = sc.userRef(v)
			}
		}
	}
	return h, true
}

func (sc *c11xScn) stepX(kind string, kv map[string]string) {
	if sc.dead {
		fmt.Fprintln(sc.out, "r skipped")
		return
	}
	sc.n++
	id := strconv.Itoa(sc.n)
	s := sc.vs.s
	topic := sc.topicRefX(kv["topic"])
	body := map[string]any{"id": id, "topic": topic}
	switch kind {
	case "pub":
		body["content"] = "c" + id
		if h, ok := sc.buildHead(kv["head"]); ok {
			body["head"] = h
		}
	case "leave":
	}
	top := map[string]any{kind: body}
	acting := s.uid.UserId()
	if as, ok := kv["as"]; ok {
		ex := map[string]any{"obo": sc.userRef(as)}
		if al := string(c11Hex(kv["al"])); al != "" {
			ex["authlevel"] = al
		}
		top["extra"] = ex
		if s.authLvl == auth.LevelRoot && !types.ParseUserId(sc.userRef(as)).IsZero() {
			acting = sc.userRef(as)
		}
	}
	raw, _ := json.Marshal(top)
	// what Session.publish will see: RcptTo and whether the session is attached to it
	att, isSys := "0", "0"
	if rcpt, resp := s.expandTopicName(&ClientComMessage{Original: topic, AsUser: acting}); resp == nil {
		if s.getSub(rcpt) != nil {
			att = "1"
		}
		if rcpt == "sys" {
			isSys = "1"
		}
	}
	before := map[string]int{}
	for _, c := range c11xFix.cands {
		before[c] = memverif.DumpTopic(c).SeqId
	}
	p := sc.dispatch(raw)
	hang := vWaitQuiet(c11xFix.quiet)
	var reps, data []string
	collect := func(at string, frames []*ServerComMessage, withCtrl bool) {
		for _, f := range frames {
			switch {
			case f.Ctrl != nil && withCtrl:
				hasID := "0"
				if f.Ctrl.Id != "" {
					hasID = "1"
				}
				reps = append(reps, fmt.Sprintf("%d:%s:%s", f.Ctrl.Code, c11Text(f.Ctrl.Text), hasID))
			case f.Data != nil:
				data = append(data, at+"/"+sc.tokOfUserId(f.Data.From)+"/"+sc.headStr(f.Data.Head))
			}
		}
	}
	collect("pub", sc.vs.take(), true)
	for _, name := range []string{"obob", "oroot"} {
		collect(name, c11xFix.obs[name].take(), false)
	}
	var stored []string
	for _, c := range c11xFix.cands {
		d := memverif.DumpTopic(c)
		if d.SeqId <= before[c] {
			continue
		}
		for _, mm := range d.Msgs {
			if mm.Seq > before[c] {
				var head map[string]any
				if mm.Head != "" && mm.Head != "null" {
					if err := json.Unmarshal([]byte(mm.Head), &head); err != nil {
						head = map[string]any{"unparsable": mm.Head}
					}
				}
				stored = append(stored, c11xFix.names[c]+"/"+sc.tok(mm.From)+"/"+sc.headStr(head))
			}
		}
	}
	pflag := "0"
	if p != "" {
		pflag = "PANIC:" + p
		sc.dead = true
	}
	if hang != "" {
		pflag += ":" + strings.ReplaceAll(hang, " ", "_")
	}
	fmt.Fprintf(sc.out, "r %d,%s,%d|%s|%s|att=%s|sys=%s|stored=%s|data=%s\n", s.ver, sc.tok(s.uid), int(s.authLvl),
		strings.Join(reps, "+"), pflag, att, isSys, strings.Join(stored, ";"), strings.Join(data, ";"))
}

func (sc *c11xScn) finishX() {
	if sc.vs != nil {
		sc.vs.s.cleanUp(true)
		<-sc.vs.done
		vWaitQuiet(c11xFix.quiet)
	}
	for _, o := range c11xFix.obs {
		o.take()
	}
}

func TestVerifC11x(t *testing.T) {
	c11xInit(t)
	fin, err := os.Open(os.Getenv("VERIF_IN"))
	if err != nil {
		t.Fatal(err)
	}
	defer fin.Close()
	fout, err := os.Create(os.Getenv("VERIF_OUT"))
	if err != nil {
		t.Fatal(err)
	}
	defer fout.Close()
	out := bufio.NewWriterSize(fout, 1<<20)
	defer out.Flush()
	in := bufio.NewScanner(fin)
	in.Buffer(make([]byte, 1<<20), 1<<26)
	var sc *c11xScn
	for in.Scan() {
		w := strings.Fields(in.Text())
		if len(w) == 0 {
			continue
		}
		switch w[0] {
		case "scn":
			kv := vKV(w[2:])
			sc = &c11xScn{}
			sc.out = out
			init := strings.Split(kv["init"], ",")
			ver, _ := strconv.Atoi(init[0])
			lvl, _ := strconv.Atoi(init[2])
			sc.vs = c11NewSession(ver, sc.who(init[1]), auth.Level(lvl))
			fmt.Fprintf(out, "scn %s\n", w[1])
		case "sub", "leave", "pub":
			sc.stepX(w[0], vKV(w[1:]))
		case "end":
			sc.finishX()
			fmt.Fprintln(out, "end")
			out.Flush()
		}
	}
}
