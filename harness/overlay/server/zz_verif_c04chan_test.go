//go:build verif

// C04 on topics with channel subscriptions: "a user without read permission gets none" whatever name the request is
// addressed to.  The scenarios, requests and canonical blocks are those of the C01 query driver
// (zz_verif_c01q_test.go: the C02 fan-out driver's fScn on plain group / channel-enabled group / p2p topics above
// memverif, connections attached under the grpXXX, chnXXX, usrXXX or p2pXXX name, root connections acting on behalf
// of a user; qdesc / qdata), plus the two requests of tools/props/c04chan.py:
//
//	op qdel   <s> <as> <spelling> <since> <before> <limit>    {get what=del del={since, before, limit}}
//	op sqdata <s> <as> <spelling> <since> <before> <limit>    {sub get={what=data data={since, before, limit}}}
//
// A {meta del} is rendered as "metadel delid=<n> ranges=<low:hi,...>".  The model runner harness/runner/r_c04chan.ml
// prints the same blocks from coq/Sys/FanoutHistC04.v.  Nothing is written to /repo.
package main

import (
	"bufio"
	"fmt"
	"io"
	"os"
	"sort"
	"strconv"
	"strings"
	"testing"

	"github.com/tinode/chat/server/logs"
	"github.com/tinode/chat/server/store"
	"github.com/tinode/chat/server/store/types"
)

func c04chanOp(sc *fScn, w []string) {
	kind, a := w[0], w[1:]
	if kind != "qdel" && kind != "sqdata" {
		c01qOp(sc, w)
		return
	}
	sc.opi++
	fmt.Fprintf(sc.out, "op %d\n", sc.opi)
	id := strconv.Itoa(sc.opi)
	at := func(i int) int { v, _ := strconv.Atoi(a[i]); return v }
	si := at(0)
	if _, ok := sc.sessUser[si]; !ok {
		fmt.Fprintln(sc.out, "skipped")
		sc.emitState()
		return
	}
	vs := sc.session(si)
	as, extra := sc.sessUser[si], ""
	if at(1) != 0 {
		as = at(1)
		extra = `,"extra":{"obo":"` + sc.uids[as].UserId() + `"}`
	}
	tn := sc.cliName(as, a[2])
	o := map[string]int{}
	if at(3) != 0 {
		o["since"] = at(3)
	}
	if at(4) != 0 {
		o["before"] = at(4)
	}
	if at(5) != 0 {
		o["limit"] = at(5)
	}
	switch kind {
	case "qdel":
		vs.s.dispatchRaw([]byte(`{"get":{"id":"` + id + `","topic":"` + tn + `","what":"del","del":` + vJSON(o) + `}` + extra + `}`))
	case "sqdata":
		vs.s.dispatchRaw([]byte(`{"sub":{"id":"` + id + `","topic":"` + tn + `","get":{"what":"data","data":` + vJSON(o) + `}}` + extra + `}`))
	}
	hang := sc.quiet()
	idxs := make([]int, 0, len(sc.sess))
	for i := range sc.sess {
		idxs = append(idxs, i)
	}
	sort.Ints(idxs)
	for _, i := range idxs {
		if sc.clogged[i] {
			continue
		}
		for _, m := range sc.sess[i].take() {
			if m.Meta != nil && m.Meta.Del != nil {
				var rs []string
				for _, r := range m.Meta.Del.DelSeq {
					rs = append(rs, strconv.Itoa(r.LowId)+":"+strconv.Itoa(r.HiId))
				}
				fmt.Fprintf(sc.out, "S%d metadel delid=%d ranges=%s\n", i, m.Meta.Del.DelId, strings.Join(rs, ","))
			} else {
				fmt.Fprintf(sc.out, "S%d %s\n", i, sc.frame(m, id))
			}
		}
	}
	sc.emitPush()
	if hang != "" {
		fmt.Fprintln(sc.out, hang)
	}
	sc.emitState()
}

func TestVerifC04Chan(t *testing.T) {
	vInitServer(t)
	logs.Init(io.Discard, "stdFlags")
	globals.maxSubscriberCount = 128
	fin, err := os.Open(os.Getenv("VERIF_IN"))
	if err != nil {
		t.Fatal(err)
	}
	defer fin.Close()
	fout, err := os.Create(os.Getenv("VERIF_OUT"))
	if err != nil {
		t.Fatal(err)
	}
	defer fout.Close()
	out := bufio.NewWriterSize(fout, 1<<20)
	defer out.Flush()
	in := bufio.NewScanner(fin)
	in.Buffer(make([]byte, 1<<20), 1<<26)
	var sc *fScn
	for in.Scan() {
		w := strings.Fields(in.Text())
		if len(w) == 0 {
			continue
		}
		switch w[0] {
		case "scn":
			kv := vKV(w[2:])
			sc = &fScn{id: w[1], kind: kv["kind"], out: out, uids: map[int]types.Uid{}, uidIdx: map[types.Uid]int{},
				sess: map[int]*vSess{}, sessUser: map[int]int{}, sessRoot: map[int]bool{}, dead: map[int]bool{}, clogged: map[int]bool{}}
			sc.defacs, _ = strconv.Atoi(kv["defacs"])
			n, _ := strconv.Atoi(kv["users"])
			for i := 1; i <= n; i++ {
				u := &types.User{}
				u.Access.Auth = types.ModeCAuth
				u.Access.Anon = types.ModeNone
				if _, err := store.Users.Create(u, nil); err != nil {
					t.Fatal("user create: ", err)
				}
				sc.uids[i] = u.Uid()
				sc.uidIdx[u.Uid()] = i
			}
			for len(globals.usersUpdate) > 0 {
				<-globals.usersUpdate
			}
			fmt.Fprintf(out, "scn %s\n", w[1])
		case "subrow":
			sc.rows = append(sc.rows, w[1:])
		case "mk":
			sc.mk(t)
		case "sess":
			si, _ := strconv.Atoi(w[1])
			ui, _ := strconv.Atoi(w[2])
			sc.sessUser[si] = ui
			sc.sessRoot[si] = len(w) > 3 && w[3] == "r"
		case "op":
			c04chanOp(sc, w[1:])
		case "end":
			sc.finish()
			fmt.Fprintln(out, "end")
			out.Flush()
		}
	}
}
