//go:build verif

// C09 on 'me' + p2p + group topics (notes from unsubscribed / deleted parties, notes from sessions
// attached to 'me' but not to the topic, {info} copies routed through the 'me' topics): the scenario
// format, the sessions, the quiescence and the canonical dump are those of the C10 presence driver
// (zz_verif_c10_test.go: pScn, its op() and dump(), reused as they are); this file adds what the C09
// laws read and that driver does not print:
//
//	I <sid> <topic as seen> <src> i:<what> from=<user> seq=<n>   every {info} frame of a {note} request, in full
//	K <n> <adapter calls>                                       store calls made while the {note} was processed
//	LC <topic> <lastID>        MC <topic> <user> <readID> <recvID>     live topic: Topic.lastID, perUser marks
//	LS <topic> <seqid>         MS <topic> <user> <read> <recv>         store: topics.seqid, subscription rows
//
// {note} requests are sent by this file (so that the frames can be read before dump() consumes them and so
// that sequence numbers of any sign and unknown kinds can be sent); every other request goes through
// pScn.op unchanged.
package main

import (
	"bufio"
	"fmt"
	"os"
	"sort"
	"strconv"
	"strings"
	"testing"

	"github.com/tinode/chat/server/db/memverif"
	"github.com/tinode/chat/server/store"
	"github.com/tinode/chat/server/store/types"
)

// c09xNote: note <sid> <ref> <what> <seq>
func c09xNote(sc *pScn, a []string) {
	sc.opi++
	fmt.Fprintf(sc.out, "op %d\n", sc.opi)
	si, _ := strconv.Atoi(a[0])
	cli, hub := sc.topicRef(sc.sessUser[si], a[1])
	skipped := false
	memverif.ResetCallLog()
	// a "recv" from a session that is not attached is routed by the hub (session.go:1286-1301); any other
	// note of a detached session is refused with 409 at the session (not sent: the model answers `skipped`)
	if cli == "" || (!sc.attached(si, hub) && a[2] != "recv") {
		skipped = true
	} else {
		seq := ""
		if a[3] != "0" || a[2] != "kp" {
			seq = `,"seq":` + a[3]
		}
		sc.send(si, `{"note":{"topic":"`+cli+`","what":"`+a[2]+`"`+seq+`}}`)
	}
	hang := sc.quiet()
	calls := memverif.CallLog()
	// the {info} frames, read without consuming them
	idxs := make([]int, 0, len(sc.sess))
	for i := range sc.sess {
		idxs = append(idxs, i)
	}
	sort.Ints(idxs)
	var il []string
	for _, i := range idxs {
		vs := sc.sess[i]
		vs.mu.Lock()
		for _, m := range vs.frames {
			if m.Info == nil {
				continue
			}
			src := m.Info.Src
			if src == "" {
				src = m.Info.Topic
			}
			from := "?" + m.Info.From
			if k, ok := sc.uidIdx[types.ParseUserId(m.Info.From)]; ok {
				from = strconv.Itoa(k)
			}
			il = append(il, fmt.Sprintf("I %d %s %s i:%s from=%s seq=%d", i, sc.tok(m.Info.Topic), sc.tok(src), m.Info.What, from, m.Info.SeqId))
		}
		vs.mu.Unlock()
	}
	sort.Strings(il)
	for _, l := range il {
		fmt.Fprintln(sc.out, l)
	}
	fmt.Fprintf(sc.out, "K %d %s\n", len(calls), strings.Join(calls, ","))
	if skipped {
		fmt.Fprintln(sc.out, "skipped")
	}
	if hang != "" {
		fmt.Fprintln(sc.out, hang)
	}
	sc.dump()
}

// c09xMarks: the marks, wherever they live
func c09xMarks(sc *pScn) {
	var lines []string
	for _, n := range sc.allTopics() {
		tk := sc.tok(n)
		if tk[0] == 'u' || tk[0] == '?' {
			continue // 'me' topics have no marks
		}
		if t := globals.hub.topicGet(n); t != nil {
			lines = append(lines, fmt.Sprintf("LC %s %d", tk, t.lastID))
			for uid, pud := range t.perUser {
				lines = append(lines, fmt.Sprintf("MC %s %d %d %d", tk, sc.uidIdx[uid], pud.readID, pud.recvID))
			}
		}
		if st, err := store.Topics.Get(n); err == nil && st != nil {
			lines = append(lines, fmt.Sprintf("LS %s %d", tk, st.SeqId))
		}
		for i, uid := range sc.uids {
			if sub, err := store.Subs.Get(n, uid, true); err == nil && sub != nil {
				lines = append(lines, fmt.Sprintf("MS %s %d %d %d", tk, i, sub.ReadSeqId, sub.RecvSeqId))
			}
		}
	}
	sort.Strings(lines)
	for _, l := range lines {
		fmt.Fprintln(sc.out, l)
	}
}

func TestVerifC09xPresNotes(t *testing.T) {
	vInitServer(t)
	globals.maxSubscriberCount = 32
	fin, err := os.Open(os.Getenv("VERIF_IN"))
	if err != nil {
		t.Fatal(err)
	}
	defer fin.Close()
	fout, err := os.Create(os.Getenv("VERIF_OUT"))
	if err != nil {
		t.Fatal(err)
	}
	defer fout.Close()
	out := bufio.NewWriterSize(fout, 1<<20)
	defer out.Flush()
	in := bufio.NewScanner(fin)
	in.Buffer(make([]byte, 1<<20), 1<<26)
	var sc *pScn
	for in.Scan() {
		w := strings.Fields(in.Text())
		if len(w) == 0 {
			continue
		}
		switch w[0] {
		case "scn":
			kv := vKV(w[2:])
			sc = &pScn{id: w[1], out: out, uids: map[int]types.Uid{}, uidIdx: map[types.Uid]int{}, sess: map[int]*vSess{},
				sessUser: map[int]int{}, dead: map[int]bool{}, grp: map[int]string{}, grpIdx: map[string]int{}, p2p: map[string]bool{},
				zombies: map[string]*Topic{}}
			n, _ := strconv.Atoi(kv["users"])
			for i := 1; i <= n; i++ {
				u := &types.User{}
				u.Access.Auth = types.ModeCAuth
				u.Access.Anon = types.ModeNone
				if _, err := store.Users.Create(u, nil); err != nil {
					t.Fatal("user create: ", err)
				}
				sc.uids[i] = u.Uid()
				sc.uidIdx[u.Uid()] = i
			}
			fmt.Fprintf(out, "scn %s\n", w[1])
		case "sess":
			si, _ := strconv.Atoi(w[1])
			ui, _ := strconv.Atoi(w[2])
			sc.sessUser[si] = ui
		case "op":
			if w[1] == "note" {
				c09xNote(sc, w[2:])
			} else {
				sc.op(w[1:])
			}
			c09xMarks(sc)
		case "end":
			sc.finish()
			fmt.Fprintln(out, "end")
			out.Flush()
		}
	}
}
