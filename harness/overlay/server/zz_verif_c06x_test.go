//go:build verif

// C06 driver for {del what=topic} with the POPULATION of the topic: one request line = one fresh
// group or peer-to-peer topic above memverif with the given number of subscribers, loaded or not;
// the named requester (owner / subscribed non-owner / former p2p party / user who is not
// subscribed at all) sends {del what=topic} through Session.dispatchRaw, attached or not.  The
// answer line classifies what the REAL server (Session.del -> Hub.topicUnreg -> Topic) did:
//
//	all <code>   the topic row is gone (deleted for everybody)
//	own <code>   only the requester's own subscription was deleted
//	none <code>  nothing changed
//
// followed by what the driver measured before the request: loaded=, attached=, count= (t.subsCount()
// of the loaded topic, -1 when not loaded), scount= (len of store.Topics.GetSubs), and lost=<user>
// when a subscription of somebody else disappeared although the topic still exists.
// Line protocol of zz_verif_lines_test.go (VERIF_PROP=c06x):
//
//	delgate <grp|p2p> <loaded 0|1> <nsubs> <owner|member|former|none> <attached 0|1> <hard 0|1>
package main

import (
	"fmt"
	"strconv"
	"sync/atomic"
	"testing"
	"time"

	"github.com/tinode/chat/server/auth"
	"github.com/tinode/chat/server/store"
	"github.com/tinode/chat/server/store/types"
)

var c06xCount int64

func c06xDelGate(w []string) string {
	if len(w) != 7 || w[0] != "delgate" {
		return "?"
	}
	vInitServer(&testing.T{})
	cat, req := w[1], w[4]
	loaded, attached, hard := w[2] == "1", w[5] == "1", w[6] == "1"
	nsubs, _ := strconv.Atoi(w[3])
	n := atomic.AddInt64(&c06xCount, 1)

	// parties: index 0 is the owner (grp) / party A (p2p)
	var name string
	var parties []types.Uid
	stranger := c06User(types.ModeCAuth)
	addr := map[types.Uid]string{}
	if cat == "grp" {
		if nsubs < 1 || nsubs > 3 {
			return "?"
		}
		name = "grpC06x" + strconv.FormatInt(n, 10) + "x" + strconv.FormatInt(time.Now().UnixNano()%1000000, 36)
		owner := c06User(types.ModeCAuth)
		parties = append(parties, owner)
		stopic := &types.Topic{
			ObjHeader: types.ObjHeader{Id: name, CreatedAt: types.TimeNow()},
			Access:    types.DefaultAccess{Auth: types.ModeCPublic, Anon: types.ModeNone},
			Public:    map[string]any{"fn": "c06x"},
		}
		stopic.GiveAccess(owner, types.ModeCFull, types.ModeCFull)
		if err := store.Topics.Create(stopic, owner, nil); err != nil {
			panic("c06x: topic create: " + err.Error())
		}
		noO := types.ModeCFull &^ types.ModeOwner
		for i := 1; i < nsubs; i++ {
			m := c06User(types.ModeCAuth)
			parties = append(parties, m)
			md := noO
			if i == 2 {
				md = types.ModeCPublic
			}
			if err := store.Subs.Create(&types.Subscription{User: m.String(), Topic: name, ModeWant: md, ModeGiven: md}); err != nil {
				panic("c06x: sub create: " + err.Error())
			}
		}
	} else if cat == "p2p" {
		if nsubs < 1 || nsubs > 2 {
			return "?"
		}
		a, b := c06User(types.ModeCAuth), c06User(types.ModeCAuth)
		parties = []types.Uid{a, b}
		name = a.P2PName(b)
		if err := store.Topics.CreateP2P(
			&types.Subscription{User: a.String(), Topic: name, ModeWant: types.ModeCP2P, ModeGiven: types.ModeCP2P},
			&types.Subscription{User: b.String(), Topic: name, ModeWant: types.ModeCP2P, ModeGiven: types.ModeCP2P}); err != nil {
			panic("c06x: p2p create: " + err.Error())
		}
		addr[a], addr[b] = b.UserId(), a.UserId()
	} else {
		return "?"
	}
	topicFor := func(u types.Uid) string {
		if s, ok := addr[u]; ok {
			return s
		}
		return name
	}

	var ru types.Uid
	switch req {
	case "owner":
		if cat != "grp" {
			return "?"
		}
		ru = parties[0]
	case "member":
		if cat == "grp" {
			if nsubs < 2 {
				return "?"
			}
			ru = parties[1]
		} else {
			ru = parties[0]
		}
	case "former":
		if cat != "p2p" || nsubs != 1 {
			return "?"
		}
		ru = parties[1]
	case "none":
		ru = stranger
	default:
		return "?"
	}
	// who keeps the topic loaded when the requester is not attached
	keeper := parties[0]
	if ru == keeper {
		if len(parties) < 2 || (cat == "p2p" && nsubs < 2) {
			keeper = types.ZeroUid
		} else {
			keeper = parties[1]
		}
	}
	if loaded && !attached && keeper.IsZero() {
		return "?"
	}
	if attached && (!loaded || req == "none" || req == "former") {
		return "?"
	}

	rs := vNewSession(1, ru, auth.LevelAuth)
	var ks *vSess
	if !keeper.IsZero() {
		ks = vNewSession(2, keeper, auth.LevelAuth)
	}
	topics := []string{name}
	sub := func(vs *vSess, u types.Uid) {
		vs.s.dispatchRaw([]byte(`{"sub":{"id":"att","topic":"` + topicFor(u) + `"}}`))
	}
	if loaded {
		if attached {
			sub(rs, ru)
		} else {
			sub(ks, keeper)
		}
		if h := vWaitQuiet(topics); h != "" {
			return "hang-setup " + h
		}
	}
	if cat == "p2p" && nsubs == 1 {
		// party B gives his subscription up
		b := parties[1]
		if loaded {
			bs := vNewSession(3, b, auth.LevelAuth)
			bs.s.dispatchRaw([]byte(`{"del":{"id":"bdel","topic":"` + topicFor(b) + `","what":"topic","hard":true}}`))
			if h := vWaitQuiet(topics); h != "" {
				return "hang-setup " + h
			}
			bs.take()
			bs.s.cleanUp(true)
			<-bs.done
		} else if err := store.Subs.Delete(name, b); err != nil {
			panic("c06x: p2p sub delete: " + err.Error())
		}
	}
	if h := vWaitQuiet(topics); h != "" {
		return "hang-setup " + h
	}
	rs.take()
	if ks != nil {
		ks.take()
	}

	count := -1
	lt := globals.hub.topicGet(name)
	if lt != nil {
		count = lt.subsCount()
	}
	isAttached := rs.s.getSub(name) != nil
	before, _ := store.Topics.GetSubs(name, nil)
	had := map[string]bool{}
	for i := range before {
		had[before[i].User] = true
	}

	h := "false"
	if hard {
		h = "true"
	}
	rs.s.dispatchRaw([]byte(`{"del":{"id":"req","topic":"` + topicFor(ru) + `","what":"topic","hard":` + h + `}}`))
	hang := vWaitQuiet(topics)
	code := 0
	for _, m := range rs.take() {
		if m.Ctrl != nil && m.Ctrl.Id == "req" && code == 0 {
			code = m.Ctrl.Code
		}
	}
	class := "none"
	others := ""
	st, err := store.Topics.Get(name)
	if err != nil {
		panic("c06x: topic get: " + err.Error())
	}
	if st == nil || st.State == types.StateDeleted {
		class = "all"
	} else {
		after, _ := store.Topics.GetSubs(name, nil)
		left := map[string]bool{}
		for i := range after {
			left[after[i].User] = true
		}
		if had[ru.String()] && !left[ru.String()] {
			class = "own"
		}
		for i, u := range parties {
			if u != ru && had[u.String()] && !left[u.String()] {
				others = " lost=" + strconv.Itoa(i)
			}
		}
	}
	rs.s.cleanUp(true)
	<-rs.done
	if ks != nil {
		ks.s.cleanUp(true)
		<-ks.done
	}
	vWaitQuiet(topics)
	if t := globals.hub.topicGet(name); t != nil {
		globals.hub.unreg <- &topicUnreg{rcptTo: name}
	}
	vWaitQuiet(topics)
	if hang != "" {
		return "hang " + hang
	}
	return fmt.Sprintf("%s %d loaded=%s attached=%s count=%d scount=%d%s", class, code, vB2s(lt != nil), vB2s(isAttached), count, len(before), others)
}

func init() {
	verifHandlers["c06x"] = c06xDelGate
}
