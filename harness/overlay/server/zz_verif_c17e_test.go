//go:build verif

// C17 part E driver: ONE run of the real Cluster.electLeader against real net/rpc servers.
//
// The candidate is a real Cluster value (failoverInit, real ClusterNode.callAsync and
// handleRpcResponse).  Every other node is a real rpc.Server (rpc.NewServer + ServeConn, the
// default gob codec on both sides) behind an in-process net.Pipe, whose Cluster.Vote handler
// records the request it received and then blocks until the driver releases its scripted
// answer.  The replies therefore travel through gob and the real rpc.Client into the response
// pointer electLeader itself handed to callAsync, one at a time, in the scripted order: after
// every release the driver waits until every goroutine is parked again (vWaitQuiet of
// zz_verif_topic_test.go: with net.Pipe nothing is ever "in the kernel"), i.e. until electLeader
// has taken the reply from its done channel, and looks whether electLeader has returned.
//
// request:  V <tag> <n> <self> <t0> <leader before> <timer ms> <specs> <order>
//   n nodes "n0".."n<n-1>", the candidate is n<self> with c.fo.term = t0 and c.fo.leader = the given
//   node ('-' = none); timer ms = c.fo.heartBeat (0 = one hour: the election timer never fires);
//   specs: one per other node in index order: Y<t> yes, term t | N<t> no, term t | E the handler returns
//   an error | D the connection is dropped instead of an answer | U the node is not connected |
//   L late: no answer before electLeader returns;   order: indices in order of arrival ('-' = none)
// answer:   E <term> <leader> <k<j>|T<j>|HANG<j>> <requests>
//   k<j>: electLeader returned when j replies (the errors of unconnected nodes included) had been
//   made available, T<j>: only after its timer, HANG<j>: not at all; requests: what every fake node
//   received: <receiver>:<Node>:<Term>,... ('-' = nothing).  SLOW = the machine was too slow for the
//   timer scenario even with a 16 times longer timer (inconclusive, never a verdict).
package main

import (
	"errors"
	"fmt"
	"io"
	"log"
	"net"
	"net/rpc"
	"sort"
	"strconv"
	"strings"
	"sync"
	"time"

	"github.com/tinode/chat/server/logs"
)

func init() { verifHandlers["c17e"] = c17eElect }

type c17eAct struct {
	kind byte
	term int
}

type c17eVoter struct {
	idx     int
	mu      sync.Mutex
	got     []ClusterVoteRequest
	arrived chan struct{}
	release chan c17eAct
	sconn   net.Conn
}

// Vote is the Cluster.Vote entry point of a fake node.
func (v *c17eVoter) Vote(req *ClusterVoteRequest, resp *ClusterVoteResponse) error {
	v.mu.Lock()
	v.got = append(v.got, *req)
	v.mu.Unlock()
	select {
	case v.arrived <- struct{}{}:
	default:
	}
	act := <-v.release
	switch act.kind {
	case 'Y':
		*resp = ClusterVoteResponse{Result: true, Term: act.term}
		return nil
	case 'N':
		*resp = ClusterVoteResponse{Result: false, Term: act.term}
		return nil
	case 'E':
		return errors.New("verif: vote handler failed")
	}
	v.sconn.Close()
	return errors.New("verif: connection dropped")
}

func c17eName(s string) string {
	if s == "" {
		return "-"
	}
	if len(s) > 1 && s[0] == 'n' {
		if _, err := strconv.Atoi(s[1:]); err == nil {
			return s[1:]
		}
	}
	return "x" + vHex([]byte(s))
}

var c17eOnce sync.Once

func c17eElect(w []string) string {
	if len(w) != 9 || w[0] != "V" {
		return "bad request"
	}
	c17eOnce.Do(func() {
		// no log writes: a goroutine blocked in write(2) on stderr looks parked to vQuiescent
		logs.Init(io.Discard, "stdFlags")
		log.SetOutput(io.Discard) // net/rpc reports a failed response write through the standard logger
		if globals.hub == nil {
			globals.hub = &Hub{rehash: make(chan bool), topics: &sync.Map{}}
			go func() {
				for range globals.hub.rehash {
				}
			}()
		}
	})
	hb := int(vAtoi(w[6]))
	for attempt := 0; attempt < 3; attempt++ {
		res := c17eOnce1(w, hb)
		if res != "SLOW" {
			return res
		}
		hb *= 4
	}
	return "SLOW"
}

func c17eOnce1(w []string, hbms int) string {
	n, self, t0 := int(vAtoi(w[2])), int(vAtoi(w[3])), int(vAtoi(w[4]))
	specs := strings.Split(w[7], ",")
	if n < 2 || self < 0 || self >= n || len(specs) != n-1 {
		return "bad request"
	}
	name := func(i int) string { return "n" + strconv.Itoa(i) }
	c := &Cluster{thisNodeName: name(self), nodes: map[string]*ClusterNode{}}
	spec := map[int]string{}
	var peers []int
	for i, k := 0, 0; i < n; i++ {
		if i == self {
			continue
		}
		spec[i] = specs[k]
		k++
		peers = append(peers, i)
		c.nodes[name(i)] = &ClusterNode{name: name(i), done: make(chan bool, 1), msess: map[string]struct{}{}}
	}
	if !c.failoverInit(&clusterFailoverConfig{Enabled: true, Heartbeat: 3600000, VoteAfter: 1, NodeFailAfter: 3}) {
		return "failoverInit refused"
	}
	c.fo.term = t0
	if w[5] != "-" {
		c.fo.leader = name(int(vAtoi(w[5])))
	}
	if hbms > 0 {
		c.fo.heartBeat = time.Duration(hbms) * time.Millisecond
	} else {
		c.fo.heartBeat = time.Hour
	}
	timer := c.fo.heartBeat>>1 + c.fo.heartBeat

	voters := map[int]*c17eVoter{}
	taken := 0
	for _, p := range peers {
		nd := c.nodes[name(p)]
		if spec[p][0] == 'U' {
			taken++ // callAsync puts the error on the done channel itself
			continue
		}
		cconn, sconn := net.Pipe()
		v := &c17eVoter{idx: p, arrived: make(chan struct{}, 8), release: make(chan c17eAct, 8), sconn: sconn}
		srv := rpc.NewServer()
		if err := srv.RegisterName("Cluster", v); err != nil {
			return "register: " + err.Error()
		}
		go srv.ServeConn(sconn)
		nd.endpoint = rpc.NewClient(cconn)
		nd.connected = true
		voters[p] = v
	}
	defer func() {
		for _, p := range peers {
			nd := c.nodes[name(p)]
			if v := voters[p]; v != nil {
				select {
				case v.release <- c17eAct{kind: 'C'}:
				default:
				}
			}
			nd.lock.Lock()
			nd.connected = false
			ep := nd.endpoint
			nd.lock.Unlock()
			if ep != nil {
				ep.Close()
			}
			select {
			case nd.done <- true:
			default:
			}
		}
		vWaitQuiet(nil)
	}()

	done := make(chan struct{})
	var pan string
	start := time.Now()
	go func() {
		defer func() {
			if r := recover(); r != nil {
				pan = strings.ReplaceAll(fmt.Sprint(r), " ", "_")
			}
			close(done)
		}()
		c.electLeader()
	}()
	returned := func() bool {
		select {
		case <-done:
			return true
		default:
			return false
		}
	}
	// every connected node has the request in its handler (or electLeader is over already)
wait:
	for _, p := range peers {
		if v := voters[p]; v != nil {
			select {
			case <-v.arrived:
			case <-done:
				break wait
			case <-time.After(30 * time.Second):
				break wait
			}
		}
	}
	if q := vWaitQuiet(nil); q != "" {
		return strings.ReplaceAll(q, " ", "_")
	}
	ret := ""
	if returned() {
		ret = "k" + strconv.Itoa(taken)
	}
	if w[8] != "-" {
		for _, f := range strings.Split(w[8], ",") {
			p := int(vAtoi(f))
			v := voters[p]
			if v == nil || ret != "" {
				continue
			}
			var act c17eAct
			switch s := spec[p]; s[0] {
			case 'Y', 'N':
				act = c17eAct{kind: s[0], term: int(vAtoi(s[1:]))}
			case 'E', 'D':
				act = c17eAct{kind: s[0]}
			default:
				continue // a late node does not answer
			}
			v.release <- act
			taken++
			if q := vWaitQuiet(nil); q != "" {
				return strings.ReplaceAll(q, " ", "_")
			}
			if returned() {
				ret = "k" + strconv.Itoa(taken)
			}
		}
	}
	if ret == "" {
		if hbms > 0 {
			// every scripted reply had been taken well before the timer could fire?
			if time.Since(start) > timer/2 {
				return "SLOW"
			}
			select {
			case <-done:
				ret = "T" + strconv.Itoa(taken)
			case <-time.After(timer + 30*time.Second):
				ret = "HANG" + strconv.Itoa(taken)
			}
		} else {
			ret = "HANG" + strconv.Itoa(taken)
		}
	}
	if pan != "" {
		return "PANIC " + pan
	}
	if hbms > 0 && strings.HasPrefix(ret, "k") && time.Since(start) > timer/2 {
		// the return was observed too late to tell a return after the j-th reply from the timer
		return "SLOW"
	}
	term, leader := "?", "?"
	if !strings.HasPrefix(ret, "HANG") {
		term, leader = strconv.Itoa(c.fo.term), c17eName(c.fo.leader)
	}
	var reqs []string
	sort.Ints(peers)
	for _, p := range peers {
		if v := voters[p]; v != nil {
			v.mu.Lock()
			for _, r := range v.got {
				reqs = append(reqs, fmt.Sprintf("%d:%s:%d", p, c17eName(r.Node), r.Term))
			}
			v.mu.Unlock()
		}
	}
	rs := "-"
	if len(reqs) > 0 {
		rs = strings.Join(reqs, ",")
	}
	return fmt.Sprintf("E %s %s %s %s", term, leader, ret, rs)
}
