//go:build verif

// C13 malformed-stream driver (TESTING IN SUPPORT of the Coq half, see tools/props/c13.py).
//
// A population of real sessions in every state (no {hi}; {hi} only; logged in; logged in and
// attached to me/fnd/a group/a channel/a p2p topic; root; a bystander) above the real hub, topic
// goroutines and store mappers (memverif adapter).  Every input line is fed to the REAL entry
// point of the read loops: Session.dispatchRaw (websocket/long-poll path), or
// Session.dispatch(pbCliDeserialize(..)) (gRPC path), inside a goroutine with recover().  The
// production read loops have no recover (hdl_websock.go readLoop is started with `go`, the gRPC
// MessageLoop runs in a grpc-go goroutine), so a panic caught here is a crash of the whole server in
// production.  A panic in a hub/topic/topicInit goroutine cannot be caught: it kills this test
// binary, exactly as it kills the server; the python plugin detects the abnormal exit (the output
// ends with the "begin" marker of the fatal input and the process prints the Go panic trace).
//
// Input (VERIF_IN), one item per line:
//
//	cfg media=0|1 calls=0|1 validators=0|1      once, first line: configuration of this process
//	group <name>                                 tear down, rebuild the population
//	in <sess> <hex>                              raw client frame (JSON path); @U1@.. placeholders
//	pb <sess> <hex>                              protobuf ClientMsg (gRPC path)
//	ak <hex>                                     checkAPIKey(string)
//	probe                                        the bystander must still be served
//	clog <sess>                                  SLOW CONSUMER: the connection stops reading (the drain loop of that
//	                                             session is stopped through its own stop channel) and its send buffer is
//	                                             filled to capacity with dummy frames: every Session.queueOut on it takes
//	                                             the `default:` branch, so the next broadcast that selects it runs the real
//	                                             "connection stuck, detaching" path of Topic.broadcastToSessions ->
//	                                             unregisterSession(init=false).  The session keeps SENDING requests.
//	unclog <sess>                                the dummies are thrown away, the drain loop is restarted
//
// Sessions slow (second connection of the peer user) and slow2 (third connection of the first user) exist for this.
//
// Output (VERIF_OUT): "begin <n>" before, "r <n> ..." after every item.
package main

import (
	"bufio"
	"bytes"
	"encoding/hex"
	"encoding/json"
	"fmt"
	"io"
	"net/http"
	"os"
	"regexp"
	"runtime/debug"
	"sort"
	"strconv"
	"strings"
	"testing"
	"time"

	"github.com/tinode/chat/pbx"
	"github.com/tinode/chat/server/auth"
	"github.com/tinode/chat/server/db/memverif"
	"github.com/tinode/chat/server/media"
	"github.com/tinode/chat/server/store"
	"github.com/tinode/chat/server/store/types"
	"github.com/tinode/chat/server/validate"
	"google.golang.org/protobuf/proto"
)

// ---- stub optional subsystems (present/absent is the configuration under test) ----

type vfMedia struct{}

func (vfMedia) Init(jsconf string) error { return nil }
func (vfMedia) Headers(req *http.Request, serve bool) (http.Header, int, error) {
	return nil, 0, nil
}
func (vfMedia) Upload(fdef *types.FileDef, file io.ReadSeeker) (string, int64, error) {
	return "", 0, types.ErrUnsupported
}
func (vfMedia) Download(url string) (*types.FileDef, media.ReadSeekCloser, error) {
	return nil, nil, types.ErrNotFound
}
func (vfMedia) Delete(locations []string) error { return nil }
func (vfMedia) GetIdFromUrl(url string) types.Uid {
	return media.GetIdFromUrl(url, "/v0/file/s/")
}

type vfValidator struct{}

func (vfValidator) Init(jsonconf string) error { return nil }
func (vfValidator) IsInitialized() bool        { return true }
func (vfValidator) PreCheck(cred string, params map[string]any) (string, error) {
	if cred == "" || len(cred) > 64 {
		return "", types.ErrMalformed
	}
	return strings.ToLower(cred), nil
}
func (vfValidator) Request(user types.Uid, cred, lang, resp string, tmpToken []byte) (bool, error) {
	return true, nil
}
func (vfValidator) ResetSecret(cred, scheme, lang string, tmpToken []byte, params map[string]any) error {
	return nil
}
func (vfValidator) Check(user types.Uid, resp string) (string, error) {
	if resp == "123456" {
		return "x@example.com", nil
	}
	return "", types.ErrCredentials
}
func (vfValidator) Remove(user types.Uid, value string) error { return nil }
func (vfValidator) Delete(user types.Uid) error               { return nil }
func (vfValidator) TempAuthScheme() (string, error)           { return "code", nil }

var _ validate.Validator = vfValidator{}
var _ media.Handler = vfMedia{}

// ---- population ----

type vfPop struct {
	sess  map[string]*vSess
	names map[string]string // placeholder -> actual name
	uids  map[string]types.Uid
	// sessions whose connection is stuck (send buffer full, nobody reads): name -> true
	clogged map[string]bool
}

// the connection stops reading: stop the driver's drain loop (through the session's own stop channel, as
// zz_verif_c02_test.go does) and fill the send buffer to capacity
func (p *vfPop) clog(sn string) string {
	vs := p.sess[sn]
	if vs == nil {
		return "nosuch"
	}
	if p.clogged[sn] {
		return "already"
	}
	select {
	case <-vs.done:
		return "dead"
	default:
	}
	vs.s.stop <- nil
	<-vs.done
	for {
		select {
		case vs.s.send <- []byte{0x30}:
			continue
		default:
		}
		break
	}
	p.clogged[sn] = true
	return "ok"
}

// the connection reads again: whatever is in the buffer is thrown away (a frame other than a dummy cannot be
// there: the buffer was full all the time), the drain loop restarts (and leaves at once if the server has
// stopped the session meanwhile)
func (p *vfPop) unclog(sn string) string {
	vs := p.sess[sn]
	if vs == nil || !p.clogged[sn] {
		return "notclogged"
	}
	leak := 0
	for len(vs.s.send) > 0 {
		if m, ok := <-vs.s.send; ok {
			if _, dummy := m.([]byte); !dummy {
				leak++
			}
		}
	}
	vs.done = make(chan bool)
	go vs.loop()
	delete(p.clogged, sn)
	if leak > 0 {
		return "CLOGLEAK" + strconv.Itoa(leak)
	}
	return "ok"
}

// topic attachments held by the stuck connections
func (p *vfPop) cloggedSubs() map[string]bool {
	res := map[string]bool{}
	for sn := range p.clogged {
		s := p.sess[sn].s
		s.subsLock.RLock()
		for name := range s.subs {
			res[sn+" "+name] = true
		}
		s.subsLock.RUnlock()
	}
	return res
}

// the attachments lost, as the sorted list of topic categories (me fnd p2p grp), "-" when none
func vfLost(before, after map[string]bool) string {
	var res []string
	for k := range before {
		if !after[k] {
			name := k[strings.Index(k, " ")+1:]
			c := "other"
			if len(name) >= 3 {
				switch name[:3] {
				case "usr":
					c = "me"
				case "fnd", "p2p", "grp", "sys":
					c = name[:3]
				}
			}
			res = append(res, c)
		}
	}
	if len(res) == 0 {
		return "-"
	}
	sort.Strings(res)
	return strings.Join(res, "+")
}

var vfPlace = regexp.MustCompile(`@[A-Z][A-Z0-9]@`)

func (p *vfPop) subst(raw []byte) []byte {
	if !bytes.Contains(raw, []byte("@")) {
		return raw
	}
	return vfPlace.ReplaceAllFunc(raw, func(m []byte) []byte {
		if v, ok := p.names[string(m)]; ok {
			return []byte(v)
		}
		return m
	})
}

func vfAllTopics() []string {
	var res []string
	globals.hub.topics.Range(func(k, _ any) bool {
		res = append(res, k.(string))
		return true
	})
	return res
}

func vfQuiet() string { return vWaitQuiet(vfAllTopics()) }

// one request through the real path, the reply is awaited
func (p *vfPop) must(t *testing.T, sn string, msg string) []*ServerComMessage {
	vs := p.sess[sn]
	vs.s.dispatchRaw(p.subst([]byte(msg)))
	if h := vfQuiet(); h != "" {
		t.Fatal("population setup: ", h, " after ", msg)
	}
	fr := vs.take()
	for _, f := range fr {
		if f.Ctrl != nil && f.Ctrl.Code >= 300 {
			t.Fatalf("population setup: %s -> ctrl %d %s", msg, f.Ctrl.Code, f.Ctrl.Text)
		}
	}
	return fr
}

func vfCtrlTopic(fr []*ServerComMessage) string {
	for _, f := range fr {
		if f.Ctrl != nil && f.Ctrl.Topic != "" {
			return f.Ctrl.Topic
		}
	}
	return ""
}

func vfSetup(t *testing.T) *vfPop {
	p := &vfPop{sess: map[string]*vSess{}, names: map[string]string{}, uids: map[string]types.Uid{}, clogged: map[string]bool{}}
	for i, lvl := range []auth.Level{auth.LevelAuth, auth.LevelAuth, auth.LevelRoot, auth.LevelAuth, auth.LevelAuth} {
		u := &types.User{}
		u.Access.Auth = types.ModeCAuth
		u.Access.Anon = types.ModeNone
		u.Public = map[string]any{"fn": "user" + strconv.Itoa(i+1)}
		u.Tags = []string{"basic:user" + strconv.Itoa(i+1)}
		if _, err := store.Users.Create(u, nil); err != nil {
			t.Fatal("user create: ", err)
		}
		_ = lvl
		k := "U" + strconv.Itoa(i+1)
		p.uids[k] = u.Uid()
		p.names["@"+k+"@"] = u.Uid().UserId()
	}
	// a login+password for U5 so that {login basic} can succeed
	if ah := store.Store.GetAuthHandler("basic"); ah != nil {
		ah.AddRecord(&auth.Rec{Uid: p.uids["U5"], AuthLevel: auth.LevelAuth}, []byte("alice:alice123"), "")
	}
	mk := func(name, user string, lvl auth.Level) *vSess {
		var uid types.Uid
		if user != "" {
			uid = p.uids[user]
		}
		vs := vNewSession(len(p.sess), uid, lvl)
		vs.s.remoteAddr = "127.0.0.1:5555"
		// as NewSession does: a session the store does not know would survive the eviction of its user
		globals.sessionStore.lock.Lock()
		globals.sessionStore.sessCache[vs.s.sid] = vs.s
		globals.sessionStore.lock.Unlock()
		vs.s.lang = "en"
		p.sess[name] = vs
		return vs
	}
	mk("nohi", "", auth.LevelNone).s.ver = 0 // nothing received yet
	mk("hi", "", auth.LevelNone)             // {hi} done, anonymous
	mk("in", "U1", auth.LevelAuth)           // logged in, attached to nothing
	mk("att", "U1", auth.LevelAuth)          // logged in, attached to me, fnd, group, channel, p2p
	mk("peer", "U2", auth.LevelAuth)         // the other member
	mk("root", "U3", auth.LevelRoot)
	mk("by", "U4", auth.LevelAuth) // bystander, never addressed by the generators
	mk("slow", "U2", auth.LevelAuth)  // slow consumers: connections that can be made to stop reading (clog / unclog)
	mk("slow2", "U1", auth.LevelAuth)
	p.sess["hi"].s.userAgent = "fuzz/1.0"
	p.sess["att"].s.userAgent = "fuzz/1.0"

	p.must(t, "att", `{"sub":{"id":"s1","topic":"me"}}`)
	p.must(t, "att", `{"sub":{"id":"s2","topic":"fnd"}}`)
	g := vfCtrlTopic(p.must(t, "att", `{"sub":{"id":"s3","topic":"new","set":{"desc":{"public":{"fn":"G"}},"tags":["grptag"]}}}`))
	c := vfCtrlTopic(p.must(t, "att", `{"sub":{"id":"s4","topic":"nch","set":{"desc":{"public":{"fn":"C"}}}}}`))
	if !strings.HasPrefix(g, "grp") || !strings.HasPrefix(c, "grp") {
		t.Fatalf("population setup: group %q channel %q", g, c)
	}
	p.names["@GG@"] = g
	p.names["@GC@"] = c
	p.names["@CC@"] = types.GrpToChn(c)
	p.must(t, "att", `{"sub":{"id":"s5","topic":"@U2@"}}`)
	p.names["@PP@"] = p.uids["U1"].P2PName(p.uids["U2"])
	p.must(t, "peer", `{"sub":{"id":"s6","topic":"me"}}`)
	p.must(t, "peer", `{"sub":{"id":"s7","topic":"@GG@"}}`)
	p.must(t, "peer", `{"sub":{"id":"s8","topic":"@U1@"}}`)
	p.must(t, "peer", `{"sub":{"id":"s9","topic":"@CC@"}}`)
	p.must(t, "att", `{"pub":{"id":"s10","topic":"@GG@","content":"hello"}}`)
	p.must(t, "att", `{"pub":{"id":"s11","topic":"@U2@","content":{"txt":"hi there","fmt":[{"at":0,"len":2,"tp":"ST"}]},"head":{"mime":"text/x-drafty"}}}`)
	p.must(t, "att", `{"pub":{"id":"s12","topic":"@GG@","content":"two"}}`)
	p.must(t, "root", `{"sub":{"id":"s13","topic":"me"}}`)
	p.must(t, "by", `{"sub":{"id":"s14","topic":"me"}}`)
	// the root user is a member of a p2p topic with U1 and attached to it
	p.must(t, "root", `{"sub":{"id":"s14r","topic":"@U1@"}}`)
	p.names["@PR@"] = p.uids["U3"].P2PName(p.uids["U1"])
	// a second group that stays unloaded: owner U1, member U2 (offline {get}/{set}/{del} paths)
	g2 := vfCtrlTopic(p.must(t, "in", `{"sub":{"id":"s15","topic":"new"}}`))
	p.must(t, "peer", `{"sub":{"id":"s16","topic":"`+g2+`"}}`)
	p.must(t, "peer", `{"leave":{"id":"s17","topic":"`+g2+`"}}`)
	p.must(t, "in", `{"leave":{"id":"s18","topic":"`+g2+`"}}`)
	globals.hub.unreg <- &topicUnreg{rcptTo: g2}
	vfQuiet()
	p.names["@GO@"] = g2
	// the slow consumers are attached wherever a broadcast can reach them: me (pres), the group (data, info, pres),
	// the channel as a reader / as the owner, the p2p topic
	// (one quiescence wait for all of them: a session's next {sub} waits in inflightReqs.Add for the previous one)
	for _, m := range []string{"me", "@GG@", "@U1@", "@CC@"} {
		p.sess["slow"].s.dispatchRaw(p.subst([]byte(`{"sub":{"id":"s20","topic":"` + m + `"}}`)))
	}
	for _, m := range []string{"me", "@GG@", "@GC@", "@U2@"} {
		p.sess["slow2"].s.dispatchRaw(p.subst([]byte(`{"sub":{"id":"s21","topic":"` + m + `"}}`)))
	}
	if h := vfQuiet(); h != "" {
		t.Fatal("population setup: ", h, " after the slow consumers attach")
	}
	for _, sn := range []string{"slow", "slow2"} {
		ok := 0
		for _, f := range p.sess[sn].take() {
			if f.Ctrl != nil && f.Ctrl.Code >= 300 {
				t.Fatalf("population setup: %s -> ctrl %d %s", sn, f.Ctrl.Code, f.Ctrl.Text)
			}
			if f.Ctrl != nil && f.Ctrl.Code == 200 {
				ok++
			}
		}
		if ok != 4 || p.sess[sn].s.countSub() != 4 {
			t.Fatalf("population setup: %s attached to %d topics (%d replies)", sn, p.sess[sn].s.countSub(), ok)
		}
	}
	for _, vs := range p.sess {
		vs.take()
	}
	return p
}

func (p *vfPop) teardown() {
	for sn, vs := range p.sess {
		// the drain loop is stopped FIRST (a stuck connection has none): Session.purgeChannels
		// (`for len(s.send) > 0 { <-s.send }`) must not compete with it for the last queued frame
		if !p.clogged[sn] {
			select {
			case <-vs.done:
			default:
				vs.s.stop <- nil
				<-vs.done
			}
		}
		delete(p.clogged, sn)
		globals.sessionStore.Delete(vs.s)
		vs.s.cleanUp(true)
	}
	vfQuiet()
	for _, name := range vfAllTopics() {
		if name != "sys" {
			globals.hub.unreg <- &topicUnreg{rcptTo: name}
		}
	}
	vfQuiet()
	memverif.Reset()
}

// ---- one input ----

// the first two frames of the code under test in a stack trace, innermost first,
// e.g. "types.GetTopicCat<server.(*Session).note"
func vfSite(stack string) string {
	var res []string
	for _, l := range strings.Split(stack, "\n") {
		if strings.HasPrefix(l, "\t") || !strings.HasPrefix(l, "github.com/tinode/chat/") {
			continue
		}
		i := strings.LastIndex(l, "(")
		if i < 0 {
			continue
		}
		f := strings.TrimPrefix(l[:i], "github.com/tinode/chat/")
		if strings.Contains(f, "vfGuard") || strings.Contains(f, "TestVerif") || strings.Contains(f, "memverif") {
			continue
		}
		f = strings.TrimPrefix(f, "server/store/")
		f = strings.TrimPrefix(f, "server/")
		res = append(res, f)
		if len(res) == 2 {
			break
		}
	}
	if len(res) == 0 {
		return "?"
	}
	return strings.Join(res, "<")
}

func vfDecode(raw []byte) (string, string, string) {
	var msg ClientComMessage
	if len(raw) == 1 && raw[0] == 0x31 {
		return "probe1", "", ""
	}
	if err := json.Unmarshal(raw, &msg); err != nil {
		return "err", "", ""
	}
	return vfKinds(&msg)
}

func vfKinds(msg *ClientComMessage) (string, string, string) {
	var kinds []string
	id, topic := "", ""
	// same order as the switch in Session.dispatch: the first one present is the one handled
	if msg.Pub != nil {
		kinds = append(kinds, "pub")
		id, topic = msg.Pub.Id, msg.Pub.Topic
	}
	if msg.Sub != nil {
		kinds = append(kinds, "sub")
		if len(kinds) == 1 {
			id, topic = msg.Sub.Id, msg.Sub.Topic
		}
	}
	if msg.Leave != nil {
		kinds = append(kinds, "leave")
		if len(kinds) == 1 {
			id, topic = msg.Leave.Id, msg.Leave.Topic
		}
	}
	if msg.Hi != nil {
		kinds = append(kinds, "hi")
		if len(kinds) == 1 {
			id = msg.Hi.Id
		}
	}
	if msg.Login != nil {
		kinds = append(kinds, "login")
		if len(kinds) == 1 {
			id = msg.Login.Id
		}
	}
	if msg.Get != nil {
		kinds = append(kinds, "get")
		if len(kinds) == 1 {
			id, topic = msg.Get.Id, msg.Get.Topic
		}
	}
	if msg.Set != nil {
		kinds = append(kinds, "set")
		if len(kinds) == 1 {
			id, topic = msg.Set.Id, msg.Set.Topic
		}
	}
	if msg.Del != nil {
		kinds = append(kinds, "del")
		if len(kinds) == 1 {
			id, topic = msg.Del.Id, msg.Del.Topic
		}
	}
	if msg.Acc != nil {
		kinds = append(kinds, "acc")
		if len(kinds) == 1 {
			id = msg.Acc.Id
		}
	}
	if msg.Note != nil {
		kinds = append(kinds, "note")
		if len(kinds) == 1 {
			topic = msg.Note.Topic
		}
	}
	if len(kinds) == 0 {
		return "none", "", ""
	}
	k := strings.Join(kinds, "+")
	if msg.Extra != nil && msg.Extra.AsUser != "" {
		k += "/obo"
	}
	return k, id, topic
}

// facts about the state before the input, computed independently of the code under test, for the
// model correspondence: v=ver set, u=logged in, r=root, a=session attached to the addressed topic,
// l=topic loaded in the hub, s=live subscription row of the user exists in the store, d=row incl. soft-deleted;
// then what the in-topic default-access site reads (coq/Sys/PanicSites.v this_user_sub / another_user_sub):
// c=category of the loaded topic (0 me 1 fnd 2 p2p 3 grp 4 sys, 9 not loaded; t.cat is immutable after init),
// e=the session's user has a live subscription, x=0, j=its modeWant has J, h=(modeGiven & modeWant).IsSharer()
// (taken from the stored row, which the topic's perUser cache mirrors: the cache itself is owned by the topic
// goroutine and is not read from here); t=set.sub.user of the request (0 absent, 1 unparsable, 2 another user,
// 3 the session's own user), f=that user has no live subscription
func vfPre(s *Session, topic string, subUser string) string {
	b := func(x bool) string {
		if x {
			return "1"
		}
		return "0"
	}
	name := topic
	switch {
	case topic == "me":
		name = s.uid.UserId()
	case topic == "fnd":
		name = s.uid.FndName()
	case strings.HasPrefix(topic, "usr"):
		if u2 := types.ParseUserId(topic); !u2.IsZero() && u2 != s.uid {
			name = s.uid.P2PName(u2)
		}
	case strings.HasPrefix(topic, "chn"):
		name = "grp" + topic[3:]
	}
	att, loaded, srow, drow := false, false, false, false
	if name != "" {
		s.subsLock.RLock()
		_, att = s.subs[name]
		s.subsLock.RUnlock()
		loaded = globals.hub.topicGet(name) != nil
		if !s.uid.IsZero() {
			// the offline handlers look the row up under the channel name when addressed as chnXXX
			rowName := name
			if strings.HasPrefix(topic, "chn") {
				rowName = topic
			}
			if sub, err := store.Subs.Get(rowName, s.uid, false); err == nil && sub != nil {
				srow = true
			}
			if sub, err := store.Subs.Get(rowName, s.uid, true); err == nil && sub != nil {
				drow = true // including soft-deleted rows ({get sub} reads those too)
			}
		}
	}
	cat, pe, px, pj, ph, tk, tf := "9", false, false, false, false, "0", true
	var target types.Uid
	if subUser != "" {
		target = types.ParseUserId(subUser)
		switch {
		case target.IsZero():
			tk = "1"
		case target == s.uid:
			tk = "3"
		default:
			tk = "2"
		}
	}
	if name != "" {
		if t := globals.hub.topicGet(name); t != nil {
			switch t.cat {
			case types.TopicCatMe:
				cat = "0"
			case types.TopicCatFnd:
				cat = "1"
			case types.TopicCatP2P:
				cat = "2"
			case types.TopicCatGrp:
				cat = "3"
			case types.TopicCatSys:
				cat = "4"
			}
			rowName := name
			if strings.HasPrefix(topic, "chn") {
				rowName = topic
			}
			if !s.uid.IsZero() {
				if sub, err := store.Subs.Get(rowName, s.uid, false); err == nil && sub != nil {
					pe, pj, ph = true, sub.ModeWant.IsJoiner(), (sub.ModeGiven & sub.ModeWant).IsSharer()
				}
			}
			if !target.IsZero() {
				if sub, err := store.Subs.Get(name, target, false); err == nil && sub != nil {
					tf = false
				}
			}
		}
	}
	return "v" + b(s.ver != 0) + "u" + b(!s.uid.IsZero()) + "r" + b(s.authLvl == auth.LevelRoot) + "a" + b(att) + "l" + b(loaded) + "s" + b(srow) + "d" + b(drow) +
		"c" + cat + "e" + b(pe) + "x" + b(px) + "j" + b(pj) + "h" + b(ph) + "t" + tk + "f" + b(tf)
}

// set.sub.user of a {set} / of the "set" section of a {sub}
func vfSubUser(raw []byte) string {
	var msg ClientComMessage
	if json.Unmarshal(raw, &msg) != nil {
		return ""
	}
	if msg.Set != nil && msg.Set.Sub != nil {
		return msg.Set.Sub.User
	}
	if msg.Sub != nil && msg.Sub.Set != nil && msg.Sub.Set.Sub != nil {
		return msg.Sub.Set.Sub.User
	}
	return ""
}

func vfHexS(s string) string { return vHex([]byte(s)) }

type vfResult struct {
	panicMsg string
	site     string
	hang     bool
}

// runs f the way a read loop would, but with recover and a watchdog
func vfGuard(f func()) vfResult {
	ch := make(chan vfResult, 1)
	go func() {
		defer func() {
			if r := recover(); r != nil {
				ch <- vfResult{panicMsg: fmt.Sprint(r), site: vfSite(string(debug.Stack()))}
			}
		}()
		f()
		ch <- vfResult{}
	}()
	select {
	case r := <-ch:
		return r
	case <-time.After(15 * time.Second):
		return vfResult{hang: true}
	}
}

func vfFrames(fr []*ServerComMessage, raw [][]byte) string {
	var out []string
	for range raw {
		out = append(out, "b")
	}
	for _, m := range fr {
		switch {
		case m.Ctrl != nil:
			what := ""
			if pm, ok := m.Ctrl.Params.(map[string]any); ok {
				if w, ok := pm["what"].(string); ok {
					what = w
				}
			}
			out = append(out, fmt.Sprintf("c:%d:%s:%s:%s", m.Ctrl.Code, vfHexS(m.Ctrl.Id), vfHexS(m.Ctrl.Text), vfHexS(what)))
		case m.Meta != nil:
			out = append(out, "m:"+vfHexS(m.Meta.Id))
		case m.Data != nil:
			out = append(out, "d")
		case m.Pres != nil:
			out = append(out, "p")
		case m.Info != nil:
			out = append(out, "i")
		default:
			out = append(out, "?")
		}
	}
	if len(out) == 0 {
		return "-"
	}
	return strings.Join(out, ",")
}

func (vs *vSess) takeAll() ([]*ServerComMessage, [][]byte) {
	vs.mu.Lock()
	defer vs.mu.Unlock()
	f, r := vs.frames, vs.raw
	vs.frames, vs.raw = nil, nil
	return f, r
}

func TestVerifFuzz(t *testing.T) {
	fin, err := os.Open(os.Getenv("VERIF_IN"))
	if err != nil {
		t.Fatal(err)
	}
	defer fin.Close()
	fout, err := os.Create(os.Getenv("VERIF_OUT"))
	if err != nil {
		t.Fatal(err)
	}
	defer fout.Close()
	// unbuffered on purpose: the last line must be on disk when a topic goroutine kills the process
	emit := func(format string, a ...any) { fmt.Fprintf(fout, format+"\n", a...) }

	in := bufio.NewScanner(fin)
	in.Buffer(make([]byte, 1<<20), 1<<26)
	var pop *vfPop
	n := 0
	inited := false
	initServer := func(kv map[string]string) {
		vInitServer(t)
		globals.maxSubscriberCount = 32
		globals.apiKeySalt = []byte("T713/rYYgW7g4m3vG6zGRh7+FM1t0T8j13koXScOAj4=")
		globals.defaultCountryCode = "US"
		globals.immutableTagNS = map[string]bool{}
		globals.maskedTagNS = map[string]bool{}
		for name, conf := range map[string]string{
			"basic":     `{"add_to_tags":true,"min_login_length":4,"min_password_length":6}`,
			"token":     `{"expire_in":1209600,"serial_num":1,"key":"wfaY2RgF2S1OQI/ZlK+LSrp1KB2jwAdGAIHQ7JZn+Kc="}`,
			"code":      `{"expire_in":900,"max_retries":3,"code_length":6}`,
			"anonymous": ``,
		} {
			if ah := store.Store.GetAuthHandler(name); ah != nil && !ah.IsInitialized() {
				if err := ah.Init(json.RawMessage(conf), name); err != nil && name != "anonymous" {
					t.Fatal("auth init ", name, ": ", err)
				}
			}
		}
		globals.immutableTagNS["basic"] = true
		if kv["media"] == "1" {
			store.RegisterMediaHandler("verifstub", vfMedia{})
			if err := store.Store.UseMediaHandler("verifstub", ""); err != nil {
				t.Fatal(err)
			}
			globals.maxFileUploadSize = 1 << 20
		}
		if kv["calls"] == "1" {
			globals.iceServers = []iceServer{{Urls: []string{"stun:stun.example.com"}}}
			globals.callEstablishmentTimeout = 30
		}
		if kv["validators"] == "1" {
			store.RegisterValidator("vfy", vfValidator{})
			globals.validators = map[string]credValidator{"vfy": {requiredAuthLvl: []auth.Level{auth.LevelAuth}, addToTags: true}}
			globals.authValidators = map[auth.Level][]string{auth.LevelAuth: {"vfy"}}
			globals.validatorClientConfig = map[string][]string{"auth": {"vfy"}}
			globals.immutableTagNS["vfy"] = true
		}
		inited = true
	}
	probe := func() string {
		by := pop.sess["by"]
		by.takeAll()
		r := vfGuard(func() { by.s.dispatchRaw([]byte(`{"get":{"id":"probe","topic":"me","what":"desc"}}`)) })
		if r.panicMsg != "" || r.hang {
			return "FAIL panic-or-hang"
		}
		if h := vfQuiet(); h != "" {
			return "FAIL " + h
		}
		fr, _ := by.takeAll()
		for _, f := range fr {
			if f.Meta != nil && f.Meta.Id == "probe" && f.Meta.Desc != nil {
				return "ok"
			}
		}
		return "FAIL bystander-not-served " + vfFrames(fr, nil)
	}
	for in.Scan() {
		w := strings.Fields(in.Text())
		if len(w) == 0 {
			continue
		}
		switch w[0] {
		case "cfg":
			initServer(vKV(w[1:]))
			emit("cfg ok")
		case "group":
			if !inited {
				initServer(map[string]string{})
			}
			if pop != nil {
				pop.teardown()
			}
			pop = vfSetup(t)
			emit("group %s", w[1])
		case "probe":
			n++
			emit("begin %d", n)
			emit("r %d probe %s", n, probe())
		case "clog", "unclog":
			n++
			emit("begin %d", n)
			res := ""
			if w[0] == "clog" {
				res = pop.clog(w[1])
			} else {
				res = pop.unclog(w[1])
				if h := vfQuiet(); h != "" {
					res = strings.ReplaceAll(h, " ", "_")
				}
			}
			emit("r %d %s %s %s", n, w[0], w[1], res)
		case "ak":
			n++
			emit("begin %d", n)
			key := string(vUnhex(w[1]))
			var valid, root bool
			r := vfGuard(func() { valid, root = checkAPIKey(key) })
			if r.panicMsg != "" {
				emit("r %d ak PANIC site=%s msg=%s", n, r.site, vfHexS(r.panicMsg))
			} else {
				emit("r %d ak ok valid=%s root=%s", n, vB2s(valid), vB2s(root))
			}
		case "in", "pb":
			n++
			emit("begin %d", n)
			vs := pop.sess[w[1]]
			if vs == nil {
				t.Fatal("unknown session " + w[1])
			}
			raw := pop.subst(vUnhex(w[2]))
			dead := false
			if !pop.clogged[w[1]] {
				select {
				case <-vs.done:
					// the server has stopped this session (evicted / own account deleted): in production the
					// socket is closed by the write loop, nothing more can arrive on it
					dead = true
				default:
				}
			}
			if dead {
				emit("r %d %s dec=dead id=- topic=- st=- res=ok term=1 frames=- others=0", n, w[1])
				continue
			}
			for _, o := range pop.sess {
				o.takeAll()
			}
			var dec, id, topic string
			var r vfResult
			pre := ""
			// cl: the requesting connection is stuck (its replies cannot be queued, nothing is observed on it);
			// ev: attachments the stuck connections lose while this input is handled (slow-consumer evictions)
			cl, subs0 := vB2s(pop.clogged[w[1]]), pop.cloggedSubs()
			if w[0] == "in" {
				dec, id, topic = vfDecode(raw)
				pre = vfPre(vs.s, topic, vfSubUser(raw))
				// kept if the process dies in a hub / topic goroutine while handling the input
				emit("pre %d %s dec=%s id=%s topic=%s st=%s", n, w[1], dec, vfHexS(id), vfHexS(topic), pre)
				r = vfGuard(func() { vs.s.dispatchRaw(raw) })
			} else {
				var pm pbx.ClientMsg
				if err := proto.Unmarshal(raw, &pm); err != nil {
					// grpc-go fails stream.Recv(): the loop ends with an error, nothing reaches the server code
					emit("r %d %s dec=pberr id=- topic=- st=- res=ok term=0 frames=- others=0", n, w[1])
					continue
				}
				r = vfGuard(func() {
					m := pbCliDeserialize(&pm)
					dec, id, topic = vfKinds(m)
					pre = vfPre(vs.s, topic, "")
					vs.s.dispatch(m)
				})
				if pre == "" {
					pre = vfPre(vs.s, "", "")
				}
				if dec == "" {
					dec = "pbpanic"
				}
			}
			res := "ok"
			if r.hang {
				emit("r %d %s dec=%s id=%s topic=%s res=HANG-readloop", n, w[1], dec, vfHexS(id), vfHexS(topic))
				os.Exit(3)
			}
			if r.panicMsg != "" {
				res = "PANIC:" + r.site + ":" + vfHexS(r.panicMsg)
			}
			if h := vfQuiet(); h != "" {
				emit("r %d %s dec=%s id=%s topic=%s res=%s", n, w[1], dec, vfHexS(id), vfHexS(topic), strings.ReplaceAll(h, " ", "_"))
				os.Exit(3)
			}
			fr, rawb := vs.takeAll()
			others := 0
			for k, o := range pop.sess {
				if k != w[1] {
					f, _ := o.takeAll()
					others += len(f)
				}
			}
			term := "0"
			if vs.s.terminating > 0 {
				term = "1"
			}
			emit("r %d %s dec=%s id=%s topic=%s st=%s res=%s term=%s frames=%s others=%d cl=%s ev=%s", n, w[1], dec, vfHexS(id), vfHexS(topic), pre, res, term,
				vfFrames(fr, rawb), others, cl, vfLost(subs0, pop.cloggedSubs()))
			if r.panicMsg != "" {
				// in production the process is gone; start over so that later inputs see a sane server
				emit("r %d probe %s", n, probe())
				pop.teardown()
				pop = vfSetup(t)
			}
		}
	}
	if pop != nil {
		emit("final probe %s", probe())
		pop.teardown()
	}
	emit("done")
	_ = hex.EncodeToString
}
