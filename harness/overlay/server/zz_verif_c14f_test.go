//go:build verif

// C14, round s14f.
// (1) helpers of the life-cycle driver (zz_verif_c14_test.go) for root sessions acting on behalf of
//     other users (extra.obo): request suffix obo=<user>, dump fields asuser= / subrows=.
// (2) TestVerifC14Registry: the real SessionStore driven through NewSession (websocket and
//     long-polling connections, as hdl_websock.go / hdl_longpoll.go call it), Get, the closing
//     connection's cleanUp(false) (-> Delete), EvictUser; lastTouched is moved into the past to let
//     sessions go stale; after every call the store's map and LRU list are dumped.
//     Same scenario lines as the model runner harness/runner/r_c14f.ml.
package main

import (
	"bufio"
	"container/list"
	"fmt"
	"net/http/httptest"
	"os"
	"sort"
	"strconv"
	"strings"
	"sync/atomic"
	"testing"
	"time"

	"github.com/gorilla/websocket"
	"github.com/tinode/chat/server/store"
	"github.com/tinode/chat/server/store/types"
)

func lcOboExtraC14f(sc *lcScn, r lcReq) string {
	if r.obo == 0 {
		return ""
	}
	return `,"extra":{"obo":"` + sc.uids[r.obo].UserId() + `"}`
}

// asuser=si:user,... : the user each attached session is attached AS (perSessionData.uid);
// subrows=user,... : the scenario's users who have a (not deleted) subscription row for the topic.
func lcDumpAsUserC14f(sc *lcScn, t *lcTopic, tt *Topic) string {
	var as []string
	for s, pssd := range tt.sessions {
		for i, ls := range sc.sess {
			if ls.s == s {
				as = append(as, fmt.Sprintf("%d:%d", i, sc.uidIdx[pssd.uid]))
			}
		}
	}
	sort.Strings(as)
	var rows []string
	if t.kind == "grp" || t.kind == "chn" {
		for idx, uid := range sc.uids {
			if sub, err := store.Subs.Get(t.name, uid, false); err == nil && sub != nil {
				rows = append(rows, strconv.Itoa(idx))
			}
		}
		sort.Strings(rows)
	}
	return " asuser=" + strings.Join(as, ",") + " subrows=" + strings.Join(rows, ",")
}

// ---------------------------------------------------------------- session registry

type regScnC14f struct {
	ss   *SessionStore
	sess []*Session
	dead bool // a call did not return: the store's lock is held for ever; the rest of the scenario is skipped
}

func (sc *regScnC14f) idxOf(s *Session) string {
	for i, x := range sc.sess {
		if x == s {
			return strconv.Itoa(i)
		}
	}
	return "?" + s.sid
}

func (sc *regScnC14f) dump() string {
	ss := sc.ss
	ss.lock.Lock()
	defer ss.lock.Unlock()
	var cache, lru, term []string
	for sid, s := range ss.sessCache {
		x := sc.idxOf(s)
		if s.sid != sid {
			x += "!key"
		}
		cache = append(cache, x)
	}
	sort.Slice(cache, func(i, j int) bool {
		if len(cache[i]) != len(cache[j]) {
			return len(cache[i]) < len(cache[j])
		}
		return cache[i] < cache[j]
	})
	for e := ss.lru.Front(); e != nil; e = e.Next() {
		lru = append(lru, sc.idxOf(e.Value.(*Session)))
	}
	for i, s := range sc.sess {
		if atomic.LoadInt32(&s.terminating) != 0 || len(s.stop) > 0 {
			term = append(term, strconv.Itoa(i))
		}
	}
	return "cache=" + strings.Join(cache, ",") + " lru=" + strings.Join(lru, ",") + " term=" + strings.Join(term, ",")
}

// call runs f on its own goroutine; false = it did not return within the limit (a hang: every store call is a
// few map operations under one mutex)
func regCallC14f(f func()) bool {
	done := make(chan struct{})
	go func() {
		defer close(done)
		f()
	}()
	select {
	case <-done:
		return true
	case <-time.After(8 * time.Second):
		return false
	}
}

// NewSessionStore without the registration of the statistics variables (expvar refuses a second registration
// in one process): the same three fields
func regNewStoreC14f(lifetime time.Duration) *SessionStore {
	return &SessionStore{lru: list.New(), lifeTime: lifetime, sessCache: make(map[string]*Session)}
}

func TestVerifC14Registry(t *testing.T) {
	vInitServer(t)
	fin, err := os.Open(os.Getenv("VERIF_IN"))
	if err != nil {
		t.Fatal(err)
	}
	defer fin.Close()
	fout, err := os.Create(os.Getenv("VERIF_OUT"))
	if err != nil {
		t.Fatal(err)
	}
	defer fout.Close()
	out := bufio.NewWriterSize(fout, 1<<20)
	defer out.Flush()
	in := bufio.NewScanner(fin)
	in.Buffer(make([]byte, 1<<20), 1<<26)
	var sc *regScnC14f
	for in.Scan() {
		w := strings.Fields(in.Text())
		if len(w) == 0 {
			continue
		}
		if w[0] == "scn" {
			life, _ := strconv.Atoi(w[2])
			sc = &regScnC14f{ss: regNewStoreC14f(time.Duration(life) * time.Second)}
			globals.sessionStore = sc.ss
			fmt.Fprintf(out, "scn %s\n", w[1])
			continue
		}
		if w[0] == "end" {
			fmt.Fprintln(out, "end")
			out.Flush()
			continue
		}
		if sc == nil || sc.dead {
			fmt.Fprintf(out, "r %s skipped-after-hang\n", w[0])
			continue
		}
		ret := ""
		ok := true
		switch w[0] {
		case "new":
			uid, _ := strconv.Atoi(w[2])
			ok = regCallC14f(func() {
				var s *Session
				if w[1] == "lp" {
					// hdl_longpoll.go:161: NewSession(wrt, "") with the http.ResponseWriter of the request
					s, _ = sc.ss.NewSession(httptest.NewRecorder(), "")
				} else {
					// hdl_websock.go:194: NewSession(ws, "") with the upgraded connection (never used here: no loops run)
					s, _ = sc.ss.NewSession((*websocket.Conn)(nil), "")
				}
				s.uid = types.Uid(uint64(uid))
				sc.sess = append(sc.sess, s)
				ret = strconv.Itoa(len(sc.sess) - 1)
			})
		case "get":
			i, _ := strconv.Atoi(w[1])
			ok = regCallC14f(func() {
				ret = vB2s(sc.ss.Get(sc.sess[i].sid) != nil)
			})
		case "disc":
			i, _ := strconv.Atoi(w[1])
			s := sc.sess[i]
			if atomic.LoadInt32(&s.terminating) != 0 {
				ret = "refused-already-cleaned-up"
			} else {
				ok = regCallC14f(func() { s.cleanUp(false) })
			}
		case "evict":
			uid, _ := strconv.Atoi(w[1])
			skip := ""
			if w[2] != "-" {
				i, _ := strconv.Atoi(w[2])
				skip = sc.sess[i].sid
			}
			ok = regCallC14f(func() { sc.ss.EvictUser(types.Uid(uint64(uid)), skip) })
		case "age":
			i, _ := strconv.Atoi(w[1])
			d, _ := strconv.Atoi(w[2])
			ok = regCallC14f(func() {
				sc.ss.lock.Lock()
				sc.sess[i].lastTouched = sc.sess[i].lastTouched.Add(-time.Duration(d) * time.Second)
				sc.ss.lock.Unlock()
			})
		}
		if !ok {
			sc.dead = true
			fmt.Fprintf(out, "r %s HANG :: %s\n", w[0], strings.ReplaceAll(lcBlockedDump(), "\n", " | "))
			// a fresh store for whoever looks at globals.sessionStore next
			globals.sessionStore = regNewStoreC14f(time.Hour)
			continue
		}
		fmt.Fprintf(out, "r %s ret=%s %s\n", w[0], ret, sc.dump())
	}
}
