//go:build verif

// Line driver for package-main internals (added to the build by -overlay only;
// nothing is written to /repo).  VERIF_PROP selects the handler, VERIF_IN /
// VERIF_OUT name the request and answer files: one request per line, one answer
// per line, same format as the model runner.
package main

import (
	"bufio"
	"encoding/hex"
	"fmt"
	"os"
	"strconv"
	"strings"
	"testing"
)

type verifHandler func(w []string) string

var verifHandlers = map[string]verifHandler{}

func vUnhex(h string) []byte {
	if h == "-" {
		return []byte{}
	}
	b, err := hex.DecodeString(h)
	if err != nil {
		panic("driver: bad hex " + h)
	}
	return b
}

func vHex(b []byte) string {
	if len(b) == 0 {
		return "-"
	}
	return hex.EncodeToString(b)
}

func vAtoi(s string) int64 {
	v, err := strconv.ParseInt(s, 10, 64)
	if err != nil {
		panic("driver: bad int " + s)
	}
	return v
}

func vAtou(s string) uint64 {
	v, err := strconv.ParseUint(s, 10, 64)
	if err != nil {
		panic("driver: bad uint " + s)
	}
	return v
}

func vB2s(b bool) string {
	if b {
		return "1"
	}
	return "0"
}

func vSafe(h verifHandler, w []string) (res string) {
	defer func() {
		if r := recover(); r != nil {
			res = strings.ReplaceAll(fmt.Sprintf("PANIC %v", r), "\n", " ")
		}
	}()
	return h(w)
}

func TestVerifLines(t *testing.T) {
	prop := os.Getenv("VERIF_PROP")
	h, ok := verifHandlers[prop]
	if !ok {
		t.Fatalf("unknown VERIF_PROP %q", prop)
	}
	fin, err := os.Open(os.Getenv("VERIF_IN"))
	if err != nil {
		t.Fatal(err)
	}
	defer fin.Close()
	fout, err := os.Create(os.Getenv("VERIF_OUT"))
	if err != nil {
		t.Fatal(err)
	}
	defer fout.Close()
	in := bufio.NewScanner(fin)
	in.Buffer(make([]byte, 1<<20), 1<<26)
	out := bufio.NewWriterSize(fout, 1<<20)
	defer out.Flush()
	for in.Scan() {
		out.WriteString(vSafe(h, strings.Fields(in.Text())))
		out.WriteByte('\n')
	}
}
