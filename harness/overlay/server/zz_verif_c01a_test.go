//go:build verif

// C01 attachments driver: histories on a REAL group topic (hub, topic goroutine, sessions, store mappers
// above memverif, a media handler configured) in which a {pub} may list attachments (extra.attachments),
// combined with every fault plan of the save path (Fk / Ck = the k-th adapter call of the request fails /
// the process dies there): TopicUpdateOnMessage, MessageSave, SubsUpdate, FileLinkAttachments.
// Same scenario head, same base requests and the same canonical blocks as the topic-history driver
// (zz_verif_topic_test.go, whose vScn / op / emitStore / emitCache / vWaitQuiet / vNewSession are reused);
// the model runner harness/runner/r_c01a.ml prints the same blocks from coq/Sys/TopicAttC01.v.
//
// New requests (tools/props/c01att.py):
//   op <N|Fk|Ck> puba <sess> <content> <noecho> <atts>
//   op <N|Fk|Ck> getdescp <sess>        {get what=desc}, answered frames rendered in both wire encodings
//   op <N|Fk|Ck> getdatap <sess>        {get what=data} (whole history), likewise
// The frames answering these requests that show a message number carry pbseq=<n>: the number in the
// protobuf encoding of the same frame (what a gRPC client reads), next to seq=<n> of the JSON encoding.
// <atts>: one letter per listed URL: j = a URL that names no file id (foreign directory / no id in the name),
//         u = a well-formed file URL whose id has no upload record, k = the URL of an uploaded file
//         (the upload record is created by the driver before the fault is armed).
package main

import (
	"bufio"
	"fmt"
	"io"
	"net/http"
	"os"
	"sort"
	"strconv"
	"strings"
	"testing"
	"time"

	"github.com/tinode/chat/server/auth"
	"github.com/tinode/chat/server/db/memverif"
	"github.com/tinode/chat/server/media"
	"github.com/tinode/chat/server/store"
	"github.com/tinode/chat/server/store/types"
)

const c01aServeURL = "/v0/file/s/"

type c01aMedia struct{}

func (c01aMedia) Init(jsconf string) error { return nil }
func (c01aMedia) Headers(req *http.Request, serve bool) (http.Header, int, error) {
	return nil, 0, nil
}
func (c01aMedia) Upload(fdef *types.FileDef, file io.ReadSeeker) (string, int64, error) {
	return "", 0, types.ErrUnsupported
}
func (c01aMedia) Download(url string) (*types.FileDef, media.ReadSeekCloser, error) {
	return nil, nil, types.ErrNotFound
}
func (c01aMedia) Delete(locations []string) error { return nil }
func (c01aMedia) GetIdFromUrl(url string) types.Uid {
	return media.GetIdFromUrl(url, c01aServeURL)
}

var c01aJunkCount int

// the URLs of one {pub}: built (and the upload records written) before the fault is armed
func c01aURLs(sc *vScn, user types.Uid, atts string) []string {
	var urls []string
	for _, ch := range atts {
		switch ch {
		case 'j':
			c01aJunkCount++
			if c01aJunkCount%2 == 0 {
				urls = append(urls, "https://files.example.com/elsewhere/"+store.Store.GetUidString())
			} else {
				urls = append(urls, c01aServeURL+"!no-id!")
			}
		case 'u':
			urls = append(urls, c01aServeURL+store.Store.GetUidString())
		case 'k':
			fdef := &types.FileDef{ObjHeader: types.ObjHeader{Id: store.Store.GetUidString()}, MimeType: "text/plain",
				User: user.String(), Location: "c01a"}
			fdef.InitTimes()
			if err := store.Files.StartUpload(fdef); err != nil {
				panic(err)
			}
			if _, err := store.Files.FinishUpload(fdef, true, 1); err != nil {
				panic(err)
			}
			urls = append(urls, c01aServeURL+fdef.Id+".txt")
		}
	}
	return urls
}

// a frame that shows a message number ({data}, {meta desc}, the 202 of a {pub}) is rendered with the number a gRPC
// client reads off the protobuf encoding of the same frame (pbServSerialize) next to the JSON one: pbseq=<n>
func c01aFrame(sc *vScn, m *ServerComMessage) string {
	res := sc.frame(m)
	switch {
	case m.Data != nil:
		res += " pbseq=" + strconv.Itoa(int(pbServSerialize(m).GetData().GetSeqId()))
	case m.Meta != nil && m.Meta.Desc != nil:
		res += " pbseq=" + strconv.Itoa(int(pbServSerialize(m).GetMeta().GetDesc().GetSeqId()))
	case m.Ctrl != nil && m.Ctrl.Code == 202 && strings.Contains(res, " seq="):
		if v, ok := pbServSerialize(m).GetCtrl().GetParams()["seq"]; ok {
			res += " pbseq=" + string(v)
		} else {
			res += " pbseq=absent"
		}
	}
	return res
}

// the new requests: same prologue / epilogue as vScn.op
func c01aOp(sc *vScn, w []string) {
	flt, kind, a := w[0], w[1], w[2:]
	if kind != "puba" && kind != "getdescp" && kind != "getdatap" {
		sc.op(w)
		return
	}
	sc.opi++
	fmt.Fprintf(sc.out, "op %d\n", sc.opi)
	memverif.ClearFault()
	memverif.ResetCallLog()
	tn := sc.topic
	id := fmt.Sprintf("%d", sc.opi)
	si, _ := strconv.Atoi(a[0])
	var req string
	if kind == "getdescp" {
		req = `{"get":{"id":"` + id + `","topic":"` + tn + `","what":"desc"}}`
	} else if kind == "getdatap" {
		req = `{"get":{"id":"` + id + `","topic":"` + tn + `","what":"data","data":{}}}`
	} else {
		ne := ""
		if a[2] == "1" {
			ne = `,"noecho":true`
		}
		extra := ""
		if a[3] != "-" {
			extra = `,"extra":{"attachments":` + vJSON(c01aURLs(sc, sc.uids[sc.sessUser[si]], a[3])) + `}`
		}
		req = `{"pub":{"id":"` + id + `","topic":"` + tn + `","content":` + a[1] + ne + `}` + extra + `}`
	}
	memverif.ResetCallLog()
	if flt != "N" {
		k, _ := strconv.Atoi(flt[1:])
		memverif.SetFault(k, flt[0] == 'C')
	}
	sc.send(si, req)
	hang := vWaitQuiet([]string{tn})
	sc.emitPush()
	idxs := make([]int, 0, len(sc.sess))
	for i := range sc.sess {
		idxs = append(idxs, i)
	}
	sort.Ints(idxs)
	for _, i := range idxs {
		for _, m := range sc.sess[i].take() {
			fmt.Fprintf(sc.out, "S%d %s\n", i, c01aFrame(sc, m))
		}
	}
	calls := memverif.CallLog()
	if flt != "N" && flt[0] == 'C' {
		sc.restart()
		if h2 := vWaitQuiet([]string{tn}); h2 != "" {
			hang = h2
		}
	}
	if hang != "" {
		fmt.Fprintln(sc.out, hang)
	}
	fmt.Fprintf(sc.out, "calls %d\n", len(calls))
	fmt.Fprintf(sc.out, "calllog %s\n", strings.Join(calls, " "))
	memverif.ClearFault()
	if globals.hub.topicGet(sc.topic) == nil {
		fmt.Fprintln(sc.out, "loaded 0")
	} else {
		fmt.Fprintln(sc.out, "loaded 1")
	}
	sc.emitStore()
	sc.emitCache()
}

func TestVerifC01a(t *testing.T) {
	vInitServer(t)
	store.RegisterMediaHandler("c01astub", c01aMedia{})
	if err := store.Store.UseMediaHandler("c01astub", ""); err != nil {
		t.Fatal(err)
	}
	fin, err := os.Open(os.Getenv("VERIF_IN"))
	if err != nil {
		t.Fatal(err)
	}
	defer fin.Close()
	fout, err := os.Create(os.Getenv("VERIF_OUT"))
	if err != nil {
		t.Fatal(err)
	}
	defer fout.Close()
	out := bufio.NewWriterSize(fout, 1<<20)
	defer out.Flush()
	in := bufio.NewScanner(fin)
	in.Buffer(make([]byte, 1<<20), 1<<26)
	var sc *vScn
	scnCount := 0
	for in.Scan() {
		w := strings.Fields(in.Text())
		if len(w) == 0 {
			continue
		}
		switch w[0] {
		case "scn":
			scnCount++
			kv := vKV(w[2:])
			sc = &vScn{id: w[1], uids: map[int]types.Uid{}, uidIdx: map[types.Uid]int{}, sess: map[int]*vSess{},
				sessUser: map[int]int{}, out: out}
			sc.topic = "grpVerifA" + strconv.Itoa(scnCount) + "x" + strconv.FormatInt(time.Now().UnixNano()%1000000, 36)
			sc.gen = scnCount
			sc.pending(kv)
			fmt.Fprintf(out, "scn %s\n", w[1])
		case "user":
			kv := vKV(w[2:])
			i, _ := strconv.Atoi(w[1])
			acc, _ := strconv.Atoi(kv["acc"])
			u := &types.User{}
			u.Access.Auth = types.AccessMode(acc)
			u.Access.Anon = types.ModeNone
			if _, err := store.Users.Create(u, nil); err != nil {
				t.Fatal("user create: ", err)
			}
			sc.uids[i] = u.Uid()
			sc.uidIdx[u.Uid()] = i
			sc.maybeCreateTopic(t, i)
		case "subrow":
			kv := vKV(w[2:])
			i, _ := strconv.Atoi(w[1])
			want, _ := strconv.Atoi(kv["want"])
			given, _ := strconv.Atoi(kv["given"])
			if err := store.Subs.Create(&types.Subscription{User: sc.uids[i].String(), Topic: sc.topic,
				ModeWant: types.AccessMode(want), ModeGiven: types.AccessMode(given)}); err != nil {
				t.Fatal("sub create: ", err)
			}
		case "sess":
			si, _ := strconv.Atoi(w[1])
			ui, _ := strconv.Atoi(w[2])
			sc.sessUser[si] = ui
			sc.sess[si] = vNewSession(si, sc.uids[ui], auth.LevelAuth)
		case "op":
			c01aOp(sc, w[1:])
		case "end":
			sc.finish()
			fmt.Fprintln(out, "end")
			out.Flush()
		}
	}
}
