//go:build verif

// C19 driver: parseSearchQuery, rewriteTag, normalizeTags, filterRestrictedTags,
// restrictedTagsEqual, stringSliceDelta of package main (server/utils.go) behind
// the line protocol of zz_verif_lines_test.go.  Strings travel hex-encoded
// UTF-8; "_" is the empty string inside a list, "-" the empty list, "nil" a nil
// slice.
//
// Tag rewriting is made deterministic by one fake validator ("vmail", indexed:
// a term starting with U+00E9 and at least 2 runes long becomes "vmail:"+term)
// and one fake authenticator ("verif": a term starting with 'b' made of a-z
// only becomes "login:"+term).  The real authenticators registered by the
// imports of main.go are not initialised and answer "" from AsTag.  The model
// runner uses the same two rules (Query.fake_val / Query.fake_auth).
package main

import (
	"fmt"
	"io"
	"log"
	"sort"
	"strings"
	"sync"
	"unicode"
	"unicode/utf8"

	"github.com/tinode/chat/server/auth"
	"github.com/tinode/chat/server/logs"
	"github.com/tinode/chat/server/store"
	"github.com/tinode/chat/server/store/types"
	"github.com/tinode/chat/server/validate"
)

type c19FakeAuth struct {
	auth.AuthHandler
}

func (c19FakeAuth) AsTag(token string) string {
	if !strings.HasPrefix(token, "b") {
		return ""
	}
	for _, r := range token {
		if r < 'a' || r > 'z' {
			return ""
		}
	}
	return "login:" + token
}

type c19FakeVal struct {
	validate.Validator
}

func (c19FakeVal) PreCheck(cred string, _ map[string]interface{}) (string, error) {
	if strings.HasPrefix(cred, "é") && utf8.RuneCountInString(cred) >= 2 {
		return "vmail:" + cred, nil
	}
	return "", types.ErrMalformed
}

var c19Once sync.Once

func c19Setup() {
	c19Once.Do(func() {
		store.RegisterAuthScheme("verif", c19FakeAuth{})
		store.RegisterValidator("vmail", c19FakeVal{})
		globals.validators = map[string]credValidator{"vmail": {addToTags: true}}
		// rewriteTag logs every invalid term
		logs.Warn = log.New(io.Discard, "", 0)
	})
}

func c19List(s string) []string {
	if s == "nil" {
		return nil
	}
	if s == "-" {
		return []string{}
	}
	var out []string
	for _, h := range strings.Split(s, ",") {
		if h == "_" {
			out = append(out, "")
		} else {
			out = append(out, string(vUnhex(h)))
		}
	}
	return out
}

func c19Str(s string) string {
	if s == "" {
		return "_"
	}
	return vHex([]byte(s))
}

func c19Fmt(l []string, sep string) string {
	if len(l) == 0 {
		return "-"
	}
	parts := make([]string, len(l))
	for i, s := range l {
		parts[i] = c19Str(s)
	}
	return strings.Join(parts, sep)
}

// "same" if the slice passed to a function still holds what it held before the call
func c19Same(before, after []string) string {
	if len(before) == len(after) {
		eq := true
		for i := range before {
			if before[i] != after[i] {
				eq = false
			}
		}
		if eq {
			return "same"
		}
	}
	return "changed:" + c19Fmt(after, ",")
}

func c19NS(s string) map[string]bool {
	ns := map[string]bool{}
	for _, n := range c19List(s) {
		ns[n] = true
	}
	return ns
}

// ranges of code points satisfying f, as "lo-hi,lo-hi"
func c19Ranges(f func(rune) bool) string {
	var sb strings.Builder
	lo := rune(-1)
	for r := rune(0); r <= unicode.MaxRune+1; r++ {
		in := r <= unicode.MaxRune && f(r)
		if in && lo < 0 {
			lo = r
		} else if !in && lo >= 0 {
			if sb.Len() > 0 {
				sb.WriteByte(',')
			}
			fmt.Fprintf(&sb, "%d-%d", lo, r-1)
			lo = -1
		}
	}
	if sb.Len() == 0 {
		return "-"
	}
	return sb.String()
}

func init() {
	verifHandlers["c19"] = func(w []string) string {
		c19Setup()
		switch w[0] {
		case "Q", "QS": // Q <withLogin> <hex query>  (QS: answered by the reference semantics on the model side)
			and, or, err := parseSearchQuery(string(vUnhex(w[2])), "US", w[1] == "1")
			if err != nil {
				return w[0] + " err"
			}
			groups := make([]string, len(and))
			for i, g := range and {
				groups[i] = c19Fmt(g, "+")
			}
			a := "-"
			if len(groups) > 0 {
				a = strings.Join(groups, ";")
			}
			return w[0] + " ok " + a + " " + c19Fmt(or, ",")
		case "W": // W <withLogin> <hex term>
			return "W " + c19Str(rewriteTag(string(vUnhex(w[2])), "US", w[1] == "1"))
		case "N": // N <maxTagCount> <list>
			globals.maxTagCount = int(vAtoi(w[1]))
			res := normalizeTags(c19List(w[2]))
			if res == nil {
				return "N nil"
			}
			return "N ok " + c19Fmt(res, ",")
		case "NN": // NN <maxTagCount> <list>: normalizeTags applied once and twice
			globals.maxTagCount = int(vAtoi(w[1]))
			show := func(l types.StringSlice) string {
				if l == nil {
					return "nil"
				}
				return "ok " + c19Fmt(l, ",")
			}
			r1 := normalizeTags(c19List(w[2]))
			s1 := show(r1)
			var again []string
			if r1 != nil {
				again = append([]string{}, r1...)
			}
			return "NN " + s1 + " | " + show(normalizeTags(again))
		case "F": // F <namespaces> <tags>; then what the call did to the caller's slice
			arg := c19List(w[2])
			res := filterRestrictedTags(arg, c19NS(w[1]))
			out := "F " + c19Fmt(res, ",")
			return out + " " + c19Same(c19List(w[2]), arg)
		case "R": // R <namespaces> <old> <new>; then what the call did to the caller's slices
			o, n := c19List(w[2]), c19List(w[3])
			// as in replySetTags: the old list is the topic's cached tags, with spare capacity or without
			res := restrictedTagsEqual(o, n, c19NS(w[1]))
			same := c19Same(c19List(w[2]), o)
			if same == "same" {
				same = c19Same(c19List(w[3]), n)
			}
			return "R " + vB2s(res) + " " + same
		case "D": // D <old> <new>: stringSliceDelta, then the two argument slices as the call left them
			o, n := c19List(w[1]), c19List(w[2])
			added, removed, inter := stringSliceDelta(o, n)
			return "D " + c19Fmt(added, ",") + " " + c19Fmt(removed, ",") + " " + c19Fmt(inter, ",") + " " + c19Fmt(o, ",") + " " + c19Fmt(n, ",")
		case "G": // G <masked namespaces> <own tags> <search terms>: the gate of topic.go:2434-2442
			restr, _, _ := stringSliceDelta(c19List(w[2]), filterRestrictedTags(c19List(w[3]), c19NS(w[1])))
			return "G " + vB2s(len(restr) == 0)
		case "UT": // unicode tables of this Go toolchain
			switch w[1] {
			case "lower":
				var sb strings.Builder
				for r := rune(0); r <= unicode.MaxRune; r++ {
					if l := unicode.ToLower(r); l != r {
						fmt.Fprintf(&sb, "%d:%d,", r, l)
					}
				}
				return "UT " + strings.TrimSuffix(sb.String(), ",")
			case "letter":
				return "UT " + c19Ranges(unicode.IsLetter)
			case "digit":
				return "UT " + c19Ranges(unicode.IsDigit)
			case "number":
				return "UT " + c19Ranges(unicode.IsNumber)
			case "space":
				return "UT " + c19Ranges(unicode.IsSpace)
			}
		case "UH": // hypotheses on the unicode functions used by the theorems, all code points
			bad := []string{}
			for r := rune(0); r <= unicode.MaxRune; r++ {
				l := unicode.ToLower(r)
				if unicode.ToLower(l) != l {
					bad = append(bad, fmt.Sprintf("lower-idem:%d", r))
				}
				if unicode.IsSpace(l) != unicode.IsSpace(r) {
					bad = append(bad, fmt.Sprintf("lower-space:%d", r))
				}
				// strings.ToLower / strings.TrimSpace / range agree with the rune functions
				if r != utf8.RuneError && utf8.ValidRune(r) {
					s := "x" + string(r) + "x"
					if strings.ToLower(s) != "x"+string(l)+"x" {
						bad = append(bad, fmt.Sprintf("strings-lower:%d", r))
					}
					t := string(r) + "x" + string(r)
					want := t
					if unicode.IsSpace(r) {
						want = "x"
					}
					if strings.TrimSpace(t) != want {
						bad = append(bad, fmt.Sprintf("strings-trim:%d", r))
					}
					// byte order of UTF-8 strings = code point order
					if r > 0 && utf8.ValidRune(r-1) && !(string(r-1) < string(r)) {
						bad = append(bad, fmt.Sprintf("utf8-order:%d", r))
					}
				}
				if len(bad) > 5 {
					break
				}
			}
			if len(bad) == 0 {
				return "UH ok"
			}
			return "UH bad " + strings.Join(bad, ",")
		case "S": // S <list>: sort.Strings
			l := c19List(w[1])
			sort.Strings(l)
			return "S " + c19Fmt(l, ",")
		}
		return "?"
	}
}
