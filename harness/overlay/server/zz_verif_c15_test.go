//go:build verif

// C15 video-call driver: runs call scenarios (tools/props/c15.py) against the REAL hub,
// p2p topic goroutine (initTopicP2P, handlePubBroadcast, handleCallInvite, handleCallEvent,
// maybeEndCallInProgress, terminateCallInProgress, unregisterSession), sessions and store
// mappers above memverif, one client request at a time through Session.dispatchRaw, waits
// for sound quiescence after each and prints canonical per-request blocks; the model runner
// harness/runner/r_c15.ml prints the same blocks for the same scenario.
//
// Reuses vInitServer, vNewSession, vWaitQuiet, vKV, vNum of zz_verif_topic_test.go.
//
// Two accesses to topic internals from the driver goroutine, both only at quiescence (the
// topic goroutine is parked in its select, nothing is queued):
//   - reading t.currentCall / t.lastID / t.perUser / t.sessions to print the state lines;
//   - the establishment timer: time.Timer methods are goroutine-safe. `Reset(time.Hour)`
//     returns whether the timer was armed (printed as "timer 0|1"; a timer that was not armed
//     is stopped again). The op "timeout" makes the REAL timer case of Topic.runLocal fire by
//     `Reset(time.Millisecond)` when (and only when) the timer was armed, i.e. exactly what
//     waiting for globals.callEstablishmentTimeout seconds would do; then waits until the
//     topic goroutine has consumed the tick. Go >= 1.23 timer semantics (no stale tick after
//     Stop/Reset) is assumed, as in DESIGN.md.
package main

import (
	"bufio"
	"encoding/json"
	"fmt"
	"io"
	"os"
	"sort"
	"strconv"
	"strings"
	"testing"
	"time"

	"github.com/tinode/chat/server/auth"
	"github.com/tinode/chat/server/db/memverif"
	"github.com/tinode/chat/server/logs"
	"github.com/tinode/chat/server/store"
	"github.com/tinode/chat/server/store/types"
)

type cScn struct {
	id       string
	uids     map[int]types.Uid
	uidIdx   map[types.Uid]int
	topic    string // p2p name of users 1 and 2
	sess     map[int]*vSess
	sessUser map[int]int
	dead     map[int]bool
	onMe     map[int]bool
	opi      int
	nmsgs    int
	out      *bufio.Writer
}

func (sc *cScn) uidx(userId string) int {
	if userId == "" {
		return 0
	}
	u := types.ParseUserId(userId)
	if u.IsZero() {
		u = types.ParseUid(userId)
	}
	if i, ok := sc.uidIdx[u]; ok {
		return i
	}
	return 99
}

// topic name as seen by a client -> canonical: u<k> (the peer), T (the p2p name), me, or raw
func (sc *cScn) tname(n string) string {
	if n == "" {
		return "-"
	}
	if n == sc.topic {
		return "T"
	}
	if n == "me" {
		return "me"
	}
	if strings.HasPrefix(n, "usr") {
		return "u" + strconv.Itoa(sc.uidx(n))
	}
	return "?" + n
}

func cStr(v any) string {
	if v == nil {
		return "-"
	}
	s := vNum(v)
	if s == "" {
		return "-"
	}
	return strings.ReplaceAll(s, " ", "_")
}

func (sc *cScn) headStr(h map[string]any) string {
	sender := 0
	if s, ok := h["sender"].(string); ok {
		sender = sc.uidx(s)
	}
	return fmt.Sprintf("replace=%s webrtc=%s sender=%d", cStr(h["replace"]), cStr(h["webrtc"]), sender)
}

func (sc *cScn) frame(m *ServerComMessage) string {
	switch {
	case m.Ctrl != nil:
		res := "ctrl " + strconv.Itoa(m.Ctrl.Code)
		if p, ok := m.Ctrl.Params.(map[string]any); ok {
			if v, ok := p["seq"]; ok {
				res += " seq=" + vNum(v)
			}
		}
		return res
	case m.Data != nil:
		return fmt.Sprintf("data seq=%d from=%d topic=%s %s content=%s", m.Data.SeqId, sc.uidx(m.Data.From),
			sc.tname(m.Data.Topic), sc.headStr(m.Data.Head), cStr(m.Data.Content))
	case m.Info != nil:
		pl := "-"
		if len(m.Info.Payload) > 0 {
			pl = string(m.Info.Payload)
		}
		ev := m.Info.Event
		if ev == "" {
			ev = "-"
		}
		return fmt.Sprintf("info what=%s event=%s seq=%d from=%d topic=%s src=%s payload=%s", m.Info.What, ev, m.Info.SeqId,
			sc.uidx(m.Info.From), sc.tname(m.Info.Topic), sc.tname(m.Info.Src), pl)
	case m.Pres != nil:
		return fmt.Sprintf("pres what=%s topic=%s src=%s", m.Pres.What, sc.tname(m.Pres.Topic), sc.tname(m.Pres.Src))
	case m.Meta != nil:
		return "meta"
	}
	return "frame ?"
}

func (sc *cScn) emitFrames() {
	idxs := make([]int, 0, len(sc.sess))
	for i := range sc.sess {
		idxs = append(idxs, i)
	}
	sort.Ints(idxs)
	for _, i := range idxs {
		for _, m := range sc.sess[i].take() {
			fmt.Fprintf(sc.out, "S%d %s\n", i, sc.frame(m))
		}
	}
}

func (sc *cScn) sidx(sid string) int {
	for i, vs := range sc.sess {
		if vs.s.sid == sid {
			return i
		}
	}
	return 0
}

// probe the establishment timer: 1 = armed
func cTimerArmed(t *Topic) bool {
	if t == nil || t.callEstablishmentTimer == nil {
		return false
	}
	was := t.callEstablishmentTimer.Reset(time.Hour)
	if !was {
		t.callEstablishmentTimer.Stop()
	}
	return was
}

func (sc *cScn) emitState() {
	t := globals.hub.topicGet(sc.topic)
	if t == nil {
		fmt.Fprintln(sc.out, "loaded 0")
	} else {
		fmt.Fprintln(sc.out, "loaded 1")
		if c := t.currentCall; c == nil {
			fmt.Fprintln(sc.out, "call none")
		} else {
			orig, callee, ou := 0, 0, 0
			var others []int
			for sid, p := range c.parties {
				if p.isOriginator {
					orig = sc.sidx(sid)
					ou = sc.uidIdx[p.uid]
				} else {
					others = append(others, sc.sidx(sid))
				}
			}
			sort.Ints(others)
			if len(others) > 0 {
				callee = others[0]
			}
			fmt.Fprintf(sc.out, "call seq=%d orig=%d ouser=%d callee=%d content=%s accepted=%s parties=%d\n", c.seq, orig, ou, callee,
				cStr(c.content), vB2s(!c.acceptedAt.IsZero()), len(c.parties))
		}
		fmt.Fprintf(sc.out, "timer %s\n", vB2s(cTimerArmed(t)))
		fmt.Fprintf(sc.out, "lastid %d\n", t.lastID)
		var ul []string
		for uid, p := range t.perUser {
			m := p.modeWant & p.modeGiven
			ul = append(ul, fmt.Sprintf("user %d w=%s r=%s p=%s deleted=%s", sc.uidIdx[uid], vB2s(m.IsWriter()), vB2s(m.IsReader()),
				vB2s(m.IsPresencer()), vB2s(p.deleted)))
		}
		sort.Strings(ul)
		for _, l := range ul {
			fmt.Fprintln(sc.out, l)
		}
		var att []int
		for s := range t.sessions {
			att = append(att, sc.sidx(s.sid))
		}
		sort.Ints(att)
		var as []string
		for _, a := range att {
			as = append(as, strconv.Itoa(a))
		}
		fmt.Fprintf(sc.out, "att %s\n", strings.Join(as, ","))
	}
	d := memverif.DumpTopic(sc.topic)
	if !d.Exists {
		fmt.Fprintln(sc.out, "store absent")
		return
	}
	fmt.Fprintf(sc.out, "store seqid=%d\n", d.SeqId)
	var ml []string
	for _, m := range d.Msgs {
		h := map[string]any{}
		if m.Head != "" {
			json.Unmarshal([]byte(m.Head), &h)
		}
		ml = append(ml, fmt.Sprintf("msg %05d from=%d %s content=%s", m.Seq, sc.uidIdx[m.From], sc.headStr(h), m.Content))
	}
	sort.Strings(ml)
	// only the rows added since the previous request (rows are never removed in these scenarios)
	for i, l := range ml {
		if i >= sc.nmsgs {
			fmt.Fprintln(sc.out, l)
		}
	}
	sc.nmsgs = len(ml)
}

func (sc *cScn) topics() []string {
	ts := []string{sc.topic}
	for _, u := range sc.uids {
		ts = append(ts, u.UserId())
	}
	return ts
}

// the topic name a session of user ui uses for the scenario topic
func (sc *cScn) seen(ui int) string {
	switch ui {
	case 1:
		return sc.uids[2].UserId()
	case 2:
		return sc.uids[1].UserId()
	}
	return sc.topic // a third user can only name the topic by its p2p name
}

func (sc *cScn) op(w []string) {
	sc.opi++
	fmt.Fprintf(sc.out, "op %d\n", sc.opi)
	kind, a := w[0], w[1:]
	id := strconv.Itoa(sc.opi)
	at := func(i int) int { v, _ := strconv.Atoi(a[i]); return v }
	hang := ""
	var vs *vSess
	tn := ""
	if kind != "timeout" {
		vs = sc.sess[at(0)]
		if vs == nil || sc.dead[at(0)] {
			kind = "skip"
		} else {
			tn = sc.seen(sc.sessUser[at(0)])
		}
	}
	send := func(msg string) { vs.s.dispatchRaw([]byte(msg)) }
	switch kind {
	case "attach":
		send(`{"sub":{"id":"` + id + `","topic":"` + tn + `"}}`)
	case "attachme":
		send(`{"sub":{"id":"` + id + `","topic":"me"}}`)
		sc.onMe[at(0)] = true
	case "leave":
		send(`{"leave":{"id":"` + id + `","topic":"` + tn + `"}}`)
	case "unsub":
		send(`{"leave":{"id":"` + id + `","topic":"` + tn + `","unsub":true}}`)
	case "disc":
		vs.s.cleanUp(true)
		<-vs.done
		sc.dead[at(0)] = true
	case "invite":
		send(`{"pub":{"id":"` + id + `","topic":"` + tn + `","head":{"webrtc":"` + a[2] + `"},"content":` + a[1] + `}}`)
	case "pub":
		send(`{"pub":{"id":"` + id + `","topic":"` + tn + `","content":` + a[1] + `}}`)
	case "event":
		send(`{"note":{"topic":"` + tn + `","what":"call","event":"` + a[1] + `","seq":` + a[2] + `,"payload":` + a[3] + `}}`)
	case "setw":
		// a[1]: target user index (0 = the session's own user: changes "want"; other: changes "given"), a[2]: 1/0
		mode := "JRPA"
		if a[2] == "1" {
			mode = "JRWPA"
		}
		user := ""
		if at(1) != 0 && at(1) != sc.sessUser[at(0)] {
			user = `"user":"` + sc.uids[at(1)].UserId() + `",`
		}
		send(`{"set":{"id":"` + id + `","topic":"` + tn + `","sub":{` + user + `"mode":"` + mode + `"}}}`)
	case "timeout":
		if t := globals.hub.topicGet(sc.topic); t != nil && t.callEstablishmentTimer != nil {
			if t.callEstablishmentTimer.Reset(time.Hour) {
				fmt.Fprintln(sc.out, "fired 1")
				t.callEstablishmentTimer.Reset(time.Millisecond)
				// the tick is consumed by the topic's own loop: case <-t.callEstablishmentTimer.C
				deadline := time.Now().Add(10 * time.Second)
				for time.Now().Before(deadline) {
					time.Sleep(2 * time.Millisecond)
					if h := vWaitQuiet(sc.topics()); h != "" {
						hang = h
						break
					}
					if t.currentCall == nil {
						break
					}
				}
				if hang == "" && t.currentCall != nil {
					hang = "HANG establishment timer did not end the call"
				}
			} else {
				t.callEstablishmentTimer.Stop()
				fmt.Fprintln(sc.out, "fired 0")
			}
		} else {
			fmt.Fprintln(sc.out, "fired 0")
		}
	}
	if h := vWaitQuiet(sc.topics()); h != "" {
		hang = h
	}
	sc.emitFrames()
	if hang != "" {
		fmt.Fprintln(sc.out, hang)
	}
	sc.emitState()
}

func (sc *cScn) finish() {
	for i, vs := range sc.sess {
		if !sc.dead[i] {
			vs.s.cleanUp(true)
			<-vs.done
		}
	}
	vWaitQuiet(sc.topics())
	for _, tn := range sc.topics() {
		if t := globals.hub.topicGet(tn); t != nil {
			globals.hub.unreg <- &topicUnreg{rcptTo: tn}
		}
	}
	vWaitQuiet(sc.topics())
}

func TestVerifCall(t *testing.T) {
	vInitServer(t)
	// The server logs from inside the handlers. A topic goroutine blocked in the write(2) of a log line
	// (stderr is a pipe to the check) is in state "syscall", which vQuiescent counts as parked: under load
	// a state dump was once taken in the middle of maybeEndCallInProgress. No log output -> no such window.
	logs.Init(io.Discard, "stdFlags")
	fin, err := os.Open(os.Getenv("VERIF_IN"))
	if err != nil {
		t.Fatal(err)
	}
	defer fin.Close()
	fout, err := os.Create(os.Getenv("VERIF_OUT"))
	if err != nil {
		t.Fatal(err)
	}
	defer fout.Close()
	out := bufio.NewWriterSize(fout, 1<<20)
	defer out.Flush()
	in := bufio.NewScanner(fin)
	in.Buffer(make([]byte, 1<<20), 1<<26)
	// a configured server always has a positive timeout (initVideoCalls); the timer is fired by the "timeout" op
	globals.callEstablishmentTimeout = 3600
	var sc *cScn
	for in.Scan() {
		w := strings.Fields(in.Text())
		if len(w) == 0 {
			continue
		}
		switch w[0] {
		case "scn":
			kv := vKV(w[2:])
			sc = &cScn{id: w[1], uids: map[int]types.Uid{}, uidIdx: map[types.Uid]int{}, sess: map[int]*vSess{},
				sessUser: map[int]int{}, dead: map[int]bool{}, onMe: map[int]bool{}, out: out}
			if kv["cfg"] == "1" {
				globals.iceServers = []iceServer{{Urls: []string{"stun:verif.invalid"}}}
			} else {
				globals.iceServers = nil
			}
			for i := 1; i <= 3; i++ {
				u := &types.User{}
				u.Access.Auth = types.ModeCP2P
				u.Access.Anon = types.ModeNone
				if _, err := store.Users.Create(u, nil); err != nil {
					t.Fatal("user create: ", err)
				}
				sc.uids[i] = u.Uid()
				sc.uidIdx[u.Uid()] = i
			}
			sc.topic = sc.uids[1].P2PName(sc.uids[2])
			fmt.Fprintf(out, "scn %s\n", w[1])
		case "sess":
			si, _ := strconv.Atoi(w[1])
			ui, _ := strconv.Atoi(w[2])
			sc.sessUser[si] = ui
			sc.sess[si] = vNewSession(si, sc.uids[ui], auth.LevelAuth)
		case "op":
			sc.op(w[1:])
		case "end":
			sc.finish()
			fmt.Fprintln(out, "end")
			out.Flush()
		}
	}
}
