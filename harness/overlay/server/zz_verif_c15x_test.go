//go:build verif

// C15, "a call can be started only in a peer-to-peer topic": the call driver
// (zz_verif_c15_test.go, reused as is for every request addressed to the p2p topic) plus
// requests addressed to the OTHER kinds of topic, all real: a group topic (channel-enabled:
// user 1 owner, user 2 member, user 3 channel reader), each user's 'me' and 'fnd', and 'sys'
// (which takes {pub} from any logged-in session without attachment: Session.publish ->
// hub.routeCli). Scenario lines (tools/props/c15.py), in addition to those of TestVerifCall:
//
//	scn <id> cfg=0|1 x=1 gw2=0|1     x=1: create the group topic; gw2: user 2 has W there
//	sess <si> <ui> root              a root-level session (only such a session may attach to 'sys')
//	xatt <si> grp|chn|fnd|sys        before the first op: {sub} (answers not compared, the attachment is)
//	op xpub <si> grp|chn|me|fnd|sys <content> <head.webrtc|-> <head.replace|->
//	op xnote <si> grp|chn|me|fnd|sys <event> <seq> <payload>        {note what=call}
//
// After every op (old or new) the block gets, for each other topic in a fixed order,
//
//	xt <key> call=none|<seq> timer=0|1 seqid=<lastID> att=<sessions>
//	xmsg <key> <seq> from=<u> replace=.. webrtc=.. sender=.. content=..      rows added by this op
//
// read at quiescence exactly like the p2p topic's state lines (Topic.currentCall, the
// establishment timer probe, Topic.lastID, Topic.sessions, memverif rows). 'sys' is reloaded at
// the start of every scenario (its message ids are printed relative to that point).
// The model runner harness/runner/r_c15x.ml prints the same blocks from Sys/CallCat.v.
package main

import (
	"bufio"
	"encoding/json"
	"fmt"
	"io"
	"os"
	"sort"
	"strconv"
	"strings"
	"testing"
	"time"

	"github.com/tinode/chat/server/auth"
	"github.com/tinode/chat/server/db/memverif"
	"github.com/tinode/chat/server/logs"
	"github.com/tinode/chat/server/store"
	"github.com/tinode/chat/server/store/types"
)

type x15Scn struct {
	*cScn
	ext     bool
	grp     string
	sysBase int
	root    map[int]bool
	xn      map[string]int // rows already printed, per other topic
	xseq    map[string]int // store seqid at the last listing of the rows, per other topic
}

// the other topics: key -> real (expanded) name
func (x *x15Scn) others() [][2]string {
	res := [][2]string{}
	if x.grp != "" {
		res = append(res, [2]string{"G", x.grp})
	}
	res = append(res, [2]string{"sys", "sys"})
	for i := 1; i <= 3; i++ {
		res = append(res, [2]string{"me" + strconv.Itoa(i), x.uids[i].UserId()})
	}
	for i := 1; i <= 3; i++ {
		res = append(res, [2]string{"fnd" + strconv.Itoa(i), x.uids[i].FndName()})
	}
	return res
}

func (x *x15Scn) allTopics() []string {
	ts := x.cScn.topics()
	for _, kn := range x.others() {
		ts = append(ts, kn[1])
	}
	return ts
}

// the name a client writes
func (x *x15Scn) cname(tref string) string {
	switch tref {
	case "grp":
		return x.grp
	case "chn":
		return types.GrpToChn(x.grp)
	}
	return tref // me, fnd, sys
}

func (x *x15Scn) tname(n string) string {
	switch {
	case n == "":
		return "-"
	case x.grp != "" && n == x.grp:
		return "G"
	case x.grp != "" && n == types.GrpToChn(x.grp):
		return "C"
	case n == "sys" || n == "fnd" || n == "me":
		return n
	case strings.HasPrefix(n, "fnd"):
		return "fnd"
	}
	return x.cScn.tname(n)
}

func (x *x15Scn) frame(m *ServerComMessage) string {
	sc := x.cScn
	switch {
	case m.Ctrl != nil:
		res := "ctrl " + strconv.Itoa(m.Ctrl.Code)
		if p, ok := m.Ctrl.Params.(map[string]any); ok {
			if v, ok := p["seq"]; ok {
				n, _ := strconv.Atoi(vNum(v))
				if m.Ctrl.Topic == "sys" {
					n -= x.sysBase
				}
				res += " seq=" + strconv.Itoa(n)
			}
		}
		return res
	case m.Data != nil:
		n := m.Data.SeqId
		if m.Data.Topic == "sys" {
			n -= x.sysBase
		}
		return fmt.Sprintf("data seq=%d from=%d topic=%s %s content=%s", n, sc.uidx(m.Data.From),
			x.tname(m.Data.Topic), sc.headStr(m.Data.Head), cStr(m.Data.Content))
	case m.Info != nil:
		pl := "-"
		if len(m.Info.Payload) > 0 {
			pl = string(m.Info.Payload)
		}
		ev := m.Info.Event
		if ev == "" {
			ev = "-"
		}
		return fmt.Sprintf("info what=%s event=%s seq=%d from=%d topic=%s src=%s payload=%s", m.Info.What, ev, m.Info.SeqId,
			sc.uidx(m.Info.From), x.tname(m.Info.Topic), x.tname(m.Info.Src), pl)
	case m.Pres != nil:
		return fmt.Sprintf("pres what=%s topic=%s src=%s", m.Pres.What, x.tname(m.Pres.Topic), x.tname(m.Pres.Src))
	case m.Meta != nil:
		return "meta"
	}
	return "frame ?"
}

func (x *x15Scn) emitFrames() {
	idxs := make([]int, 0, len(x.sess))
	for i := range x.sess {
		idxs = append(idxs, i)
	}
	sort.Ints(idxs)
	for _, i := range idxs {
		for _, m := range x.sess[i].take() {
			fmt.Fprintf(x.out, "S%d %s\n", i, x.frame(m))
		}
	}
}

func (x *x15Scn) emitExtra() {
	sc := x.cScn
	for _, kn := range x.others() {
		key, name := kn[0], kn[1]
		base := 0
		if key == "sys" {
			base = x.sysBase
		}
		// the topic row is one map lookup; the rows are listed (a scan of the whole message table) only when it moved
		exists, stSeq := false, 0
		if key == "G" || key == "sys" {
			if st, err := store.Topics.Get(name); err == nil && st != nil {
				exists, stSeq = true, st.SeqId
			}
		}
		call, timer, seqid, att := "none", "0", 0, ""
		if exists {
			seqid = stSeq - base
		}
		if t := globals.hub.topicGet(name); t != nil {
			if c := t.currentCall; c != nil {
				call = strconv.Itoa(c.seq - base)
			}
			timer = vB2s(cTimerArmed(t))
			seqid = t.lastID - base
			var al []int
			for s := range t.sessions {
				al = append(al, sc.sidx(s.sid))
			}
			sort.Ints(al)
			var as []string
			for _, a := range al {
				as = append(as, strconv.Itoa(a))
			}
			att = strings.Join(as, ",")
		}
		fmt.Fprintf(sc.out, "xt %s call=%s timer=%s seqid=%d att=%s\n", key, call, timer, seqid, att)
		if !exists || x.xseq[key] == stSeq {
			continue
		}
		x.xseq[key] = stSeq
		d := memverif.DumpTopic(name)
		var ml []string
		for _, m := range d.Msgs {
			if m.Seq <= base {
				continue
			}
			h := map[string]any{}
			if m.Head != "" {
				json.Unmarshal([]byte(m.Head), &h)
			}
			ml = append(ml, fmt.Sprintf("xmsg %s %05d from=%d %s content=%s", key, m.Seq-base, sc.uidIdx[m.From], sc.headStr(h), m.Content))
		}
		sort.Strings(ml)
		for i, l := range ml {
			if i >= x.xn[key] {
				fmt.Fprintln(sc.out, l)
			}
		}
		x.xn[key] = len(ml)
	}
}

func (x *x15Scn) op(w []string) {
	sc := x.cScn
	kind := w[0]
	if kind != "xpub" && kind != "xnote" {
		sc.op(w)
		if x.ext {
			if h := vWaitQuiet(x.allTopics()); h != "" {
				fmt.Fprintln(sc.out, h)
			}
			x.emitFrames()
			x.emitExtra()
		}
		return
	}
	sc.opi++
	fmt.Fprintf(sc.out, "op %d\n", sc.opi)
	a := w[1:]
	si, _ := strconv.Atoi(a[0])
	vs := sc.sess[si]
	id := strconv.Itoa(sc.opi)
	if vs != nil && !sc.dead[si] {
		name := x.cname(a[1])
		switch kind {
		case "xpub":
			var hs []string
			if a[3] != "-" {
				hs = append(hs, `"webrtc":"`+a[3]+`"`)
			}
			if a[4] != "-" {
				hs = append(hs, `"replace":"`+a[4]+`"`)
			}
			head := ""
			if len(hs) > 0 {
				head = `"head":{` + strings.Join(hs, ",") + `},`
			}
			vs.s.dispatchRaw([]byte(`{"pub":{"id":"` + id + `","topic":"` + name + `",` + head + `"content":` + a[2] + `}}`))
		case "xnote":
			vs.s.dispatchRaw([]byte(`{"note":{"topic":"` + name + `","what":"call","event":"` + a[2] + `","seq":` + a[3] + `,"payload":` + a[4] + `}}`))
		}
	}
	hang := vWaitQuiet(x.allTopics())
	x.emitFrames()
	if hang != "" {
		fmt.Fprintln(sc.out, hang)
	}
	sc.emitState()
	x.emitExtra()
}

func (x *x15Scn) xatt(w []string) {
	si, _ := strconv.Atoi(w[0])
	vs := x.sess[si]
	if vs == nil {
		return
	}
	vs.s.dispatchRaw([]byte(`{"sub":{"id":"xa` + w[0] + `","topic":"` + x.cname(w[1]) + `"}}`))
	vWaitQuiet(x.allTopics())
	for _, v := range x.sess {
		v.take()
	}
}

func (x *x15Scn) finish() {
	sc := x.cScn
	// the root sessions' subscriptions to 'sys' do not outlive the scenario
	for i, vs := range sc.sess {
		if x.root[i] && !sc.dead[i] && vs.s.getSub("sys") != nil {
			vs.s.dispatchRaw([]byte(`{"leave":{"id":"xl","topic":"sys","unsub":true}}`))
		}
	}
	vWaitQuiet(x.allTopics())
	names := x.allTopics()
	sc.finish()
	for _, tn := range names {
		if tn == "sys" {
			continue
		}
		if t := globals.hub.topicGet(tn); t != nil {
			globals.hub.unreg <- &topicUnreg{rcptTo: tn}
		}
	}
	vWaitQuiet(names)
}

func (x *x15Scn) mkGroup(t *testing.T, gw2 bool) {
	x.grp = "grpC15v" + strconv.FormatInt(time.Now().UnixNano()%100000000000, 36) + "x" + x.id
	stopic := &types.Topic{
		ObjHeader: types.ObjHeader{Id: x.grp, CreatedAt: types.TimeNow()},
		Access:    types.DefaultAccess{Auth: types.ModeNone, Anon: types.ModeNone},
		UseBt:     true,
	}
	stopic.GiveAccess(x.uids[1], types.ModeCFull, types.ModeCFull)
	if err := store.Topics.Create(stopic, x.uids[1], nil); err != nil {
		t.Fatal("group create: ", err)
	}
	m2 := types.ModeCPublic
	if !gw2 {
		m2 = types.ModeJoin | types.ModeRead | types.ModePres
	}
	if err := store.Subs.Create(&types.Subscription{User: x.uids[2].String(), Topic: x.grp, ModeWant: m2, ModeGiven: m2}); err != nil {
		t.Fatal("member create: ", err)
	}
	if err := store.Subs.Create(&types.Subscription{User: x.uids[3].String(), Topic: types.GrpToChn(x.grp),
		ModeWant: types.ModeCChnReader, ModeGiven: types.ModeCChnReader}); err != nil {
		t.Fatal("reader create: ", err)
	}
}

func TestVerifCallX(t *testing.T) {
	vInitServer(t)
	logs.Init(io.Discard, "stdFlags")
	fin, err := os.Open(os.Getenv("VERIF_IN"))
	if err != nil {
		t.Fatal(err)
	}
	defer fin.Close()
	fout, err := os.Create(os.Getenv("VERIF_OUT"))
	if err != nil {
		t.Fatal(err)
	}
	defer fout.Close()
	out := bufio.NewWriterSize(fout, 1<<20)
	defer out.Flush()
	in := bufio.NewScanner(fin)
	in.Buffer(make([]byte, 1<<20), 1<<26)
	globals.callEstablishmentTimeout = 3600
	var x *x15Scn
	for in.Scan() {
		w := strings.Fields(in.Text())
		if len(w) == 0 {
			continue
		}
		switch w[0] {
		case "scn":
			kv := vKV(w[2:])
			sc := &cScn{id: w[1], uids: map[int]types.Uid{}, uidIdx: map[types.Uid]int{}, sess: map[int]*vSess{},
				sessUser: map[int]int{}, dead: map[int]bool{}, onMe: map[int]bool{}, out: out}
			x = &x15Scn{cScn: sc, ext: kv["x"] == "1", root: map[int]bool{}, xn: map[string]int{}, xseq: map[string]int{}}
			if kv["cfg"] == "1" {
				globals.iceServers = []iceServer{{Urls: []string{"stun:verif.invalid"}}}
			} else {
				globals.iceServers = nil
			}
			for i := 1; i <= 3; i++ {
				u := &types.User{}
				u.Access.Auth = types.ModeCP2P
				u.Access.Anon = types.ModeNone
				if _, err := store.Users.Create(u, nil); err != nil {
					t.Fatal("user create: ", err)
				}
				sc.uids[i] = u.Uid()
				sc.uidIdx[u.Uid()] = i
			}
			sc.topic = sc.uids[1].P2PName(sc.uids[2])
			if x.ext {
				x.mkGroup(t, kv["gw2"] != "0")
				// a fresh 'sys' topic object: whatever an earlier scenario left in it is gone
				xReloadSys()
				if ts := globals.hub.topicGet("sys"); ts != nil {
					x.sysBase = ts.lastID
					x.xseq["sys"] = ts.lastID
				} else {
					t.Fatal("sys topic is not loaded")
				}
			}
			fmt.Fprintf(out, "scn %s\n", w[1])
		case "sess":
			si, _ := strconv.Atoi(w[1])
			ui, _ := strconv.Atoi(w[2])
			x.sessUser[si] = ui
			lvl := auth.LevelAuth
			if len(w) > 3 && w[3] == "root" {
				lvl = auth.LevelRoot
				x.root[si] = true
			}
			x.sess[si] = vNewSession(si, x.uids[ui], lvl)
		case "xatt":
			x.xatt(w[1:])
		case "op":
			x.op(w[1:])
		case "end":
			x.finish()
			fmt.Fprintln(out, "end")
			out.Flush()
		}
	}
}
