//go:build verif

// C09 load-marks driver: histories on a REAL peer-to-peer topic and on the REAL 'sys' topic whose
// stored subscription rows carry read / recv / del marks, so that every branch of initTopicP2P
// (both rows, one row missing or soft-deleted - the requester's or the other party's -, new topic)
// and loadSubscribers copy marks into Topic.perUser; then {note}, {get desc}, {get sub}, {pub},
// {leave unsub}, idle unload, restart - one client request at a time through Session.dispatchRaw
// with sound quiescence after each.  Prints the canonical per-request blocks of the topic-history
// driver; harness/runner/r_c09l.ml prints them for the same scenario from coq/Sys/LoadMarksC09.v.
//
// Reuses xScn (seen, loadSys, unloadTopic, reboot, emitDeleted) of zz_verif_c01x_test.go and vScn
// (frame rendering, emitFrames, emitStore, emitCache), vNewSession, vWaitQuiet, vInitServer, vKV of
// zz_verif_topic_test.go.
//
// Scenario lines (tools/props/c09.py, part load_marks):
//   scn <id> kind=p2p|sys exists=0|1 seqid=N delid=D
//   user <i> acc=<mode bits> root=0|1          users 1 and 2 are the parties of the p2p topic
//   subrow <i> want=<bits> given=<bits> deleted=0|1 read=R recv=V del=D   stored subscription row
//   msg <seq> from=<i> content=<n>
//   sess <si> <ui>
//   op <N|Fk|Ck> sub|subp|leave|pub|note|getdesc|getsub|unload|restart args
//   end
package main

import (
	"bufio"
	"fmt"
	"os"
	"strconv"
	"strings"
	"testing"

	"github.com/tinode/chat/server/db/memverif"
	"github.com/tinode/chat/server/store"
	"github.com/tinode/chat/server/store/types"
)

type c09lSeedSub struct {
	user, want, given int
	deleted           bool
	read, recv, del   int
}

type c09lScn struct {
	*xScn
	rows []c09lSeedSub
}

func (sc *c09lScn) c09lSetup(t *testing.T) {
	if sc.started {
		return
	}
	sc.started = true
	must := func(what string, err error) {
		if err != nil {
			t.Fatal(what+": ", err)
		}
	}
	if sc.kind == "sys" {
		sc.topic = "sys"
		sc.unloadTopic()
		must("sys clear", store.Messages.DeleteList("sys", 0, types.ZeroUid, nil))
		old, err := store.Topics.GetSubs("sys", nil)
		must("sys subs", err)
		for i := range old {
			store.Subs.Delete("sys", types.ParseUid(old[i].User))
		}
	} else {
		sc.topic = sc.uids[1].P2PName(sc.uids[2])
		if sc.exists {
			must("topic create", store.Topics.Create(&types.Topic{ObjHeader: types.ObjHeader{Id: sc.topic}}, types.ZeroUid, nil))
		}
	}
	if sc.kind == "sys" || sc.exists {
		for _, r := range sc.rows {
			must("sub create", store.Subs.Create(&types.Subscription{User: sc.uids[r.user].String(), Topic: sc.topic,
				ModeWant: types.AccessMode(r.want), ModeGiven: types.AccessMode(r.given)}))
			must("sub marks", store.Subs.Update(sc.topic, sc.uids[r.user],
				map[string]any{"ReadSeqId": r.read, "RecvSeqId": r.recv, "DelId": r.del}))
			if r.deleted {
				must("sub delete", store.Subs.Delete(sc.topic, sc.uids[r.user]))
			}
		}
		for _, m := range sc.msgs {
			c, _ := strconv.Atoi(m.content)
			err, _ := store.Messages.Save(&types.Message{SeqId: m.seq, Topic: sc.topic, From: sc.uids[m.from].String(), Content: c}, nil, false)
			must("msg save", err)
		}
		must("topic update", store.Topics.Update(sc.topic, map[string]any{"SeqId": sc.seqid, "DelId": sc.delid}))
	}
	if sc.kind == "sys" {
		sc.loadSys()
	}
	memverif.ClearFault()
	memverif.ResetCallLog()
}

func (sc *c09lScn) c09lOp(w []string) {
	sc.opi++
	fmt.Fprintf(sc.out, "op %d\n", sc.opi)
	flt, kind, a := w[0], w[1], w[2:]
	memverif.ClearFault()
	memverif.ResetCallLog()
	if flt != "N" {
		k, _ := strconv.Atoi(flt[1:])
		memverif.SetFault(k, flt[0] == 'C')
	}
	id := strconv.Itoa(sc.opi)
	at := func(i int) int { v, _ := strconv.Atoi(a[i]); return v }
	tn := ""
	if len(a) > 0 {
		tn = sc.seen(sc.sessUser[at(0)])
	}
	switch kind {
	case "sub":
		sc.send(at(0), `{"sub":{"id":"`+id+`","topic":"`+tn+`"}}`)
	case "subp":
		sc.send(at(0), `{"sub":{"id":"`+id+`","topic":"`+sc.topic+`"}}`)
	case "leave":
		unsub := ""
		if a[1] == "1" {
			unsub = `,"unsub":true`
		}
		sc.send(at(0), `{"leave":{"id":"`+id+`","topic":"`+tn+`"`+unsub+`}}`)
	case "pub":
		ne := ""
		if a[2] == "1" {
			ne = `,"noecho":true`
		}
		sc.send(at(0), `{"pub":{"id":"`+id+`","topic":"`+tn+`","content":`+a[1]+ne+`}}`)
	case "note":
		sc.send(at(0), `{"note":{"topic":"`+tn+`","what":"`+a[1]+`","seq":`+a[2]+`}}`)
	case "getdesc":
		sc.send(at(0), `{"get":{"id":"`+id+`","topic":"`+tn+`","what":"desc"}}`)
	case "getsub":
		sc.send(at(0), `{"get":{"id":"`+id+`","topic":"`+tn+`","what":"sub"}}`)
	case "unload":
		if sc.kind != "sys" {
			if t := globals.hub.topicGet(sc.topic); t != nil && len(t.sessions) == 0 {
				// what the kill timer does: handleTopicTimeout -> hub.unreg
				globals.hub.unreg <- &topicUnreg{rcptTo: sc.topic}
			}
		}
	case "restart":
		sc.reboot()
		memverif.ResetCallLog()
	}
	hang := vWaitQuiet([]string{sc.topic})
	sc.emitFrames()
	calls := memverif.CallLog()
	if flt != "N" && flt[0] == 'C' {
		// the process died: in-memory state is gone
		sc.reboot()
		if h2 := vWaitQuiet([]string{sc.topic}); h2 != "" {
			hang = h2
		}
	}
	if hang != "" {
		fmt.Fprintln(sc.out, hang)
	}
	fmt.Fprintf(sc.out, "calls %d\n", len(calls))
	fmt.Fprintf(sc.out, "calllog %s\n", strings.Join(calls, " "))
	memverif.ClearFault()
	if globals.hub.topicGet(sc.topic) == nil {
		fmt.Fprintln(sc.out, "loaded 0")
	} else {
		fmt.Fprintln(sc.out, "loaded 1")
	}
	sc.emitStore()
	sc.emitCache()
	sc.emitDeleted()
}

func TestVerifC09lLoadMarks(t *testing.T) {
	vInitServer(t)
	fin, err := os.Open(os.Getenv("VERIF_IN"))
	if err != nil {
		t.Fatal(err)
	}
	defer fin.Close()
	fout, err := os.Create(os.Getenv("VERIF_OUT"))
	if err != nil {
		t.Fatal(err)
	}
	defer fout.Close()
	out := bufio.NewWriterSize(fout, 1<<20)
	defer out.Flush()
	in := bufio.NewScanner(fin)
	in.Buffer(make([]byte, 1<<20), 1<<26)
	var sc *c09lScn
	num := func(kv map[string]string, k string) int { v, _ := strconv.Atoi(kv[k]); return v }
	for in.Scan() {
		w := strings.Fields(in.Text())
		if len(w) == 0 {
			continue
		}
		switch w[0] {
		case "scn":
			kv := vKV(w[2:])
			sc = &c09lScn{xScn: &xScn{vScn: &vScn{id: w[1], uids: map[int]types.Uid{}, uidIdx: map[types.Uid]int{}, sess: map[int]*vSess{},
				sessUser: map[int]int{}, out: out}, kind: kv["kind"], exists: kv["exists"] == "1", seqid: num(kv, "seqid"),
				delid: num(kv, "delid"), root: map[int]bool{}}}
			fmt.Fprintf(out, "scn %s\n", w[1])
		case "user":
			kv := vKV(w[2:])
			i, _ := strconv.Atoi(w[1])
			u := &types.User{}
			u.Access.Auth = types.AccessMode(num(kv, "acc"))
			u.Access.Anon = types.ModeNone
			if _, err := store.Users.Create(u, nil); err != nil {
				t.Fatal("user create: ", err)
			}
			sc.uids[i] = u.Uid()
			sc.uidIdx[u.Uid()] = i
			sc.root[i] = kv["root"] == "1"
		case "subrow":
			kv := vKV(w[2:])
			i, _ := strconv.Atoi(w[1])
			sc.rows = append(sc.rows, c09lSeedSub{i, num(kv, "want"), num(kv, "given"), kv["deleted"] == "1",
				num(kv, "read"), num(kv, "recv"), num(kv, "del")})
		case "msg":
			kv := vKV(w[2:])
			i, _ := strconv.Atoi(w[1])
			sc.msgs = append(sc.msgs, xSeedMsg{i, num(kv, "from"), kv["content"]})
		case "sess":
			sc.c09lSetup(t)
			si, _ := strconv.Atoi(w[1])
			ui, _ := strconv.Atoi(w[2])
			sc.sessUser[si] = ui
			sc.sess[si] = vNewSession(si, sc.uids[ui], sc.level(ui))
		case "op":
			sc.c09lSetup(t)
			sc.c09lOp(w[1:])
		case "end":
			sc.xfinish()
			fmt.Fprintln(out, "end")
			out.Flush()
		}
	}
}
