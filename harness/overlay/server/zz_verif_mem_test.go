//go:build verif

package main

import _ "github.com/tinode/chat/server/db/memverif"
