//go:build verif

// C16 driver, part c:
//
//	SVX m= kh= kq= kf= kc= cx= ca= cq= cf= cc= sq= sf= tq= tf= tk= body=none|form mh= asatt= acrm= url=<tpl>
//	    a request to the REAL largeFileServe with EVERY field the upload request line (UP) has: API key at
//	    header / query / form / cookie, credentials at X-Tinode-Auth / Authorization / query / form / cookie,
//	    sid in the query / form, the `topic` parameter in the query / form (and a cookie of that name), with a
//	    multipart/form-data body (net/http's FormValue parses it for every method) or without a body.
//	    Answer: SVX <status> none|served:<k> | side
//	SETX <user> <t|me> <k|-> <pub|priv|both|none> <tpls>
//	    {set desc} with extra.attachments on a group topic or on 'me' by the session of <user>; desc.public
//	    (pub / both) names the first attachment as its photo, desc.private (priv / both) changes the
//	    subscription; k: the k-th adapter call of the request is made to fail (memverif.SetFault).
//	    Answer: SETX code=<c> calls=<adapter calls of the request> | ref=<upload the stored public names>
//	NEWACCX <u> <k|-> <tpls>
//	    {acc user="new"} with extra.attachments from a session that is not logged in, the k-th adapter call of
//	    the request made to fail.  Answer: NEWACCX code=<c> calls=<adapter calls: Q,C,H,A,D,L> | user=<0|1>
//
// Same VERIF_IN / VERIF_OUT stream as zz_verif_c16_test.go (hooked from its line()); the model runner
// is harness/runner/r_c16.ml.
package main

import (
	"bytes"
	"encoding/base64"
	"encoding/json"
	"mime/multipart"
	"net/http"
	"net/url"
	"sort"
	"strconv"
	"strings"

	"github.com/tinode/chat/server/auth"
	"github.com/tinode/chat/server/db/memverif"
	"github.com/tinode/chat/server/store"
	"github.com/tinode/chat/server/store/types"
)

// download request line with every field of the upload request
func (d *c16Drv) svxC16c(kv map[string]string) string {
	method := kv["m"]
	raw := d.expand(kv["url"])
	q := url.Values{}
	hdr := http.Header{}
	var cookies []string
	type fieldC16c struct{ k, v string }
	var fields []fieldC16c
	g := func(k string) string {
		if v, ok := kv[k]; ok && v != "" {
			return v
		}
		return "-"
	}
	if k := g("kh"); k != "-" {
		hdr.Set("X-Tinode-APIKey", d.keys[k])
	}
	if k := g("kq"); k != "-" {
		q.Set("apikey", d.keys[k])
	}
	if k := g("kf"); k != "-" {
		fields = append(fields, fieldC16c{"apikey", d.keys[k]})
	}
	if k := g("kc"); k != "-" {
		cookies = append(cookies, "apikey="+d.keys[k])
	}
	if c := g("cx"); c != "-" {
		m, s := d.cred(c)
		hdr.Set("X-Tinode-Auth", strings.Title(m)+" "+s)
	}
	if c := g("ca"); c != "-" {
		m, s := d.cred(c)
		hdr.Set("Authorization", strings.Title(m)+" "+s)
	}
	if c := g("cq"); c != "-" {
		m, s := d.cred(c)
		q.Set("auth", m)
		q.Set("secret", strings.NewReplacer("+", "-", "/", "_").Replace(s))
	}
	if c := g("cf"); c != "-" {
		m, s := d.cred(c)
		fields = append(fields, fieldC16c{"auth", m}, fieldC16c{"secret", s})
	}
	if c := g("cc"); c != "-" {
		m, s := d.cred(c)
		cookies = append(cookies, "auth="+m, "secret="+s)
	}
	if s := g("sq"); s != "-" {
		q.Set("sid", d.sid(s))
	}
	if s := g("sf"); s != "-" {
		fields = append(fields, fieldC16c{"sid", d.sid(s)})
	}
	if t := g("tq"); t != "-" {
		q.Set("topic", t)
	}
	if t := g("tf"); t != "-" {
		fields = append(fields, fieldC16c{"topic", t})
	}
	if t := g("tk"); t != "-" {
		cookies = append(cookies, "topic="+t)
	}
	if a := g("asatt"); a != "-" {
		q.Set("asatt", a)
	}
	if len(cookies) > 0 {
		hdr.Set("Cookie", strings.Join(cookies, "; "))
	}
	// the query never contains '/', so that the URL text seen by Download ends with the query
	qs := strings.ReplaceAll(q.Encode(), "%2F", "_")
	target := raw
	if qs != "" {
		target += "?" + qs
	}
	u, err := url.ParseRequestURI(target)
	if err != nil {
		return "SVX 0 driver-bad-url |"
	}
	if u.String() != target {
		return "SVX 0 driver-url-reencoded | " + c16Hex(u.String())
	}
	req := &http.Request{Method: method, URL: u, Header: hdr, Proto: "HTTP/1.1", ProtoMajor: 1, ProtoMinor: 1,
		Body: http.NoBody, Host: "example.com", RemoteAddr: "192.0.2.1:1234", RequestURI: target}
	if g("body") == "form" {
		var bb bytes.Buffer
		mw := multipart.NewWriter(&bb)
		mw.SetBoundary("verifc16cboundaryverifc16cboundary")
		for _, f := range fields {
			mw.WriteField(f.k, f.v)
		}
		mw.WriteField("id", "svx")
		mw.Close()
		req.Body = http.NoBody
		body := bb.Bytes()
		req.Body = readCloserC16c{bytes.NewReader(body)}
		req.ContentLength = int64(len(body))
		req.Header.Set("Content-Type", mw.FormDataContentType())
	} else if len(fields) > 0 {
		return "SVX 0 driver-form-fields-without-body |"
	}
	if g("acrm") == "1" {
		req.Header.Set("Origin", "https://example.com")
		req.Header.Set("Access-Control-Request-Method", "GET")
	}
	mh := g("mh")
	if mh == "-" {
		mh = "fs"
	}
	d.useHandler(mh)
	before := d.snap()
	r := c16Call(largeFileServe, req)
	d.useHandler("fs")
	after := d.snap()
	effect := "none"
	side := ""
	if len(before.recs) != len(after.recs) || len(before.dir) != len(after.dir) {
		effect = "odd-store-changed"
	} else if !r.crashed && r.rec.Code == 200 && method == "GET" && c16IsCtrl(r.rec.Body.Bytes(), 200) {
		// a {ctrl} reply written for the media handler's own status, no file bytes
	} else if !r.crashed && r.rec.Code == 200 && method == "GET" {
		effect = "served:?"
		got := r.rec.Body.Bytes()
		var ks []int
		for k := range d.files {
			ks = append(ks, k)
		}
		sort.Ints(ks)
		for _, k := range ks {
			f := d.files[k]
			if bytes.Equal(got, f.content) {
				effect = "served:" + strconv.Itoa(k)
				if rec, ok := after.recs[f.id]; ok {
					side = " recstatus=" + strconv.Itoa(rec.Status) + " recmime=" + c16Hex(rec.Mime)
				}
				break
			}
		}
		side += " ct=" + c16Hex(r.rec.Header().Get("Content-Type")) + " cd=" + c16Hex(r.rec.Header().Get("Content-Disposition"))
	} else if !r.crashed && r.rec.Code == 200 && method == "HEAD" && r.rec.Body.Len() > 0 {
		effect = "odd-head-body"
	} else if !r.crashed && r.rec.Body.Len() > 0 && r.rec.Code != 200 {
		// error replies are {ctrl} messages, never file bytes
		var resp ServerComMessage
		if err := json.Unmarshal(r.rec.Body.Bytes(), &resp); err != nil || resp.Ctrl == nil || resp.Ctrl.Code != r.rec.Code {
			effect = "odd-body"
		}
	}
	if r.crashed {
		side += " panic=" + c16Hex(r.panicV)
	}
	return "SVX " + c16Status(r) + " " + effect + " |" + side
}

type readCloserC16c struct{ *bytes.Reader }

func (readCloserC16c) Close() error { return nil }

// the upload (by index) the photo reference of a stored public value names: "-" none, "?" not an upload of this run
func (d *c16Drv) publicRefC16c(public any) string {
	m, ok := public.(map[string]any)
	if !ok {
		return "-"
	}
	ph, ok := m["photo"].(map[string]any)
	if !ok {
		return "-"
	}
	ref, _ := ph["ref"].(string)
	if ref == "" {
		return "-"
	}
	id := store.Store.GetMediaHandler().GetIdFromUrl(ref)
	if id.IsZero() {
		return "?"
	}
	return d.fileIndex(id.String())
}

func callLettersC16c() string {
	var calls []string
	for _, n := range memverif.CallLog() {
		failed := strings.HasSuffix(n, "!fail")
		c := strings.TrimSuffix(n, "!fail")
		switch c {
		case "UserUpdate":
			c = "U"
		case "TopicUpdate":
			c = "T"
		case "SubsUpdate":
			c = "S"
		case "FileLinkAttachments":
			c = "L"
		case "AuthGetUniqueRecord":
			c = "Q"
		case "UserCreate":
			c = "C"
		case "TopicShare":
			c = "H"
		case "AuthAddRecord":
			c = "A"
		case "UserDelete":
			c = "D"
		}
		// every other adapter call of the request appears under its own name: the model has none
		if failed {
			c += "!"
		}
		calls = append(calls, c)
	}
	if len(calls) == 0 {
		return "-"
	}
	return strings.Join(calls, ",")
}

func (d *c16Drv) setxC16c(w []string) string {
	u, _ := strconv.Atoi(w[1])
	if d.sess[u] == nil {
		return "SETX driver-no-session"
	}
	var tn, wire string
	if w[2] == "me" {
		if !d.meSub[u] {
			id := d.nextID()
			if c := d.send(u, id, `{"sub":{"id":"`+id+`","topic":"me"}}`); c == nil || c.Code >= 300 {
				return "SETX driver-mesub-" + c16Code(c)
			}
			d.meSub[u] = true
		}
		tn, wire = d.users[u].UserId(), "me"
	} else {
		k, _ := strconv.Atoi(w[2])
		tn = d.topics[k]
		if tn == "" {
			return "SETX driver-no-topic"
		}
		if e := d.c16bAttach(u, tn); e != "" {
			return "SETX driver-" + e
		}
		wire = tn
	}
	urls := d.expandList(w[5])
	id := d.nextID()
	var desc []string
	if w[4] == "pub" || w[4] == "both" {
		pub := map[string]any{"fn": "a" + id}
		if len(urls) > 0 {
			pub["photo"] = map[string]any{"ref": urls[0], "type": "image/png"}
		}
		desc = append(desc, `"public":`+vJSON(pub))
	}
	if w[4] == "priv" || w[4] == "both" {
		desc = append(desc, `"private":{"comment":"p`+id+`"}`)
	}
	msg := `{"set":{"id":"` + id + `","topic":"` + wire + `","desc":{` + strings.Join(desc, ",") + `}}` + c16Extra(urls) + `}`
	memverif.ResetCallLog()
	if w[3] != "-" {
		k, _ := strconv.Atoi(w[3])
		memverif.SetFault(k, false)
	}
	c := d.send(u, id, msg)
	memverif.ClearFault()
	calls := callLettersC16c()
	ref := "-"
	if w[2] == "me" {
		if usr, err := store.Users.Get(d.users[u]); err == nil && usr != nil {
			ref = d.publicRefC16c(usr.Public)
		}
	} else {
		ref = d.publicRefC16c(memverif.DumpTopicDesc(tn).Public)
	}
	return "SETX code=" + c16Code(c) + " calls=" + calls + " | ref=" + ref
}

func (d *c16Drv) newaccxC16c(w []string) string {
	u, _ := strconv.Atoi(w[1])
	d.sess[u] = vNewSession(700+u, types.ZeroUid, auth.LevelNone)
	id := d.nextID()
	secret := base64.StdEncoding.EncodeToString([]byte("verif" + id + ":password" + id))
	urls := d.expandList(w[3])
	pub := map[string]any{"fn": "n" + w[1]}
	if len(urls) > 0 {
		pub["photo"] = map[string]any{"ref": urls[0], "type": "image/png"}
	}
	before := len(memverif.DumpUsersC16c())
	memverif.ResetCallLog()
	if w[2] != "-" {
		k, _ := strconv.Atoi(w[2])
		memverif.SetFault(k, false)
	}
	c := d.send(u, id, `{"acc":{"id":"`+id+`","user":"new","scheme":"basic","secret":"`+secret+
		`","login":false,"desc":{"public":`+vJSON(pub)+`}}`+c16Extra(urls)+`}`)
	memverif.ClearFault()
	calls := callLettersC16c()
	delete(d.sess, u)
	after := len(memverif.DumpUsersC16c())
	made := "0"
	if after > before {
		made = "1"
	}
	if c != nil && c.Code == 201 {
		p, _ := c.Params.(map[string]any)
		name, _ := p["user"].(string)
		uid := types.ParseUserId(name)
		if uid.IsZero() {
			return "NEWACCX driver-nouser"
		}
		d.users[u] = uid
		d.sess[u] = vNewSession(u, uid, auth.LevelAuth)
	}
	return "NEWACCX code=" + c16Code(c) + " calls=" + calls + " | user=" + made
}

func (d *c16Drv) c16cLine(w []string) (string, bool) {
	switch w[0] {
	case "NEWACCX":
		return d.newaccxC16c(w), true
	case "SVX":
		return d.svxC16c(vKV(w[1:])), true
	case "SETX":
		return d.setxC16c(w), true
	}
	return "", false
}
