//go:build verif

// C11 driver: feeds sequences of the ten client message kinds through the REAL
// Session.dispatchRaw on sessions preset to any (ver, uid, authLvl), with the REAL
// authenticators basic, token, code and anonymous initialised above memverif the way
// main.go initialises them, and reads (s.ver, s.uid, s.authLvl) plus the queued replies
// after every message.  Nothing is written to /repo (added by -overlay).
//
// Input (VERIF_IN):   scn <id> init=<ver>,<who>,<lvl> vld=<0|1>
//                     m <kind> key=value ...
//                     end
// Output (VERIF_OUT): env minver=<n>
//                     scn <id>
//                     r <ver>,<who>,<lvl>|<code>:<text>:<has-id>+...|<panic>|subs=..|data=..|stored=..|oracle=..
//                     end
package main

import (
	"bufio"
	"encoding/hex"
	"encoding/json"
	"errors"
	"fmt"
	"os"
	"sort"
	"strconv"
	"strings"
	"sync"
	"testing"
	"time"

	"golang.org/x/crypto/bcrypt"

	"github.com/tinode/chat/server/auth"
	"github.com/tinode/chat/server/db/memverif"
	"github.com/tinode/chat/server/store"
	"github.com/tinode/chat/server/store/types"
)

// ---- fake authenticator: returns whatever record / challenge / error the secret names ----

type c11FakeSecret struct {
	Uid   uint64 `json:"uid"`
	Lvl   int    `json:"lvl"`
	Feat  int    `json:"feat"`
	State int    `json:"state"`
	Chal  bool   `json:"chal"`
	Err   string `json:"err"`
}

type c11FakeAuth struct{}

func c11StoreErr(name string) error {
	switch name {
	case "failed":
		return types.ErrFailed
	case "expired":
		return types.ErrExpired
	case "malformed":
		return types.ErrMalformed
	case "internal":
		return types.ErrInternal
	case "perm":
		return types.ErrPermissionDenied
	case "unsupported":
		return types.ErrUnsupported
	case "policy":
		return types.ErrPolicy
	case "cred":
		return types.ErrCredentials
	case "notfound":
		return types.ErrNotFound
	case "plain":
		return errors.New("plain error")
	}
	return nil
}

func (c11FakeAuth) Init(json.RawMessage, string) error { return nil }
func (c11FakeAuth) IsInitialized() bool                { return true }
func (c11FakeAuth) AddRecord(rec *auth.Rec, secret []byte, remoteAddr string) (*auth.Rec, error) {
	return nil, types.ErrUnsupported
}
func (c11FakeAuth) UpdateRecord(rec *auth.Rec, secret []byte, remoteAddr string) (*auth.Rec, error) {
	return nil, types.ErrUnsupported
}
func (c11FakeAuth) Authenticate(secret []byte, remoteAddr string) (*auth.Rec, []byte, error) {
	var fs c11FakeSecret
	if err := json.Unmarshal(secret, &fs); err != nil {
		return nil, nil, types.ErrMalformed
	}
	if e := c11StoreErr(fs.Err); e != nil {
		return nil, nil, e
	}
	var chal []byte
	if fs.Chal {
		chal = []byte("challenge")
	}
	return &auth.Rec{Uid: types.Uid(fs.Uid), AuthLevel: auth.Level(fs.Lvl), Features: auth.Feature(fs.Feat),
		State: types.ObjState(fs.State)}, chal, nil
}
func (c11FakeAuth) AsTag(string) string                          { return "" }
func (c11FakeAuth) IsUnique([]byte, string) (bool, error)         { return false, types.ErrUnsupported }
func (c11FakeAuth) GenSecret(*auth.Rec) ([]byte, time.Time, error) { return nil, time.Time{}, types.ErrUnsupported }
func (c11FakeAuth) DelRecords(types.Uid) error                   { return nil }
func (c11FakeAuth) RestrictedTags() ([]string, error)            { return nil, nil }
func (c11FakeAuth) GetResetParams(types.Uid) (map[string]interface{}, error) {
	return nil, nil
}
func (c11FakeAuth) GetRealName() string { return "veriffake" }

// ---- fake credential validator: response "good" validates, "boom" is a store failure ----

type c11FakeVld struct{}

func (c11FakeVld) Init(string) error     { return nil }
func (c11FakeVld) IsInitialized() bool   { return true }
func (c11FakeVld) PreCheck(cred string, params map[string]interface{}) (string, error) {
	return "verifcred:" + cred, nil
}
func (c11FakeVld) Request(user types.Uid, cred, lang, resp string, tmpToken []byte) (bool, error) {
	if resp == "boom" {
		return false, types.ErrInternal
	}
	if _, err := store.Users.UpsertCred(&types.Credential{User: user.String(), Method: "verifcred", Value: cred, Resp: "good"}); err != nil {
		return false, err
	}
	if resp == "good" {
		if err := store.Users.ConfirmCred(user, "verifcred"); err != nil {
			return false, err
		}
	} else if resp != "" {
		return false, types.ErrCredentials
	}
	return true, nil
}
func (c11FakeVld) ResetSecret(cred, scheme, lang string, tmpToken []byte, params map[string]interface{}) error {
	return nil
}
func (c11FakeVld) Check(user types.Uid, resp string) (string, error) {
	switch resp {
	case "good":
		if err := store.Users.ConfirmCred(user, "verifcred"); err != nil {
			// no stored credential to confirm: treat as validated value anyway
		}
		return "v", nil
	case "boom":
		return "", types.ErrInternal
	}
	return "", types.ErrCredentials
}
func (c11FakeVld) Remove(types.Uid, string) error    { return nil }
func (c11FakeVld) Delete(types.Uid) error            { return nil }
func (c11FakeVld) TempAuthScheme() (string, error)   { return "code", nil }

// ---- fixture ----

var c11 struct {
	once  sync.Once
	accts map[string]types.Uid
	idx   map[types.Uid]string
	grp   string
	quiet []string
}

var c11CodeSeq int

const c11Ghost = types.Uid(0x0123456789abcdef)

func c11Init(t *testing.T) {
	vInitServer(t)
	c11.once.Do(func() {
		confs := map[string]string{
			"basic":     `{"add_to_tags":false}`,
			"token":     `{"expire_in":1209600,"serial_num":1,"key":"wfaY2RgF2S1OQI/ZlK+LSrp1KB2jwAdGAIHQ7JZn+Kc="}`,
			"code":      `{"expire_in":900,"max_retries":3,"code_length":6}`,
			"anonymous": `{}`,
		}
		// the loop of main.go over the registered authenticators (those without a config entry stay uninitialised)
		for _, name := range store.Store.GetAuthNames() {
			hdl := store.Store.GetLogicalAuthHandler(name)
			if hdl == nil {
				t.Fatal("unknown authenticator ", name)
			}
			if conf, ok := confs[hdl.GetRealName()]; ok {
				if err := hdl.Init(json.RawMessage(conf), name); err != nil {
					t.Fatal("auth init ", name, err)
				}
			}
		}
		store.RegisterAuthScheme("veriffake", c11FakeAuth{})
		store.RegisterValidator("verifcred", c11FakeVld{})
		globals.immutableTagNS = map[string]bool{}
		globals.maskedTagNS = map[string]bool{}
		globals.authValidators = nil
		globals.validators = nil
		globals.maxSubscriberCount = 32

		c11.accts = map[string]types.Uid{"z": c11Ghost}
		c11.idx = map[types.Uid]string{c11Ghost: "99"}
		mk := func(key string, lvl auth.Level, expires time.Time) types.Uid {
			u := &types.User{}
			u.Access.Auth = types.ModeCAuth
			u.Access.Anon = types.ModeNone
			if _, err := store.Users.Create(u, nil); err != nil {
				t.Fatal("user create: ", err)
			}
			hash, _ := bcrypt.GenerateFromPassword([]byte("pw"+key), bcrypt.MinCost)
			if err := store.Users.AddAuthRecord(u.Uid(), lvl, "basic", "acct"+key, hash, expires); err != nil {
				t.Fatal("auth record: ", err)
			}
			c11.accts[key] = u.Uid()
			c11.idx[u.Uid()] = key
			return u.Uid()
		}
		alice := mk("1", auth.LevelAuth, time.Time{})
		bob := mk("2", auth.LevelAuth, time.Time{})
		carol := mk("3", auth.LevelAuth, time.Time{})
		dave := mk("4", auth.LevelAuth, time.Time{})
		mk("5", auth.LevelAuth, time.Now().Add(-time.Hour).UTC().Round(time.Millisecond))
		root := mk("6", auth.LevelRoot, time.Time{})
		anon := mk("7", auth.LevelAnon, time.Time{})
		// bob has a validated credential of the fake method
		if _, err := store.Users.UpsertCred(&types.Credential{User: bob.String(), Method: "verifcred", Value: "bob", Resp: "good"}); err != nil {
			t.Fatal("cred: ", err)
		}
		if err := store.Users.ConfirmCred(bob, "verifcred"); err != nil {
			t.Fatal("cred confirm: ", err)
		}
		if _, err := store.Users.UpsertCred(&types.Credential{User: root.String(), Method: "verifcred", Value: "root", Resp: "good"}); err != nil {
			t.Fatal("cred: ", err)
		}
		store.Users.ConfirmCred(root, "verifcred")

		// a group topic every live fixture account may write to
		c11.grp = "grpVerifC11"
		now := types.TimeNow()
		full := types.ModeJoin | types.ModeRead | types.ModeWrite | types.ModePres | types.ModeShare
		stopic := &types.Topic{ObjHeader: types.ObjHeader{Id: c11.grp, CreatedAt: now},
			Access: types.DefaultAccess{Auth: full, Anon: types.ModeNone}}
		stopic.GiveAccess(alice, types.ModeCFull, types.ModeCFull)
		if err := store.Topics.Create(stopic, alice, nil); err != nil {
			t.Fatal("topic create: ", err)
		}
		for _, u := range []types.Uid{bob, carol, dave, root, anon} {
			if err := store.Subs.Create(&types.Subscription{User: u.String(), Topic: c11.grp, ModeWant: full, ModeGiven: full}); err != nil {
				t.Fatal("sub create: ", err)
			}
		}
		if err := store.Users.UpdateState(carol, types.StateSuspended); err != nil {
			t.Fatal("suspend: ", err)
		}
		if err := store.Users.Delete(dave, false); err != nil {
			t.Fatal("soft delete: ", err)
		}
		c11.quiet = []string{c11.grp}
		for _, u := range c11.accts {
			c11.quiet = append(c11.quiet, u.UserId())
		}
	})
}

// ---- scenario ----

type c11Scn struct {
	vs      *vSess
	created []types.Uid
	out     *bufio.Writer
	n       int
	dead    bool
}

func (sc *c11Scn) who(s string) types.Uid {
	if s == "" || s == "0" || s == "-" {
		return types.ZeroUid
	}
	if s[0] == 'n' {
		k, _ := strconv.Atoi(s[1:])
		if k >= 1 && k <= len(sc.created) {
			return sc.created[k-1]
		}
		return c11Ghost
	}
	if u, ok := c11.accts[s]; ok {
		return u
	}
	return c11Ghost
}

func (sc *c11Scn) tok(u types.Uid) string {
	if u.IsZero() {
		return "0"
	}
	if k, ok := c11.idx[u]; ok {
		return k
	}
	for i, c := range sc.created {
		if c == u {
			return strconv.Itoa(100 + i + 1)
		}
	}
	return "98"
}

func (sc *c11Scn) tokOfUserId(s string) string {
	if s == "" {
		return "0"
	}
	u := types.ParseUserId(s)
	if u.IsZero() {
		return "?"
	}
	return sc.tok(u)
}

func c11NewSession(ver int, uid types.Uid, lvl auth.Level) *vSess {
	vs := vNewSession(0, uid, lvl)
	vs.s.ver = ver
	vs.s.remoteAddr = "verif"
	return vs
}

func c11Hex(h string) []byte {
	if h == "" || h == "-" {
		return nil
	}
	b, err := hex.DecodeString(h)
	if err != nil {
		panic("driver: bad hex " + h)
	}
	return b
}

// secret spec -> bytes
func (sc *c11Scn) secret(spec string) []byte {
	p := strings.Split(spec, ":")
	switch p[0] {
	case "raw":
		return c11Hex(p[1])
	case "token":
		// token:<who>:<lvl>:<feat>:<ok|past>:<ok|bad|short>
		lvl, _ := strconv.Atoi(p[2])
		feat, _ := strconv.Atoi(p[3])
		rec := &auth.Rec{Uid: sc.who(p[1]), AuthLevel: auth.Level(lvl), Features: auth.Feature(feat)}
		if p[4] == "past" {
			rec.Lifetime = auth.Duration(time.Nanosecond)
		}
		tk, _, err := store.Store.GetLogicalAuthHandler("token").GenSecret(rec)
		if err != nil {
			panic("driver: token GenSecret " + err.Error())
		}
		switch p[5] {
		case "bad":
			tk[len(tk)-1] ^= 0x55
		case "short":
			tk = tk[:20]
		}
		return tk
	case "code":
		// code:<who>:<ok|bad>
		c11CodeSeq++
		cred := "email:" + p[1] + "x" + strconv.Itoa(c11CodeSeq) + "@example.com"
		code, _, err := store.Store.GetLogicalAuthHandler("code").GenSecret(&auth.Rec{Uid: sc.who(p[1]), AuthLevel: auth.LevelAuth,
			Features: auth.FeatureNoLogin, Credential: cred})
		if err != nil {
			panic("driver: code GenSecret " + err.Error())
		}
		if p[2] == "bad" {
			if code[0] == '9' {
				code[0] = '0'
			} else {
				code[0]++
			}
		}
		return []byte(string(code) + ":" + cred)
	case "fake":
		// fake:<who>:<lvl>:<feat>:<state>:<chal>:<err>
		lvl, _ := strconv.Atoi(p[2])
		feat, _ := strconv.Atoi(p[3])
		st, _ := strconv.Atoi(p[4])
		b, _ := json.Marshal(&c11FakeSecret{Uid: uint64(sc.who(p[1])), Lvl: lvl, Feat: feat, State: st, Chal: p[5] == "1", Err: p[6]})
		return b
	}
	return nil
}

func (sc *c11Scn) userRef(s string) string {
	// a<who> -> real user id; lit:<hex> -> literal text; - -> ""
	if s == "" || s == "-" {
		return ""
	}
	if strings.HasPrefix(s, "lit:") {
		return string(c11Hex(s[4:]))
	}
	if s[0] == 'a' {
		return sc.who(s[1:]).UserId()
	}
	return s
}

func (sc *c11Scn) topicRef(s string) string {
	switch s {
	case "grp":
		return c11.grp
	case "", "-":
		return ""
	}
	if strings.HasPrefix(s, "lit:") {
		return string(c11Hex(s[4:]))
	}
	if s[0] == 'a' {
		return sc.who(s[1:]).UserId()
	}
	return s
}

func (sc *c11Scn) build(kind string, kv map[string]string) *ClientComMessage {
	sc.n++
	id := strconv.Itoa(sc.n)
	if kv["id"] == "0" {
		id = ""
	}
	m := &ClientComMessage{}
	if as, ok := kv["as"]; ok {
		m.Extra = &MsgClientExtra{AsUser: sc.userRef(as), AuthLevel: string(c11Hex(kv["al"]))}
	} else if kv["extra"] == "1" {
		m.Extra = &MsgClientExtra{AuthLevel: string(c11Hex(kv["al"]))}
	}
	var creds []MsgCredClient
	switch kv["cred"] {
	case "", "-":
	case "val":
		creds = []MsgCredClient{{Method: "verifcred", Value: "c" + id + "x" + strconv.FormatInt(time.Now().UnixNano()%100000000, 36)}}
	default:
		creds = []MsgCredClient{{Method: "verifcred", Value: "c" + id + "x" + strconv.FormatInt(time.Now().UnixNano()%100000000, 36), Response: kv["cred"]}}
	}
	topic := sc.topicRef(kv["topic"])
	switch kind {
	case "hi":
		m.Hi = &MsgClientHi{Id: id, Version: string(c11Hex(kv["ver"])), UserAgent: string(c11Hex(kv["ua"]))}
	case "login":
		m.Login = &MsgClientLogin{Id: id, Scheme: kv["sch"], Secret: sc.secret(kv["sec"]), Cred: creds}
	case "acc":
		m.Acc = &MsgClientAcc{Id: id, User: sc.userRef(kv["user"]), Scheme: kv["sch"], Secret: sc.secret(kv["sec"]),
			Login: kv["login"] == "1", TmpScheme: kv["tmpsch"], TmpSecret: sc.secret(kv["tmpsec"]), State: kv["state"],
			AuthLevel: kv["authlevel"], Cred: creds}
		if kv["tmpsch"] == "-" {
			m.Acc.TmpScheme = ""
		}
		if kv["sch"] == "-" {
			m.Acc.Scheme = ""
		}
		if kv["state"] == "-" {
			m.Acc.State = ""
		}
	case "sub":
		m.Sub = &MsgClientSub{Id: id, Topic: topic}
	case "leave":
		m.Leave = &MsgClientLeave{Id: id, Topic: topic, Unsub: kv["unsub"] == "1"}
	case "pub":
		var head map[string]any
		if s, ok := kv["sender"]; ok && s != "-" {
			head = map[string]any{"sender": sc.userRef(s)}
			if kv["mime"] == "1" {
				head["mime"] = "text/plain"
			}
		}
		m.Pub = &MsgClientPub{Id: id, Topic: topic, Head: head, Content: "c" + id}
	case "get":
		m.Get = &MsgClientGet{Id: id, Topic: topic, MsgGetQuery: MsgGetQuery{What: kv["what"]}}
	case "set":
		m.Set = &MsgClientSet{Id: id, Topic: topic, MsgSetQuery: MsgSetQuery{Desc: &MsgSetDesc{Private: "p" + id}}}
	case "del":
		m.Del = &MsgClientDel{Id: id, Topic: topic, What: "msg", DelSeq: []MsgDelRange{{LowId: 1 << 20}}}
	case "note":
		seq, _ := strconv.Atoi(kv["seq"])
		m.Note = &MsgClientNote{Topic: topic, What: kv["what"], SeqId: seq}
	}
	// a second top-level field: the switch in dispatch picks by its own order
	switch kv["also"] {
	case "hi":
		if m.Hi == nil {
			m.Hi = &MsgClientHi{Id: id, Version: "0.22"}
		}
	case "login":
		if m.Login == nil {
			m.Login = &MsgClientLogin{Id: id, Scheme: "basic", Secret: []byte("acct1:pw1")}
		}
	case "note":
		if m.Note == nil {
			m.Note = &MsgClientNote{Topic: c11.grp, What: "kp"}
		}
	case "pub":
		if m.Pub == nil {
			m.Pub = &MsgClientPub{Id: id, Topic: c11.grp, Content: "also"}
		}
	}
	return m
}

func (sc *c11Scn) dispatch(raw []byte) (panicked string) {
	defer func() {
		if r := recover(); r != nil {
			panicked = strings.ReplaceAll(fmt.Sprint(r), " ", "_")
		}
	}()
	sc.vs.s.dispatchRaw(raw)
	return ""
}

func c11Text(s string) string {
	return strings.ReplaceAll(s, " ", "_")
}

func (sc *c11Scn) step(kind string, kv map[string]string) {
	if sc.dead {
		fmt.Fprintln(sc.out, "r skipped")
		return
	}
	var raw []byte
	oracle := ""
	if kind == "hi" {
		oracle = "pv=" + strconv.Itoa(parseVersion(string(c11Hex(kv["ver"]))))
	} else if kv["also"] == "hi" {
		oracle = "pv=" + strconv.Itoa(parseVersion("0.22"))
	}
	if kind == "rawjson" {
		raw = c11Hex(kv["json"])
	} else {
		raw, _ = json.Marshal(sc.build(kind, kv))
	}
	before := memverif.DumpTopic(c11.grp).SeqId
	p := sc.dispatch(raw)
	hang := vWaitQuiet(c11.quiet)
	s := sc.vs.s
	var reps, data []string
	for _, f := range sc.vs.take() {
		switch {
		case f.Ctrl != nil:
			hasID := "0"
			if f.Ctrl.Id != "" {
				hasID = "1"
			}
			reps = append(reps, fmt.Sprintf("%d:%s:%s", f.Ctrl.Code, c11Text(f.Ctrl.Text), hasID))
			if params, ok := f.Ctrl.Params.(map[string]any); ok {
				if us, ok := params["user"].(string); ok {
					u := types.ParseUserId(us)
					if !u.IsZero() && sc.tok(u) == "98" {
						sc.created = append(sc.created, u)
					}
				}
			}
		case f.Data != nil:
			snd := "-"
			if v, ok := f.Data.Head["sender"]; ok {
				snd = sc.tokOfUserId(fmt.Sprint(v))
			}
			data = append(data, sc.tokOfUserId(f.Data.From)+":"+snd)
		}
	}
	stored := "-"
	if d := memverif.DumpTopic(c11.grp); d.SeqId > before {
		for _, mm := range d.Msgs {
			if mm.Seq == d.SeqId {
				snd := "-"
				var head map[string]any
				if mm.Head != "" && json.Unmarshal([]byte(mm.Head), &head) == nil {
					if v, ok := head["sender"]; ok {
						snd = sc.tokOfUserId(fmt.Sprint(v))
					}
				}
				stored = sc.tok(mm.From) + ":" + snd
			}
		}
	}
	var subs []string
	s.subsLock.RLock()
	for name := range s.subs {
		if name == c11.grp {
			subs = append(subs, "grp")
		} else if u := types.ParseUserId(name); !u.IsZero() {
			subs = append(subs, "me"+sc.tok(u))
		} else {
			subs = append(subs, "other")
		}
	}
	s.subsLock.RUnlock()
	sort.Strings(subs)
	pflag := "0"
	if p != "" {
		pflag = "PANIC:" + p
		sc.dead = true
	}
	if hang != "" {
		pflag += ":" + strings.ReplaceAll(hang, " ", "_")
	}
	fmt.Fprintf(sc.out, "r %d,%s,%d|%s|%s|subs=%s|data=%s|stored=%s|%s\n", s.ver, sc.tok(s.uid), int(s.authLvl),
		strings.Join(reps, "+"), pflag, strings.Join(subs, ","), strings.Join(data, ","), stored, oracle)
}

func (sc *c11Scn) finish() {
	if sc.vs != nil {
		sc.vs.s.cleanUp(true)
		<-sc.vs.done
		vWaitQuiet(c11.quiet)
	}
	globals.authValidators = nil
	globals.validators = nil
}

func TestVerifC11(t *testing.T) {
	c11Init(t)
	fin, err := os.Open(os.Getenv("VERIF_IN"))
	if err != nil {
		t.Fatal(err)
	}
	defer fin.Close()
	fout, err := os.Create(os.Getenv("VERIF_OUT"))
	if err != nil {
		t.Fatal(err)
	}
	defer fout.Close()
	out := bufio.NewWriterSize(fout, 1<<20)
	defer out.Flush()
	fmt.Fprintf(out, "env minver=%d\n", minSupportedVersionValue)
	in := bufio.NewScanner(fin)
	in.Buffer(make([]byte, 1<<20), 1<<26)
	var sc *c11Scn
	for in.Scan() {
		w := strings.Fields(in.Text())
		if len(w) == 0 {
			continue
		}
		switch w[0] {
		case "scn":
			kv := vKV(w[2:])
			sc = &c11Scn{out: out}
			init := strings.Split(kv["init"], ",")
			ver, _ := strconv.Atoi(init[0])
			lvl, _ := strconv.Atoi(init[2])
			sc.vs = c11NewSession(ver, sc.who(init[1]), auth.Level(lvl))
			if kv["vld"] == "1" {
				globals.authValidators = map[auth.Level][]string{auth.LevelAuth: {"verifcred"}, auth.LevelRoot: {"verifcred"}}
				globals.validators = map[string]credValidator{"verifcred": {requiredAuthLvl: []auth.Level{auth.LevelAuth, auth.LevelRoot}}}
			}
			fmt.Fprintf(out, "scn %s\n", w[1])
		case "m":
			sc.step(w[1], vKV(w[2:]))
		case "end":
			sc.finish()
			fmt.Fprintln(out, "end")
			out.Flush()
		}
	}
}
