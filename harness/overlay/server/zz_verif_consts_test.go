//go:build verif

// Constants tie: prints the values of the Go constants that the Coq models copy, read from the tree
// under test (compiled in, not parsed).  Request: "K <name>"; answer: "K <name> <decimal value>" or "K <name> ?".
package main

import (
	"strconv"

	"github.com/tinode/chat/server/auth"
	"github.com/tinode/chat/server/store/types"
)

var verifConsts = map[string]int64{
	"types.ModeJoin": int64(types.ModeJoin), "types.ModeRead": int64(types.ModeRead), "types.ModeWrite": int64(types.ModeWrite),
	"types.ModePres": int64(types.ModePres), "types.ModeApprove": int64(types.ModeApprove), "types.ModeShare": int64(types.ModeShare),
	"types.ModeDelete": int64(types.ModeDelete), "types.ModeOwner": int64(types.ModeOwner), "types.ModeUnset": int64(types.ModeUnset),
	"types.ModeNone": int64(types.ModeNone), "types.ModeInvalid": int64(types.ModeInvalid), "types.ModeBitmask": int64(types.ModeBitmask),
	"types.ModeCPublic": int64(types.ModeCPublic), "types.ModeCP2P": int64(types.ModeCP2P), "types.ModeCAuth": int64(types.ModeCAuth),
	"types.ModeCSelf": int64(types.ModeCSelf), "types.ModeCReadOnly": int64(types.ModeCReadOnly), "types.ModeCSys": int64(types.ModeCSys),
	"types.ModeCFull": int64(types.ModeCFull), "types.ModeCChnWriter": int64(types.ModeCChnWriter), "types.ModeCChnReader": int64(types.ModeCChnReader),
	"types.ModeCSharer": int64(types.ModeCSharer), "types.ModeCAdmin": int64(types.ModeCAdmin),
	"auth.LevelNone": int64(auth.LevelNone), "auth.LevelAnon": int64(auth.LevelAnon), "auth.LevelAuth": int64(auth.LevelAuth), "auth.LevelRoot": int64(auth.LevelRoot),
	"auth.FeatureValidated": int64(auth.FeatureValidated), "auth.FeatureNoLogin": int64(auth.FeatureNoLogin),
	"main.defaultMaxDeleteCount": int64(defaultMaxDeleteCount), "main.defaultMaxSubscriberCount": int64(defaultMaxSubscriberCount),
	"main.defaultMaxTagCount": int64(defaultMaxTagCount), "main.minTagLength": int64(minTagLength), "main.maxTagLength": int64(maxTagLength),
	"main.ProxyReqJoin": int64(ProxyReqJoin), "main.ProxyReqLeave": int64(ProxyReqLeave), "main.ProxyReqMeta": int64(ProxyReqMeta),
	"main.ProxyReqBroadcast": int64(ProxyReqBroadcast), "main.ProxyReqBgSession": int64(ProxyReqBgSession), "main.ProxyReqMeUserAgent": int64(ProxyReqMeUserAgent),
}

func init() {
	verifHandlers["consts"] = func(w []string) string {
		if len(w) < 2 {
			return "?"
		}
		if v, ok := verifConsts[w[1]]; ok {
			return "K " + w[1] + " " + strconv.FormatInt(v, 10)
		}
		return "K " + w[1] + " ?"
	}
}
