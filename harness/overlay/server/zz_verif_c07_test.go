//go:build verif

// C07 driver for the topic kinds other than a loaded group: p2p topics (initTopicP2P and the
// p2p branches of thisUserSub / anotherUserSub / replyLeaveUnsub), 'me', 'fnd', 'sys'
// (expandTopicName + initTopicMe / initTopicFnd / initTopicSys + thisUserSub) and groups
// created through the real {sub topic="new"} path under a small globals.maxSubscriberCount.
// Scenarios (tools/props/c07.py) run against the REAL hub, topics, sessions and store mappers
// above memverif, one request at a time through Session.dispatchRaw with sound quiescence
// (helpers of zz_verif_topic_test.go).  After each request: the {ctrl} replies and, for every
// watched topic, its stored subscription rows, its cached perUser entries and attached
// sessions.  The model runner (harness/runner/r_c07.ml) prints the same canonical text.
package main

import (
	"bufio"
	"fmt"
	"os"
	"sort"
	"strconv"
	"strings"
	"testing"
	"time"

	"github.com/tinode/chat/server/auth"
	"github.com/tinode/chat/server/db/memverif"
	"github.com/tinode/chat/server/store"
	"github.com/tinode/chat/server/store/types"
)

type c07Scn struct {
	id       string
	out      *bufio.Writer
	uids     map[int]types.Uid
	uidIdx   map[types.Uid]int
	root     map[int]bool
	sess     map[int]*vSess
	sessUser map[int]int
	grp      []string // groups created in this scenario, in order
	opi      int
	rend     *vScn
}

func (sc *c07Scn) userName(i int) string {
	if u, ok := sc.uids[i]; ok {
		return u.UserId()
	}
	return "usrNoSuchUser" + strconv.Itoa(i)
}

// client-side topic name of a reference
func (sc *c07Scn) ref(user int, r string) string {
	switch {
	case r == "me" || r == "fnd" || r == "sys":
		return r
	case r == "new":
		return "new" + strconv.Itoa(sc.opi) + "x"
	case r == "nch": // a new channel-enabled group
		return "nch" + strconv.Itoa(sc.opi) + "x"
	case r[0] == 'u':
		v, _ := strconv.Atoi(r[1:])
		return sc.userName(v)
	case r[0] == 'F':
		v, _ := strconv.Atoi(r[1:])
		return sc.uids[v].FndName()
	case r[0] == 'P':
		ab := strings.Split(r[1:], ".")
		a, _ := strconv.Atoi(ab[0])
		b, _ := strconv.Atoi(ab[1])
		return sc.uids[a].P2PName(sc.uids[b])
	case r[0] == 'g':
		k, _ := strconv.Atoi(r[1:])
		if k >= 1 && k <= len(sc.grp) {
			return sc.grp[k-1]
		}
		return "grpNoSuchTopic"
	}
	return r
}

type c07Topic struct{ tok, name string }

// watched topics in canonical order: me and fnd of every user, sys, every p2p pair, every group
func (sc *c07Scn) watched() []c07Topic {
	var us []int
	for i := range sc.uids {
		us = append(us, i)
	}
	sort.Ints(us)
	var res []c07Topic
	for _, i := range us {
		res = append(res, c07Topic{"m" + strconv.Itoa(i), sc.uids[i].UserId()})
	}
	for _, i := range us {
		res = append(res, c07Topic{"f" + strconv.Itoa(i), sc.uids[i].FndName()})
	}
	res = append(res, c07Topic{"sys", "sys"})
	for _, i := range us {
		for _, j := range us {
			if i < j {
				res = append(res, c07Topic{fmt.Sprintf("p%d.%d", i, j), sc.uids[i].P2PName(sc.uids[j])})
			}
		}
	}
	for k, g := range sc.grp {
		res = append(res, c07Topic{"g" + strconv.Itoa(k+1), g})
	}
	return res
}

func (sc *c07Scn) names() []string {
	var r []string
	for _, t := range sc.watched() {
		r = append(r, t.name)
	}
	return r
}

func (sc *c07Scn) quiet() string {
	h := vWaitQuiet(sc.names())
	for _, n := range sc.names() {
		if t := globals.hub.topicGet(n); t != nil && len(t.sessions) == 0 && t.killTimer != nil {
			t.killTimer.Reset(time.Hour)
		}
	}
	return h
}

func c07Mode(m types.AccessMode) string {
	s := vModeStr(m)
	if s == "" {
		return "_"
	}
	return s
}

func (sc *c07Scn) dump() {
	for _, t := range sc.watched() {
		subs := memverif.DumpSubsC07(t.name)
		var rows []string
		for _, s := range subs {
			i, ok := sc.uidIdx[s.User]
			if !ok {
				continue // rows of earlier scenarios (sys)
			}
			rows = append(rows, fmt.Sprintf("%d:%s/%s:%s", i, c07Mode(s.Want), c07Mode(s.Given), vB2s(s.Deleted)))
		}
		sort.Strings(rows)
		if len(rows) > 0 {
			fmt.Fprintf(sc.out, "T %s store %s\n", t.tok, strings.Join(rows, " "))
		}
		if tp := globals.hub.topicGet(t.name); tp != nil {
			var es []string
			for uid, p := range tp.perUser {
				i, ok := sc.uidIdx[uid]
				if !ok {
					if uid.IsZero() {
						i = 0
					} else {
						continue
					}
				}
				es = append(es, fmt.Sprintf("%d:%s/%s:%s", i, c07Mode(p.modeWant), c07Mode(p.modeGiven), vB2s(p.deleted)))
			}
			sort.Strings(es)
			var ss []string
			for s, pssd := range tp.sessions {
				for si, vs := range sc.sess {
					if vs.s == s {
						ss = append(ss, fmt.Sprintf("%d:%d", si, sc.uidIdx[pssd.uid]))
					}
				}
			}
			sort.Strings(ss)
			fmt.Fprintf(sc.out, "T %s cache %s | %s\n", t.tok, strings.Join(es, " "), strings.Join(ss, " "))
		}
	}
}

func (sc *c07Scn) op(w []string) {
	sc.opi++
	fmt.Fprintf(sc.out, "op %d\n", sc.opi)
	si, _ := strconv.Atoi(w[0])
	kind, a := w[1], w[2:]
	id := strconv.Itoa(sc.opi)
	user := sc.sessUser[si]
	send := func(msg string) {
		if vs := sc.sess[si]; vs != nil {
			vs.s.dispatchRaw([]byte(msg))
		}
	}
	switch kind {
	case "sub": // sub <ref> <mode hex|-> <defacs.auth hex|->
		set := ""
		var parts []string
		if a[1] != "-" {
			parts = append(parts, `"sub":{"mode":`+vJSON(vHexStr(a[1]))+`}`)
		}
		if len(a) > 2 && a[2] != "-" {
			parts = append(parts, `"desc":{"defacs":{"auth":`+vJSON(vHexStr(a[2]))+`}}`)
		}
		if len(parts) > 0 {
			set = `,"set":{` + strings.Join(parts, ",") + `}`
		}
		name := sc.ref(user, a[0])
		send(`{"sub":{"id":"` + id + `","topic":"` + name + `"` + set + `}}`)
		if a[0] == "new" || a[0] == "nch" {
			sc.quiet()
			if vs := sc.sess[si]; vs != nil {
				vs.mu.Lock()
				for _, m := range vs.frames {
					if m.Ctrl != nil && m.Ctrl.Id == id && strings.HasPrefix(m.Ctrl.Topic, "grp") && m.Ctrl.Code < 300 {
						sc.grp = append(sc.grp, m.Ctrl.Topic)
					}
				}
				vs.mu.Unlock()
			}
		}
	case "setsub": // setsub <ref> <target user|0> <mode hex|->
		usr := ""
		if a[1] != "0" {
			t, _ := strconv.Atoi(a[1])
			usr = `"user":"` + sc.userName(t) + `",`
		}
		send(`{"set":{"id":"` + id + `","topic":"` + sc.ref(user, a[0]) + `","sub":{` + usr + `"mode":` + vJSON(vHexStr(a[2])) + `}}}`)
	case "leave": // leave <ref> <unsub>
		uns := ""
		if a[1] == "1" {
			uns = `,"unsub":true`
		}
		send(`{"leave":{"id":"` + id + `","topic":"` + sc.ref(user, a[0]) + `"` + uns + `}}`)
	case "delsub": // delsub <ref> <target>
		t, _ := strconv.Atoi(a[1])
		send(`{"del":{"id":"` + id + `","topic":"` + sc.ref(user, a[0]) + `","what":"sub","user":"` + sc.userName(t) + `"}}`)
	case "unload": // unload <watched token>: what the idle timer does, for a topic without sessions
		for _, t := range sc.watched() {
			if t.tok == a[0] {
				if tp := globals.hub.topicGet(t.name); tp != nil && len(tp.sessions) == 0 {
					globals.hub.unreg <- &topicUnreg{rcptTo: t.name}
				}
			}
		}
	}
	hang := sc.quiet()
	idxs := make([]int, 0, len(sc.sess))
	for i := range sc.sess {
		idxs = append(idxs, i)
	}
	sort.Ints(idxs)
	for _, i := range idxs {
		for _, m := range sc.sess[i].take() {
			if m.Ctrl != nil {
				fmt.Fprintf(sc.out, "S%d %s\n", i, sc.rend.frame(m))
			}
		}
	}
	if hang != "" {
		fmt.Fprintln(sc.out, hang)
	}
	sc.dump()
}

func (sc *c07Scn) finish() {
	for _, vs := range sc.sess {
		vs.s.cleanUp(true)
		<-vs.done
	}
	sc.quiet()
	for _, t := range sc.watched() {
		if tp := globals.hub.topicGet(t.name); tp != nil {
			globals.hub.unreg <- &topicUnreg{rcptTo: t.name}
			sc.quiet()
		}
	}
	// the system topic is shared by all scenarios: drop this scenario's subscriptions to it
	for _, u := range sc.uids {
		store.Subs.Delete("sys", u)
	}
	// drain push receipts
	for {
		select {
		case <-globals.usersUpdate:
		default:
			return
		}
	}
}

func TestVerifC07(t *testing.T) {
	vInitServer(t)
	if st, _ := store.Topics.Get("sys"); st == nil {
		now := types.TimeNow()
		if err := store.Topics.Create(&types.Topic{ObjHeader: types.ObjHeader{Id: "sys", CreatedAt: now},
			Access: types.DefaultAccess{Auth: types.ModeNone, Anon: types.ModeNone}}, types.ZeroUid, nil); err != nil {
			t.Fatal("sys create: ", err)
		}
	}
	fin, err := os.Open(os.Getenv("VERIF_IN"))
	if err != nil {
		t.Fatal(err)
	}
	defer fin.Close()
	fout, err := os.Create(os.Getenv("VERIF_OUT"))
	if err != nil {
		t.Fatal(err)
	}
	defer fout.Close()
	out := bufio.NewWriterSize(fout, 1<<20)
	defer out.Flush()
	in := bufio.NewScanner(fin)
	in.Buffer(make([]byte, 1<<20), 1<<26)
	oldLimit := globals.maxSubscriberCount
	defer func() { globals.maxSubscriberCount = oldLimit }()
	var sc *c07Scn
	for in.Scan() {
		w := strings.Fields(in.Text())
		if len(w) == 0 {
			continue
		}
		switch w[0] {
		case "kscn":
			kv := vKV(w[2:])
			sc = &c07Scn{id: w[1], out: out, uids: map[int]types.Uid{}, uidIdx: map[types.Uid]int{}, root: map[int]bool{},
				sess: map[int]*vSess{}, sessUser: map[int]int{}}
			sc.rend = &vScn{uids: sc.uids, uidIdx: sc.uidIdx}
			if l, err := strconv.Atoi(kv["limit"]); err == nil && l > 0 {
				globals.maxSubscriberCount = l
			}
			// every scenario starts with nothing loaded (newHub loads 'sys' on its own)
			if tp := globals.hub.topicGet("sys"); tp != nil && len(tp.sessions) == 0 {
				globals.hub.unreg <- &topicUnreg{rcptTo: "sys"}
				vWaitQuiet([]string{"sys"})
			}
			fmt.Fprintf(out, "kscn %s\n", w[1])
		case "user":
			kv := vKV(w[2:])
			i, _ := strconv.Atoi(w[1])
			acc, _ := strconv.Atoi(kv["acc"])
			u := &types.User{}
			u.Access.Auth = types.AccessMode(acc)
			u.Access.Anon = types.ModeNone
			if _, err := store.Users.Create(u, nil); err != nil {
				t.Fatal("user create: ", err)
			}
			sc.uids[i] = u.Uid()
			sc.uidIdx[u.Uid()] = i
			sc.root[i] = kv["root"] == "1"
		case "sess":
			si, _ := strconv.Atoi(w[1])
			ui, _ := strconv.Atoi(w[2])
			lvl := auth.LevelAuth
			if sc.root[ui] {
				lvl = auth.LevelRoot
			}
			sc.sessUser[si] = ui
			sc.sess[si] = vNewSession(si, sc.uids[ui], lvl)
		case "op":
			sc.op(w[1:])
		case "end":
			sc.finish()
			fmt.Fprintln(out, "end")
			out.Flush()
		}
	}
}
