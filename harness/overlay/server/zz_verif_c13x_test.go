//go:build verif

// C13 structured driver for the two concurrency-shaped parts of the property (tools/props/c13x.py):
//
//  1. SLOW CONSUMERS and the inflightReqs bookkeeping (model coq/Sys/Inflight.v): a small population on one
//     group and one p2p topic; requests {sub} {leave} {pub} {note kp}, connections that stop reading (clog /
//     unclog, the real full send buffer as in zz_verif_c02_test.go), disconnects.  After every operation, at
//     sound quiescence, the driver prints what the model predicts: len(inflightReqs.sem) of every connection
//     (nil after cleanUp), Session.subs, Topic.sessions.
//
//  2. LOAD OF A TOPIC HELD OPEN with requests queued for it (model coq/Sys/HeldLoad.v): the memverif call hook
//     (zz_hook.go) parks the topicInit goroutine at its first adapter call; meanwhile other connections send
//     requests addressed to that topic ({pub topic=sys}, {note what=recv|call}, {del what=topic}, a second
//     {sub}, {get} {set} {leave} ...), each followed by a hub-level quiescence wait (every goroutine parked, hub
//     queues empty: the routed messages now sit in the paused topic's queues); then the load is released to
//     succeed or to fail (memverif fault at the held call or a later one).  The frames every connection
//     received are printed with their ids.
//
// Input (VERIF_IN):
//
//	scn <name>                       tear down, rebuild the population
//	op sub|leave|unsub|pub|kp <sess> <topic>     part 1 (topic tokens G P X N)
//	op clog|unclog|disc <sess>
//	unload <topic>                   what the idle timer does (only when nobody is attached)
//	hold <sess> <topic> <id>         {sub} with the first adapter call of the load held open
//	q <sess> <id> <kind> <topic>     a request while the load is held (kinds below)
//	release ok|fail<k>               let the load go on / make adapter call k from here fail
//	end
//
// Reuses vInitServer, vNewSession, vSess, vQuiescent, vWaitQuiet, vB2s, vfGuard, vfFrames, vfHexS.
// Nothing is written to /repo.
package main

import (
	"bufio"
	"fmt"
	"os"
	"sort"
	"strconv"
	"strings"
	"sync"
	"sync/atomic"
	"testing"
	"time"

	"github.com/tinode/chat/server/auth"
	"github.com/tinode/chat/server/db/memverif"
	"github.com/tinode/chat/server/store"
	"github.com/tinode/chat/server/store/types"
)

type vxPop struct {
	sess    map[string]*vSess
	user    map[string]string // session -> U1 U2 U3
	uids    map[string]types.Uid
	grp     string
	clogged map[string]bool
	gone    map[string]bool // disconnected
	fresh   int
	// held load
	holding  bool
	heldName string // hub name of the topic being loaded
	gate     chan struct{}
	parked   int32
	method   atomic.Value
}

var vxSessions = []string{"a1", "a2", "b1", "b2", "c1", "r1"}
var vxUserOf = map[string]string{"a1": "U1", "a2": "U1", "b1": "U2", "b2": "U2", "c1": "U3", "r1": "U3"}

// every counted adapter method (memverif begin(name)): the first call made after the hook is armed is held
var vxFirstCalls = strings.Fields(`AuthAddRecord AuthDelAllRecords AuthDelScheme AuthGetRecord AuthGetUniqueRecord AuthUpdRecord ChannelsForUser
	CredConfirm CredDel CredFail CredGetActive CredGetAll CredUpsert DeviceDelete DeviceGetAll DeviceUpsert FileDeleteUnused FileFinishUpload
	FileGet FileLinkAttachments FileStartUpload FindTopics FindUsers MessageDeleteList MessageGetAll MessageGetDeleted MessageSave OwnTopics
	PCacheDelete PCacheExpire PCacheGet PCacheUpsert SubsDelete SubsForTopic SubsForUser SubsUpdate SubscriptionGet TopicCreate TopicCreateP2P
	TopicDelete TopicGet TopicOwnerChange TopicShare TopicUpdate TopicUpdateOnMessage TopicsForUser UserCreate UserDelete UserGet UserGetAll
	UserGetByCred UserGetUnvalidated UserUnreadCount UserUpdate UserUpdateTags UsersForTopic`)

func (p *vxPop) newSess(name string) *vSess {
	lvl := auth.LevelAuth
	if name == "r1" {
		lvl = auth.LevelRoot
	}
	vs := vNewSession(len(p.sess)+p.fresh, p.uids[vxUserOf[name]], lvl)
	vs.s.remoteAddr = "127.0.0.1:5555"
	vs.s.lang = "en"
	globals.sessionStore.lock.Lock()
	globals.sessionStore.sessCache[vs.s.sid] = vs.s
	globals.sessionStore.lock.Unlock()
	p.sess[name] = vs
	p.fresh++
	return vs
}

func vxAllTopics() []string { return vfAllTopics() }

// quiescence of the whole server; a goroutine blocked on a NIL channel can never be woken: reported at once as
// STUCK (vWaitQuiet would wait out its 20 s and say HANG)
func vxQuiet() string {
	topics := vxAllTopics()
	stuck := 0
	for i := 0; i < 400; i++ {
		q, w := vQuiescent(topics)
		if q {
			break
		}
		if strings.Contains(w, "(nil chan)") {
			stuck++
			if stuck >= 25 {
				return "STUCK " + w
			}
		} else {
			stuck = 0
		}
		time.Sleep(50 * time.Microsecond)
	}
	return vWaitQuiet(topics)
}

// hub-level quiescence while a load is held: every goroutine parked (the held one in "chan receive" on the
// gate), hub queues empty; the queues of the paused topic are allowed to be non-empty
func vxHubQuiet() string {
	deadline := time.Now().Add(20 * time.Second)
	okCount := 0
	why := ""
	for time.Now().Before(deadline) {
		q, w := vQuiescent(nil)
		if q {
			okCount++
			if okCount >= 2 {
				return ""
			}
			continue
		}
		okCount = 0
		why = w
		time.Sleep(50 * time.Microsecond)
	}
	return "HANG " + why
}

func (p *vxPop) must(t *testing.T, sn string, msg string) []*ServerComMessage {
	vs := p.sess[sn]
	vs.s.dispatchRaw([]byte(msg))
	if h := vxQuiet(); h != "" {
		t.Fatal("c13x population setup: ", h, " after ", msg)
	}
	fr := vs.take()
	for _, f := range fr {
		if f.Ctrl != nil && f.Ctrl.Code >= 300 {
			t.Fatalf("c13x population setup: %s -> ctrl %d %s", msg, f.Ctrl.Code, f.Ctrl.Text)
		}
	}
	return fr
}

func vxSetup(t *testing.T) *vxPop {
	p := &vxPop{sess: map[string]*vSess{}, user: vxUserOf, uids: map[string]types.Uid{}, clogged: map[string]bool{}, gone: map[string]bool{}}
	for i := 1; i <= 3; i++ {
		u := &types.User{}
		u.Access.Auth = types.ModeCAuth
		u.Access.Anon = types.ModeNone
		u.Public = map[string]any{"fn": "xuser" + strconv.Itoa(i)}
		if _, err := store.Users.Create(u, nil); err != nil {
			t.Fatal("user create: ", err)
		}
		p.uids["U"+strconv.Itoa(i)] = u.Uid()
	}
	for _, sn := range vxSessions {
		p.newSess(sn)
	}
	p.grp = vfCtrlTopic(p.must(t, "a1", `{"sub":{"id":"x1","topic":"new","set":{"desc":{"public":{"fn":"XG"}}}}}`))
	if !strings.HasPrefix(p.grp, "grp") {
		t.Fatalf("c13x population setup: group %q", p.grp)
	}
	p.must(t, "b1", `{"sub":{"id":"x2","topic":"`+p.grp+`"}}`)
	p.must(t, "a1", `{"sub":{"id":"x3","topic":"`+p.uids["U2"].UserId()+`"}}`)
	p.must(t, "b1", `{"sub":{"id":"x4","topic":"`+p.uids["U1"].UserId()+`"}}`)
	p.must(t, "a1", `{"pub":{"id":"x5","topic":"`+p.grp+`","content":"one"}}`)
	p.must(t, "a1", `{"pub":{"id":"x6","topic":"`+p.uids["U2"].UserId()+`","content":"two"}}`)
	for _, vs := range p.sess {
		vs.take()
	}
	return p
}

func (p *vxPop) teardown() {
	if p.holding {
		p.release("ok")
		vxQuiet()
	}
	for sn, vs := range p.sess {
		if p.gone[sn] {
			continue
		}
		p.hangUp(sn, vs)
	}
	vxQuiet()
	for _, name := range vxAllTopics() {
		if name != "sys" {
			globals.hub.unreg <- &topicUnreg{rcptTo: name}
		}
	}
	vxQuiet()
	if globals.hub.topicGet("sys") == nil {
		// a scenario unloaded the system topic and its reload failed: bring it back as the server start does
		memverif.ClearFault()
		globals.hub.join <- &ClientComMessage{RcptTo: "sys", Original: "sys"}
		vxQuiet()
	}
	memverif.Reset()
	// memverif.Reset recreates the store with the sys topic row only
}

// the socket closes: what the read loop's exit does (sessionStore.Delete, cleanUp).  The drain loop is stopped FIRST:
// Session.purgeChannels (`for len(s.send) > 0 { <-s.send }`) must not compete with it for the last queued frame
func (p *vxPop) hangUp(sn string, vs *vSess) {
	if !p.clogged[sn] {
		select {
		case <-vs.done:
		default:
			vs.s.stop <- nil
			<-vs.done
		}
	}
	delete(p.clogged, sn)
	globals.sessionStore.Delete(vs.s)
	vs.s.cleanUp(true)
}

func (p *vxPop) clog(sn string) string {
	vs := p.sess[sn]
	if vs == nil || p.gone[sn] {
		return "gone"
	}
	if p.clogged[sn] {
		return "already"
	}
	select {
	case <-vs.done:
		return "dead"
	default:
	}
	vs.s.stop <- nil
	<-vs.done
	for {
		select {
		case vs.s.send <- []byte{0x30}:
			continue
		default:
		}
		break
	}
	p.clogged[sn] = true
	return "ok"
}

func (p *vxPop) unclog(sn string) string {
	vs := p.sess[sn]
	if vs == nil || !p.clogged[sn] {
		return "notclogged"
	}
	leak := 0
	for len(vs.s.send) > 0 {
		if m, ok := <-vs.s.send; ok {
			if _, dummy := m.([]byte); !dummy {
				leak++
			}
		}
	}
	vs.done = make(chan bool)
	go vs.loop()
	delete(p.clogged, sn)
	if leak > 0 {
		return "CLOGLEAK" + strconv.Itoa(leak)
	}
	return "ok"
}

// topic token -> the name the session's user puts on the wire
func (p *vxPop) wire(sn, tok string) string {
	u := vxUserOf[sn]
	switch tok {
	case "G":
		return p.grp
	case "P":
		switch u {
		case "U1":
			return p.uids["U2"].UserId()
		case "U2":
			return p.uids["U1"].UserId()
		}
		return p.uids["U1"].P2PName(p.uids["U2"])
	case "Q": // p2p topic of U1 and U3 (does not exist until somebody subscribes)
		switch u {
		case "U1":
			return p.uids["U3"].UserId()
		case "U3":
			return p.uids["U1"].UserId()
		}
		return p.uids["U1"].P2PName(p.uids["U3"])
	case "S":
		return "sys"
	case "X":
		return "grpNonexistent1234"
	case "M":
		return "me"
	case "F":
		return "fnd"
	case "N":
		return "new"
	}
	return tok
}

// hub name -> token (as seen by anybody)
func (p *vxPop) token(name string) string {
	switch {
	case name == p.grp:
		return "G"
	case name == p.uids["U1"].P2PName(p.uids["U2"]):
		return "P"
	case name == p.uids["U1"].P2PName(p.uids["U3"]):
		return "Q"
	case name == "sys":
		return "S"
	case strings.HasPrefix(name, "usr"):
		for k, u := range p.uids {
			if u.UserId() == name {
				return "M" + k[1:]
			}
		}
	case strings.HasPrefix(name, "fnd"):
		for k, u := range p.uids {
			if u.FndName() == name {
				return "F" + k[1:]
			}
		}
	case strings.HasPrefix(name, "grp"):
		return "N"
	}
	return "?" + name
}

// hub name of a token for a given user
func (p *vxPop) hubName(sn, tok string) string {
	switch tok {
	case "M":
		return p.uids[vxUserOf[sn]].UserId()
	case "F":
		return p.uids[vxUserOf[sn]].FndName()
	case "P":
		return p.uids["U1"].P2PName(p.uids["U2"])
	case "Q":
		return p.uids["U1"].P2PName(p.uids["U3"])
	case "N":
		return ""
	}
	return p.wire(sn, tok)
}

func (p *vxPop) emitState(out *bufio.Writer) {
	for _, sn := range vxSessions {
		vs := p.sess[sn]
		infl := "nil"
		if vs.s.inflightReqs != nil {
			infl = strconv.Itoa(len(vs.s.inflightReqs.sem))
		}
		var subs []string
		vs.s.subsLock.RLock()
		for name := range vs.s.subs {
			subs = append(subs, p.token(name))
		}
		vs.s.subsLock.RUnlock()
		sort.Strings(subs)
		fmt.Fprintf(out, "S %s inflight=%s term=%s subs=%s\n", sn, infl, vB2s(atomic.LoadInt32(&vs.s.terminating) > 0), strings.Join(subs, ","))
	}
	var tl []string
	for _, name := range vxAllTopics() {
		t := globals.hub.topicGet(name)
		if t == nil || name == "sys" && len(t.sessions) == 0 {
			continue
		}
		var ss []string
		for s := range t.sessions {
			for sn, vs := range p.sess {
				if vs.s == s {
					ss = append(ss, sn)
				}
			}
		}
		if len(ss) == 0 {
			continue
		}
		sort.Strings(ss)
		tl = append(tl, fmt.Sprintf("T %s %s", p.token(name), strings.Join(ss, ",")))
	}
	sort.Strings(tl)
	for _, l := range tl {
		fmt.Fprintln(out, l)
	}
}

func (p *vxPop) emitFrames(out *bufio.Writer) {
	for _, sn := range vxSessions {
		vs := p.sess[sn]
		if p.clogged[sn] {
			continue
		}
		fr, raw := vs.takeAll()
		if len(fr)+len(raw) > 0 {
			fmt.Fprintf(out, "F %s %s\n", sn, vfFrames(fr, raw))
		}
	}
}

// ---- held load ----

func (p *vxPop) arm() {
	p.gate = make(chan struct{})
	atomic.StoreInt32(&p.parked, 0)
	var once sync.Once
	gate := p.gate
	hook := func(name string) func() {
		return func() {
			held := false
			once.Do(func() { held = true })
			if held {
				p.method.Store(name)
				atomic.StoreInt32(&p.parked, 1)
				<-gate
			}
		}
	}
	for _, m := range vxFirstCalls {
		memverif.SetHook(m, hook(m))
	}
}

func (p *vxPop) disarm() {
	for _, m := range vxFirstCalls {
		memverif.SetHook(m, nil)
	}
}

func (p *vxPop) release(mode string) {
	if !p.holding {
		return
	}
	p.disarm()
	if strings.HasPrefix(mode, "fail") {
		k, _ := strconv.Atoi(mode[4:])
		if k <= 0 {
			k = 1
		}
		// the hook runs before the call is counted: the held call is call 1 from here
		memverif.SetFault(k, false)
	}
	close(p.gate)
	p.holding = false
}

func vxRequest(p *vxPop, sn, id, kind, tok string) string {
	tn := p.wire(sn, tok)
	q := func(s string) string { return strconv.Quote(s) }
	switch kind {
	case "sub":
		return `{"sub":{"id":` + q(id) + `,"topic":` + q(tn) + `}}`
	case "subget":
		return `{"sub":{"id":` + q(id) + `,"topic":` + q(tn) + `,"get":{"what":"desc sub"}}}`
	case "leave":
		return `{"leave":{"id":` + q(id) + `,"topic":` + q(tn) + `}}`
	case "unsub":
		return `{"leave":{"id":` + q(id) + `,"topic":` + q(tn) + `,"unsub":true}}`
	case "pub":
		return `{"pub":{"id":` + q(id) + `,"topic":` + q(tn) + `,"content":"c` + id + `"}}`
	case "pubnoid":
		return `{"pub":{"topic":` + q(tn) + `,"content":"c` + id + `"}}`
	case "kp":
		return `{"note":{"topic":` + q(tn) + `,"what":"kp"}}`
	case "recv":
		return `{"note":{"topic":` + q(tn) + `,"what":"recv","seq":1}}`
	case "read":
		return `{"note":{"topic":` + q(tn) + `,"what":"read","seq":1}}`
	case "ring":
		return `{"note":{"topic":` + q(tn) + `,"what":"call","seq":1,"event":"ringing"}}`
	case "hangup":
		return `{"note":{"topic":` + q(tn) + `,"what":"call","seq":1,"event":"hang-up"}}`
	case "getdesc":
		return `{"get":{"id":` + q(id) + `,"topic":` + q(tn) + `,"what":"desc"}}`
	case "getsub":
		return `{"get":{"id":` + q(id) + `,"topic":` + q(tn) + `,"what":"sub"}}`
	case "getdata":
		return `{"get":{"id":` + q(id) + `,"topic":` + q(tn) + `,"what":"data"}}`
	case "setpriv":
		return `{"set":{"id":` + q(id) + `,"topic":` + q(tn) + `,"desc":{"private":{"n":"` + id + `"}}}}`
	case "settags":
		return `{"set":{"id":` + q(id) + `,"topic":` + q(tn) + `,"tags":["abc"]}}`
	case "delmsg":
		return `{"del":{"id":` + q(id) + `,"topic":` + q(tn) + `,"what":"msg","delseq":[{"low":1}]}}`
	case "deltopic":
		return `{"del":{"id":` + q(id) + `,"topic":` + q(tn) + `,"what":"topic","hard":true}}`
	}
	return `{"` + kind + `":{"id":` + q(id) + `}}`
}

func TestVerifC13x(t *testing.T) {
	fin, err := os.Open(os.Getenv("VERIF_IN"))
	if err != nil {
		t.Fatal(err)
	}
	defer fin.Close()
	fout, err := os.Create(os.Getenv("VERIF_OUT"))
	if err != nil {
		t.Fatal(err)
	}
	defer fout.Close()
	out := bufio.NewWriterSize(fout, 1<<16)
	// flushed after every line group: the last lines must be on disk when a topic goroutine kills the process
	flush := func() { out.Flush() }
	defer flush()
	vInitServer(t)
	globals.maxSubscriberCount = 32
	if len(globals.iceServers) == 0 {
		globals.iceServers = []iceServer{{Urls: []string{"stun:stun.example.com"}}}
		globals.callEstablishmentTimeout = 30
	}
	in := bufio.NewScanner(fin)
	in.Buffer(make([]byte, 1<<20), 1<<26)
	var pop *vxPop
	n := 0
	for in.Scan() {
		w := strings.Fields(in.Text())
		if len(w) == 0 {
			continue
		}
		switch w[0] {
		case "scn":
			if pop != nil {
				pop.teardown()
			}
			pop = vxSetup(t)
			n = 0
			fmt.Fprintf(out, "scn %s\n", w[1])
			flush()
		case "end":
			if pop != nil {
				pop.teardown()
				pop = nil
			}
			fmt.Fprintln(out, "end")
			flush()
		case "op":
			n++
			fmt.Fprintf(out, "begin %d\n", n)
			flush()
			kind, sn := w[1], w[2]
			vs := pop.sess[sn]
			res := "ok"
			switch kind {
			case "clog":
				res = pop.clog(sn)
			case "unclog":
				res = pop.unclog(sn)
			case "disc":
				if !pop.gone[sn] {
					pop.hangUp(sn, vs)
					pop.gone[sn] = true
				} else {
					res = "gone"
				}
			default:
				dead := pop.gone[sn]
				if !dead && !pop.clogged[sn] {
					select {
					case <-vs.done:
						dead = true
					default:
					}
				}
				if dead {
					res = "gone"
				} else {
					msg := vxRequest(pop, sn, "o"+strconv.Itoa(n), kind, w[3])
					r := vfGuard(func() { vs.s.dispatchRaw([]byte(msg)) })
					if r.hang {
						fmt.Fprintf(out, "op %d %s %s res=HANG-readloop\n", n, kind, sn)
						flush()
						os.Exit(3)
					}
					if r.panicMsg != "" {
						res = "PANIC:" + r.site + ":" + vfHexS(r.panicMsg)
					}
				}
			}
			if h := vxQuiet(); h != "" {
				fmt.Fprintf(out, "op %d %s %s res=%s\n", n, kind, sn, strings.ReplaceAll(h, " ", "_"))
				flush()
				os.Exit(3)
			}
			fmt.Fprintf(out, "op %d %s %s res=%s\n", n, kind, sn, res)
			pop.emitFrames(out)
			pop.emitState(out)
			flush()
		case "unload":
			name := pop.hubName(w[2], w[1])
			if tt := globals.hub.topicGet(name); tt != nil && len(tt.sessions) == 0 {
				globals.hub.unreg <- &topicUnreg{rcptTo: name}
				vxQuiet()
			}
			for _, vs := range pop.sess {
				vs.takeAll()
			}
			fmt.Fprintf(out, "unload %s loaded=%s\n", w[1], vB2s(globals.hub.topicGet(name) != nil))
			flush()
		case "hold":
			n++
			fmt.Fprintf(out, "begin %d\n", n)
			flush()
			sn, tok, id := w[1], w[2], w[3]
			kind := "sub"
			if len(w) > 4 {
				kind = w[4]
			}
			pop.heldName = pop.hubName(sn, tok)
			wasLoaded := pop.heldName != "" && globals.hub.topicGet(pop.heldName) != nil
			for _, vs := range pop.sess {
				vs.takeAll()
			}
			pop.arm()
			pop.holding = true
			msg := vxRequest(pop, sn, id, kind, tok)
			r := vfGuard(func() { pop.sess[sn].s.dispatchRaw([]byte(msg)) })
			res := "ok"
			if r.panicMsg != "" {
				res = "PANIC:" + r.site + ":" + vfHexS(r.panicMsg)
			}
			h := vxHubQuiet()
			held := atomic.LoadInt32(&pop.parked) == 1
			meth, _ := pop.method.Load().(string)
			if !held {
				// nothing was loaded (the topic is already loaded, or the request was refused before the hub)
				pop.disarm()
				pop.holding = false
				meth = "-"
			}
			fmt.Fprintf(out, "hold %d %s %s id=%s res=%s held=%s at=%s wasloaded=%s quiet=%s\n", n, sn, tok, vfHexS(id), res, vB2s(held), meth, vB2s(wasLoaded), strings.ReplaceAll(h+"-", " ", "_"))
			pop.emitFrames(out)
			flush()
		case "q":
			n++
			fmt.Fprintf(out, "begin %d\n", n)
			flush()
			sn, id, kind, tok := w[1], w[2], w[3], w[4]
			msg := vxRequest(pop, sn, id, kind, tok)
			r := vfGuard(func() { pop.sess[sn].s.dispatchRaw([]byte(msg)) })
			res := "ok"
			if r.hang {
				res = "HANG-readloop"
			}
			if r.panicMsg != "" {
				res = "PANIC:" + r.site + ":" + vfHexS(r.panicMsg)
			}
			h := ""
			if pop.holding {
				h = vxHubQuiet()
			} else {
				h = vxQuiet()
			}
			ql := "-"
			if tt := globals.hub.topicGet(pop.heldName); tt != nil && pop.holding {
				ql = fmt.Sprintf("reg=%d,client=%d,unreg=%d,meta=%d,exit=%d", len(tt.reg), len(tt.clientMsg), len(tt.unreg), len(tt.meta), len(tt.exit))
			}
			fmt.Fprintf(out, "q %d %s id=%s kind=%s topic=%s res=%s queues=%s quiet=%s\n", n, sn, vfHexS(id), kind, tok, res, ql, strings.ReplaceAll(h+"-", " ", "_"))
			pop.emitFrames(out)
			flush()
			if r.hang {
				os.Exit(3)
			}
		case "release":
			n++
			fmt.Fprintf(out, "begin %d\n", n)
			flush()
			was := pop.holding
			pop.release(w[1])
			h := vxQuiet()
			calls := memverif.CallLog()
			failed := 0
			for _, c := range calls {
				if strings.HasSuffix(c, "!fail") {
					failed++
				}
			}
			memverif.ClearFault()
			memverif.ResetCallLog()
			fmt.Fprintf(out, "release %d %s held=%s failedcalls=%d loaded=%s quiet=%s\n", n, w[1], vB2s(was), failed, vB2s(globals.hub.topicGet(pop.heldName) != nil), strings.ReplaceAll(h+"-", " ", "_"))
			pop.emitFrames(out)
			pop.emitState(out)
			flush()
			if h != "" {
				os.Exit(3)
			}
		}
	}
	if pop != nil {
		pop.teardown()
	}
	fmt.Fprintln(out, "done")
}
