//go:build verif

// C16 driver: the REAL largeFileReceive / largeFileServe (httptest), the real fs media
// handler on a temporary directory, the real token authenticator, the real topic code for
// publishes / avatar updates / deletions, above the in-memory adapter memverif.
// One request per line in VERIF_IN, one answer per line in VERIF_OUT; the text before
// " | " is what the model runner (harness/runner/r_c16.ml) prints for the same line, the
// text after it is read by the monitors only.
package main

import (
	"bufio"
	"bytes"
	"crypto/hmac"
	"crypto/md5"
	"crypto/sha256"
	"encoding/base64"
	"encoding/binary"
	"encoding/hex"
	"encoding/json"
	"fmt"
	"io"
	"mime/multipart"
	"net/http"
	"net/http/httptest"
	"net/textproto"
	"net/url"
	"os"
	"path"
	"path/filepath"
	"sort"
	"strconv"
	"strings"
	"testing"
	"time"

	"github.com/tinode/chat/server/auth"
	"github.com/tinode/chat/server/db/memverif"
	"github.com/tinode/chat/server/logs"
	"github.com/tinode/chat/server/media"
	"github.com/tinode/chat/server/store"
	"github.com/tinode/chat/server/store/types"
)

const c16ServeURL = "/v0/file/s/"

type c16File struct {
	id      string // 11-character file id
	url     string // URL returned by the upload
	content []byte
}

type c16Pub struct {
	topic string
	seq   int
}

// media handler whose Headers() answer is chosen by the driver; everything else is the fs handler
type c16Stub struct {
	media.Handler
	status int
	err    error
}

func (s *c16Stub) Init(string) error { return nil }
func (s *c16Stub) Headers(req *http.Request, serve bool) (http.Header, int, error) {
	if s.err != nil {
		return nil, 0, s.err
	}
	return http.Header{"X-Verif-Stub": {"1"}}, s.status, nil
}

type c16Drv struct {
	t        *testing.T
	dir      string
	fsConf   string
	keys     map[string]string
	tokKey   []byte
	users    map[int]types.Uid
	sess     map[int]*vSess
	meSub    map[int]bool
	files    map[int]*c16File
	topics   map[int]string
	pubs     []c16Pub // publish k (1-based) -> message
	stub     *c16Stub
	liveSid  string
	anonSid  string
	reqCount int
}

func c16MakeKey(salt []byte) string {
	// same as /repo/keygen/keygen.go generate(): [1:version][4:appid][2:sequence][1:isRoot][16:HMAC-MD5]
	var data [24]byte
	data[0] = 1
	binary.LittleEndian.PutUint32(data[1:], 0)
	binary.LittleEndian.PutUint16(data[5:], 7)
	data[7] = 0
	h := hmac.New(md5.New, salt)
	h.Write(data[:8])
	copy(data[8:], h.Sum(nil))
	return base64.URLEncoding.EncodeToString(data[:])
}

func (d *c16Drv) token(uid types.Uid, expires time.Time, serial int) []byte {
	// layout of auth/token: [8:uid][4:expires][2:level][2:serial][2:features][32:HMAC-SHA256]
	buf := new(bytes.Buffer)
	binary.Write(buf, binary.LittleEndian, uint64(uid))
	binary.Write(buf, binary.LittleEndian, uint32(expires.Unix()))
	binary.Write(buf, binary.LittleEndian, uint16(auth.LevelAuth))
	binary.Write(buf, binary.LittleEndian, uint16(serial))
	binary.Write(buf, binary.LittleEndian, uint16(0))
	h := hmac.New(sha256.New, d.tokKey)
	h.Write(buf.Bytes())
	buf.Write(h.Sum(nil))
	return buf.Bytes()
}

// credential kind -> (scheme, raw secret text in standard base64)
func (d *c16Drv) cred(kind string) (string, string) {
	b64 := base64.StdEncoding.EncodeToString
	exp := time.Now().Add(time.Hour)
	switch {
	case strings.HasPrefix(kind, "good"):
		u, _ := strconv.Atoi(kind[4:])
		hdl := store.Store.GetLogicalAuthHandler("token")
		tok, _, err := hdl.GenSecret(&auth.Rec{Uid: d.users[u], AuthLevel: auth.LevelAuth, Lifetime: auth.Duration(time.Hour)})
		if err != nil {
			panic("driver: GenSecret " + err.Error())
		}
		return "token", b64(tok)
	case kind == "zero":
		return "token", b64(d.token(0, exp, 1))
	case kind == "badsig":
		tok := d.token(d.users[1], exp, 1)
		tok[len(tok)-1] ^= 1
		return "token", b64(tok)
	case kind == "serial":
		return "token", b64(d.token(d.users[1], exp, 2))
	case kind == "trunc":
		return "token", b64(d.token(d.users[1], exp, 1)[:20])
	case kind == "expired":
		return "token", b64(d.token(d.users[1], time.Now().Add(-time.Hour), 1))
	case kind == "notb64":
		return "token", "!!!!"
	case kind == "unknown":
		return "bogus", b64(d.token(d.users[1], exp, 1))
	}
	panic("driver: credential kind " + kind)
}

func (d *c16Drv) sid(kind string) string {
	switch kind {
	case "live":
		return d.liveSid
	case "anon":
		return d.anonSid
	case "dead":
		return "nosuchsession"
	}
	panic("driver: sid kind " + kind)
}

func (d *c16Drv) useHandler(mh string) {
	switch {
	case mh == "fs":
		if err := store.Store.UseMediaHandler("fs", d.fsConf); err != nil {
			panic("driver: fs handler " + err.Error())
		}
	case mh == "none":
		func() {
			defer func() { recover() }()
			store.Store.UseMediaHandler("verif-no-such-handler", "")
		}()
		if store.Store.GetMediaHandler() != nil {
			panic("driver: handler still set")
		}
	case strings.HasPrefix(mh, "stub"):
		// stubs<status> or stube (error)
		d.stub.err = nil
		d.stub.status = 0
		if mh[4] == 'e' {
			d.stub.err = types.ErrPermissionDenied
		} else {
			d.stub.status, _ = strconv.Atoi(mh[5:])
		}
		store.Store.UseMediaHandler("verifstub", "")
	default:
		panic("driver: handler " + mh)
	}
}

func c16Content(kind string, n int, tag int) []byte {
	var head string
	switch kind {
	case "html":
		head = "<!DOCTYPE html><html><body><script>alert(1)</script>"
	case "xml":
		head = "<?xml version=\"1.0\"?><a>"
	case "svg":
		head = "<svg xmlns=\"http://www.w3.org/2000/svg\" onload=\"alert(1)\">"
	case "png":
		head = "\x89PNG\x0d\x0a\x1a\x0a"
	case "jpeg":
		head = "\xff\xd8\xff\xe0"
	case "gif":
		head = "GIF89a"
	case "pdf":
		head = "%PDF-1.4\n"
	case "text":
		head = "plain text "
	case "js":
		head = "alert(1);// "
	case "bin", "binhtml", "binsvg", "binbad":
		head = "\x00\x01\x02\x03\x04\x05\x06\x07\x08"
	case "mp4":
		head = "\x00\x00\x00\x18ftypmp42"
	case "zip":
		head = "PK\x03\x04"
	default:
		panic("driver: content kind " + kind)
	}
	b := []byte(head + fmt.Sprintf("#%d#", tag))
	if len(b) > n {
		b = b[:n]
	}
	for len(b) < n {
		b = append(b, byte('a'+(len(b)*7+tag)%26))
	}
	return b
}

func c16PartType(kind string) string {
	switch kind {
	case "binhtml":
		return "text/html"
	case "binsvg":
		return "IMAGE/SVG+XML"
	case "binbad":
		return "chemical/x-pdb"
	case "bin":
		return "application/octet-stream"
	}
	return ""
}

type c16Snap struct {
	recs map[string]memverif.FileDump
	dir  map[string]bool
}

func (d *c16Drv) snap() c16Snap {
	s := c16Snap{recs: map[string]memverif.FileDump{}, dir: map[string]bool{}}
	for _, f := range memverif.DumpFiles() {
		s.recs[f.Id.String()] = f
	}
	if ents, err := os.ReadDir(d.dir); err == nil {
		for _, e := range ents {
			s.dir[e.Name()] = true
		}
	}
	return s
}

func c16Hex(s string) string { return vHex([]byte(s)) }

// URL template: tokens joined by '+': h<hex> literal, f<k> id of file k, F<k> upload URL of file k,
// x = an id that was never issued
func (d *c16Drv) expand(tpl string) string {
	if tpl == "-" {
		return ""
	}
	var sb strings.Builder
	for _, tok := range strings.Split(tpl, "+") {
		switch tok[0] {
		case 'h':
			sb.Write(vUnhex(tok[1:]))
		case 'f', 'F':
			k, _ := strconv.Atoi(tok[1:])
			f := d.files[k]
			if f == nil {
				sb.WriteString("zzzzzzzzzzz")
			} else if tok[0] == 'f' {
				sb.WriteString(f.id)
			} else {
				sb.WriteString(f.url)
			}
		case 'x':
			sb.WriteString("zzzzzzzzzzz")
		default:
			panic("driver: template " + tpl)
		}
	}
	return sb.String()
}

func (d *c16Drv) expandList(tpls string) []string {
	var res []string
	if tpls == "-" {
		return res
	}
	for _, t := range strings.Split(tpls, ",") {
		res = append(res, d.expand(t))
	}
	return res
}

type c16Resp struct {
	rec     *httptest.ResponseRecorder
	crashed bool
	panicV  string
}

func c16Call(h http.HandlerFunc, req *http.Request) (r c16Resp) {
	r.rec = httptest.NewRecorder()
	defer func() {
		if v := recover(); v != nil {
			r.crashed = true
			r.panicV = strings.ReplaceAll(fmt.Sprint(v), "\n", " ")
		}
	}()
	h(r.rec, req)
	return
}

func c16Status(r c16Resp) string {
	if r.crashed {
		return "CRASH"
	}
	return strconv.Itoa(r.rec.Code)
}

// upload request line
func (d *c16Drv) up(kv map[string]string) string {
	d.reqCount++
	method := kv["m"]
	q := url.Values{}
	hdr := http.Header{}
	var cookies []string
	type field struct{ k, v string }
	var fields []field

	if k := kv["kh"]; k != "-" {
		hdr.Set("X-Tinode-APIKey", d.keys[k])
	}
	if k := kv["kq"]; k != "-" {
		q.Set("apikey", d.keys[k])
	}
	if k := kv["kf"]; k != "-" {
		fields = append(fields, field{"apikey", d.keys[k]})
	}
	if k := kv["kc"]; k != "-" {
		cookies = append(cookies, "apikey="+d.keys[k])
	}
	if c := kv["cx"]; c != "-" {
		m, s := d.cred(c)
		hdr.Set("X-Tinode-Auth", strings.Title(m)+" "+s)
	}
	if c := kv["ca"]; c != "-" {
		m, s := d.cred(c)
		hdr.Set("Authorization", strings.Title(m)+" "+s)
	}
	if c := kv["cq"]; c != "-" {
		m, s := d.cred(c)
		q.Set("auth", m)
		q.Set("secret", strings.NewReplacer("+", "-", "/", "_").Replace(s))
	}
	if c := kv["cf"]; c != "-" {
		m, s := d.cred(c)
		fields = append(fields, field{"auth", m}, field{"secret", s})
	}
	if c := kv["cc"]; c != "-" {
		m, s := d.cred(c)
		cookies = append(cookies, "auth="+m, "secret="+s)
	}
	if s := kv["sq"]; s != "-" {
		q.Set("sid", d.sid(s))
	}
	if s := kv["sf"]; s != "-" {
		fields = append(fields, field{"sid", d.sid(s)})
	}
	if t := kv["tq"]; t != "-" {
		q.Set("topic", t)
	}
	if t := kv["tf"]; t != "-" {
		fields = append(fields, field{"topic", t})
	}
	fields = append(fields, field{"id", "rq" + strconv.Itoa(d.reqCount)})
	if len(cookies) > 0 {
		hdr.Set("Cookie", strings.Join(cookies, "; "))
	}

	fid, _ := strconv.Atoi(kv["fid"])
	kind := kv["kind"]
	var content []byte
	var body io.Reader
	bodyLen := 0
	if b := kv["body"]; strings.HasPrefix(b, "form:") {
		p := strings.Split(b, ":") // form:<total>:<hasfile>:<filelen flag>
		total, _ := strconv.Atoi(p[1])
		build := func(content []byte) ([]byte, string) {
			var bb bytes.Buffer
			mw := multipart.NewWriter(&bb)
			mw.SetBoundary("verifc16boundaryverifc16boundary")
			for _, f := range fields {
				mw.WriteField(f.k, f.v)
			}
			name := "file"
			if p[2] == "0" {
				name = "notfile"
			}
			h := textproto.MIMEHeader{}
			h.Set("Content-Disposition", `form-data; name="`+name+`"; filename="upload.dat"`)
			if ct := c16PartType(kind); ct != "" {
				h.Set("Content-Type", ct)
			}
			w, _ := mw.CreatePart(h)
			w.Write(content)
			mw.Close()
			return bb.Bytes(), mw.FormDataContentType()
		}
		empty, ctype := build(nil)
		n := total - len(empty)
		if p[3] == "0" {
			n = 0
		} else if n < 1 {
			return "UP 0 driver-total-too-small-" + strconv.Itoa(len(empty))
		}
		content = c16Content(kind, n, fid)
		raw, _ := build(content)
		body = bytes.NewReader(raw)
		bodyLen = len(raw)
		hdr.Set("Content-Type", ctype)
	} else if b == "text" {
		body = strings.NewReader("just text")
		bodyLen = 9
		hdr.Set("Content-Type", "text/plain")
	}
	target := "/v0/file/u/"
	if len(q) > 0 {
		target += "?" + q.Encode()
	}
	var req *http.Request
	if body != nil {
		req = httptest.NewRequest(method, target, body)
	} else {
		req = httptest.NewRequest(method, target, nil)
	}
	for k, v := range hdr {
		req.Header[k] = v
	}
	if kv["acrm"] == "1" {
		req.Header.Set("Origin", "https://example.com")
		req.Header.Set("Access-Control-Request-Method", "POST")
	}
	_ = bodyLen

	lim, _ := strconv.Atoi(kv["lim"])
	globals.maxFileUploadSize = int64(lim)
	d.useHandler(kv["mh"])
	before := d.snap()
	moved := false
	switch kv["fault"] {
	case "create":
		if err := os.Rename(d.dir, d.dir+".away"); err != nil {
			panic(err)
		}
		moved = true
	case "start":
		memverif.SetFault(1, false)
	case "finish":
		memverif.SetFault(2, false)
	}
	r := c16Call(largeFileReceive, req)
	memverif.ClearFault()
	if moved {
		os.RemoveAll(d.dir)
		if err := os.Rename(d.dir+".away", d.dir); err != nil {
			panic(err)
		}
	}
	d.useHandler("fs")
	after := d.snap()

	// what changed
	var newRecs []memverif.FileDump
	for id, f := range after.recs {
		if _, ok := before.recs[id]; !ok {
			newRecs = append(newRecs, f)
		}
	}
	var newFiles, goneFiles []string
	for n := range after.dir {
		if !before.dir[n] {
			newFiles = append(newFiles, n)
		}
	}
	for n := range before.dir {
		if !after.dir[n] {
			goneFiles = append(goneFiles, n)
		}
	}
	goneRecs := 0
	for id := range before.recs {
		if _, ok := after.recs[id]; !ok {
			goneRecs++
		}
	}
	effect := "odd"
	side := ""
	switch {
	case len(newRecs) == 0 && len(newFiles) == 0 && len(goneFiles) == 0 && goneRecs == 0:
		effect = "none"
	case len(newRecs) == 1 && len(newFiles) == 1 && len(goneFiles) == 0 && goneRecs == 0:
		f := newRecs[0]
		onDisk, err := os.ReadFile(f.Location)
		same := err == nil && bytes.Equal(onDisk, content) && filepath.Base(f.Location) == newFiles[0] &&
			filepath.Dir(f.Location) == d.dir
		if f.Status == types.UploadCompleted && same && f.Size == int64(len(content)) {
			effect = "stored"
		} else if f.Status == types.UploadStarted && same {
			effect = "residue"
		} else {
			effect = fmt.Sprintf("odd-status%d-same%v", f.Status, same)
		}
		cf := &c16File{id: f.Id.String(), url: c16ServeURL + f.Id.String(), content: content}
		side = " mime=" + c16Hex(f.Mime) + " user=" + vB2s(!f.User.IsZero())
		if !r.crashed && r.rec.Code == 200 {
			var resp ServerComMessage
			if err := json.Unmarshal(r.rec.Body.Bytes(), &resp); err == nil && resp.Ctrl != nil {
				if p, ok := resp.Ctrl.Params.(map[string]any); ok {
					if u, ok := p["url"].(string); ok {
						cf.url = u
						side += " url=" + c16Hex(strings.Replace(u, cf.id, "@", 1))
					}
				}
			}
		}
		d.files[fid] = cf
	case len(newRecs) == 1 && len(newFiles) == 0 && len(goneFiles) == 0 && goneRecs == 0 && newRecs[0].Status == types.UploadStarted:
		// a record in status 'started' whose bytes were cleaned up
		effect = "residue-nobytes"
		d.files[fid] = &c16File{id: newRecs[0].Id.String(), url: c16ServeURL + newRecs[0].Id.String(), content: content}
	default:
		effect = fmt.Sprintf("odd-recs+%d-%d-files+%d-%d", len(newRecs), goneRecs, len(newFiles), len(goneFiles))
	}
	if r.crashed {
		side += " panic=" + c16Hex(r.panicV)
	}
	return "UP " + c16Status(r) + " " + effect + " |" + side
}

func c16IsCtrl(body []byte, code int) bool {
	var resp ServerComMessage
	return json.Unmarshal(body, &resp) == nil && resp.Ctrl != nil && resp.Ctrl.Code == code
}

// download request line
func (d *c16Drv) sv(kv map[string]string) string {
	method := kv["m"]
	raw := d.expand(kv["url"])
	q := url.Values{}
	hdr := http.Header{}
	var cookies []string
	if k := kv["kh"]; k != "-" {
		hdr.Set("X-Tinode-APIKey", d.keys[k])
	}
	if k := kv["kq"]; k != "-" {
		q.Set("apikey", d.keys[k])
	}
	if k := kv["kc"]; k != "-" {
		cookies = append(cookies, "apikey="+d.keys[k])
	}
	if c := kv["cx"]; c != "-" {
		m, s := d.cred(c)
		hdr.Set("X-Tinode-Auth", strings.Title(m)+" "+s)
	}
	if c := kv["ca"]; c != "-" {
		m, s := d.cred(c)
		hdr.Set("Authorization", strings.Title(m)+" "+s)
	}
	if c := kv["cq"]; c != "-" {
		m, s := d.cred(c)
		q.Set("auth", m)
		q.Set("secret", strings.NewReplacer("+", "-", "/", "_").Replace(s))
	}
	if c := kv["cc"]; c != "-" {
		m, s := d.cred(c)
		cookies = append(cookies, "auth="+m, "secret="+s)
	}
	if s := kv["sq"]; s != "-" {
		q.Set("sid", d.sid(s))
	}
	if a := kv["asatt"]; a != "" && a != "-" {
		q.Set("asatt", a)
	}
	if len(cookies) > 0 {
		hdr.Set("Cookie", strings.Join(cookies, "; "))
	}
	// the query never contains '/', so that the URL text seen by Download ends with the query
	qs := strings.ReplaceAll(q.Encode(), "%2F", "_")
	target := raw
	if qs != "" {
		target += "?" + qs
	}
	// what net/http does with the request line
	u, err := url.ParseRequestURI(target)
	if err != nil {
		return "SV 0 driver-bad-url |"
	}
	if u.String() != target {
		return "SV 0 driver-url-reencoded | " + c16Hex(u.String())
	}
	req := &http.Request{Method: method, URL: u, Header: hdr, Proto: "HTTP/1.1", ProtoMajor: 1, ProtoMinor: 1,
		Body: http.NoBody, Host: "example.com", RemoteAddr: "192.0.2.1:1234", RequestURI: target}
	if kv["acrm"] == "1" {
		req.Header.Set("Origin", "https://example.com")
		req.Header.Set("Access-Control-Request-Method", "GET")
	}
	d.useHandler(kv["mh"])
	before := d.snap()
	r := c16Call(largeFileServe, req)
	d.useHandler("fs")
	after := d.snap()
	effect := "none"
	side := ""
	if len(before.recs) != len(after.recs) || len(before.dir) != len(after.dir) {
		effect = "odd-store-changed"
	} else if !r.crashed && r.rec.Code == 200 && method == "GET" && c16IsCtrl(r.rec.Body.Bytes(), 200) {
		// a {ctrl} reply written for the media handler's own status, no file bytes
	} else if !r.crashed && r.rec.Code == 200 && method == "GET" {
		effect = "served:?"
		got := r.rec.Body.Bytes()
		var ks []int
		for k := range d.files {
			ks = append(ks, k)
		}
		sort.Ints(ks)
		for _, k := range ks {
			f := d.files[k]
			if bytes.Equal(got, f.content) {
				effect = "served:" + strconv.Itoa(k)
				if rec, ok := after.recs[f.id]; ok {
					side = " recstatus=" + strconv.Itoa(rec.Status) + " recmime=" + c16Hex(rec.Mime)
				}
				break
			}
		}
		side += " ct=" + c16Hex(r.rec.Header().Get("Content-Type")) + " cd=" + c16Hex(r.rec.Header().Get("Content-Disposition"))
	} else if !r.crashed && r.rec.Body.Len() > 0 && r.rec.Code != 200 {
		// error replies are {ctrl} messages, never file bytes
		var resp ServerComMessage
		if err := json.Unmarshal(r.rec.Body.Bytes(), &resp); err != nil || resp.Ctrl == nil || resp.Ctrl.Code != r.rec.Code {
			effect = "odd-body"
		}
	}
	if r.crashed {
		side += " panic=" + c16Hex(r.panicV)
	}
	return "SV " + c16Status(r) + " " + effect + " |" + side
}

// The state largeFileReceive is in between mh.Upload (hdl_files.go:318) and FinishUpload (:327),
// i.e. what a concurrent request sees while an upload is running, and what stays when the server
// stops there: the REAL fs handler's Upload (os.Create + store.Files.StartUpload + io.Copy) on a
// FileDef built like the handler builds it, and no FinishUpload.
func (d *c16Drv) inflight(w []string) string {
	fid, _ := strconv.Atoi(w[1])
	n, _ := strconv.Atoi(w[3])
	content := c16Content(w[2], n, fid)
	buff := content
	if len(buff) > 512 {
		buff = buff[:512]
	}
	fdef := &types.FileDef{
		ObjHeader: types.ObjHeader{Id: store.Store.GetUidString()},
		User:      d.users[1].String(),
		MimeType:  http.DetectContentType(buff),
	}
	fdef.InitTimes()
	d.useHandler("fs")
	before := d.snap()
	if _, _, err := store.Store.GetMediaHandler().Upload(fdef, bytes.NewReader(content)); err != nil {
		return "INFLIGHT failed-" + c16Hex(err.Error())
	}
	after := d.snap()
	rec, ok := after.recs[fdef.Id]
	if !ok || len(after.recs) != len(before.recs)+1 || len(after.dir) != len(before.dir)+1 || rec.Status != types.UploadStarted {
		return "INFLIGHT odd"
	}
	d.files[fid] = &c16File{id: fdef.Id, url: c16ServeURL + fdef.Id, content: content}
	return "INFLIGHT ok"
}

// disposition of a record with an arbitrary content type through the real handler
func (d *c16Drv) fa(asatt string, mime string) string {
	fdef := &types.FileDef{ObjHeader: types.ObjHeader{Id: store.Store.GetUidString()}, MimeType: mime}
	fdef.InitTimes()
	fdef.Location = filepath.Join(d.dir, "fa-"+fdef.Id)
	if err := os.WriteFile(fdef.Location, []byte("x"), 0600); err != nil {
		panic(err)
	}
	defer os.Remove(fdef.Location)
	if err := store.Files.StartUpload(fdef); err != nil {
		panic(err)
	}
	if _, err := store.Files.FinishUpload(fdef, true, 1); err != nil {
		panic(err)
	}
	defer store.Files.FinishUpload(fdef, false, 0)
	target := c16ServeURL + fdef.Id
	if asatt != "-" {
		target += "?asatt=" + url.QueryEscape(asatt)
	}
	req := httptest.NewRequest("GET", target, nil)
	req.Header.Set("X-Tinode-APIKey", d.keys["valid"])
	m, s := d.cred("good1")
	req.Header.Set("X-Tinode-Auth", m+" "+s)
	r := c16Call(largeFileServe, req)
	if r.crashed || r.rec.Code != 200 {
		return "FA status-" + c16Status(r)
	}
	cd := r.rec.Header().Get("Content-Disposition")
	switch cd {
	case "attachment":
		return "FA 1 | ct=" + c16Hex(r.rec.Header().Get("Content-Type"))
	case "":
		return "FA 0 | ct=" + c16Hex(r.rec.Header().Get("Content-Type"))
	}
	return "FA odd-" + c16Hex(cd)
}

// ---- histories through the real session / topic code ----

func (d *c16Drv) topicNames() []string {
	var ns []string
	for _, n := range d.topics {
		ns = append(ns, n)
	}
	for _, u := range d.users {
		ns = append(ns, u.UserId())
	}
	return ns
}

// send one client message from user u's session, wait for quiescence, return the {ctrl} answering it
func (d *c16Drv) send(u int, id string, msg string) *MsgServerCtrl {
	vs := d.sess[u]
	vs.take()
	vs.s.dispatchRaw([]byte(msg))
	if hang := vWaitQuiet(d.topicNames()); hang != "" {
		panic("driver: " + hang)
	}
	var res *MsgServerCtrl
	for _, m := range vs.take() {
		if m.Ctrl != nil && m.Ctrl.Id == id && res == nil {
			res = m.Ctrl
		}
	}
	for _, o := range d.sess {
		o.take()
	}
	return res
}

func c16Code(c *MsgServerCtrl) string {
	if c == nil {
		return "noreply"
	}
	return strconv.Itoa(c.Code)
}

func (d *c16Drv) nextID() string {
	d.reqCount++
	return "h" + strconv.Itoa(d.reqCount)
}

func c16Extra(urls []string) string {
	if len(urls) == 0 {
		return ""
	}
	return `,"extra":{"attachments":` + vJSON(urls) + `}`
}

func (d *c16Drv) hist(w []string) string {
	at := func(i int) int { v, _ := strconv.Atoi(w[i]); return v }
	switch w[0] {
	case "USER":
		u := &types.User{}
		u.Access.Auth = types.ModeCAuth
		u.Access.Anon = types.ModeNone
		if _, err := store.Users.Create(u, nil); err != nil {
			panic(err)
		}
		d.users[at(1)] = u.Uid()
		lvl := auth.LevelAuth
		if at(1) == 1 {
			lvl = auth.LevelRoot
		}
		d.sess[at(1)] = vNewSession(at(1), u.Uid(), lvl)
		return "USER ok"
	case "NEWACC": // NEWACC <u> <attachment templates>: {acc user="new"} from a session that is not logged in
		u := at(1)
		d.sess[u] = vNewSession(700+u, types.ZeroUid, auth.LevelNone)
		id := d.nextID()
		secret := base64.StdEncoding.EncodeToString([]byte("verif" + id + ":password" + id))
		c := d.send(u, id, `{"acc":{"id":"`+id+`","user":"new","scheme":"basic","secret":"`+secret+
			`","login":false,"desc":{"public":{"fn":"n`+w[1]+`"}}}`+c16Extra(d.expandList(w[2]))+`}`)
		delete(d.sess, u)
		if c == nil || c.Code != 201 {
			return "NEWACC " + c16Code(c)
		}
		p, _ := c.Params.(map[string]any)
		name, _ := p["user"].(string)
		uid := types.ParseUserId(name)
		if uid.IsZero() {
			return "NEWACC nouser"
		}
		d.users[u] = uid
		d.sess[u] = vNewSession(u, uid, auth.LevelAuth)
		return "NEWACC 201"
	case "TOPIC": // TOPIC <t> <owner> <attachment templates>
		id := d.nextID()
		c := d.send(at(2), id, `{"sub":{"id":"`+id+`","topic":"new","set":{"desc":{"public":{"fn":"t`+w[1]+`"}}}}`+
			c16Extra(d.expandList(w[3]))+`}`)
		if c == nil || c.Code != 200 {
			return "TOPIC " + c16Code(c)
		}
		d.topics[at(1)] = c.Topic
		return "TOPIC 200"
	case "PUB": // PUB <user> <t> <attachment templates>
		id := d.nextID()
		tn := d.topics[at(2)]
		before := memverif.DumpTopic(tn).SeqId
		c := d.send(at(1), id, `{"pub":{"id":"`+id+`","topic":"`+tn+`","content":"m"}`+c16Extra(d.expandList(w[3]))+`}`)
		after := memverif.DumpTopic(tn).SeqId
		saved := "0"
		if after > before {
			// the message row exists whatever the reply says
			d.pubs = append(d.pubs, c16Pub{tn, after})
			saved = "1"
		}
		if saved == "1" && (c == nil || c.Code >= 300) {
			// The row is stored but the topic's cached lastID was not advanced (DESIGN section 6 #12):
			// every later publish would collide.  Let the topic be unloaded and loaded again, as it
			// happens after an idle period, so that the history can go on.
			id2 := d.nextID()
			d.send(at(1), id2, `{"leave":{"id":"`+id2+`","topic":"`+tn+`"}}`)
			if t := globals.hub.topicGet(tn); t != nil {
				globals.hub.unreg <- &topicUnreg{rcptTo: tn}
				vWaitQuiet(d.topicNames())
			}
			id3 := d.nextID()
			if c3 := d.send(at(1), id3, `{"sub":{"id":"`+id3+`","topic":"`+tn+`"}}`); c3 == nil || c3.Code >= 300 {
				return "PUB saved=" + saved + " resub-failed-" + c16Code(c3)
			}
		}
		return "PUB saved=" + saved + " | code=" + c16Code(c)
	case "TAV": // TAV <user> <t> <templates>
		id := d.nextID()
		c := d.send(at(1), id, `{"set":{"id":"`+id+`","topic":"`+d.topics[at(2)]+`","desc":{"public":{"fn":"a`+id+`"}}}`+
			c16Extra(d.expandList(w[3]))+`}`)
		return "TAV " + c16Code(c)
	case "UAV": // UAV <user> <templates>
		u := at(1)
		if !d.meSub[u] {
			id := d.nextID()
			if c := d.send(u, id, `{"sub":{"id":"`+id+`","topic":"me"}}`); c == nil || c.Code >= 300 {
				return "UAV mesub-" + c16Code(c)
			}
			d.meSub[u] = true
		}
		id := d.nextID()
		c := d.send(u, id, `{"set":{"id":"`+id+`","topic":"me","desc":{"public":{"fn":"a`+id+`"}}}`+
			c16Extra(d.expandList(w[2]))+`}`)
		return "UAV " + c16Code(c)
	case "DELMSG": // DELMSG <user> <t> <publish indices k,k,...>
		tn := d.topics[at(2)]
		var rs []map[string]int
		for _, ks := range strings.Split(w[3], ",") {
			k, _ := strconv.Atoi(ks)
			if k >= 1 && k <= len(d.pubs) && d.pubs[k-1].topic == tn {
				rs = append(rs, map[string]int{"low": d.pubs[k-1].seq})
			}
		}
		if len(rs) == 0 {
			return "DELMSG skip"
		}
		id := d.nextID()
		c := d.send(at(1), id, `{"del":{"id":"`+id+`","topic":"`+tn+`","what":"msg","delseq":`+vJSON(rs)+`,"hard":true}}`)
		return "DELMSG " + c16Code(c)
	case "DELTOPIC": // DELTOPIC <user> <t>
		id := d.nextID()
		tn := d.topics[at(2)]
		c := d.send(at(1), id, `{"del":{"id":"`+id+`","topic":"`+tn+`","what":"topic","hard":true}}`)
		return "DELTOPIC " + c16Code(c)
	case "DELUSER": // DELUSER <u>  (by the root session of user 1)
		if d.users[at(1)].IsZero() {
			// the account was never created (an {acc user="new"} that the generator expected to succeed did not)
			return "DELUSER nouser"
		}
		id := d.nextID()
		c := d.send(1, id, `{"del":{"id":"`+id+`","what":"user","user":"`+d.users[at(1)].UserId()+`","hard":true}}`)
		return "DELUSER " + c16Code(c)
	case "GC": // GC <future|past|zero> <limit>: exactly what largeFileRunGarbageCollection calls
		var older time.Time
		switch w[1] {
		case "future":
			older = time.Now().Add(time.Hour)
		case "past":
			older = time.Now().Add(-time.Hour)
		}
		before := d.snap()
		err := store.Files.DeleteUnused(older, at(2))
		after := d.snap()
		// monitor input: which records / files went away, and were they linked
		linked := map[string]bool{}
		for _, l := range memverif.DumpLinks() {
			linked[l.File.String()] = true
		}
		var goneRec, goneFile []string
		for id := range before.recs {
			if _, ok := after.recs[id]; !ok {
				goneRec = append(goneRec, d.fileIndex(id))
			}
		}
		for n := range before.dir {
			if !after.dir[n] {
				goneFile = append(goneFile, n)
			}
		}
		sort.Strings(goneRec)
		return fmt.Sprintf("GC %v | gonerec=%s gonefiles=%d", err == nil, strings.Join(goneRec, ","), len(goneFile))
	case "DUMP":
		return d.dump()
	}
	panic("driver: history op " + w[0])
}

func (d *c16Drv) fileIndex(id string) string {
	for k, f := range d.files {
		if f.id == id {
			return strconv.Itoa(k)
		}
	}
	return "?" + id
}

// canonical store slice: files k:status, links k>m<j> | k>t<t> | k>u<u>, disk k
func (d *c16Drv) dump() string {
	var fl, ll, dl []string
	for _, f := range memverif.DumpFiles() {
		fl = append(fl, d.fileIndex(f.Id.String())+":"+strconv.Itoa(f.Status))
		if _, err := os.Stat(f.Location); err == nil {
			dl = append(dl, d.fileIndex(f.Id.String()))
		}
	}
	known := map[string]bool{}
	for _, f := range memverif.DumpFiles() {
		known[filepath.Base(f.Location)] = true
	}
	if ents, err := os.ReadDir(d.dir); err == nil {
		for _, e := range ents {
			if !known[e.Name()] {
				dl = append(dl, "orphan")
			}
		}
	}
	for _, l := range memverif.DumpLinks() {
		tgt := "?"
		switch {
		case l.MsgId != 0:
			for k, p := range d.pubs {
				if p.topic == l.MsgTopic && p.seq == l.MsgSeq {
					tgt = "m" + strconv.Itoa(k+1)
				}
			}
		case l.Topic != "":
			for k, n := range d.topics {
				if n == l.Topic {
					tgt = "t" + strconv.Itoa(k)
				}
			}
		default:
			for k, u := range d.users {
				if u == l.User {
					tgt = "u" + strconv.Itoa(k)
				}
			}
		}
		ll = append(ll, d.fileIndex(l.File.String())+">"+tgt)
	}
	sort.Strings(fl)
	sort.Strings(ll)
	sort.Strings(dl)
	j := func(l []string) string {
		if len(l) == 0 {
			return "-"
		}
		return strings.Join(l, ",")
	}
	return "DUMP files=" + j(fl) + " links=" + j(ll) + " disk=" + j(dl)
}

func (d *c16Drv) line(w []string) string {
	switch w[0] {
	case "CL":
		return "CL " + vHex([]byte(path.Clean(string(vUnhex(w[1])))))
	case "ID":
		return "ID " + strconv.FormatUint(uint64(media.GetIdFromUrl(string(vUnhex(w[2])), string(vUnhex(w[1])))), 10)
	case "FA":
		return d.fa(w[1], string(vUnhex(w[2])))
	case "UP":
		return d.up(vKV(w[1:]))
	case "SV":
		return d.sv(vKV(w[1:]))
	case "INFLIGHT": // INFLIGHT <fid> <kind> <n>: an upload that is between StartUpload and FinishUpload
		return d.inflight(w)
	case "RESOLVE": // RESOLVE <template>: the id the configured media handler extracts, as a file index
		id := store.Store.GetMediaHandler().GetIdFromUrl(d.expand(w[1]))
		if id.IsZero() {
			return "RESOLVE 0"
		}
		return "RESOLVE " + d.fileIndex(id.String())
	}
	if r, ok := d.c16bLine(w); ok { // zz_verif_c16b_test.go: sender modes, 'sys', faults, ageing
		return r
	}
	if r, ok := d.c16cLine(w); ok { // zz_verif_c16c_test.go: full-field download requests, {set desc} under store faults
		return r
	}
	if r, ok := d.c16fLine(w); ok { // zz_verif_c16f_test.go: declared content types, the real GC goroutine
		return r
	}
	return d.hist(w)
}

func TestVerifC16(t *testing.T) {
	logs.Init(io.Discard, "stdFlags")
	vInitServer(t)
	dir, err := os.MkdirTemp("", "verifc16")
	if err != nil {
		t.Fatal(err)
	}
	defer os.RemoveAll(dir)
	defer os.RemoveAll(dir + ".away")
	d := &c16Drv{t: t, dir: dir, users: map[int]types.Uid{}, sess: map[int]*vSess{}, meSub: map[int]bool{},
		files: map[int]*c16File{}, topics: map[int]string{}, keys: map[string]string{}}
	d.fsConf = `{"upload_dir":` + vJSON(dir) + `}`

	// API key: salt as in tinode.conf, key generated by the keygen algorithm, checked by the real checkAPIKey
	globals.apiKeySalt, _ = base64.StdEncoding.DecodeString("T713/rYYgW7g4m3vG6zGRh7+FM1t0T8j13koXScOAj4=")
	valid := c16MakeKey(globals.apiKeySalt)
	if ok, _ := checkAPIKey(valid); !ok {
		t.Fatal("generated API key is not accepted")
	}
	d.keys["valid"] = valid
	raw, _ := base64.URLEncoding.DecodeString(valid)
	raw[23] ^= 1
	d.keys["badsig"] = base64.URLEncoding.EncodeToString(raw)
	d.keys["short"] = valid[:20]
	d.keys["garbage"] = "!!!not-a-key!!!"
	d.keys["crlf"] = strings.Repeat("\r\n", 16)
	other := c16MakeKey([]byte("another salt another salt another"))
	d.keys["othersalt"] = other
	for k, v := range d.keys {
		if ok, _ := func() (ok, root bool) {
			defer func() { recover() }()
			return checkAPIKey(v)
		}(); ok != (k == "valid") {
			t.Fatal("API key kind ", k, " validity unexpected")
		}
	}

	// token authenticator, initialised like main.go does from the config
	d.tokKey, _ = base64.StdEncoding.DecodeString("wfaY2RgF2S1OQI/ZlK+LSrp1KB2jwAdGAIHQ7JZn+Kc=")
	hdl := store.Store.GetLogicalAuthHandler("token")
	if hdl == nil {
		t.Fatal("no token authenticator")
	}
	if !hdl.IsInitialized() {
		if err := hdl.Init(json.RawMessage(`{"expire_in":1209600,"serial_num":1,"key":"wfaY2RgF2S1OQI/ZlK+LSrp1KB2jwAdGAIHQ7JZn+Kc="}`), "token"); err != nil {
			t.Fatal(err)
		}
	}

	// basic authenticator for {acc user="new"}
	if bh := store.Store.GetLogicalAuthHandler("basic"); bh == nil {
		t.Fatal("no basic authenticator")
	} else if !bh.IsInitialized() {
		if err := bh.Init(json.RawMessage(`{"add_to_tags":false,"min_login_length":3,"min_password_length":3}`), "basic"); err != nil {
			t.Fatal(err)
		}
	}

	// media handlers: the real fs handler, and a stub that only overrides Headers()
	d.useHandler("fs")
	d.stub = &c16Stub{Handler: store.Store.GetMediaHandler()}
	store.RegisterMediaHandler("verifstub", d.stub)
	globals.maxFileUploadSize = 4096
	globals.mediaGcPeriod = time.Minute

	fin, err := os.Open(os.Getenv("VERIF_IN"))
	if err != nil {
		t.Fatal(err)
	}
	defer fin.Close()
	fout, err := os.Create(os.Getenv("VERIF_OUT"))
	if err != nil {
		t.Fatal(err)
	}
	defer fout.Close()
	in := bufio.NewScanner(fin)
	in.Buffer(make([]byte, 1<<20), 1<<26)
	out := bufio.NewWriterSize(fout, 1<<20)
	defer out.Flush()
	first := true
	for in.Scan() {
		w := strings.Fields(in.Text())
		if len(w) == 0 {
			continue
		}
		if first && w[0] != "CL" && w[0] != "ID" {
			// sessions named by sid: one logged in, one not
			first = false
		}
		if w[0] == "USER" && w[1] == "1" && d.liveSid == "" {
			out.WriteString(vSafe(func(w []string) string { return d.line(w) }, w))
			out.WriteByte('\n')
			live := vNewSession(900, d.users[1], auth.LevelAuth)
			anon := vNewSession(901, types.ZeroUid, auth.LevelNone)
			d.liveSid, d.anonSid = live.s.sid, anon.s.sid
			globals.sessionStore.lock.Lock()
			globals.sessionStore.sessCache[live.s.sid] = live.s
			globals.sessionStore.sessCache[anon.s.sid] = anon.s
			globals.sessionStore.lock.Unlock()
			continue
		}
		out.WriteString(vSafe(func(w []string) string { return d.line(w) }, w))
		out.WriteByte('\n')
	}
	_ = hex.EncodeToString
}
